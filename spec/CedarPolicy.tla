----------------------------- MODULE CedarPolicy -----------------------------
(***************************************************************************)
(* Policies: effect, annotations, three scope clauses, when/unless clauses. *)
(* Outcome(p, env) \in {"sat", "unsat", "err"}: a policy is satisfied iff   *)
(* its scope matches and every clause holds; the first clause that is not   *)
(* satisfied or fails decides (a failure after an unsatisfied clause is not *)
(* reached).                                                                *)
(***************************************************************************)
EXTENDS CedarEval

ScopeAll == [t |-> "all"]
ScopeEq(e) == [t |-> "eq", e |-> e]
ScopeIn(e) == [t |-> "in", e |-> e]
ScopeInSet(es) == [t |-> "inSet", es |-> es]
ScopeIs(ty) == [t |-> "is", ty |-> ty]
ScopeIsIn(ty, e) == [t |-> "isIn", ty |-> ty, e |-> e]

ScopeMatches(sc, x, store) ==     \* x: the request's entity for this clause
  CASE sc.t = "all"   -> TRUE
    [] sc.t = "eq"    -> x = sc.e
    [] sc.t = "in"    -> EntIn(store, x, sc.e)
    [] sc.t = "inSet" -> EntInAny(store, x, SeqRange(sc.es))
    [] sc.t = "is"    -> x.ty = sc.ty
    [] sc.t = "isIn"  -> x.ty = sc.ty /\ EntIn(store, x, sc.e)

RECURSIVE CondsFrom(_, _, _)
CondsFrom(cs, env, i) ==
  IF i > Len(cs) THEN "sat"
  ELSE LET r == Eval(cs[i].body, env)
       IN IF ~r.ok \/ r.v.k # "bool" THEN "err"
          ELSE IF r.v.b = (cs[i].kind = "when") THEN CondsFrom(cs, env, i + 1)
          ELSE "unsat"

Outcome(p, env) ==
  IF ~(/\ ScopeMatches(p.principal, env.p, env.store)
       /\ ScopeMatches(p.action, env.a, env.store)
       /\ ScopeMatches(p.resource, env.r, env.store))
  THEN "unsat"
  ELSE CondsFrom(p.conds, env, 1)

\* The documented desugaring of a policy into one expression (scope clauses
\* and conditions joined by &&, unless e == !e); used to state that both
\* readings agree (checked in MC_Policy).
ScopeExpr(var, sc) ==
  LET v == [op |-> "var", name |-> var] IN
  CASE sc.t = "all"   -> [op |-> "val", v |-> VTrue]
    [] sc.t = "eq"    -> [op |-> "eq", l |-> v, r |-> [op |-> "val", v |-> sc.e]]
    [] sc.t = "in"    -> [op |-> "in", l |-> v, r |-> [op |-> "val", v |-> sc.e]]
    [] sc.t = "inSet" -> [op |-> "in", l |-> v, r |-> [op |-> "val", v |-> VSet(SeqRange(sc.es))]]
    [] sc.t = "is"    -> [op |-> "is", a |-> v, ty |-> sc.ty]
    [] sc.t = "isIn"  -> [op |-> "isIn", a |-> v, ty |-> sc.ty, e |-> [op |-> "val", v |-> sc.e]]

RECURSIVE AndAll(_, _)
AndAll(es, i) == IF i = Len(es) THEN es[i] ELSE [op |-> "and", l |-> es[i], r |-> AndAll(es, i + 1)]

PolicyToExpr(p) ==
  AndAll(<<ScopeExpr("principal", p.principal), ScopeExpr("action", p.action),
           ScopeExpr("resource", p.resource)>>
         \o [i \in DOMAIN p.conds |->
               IF p.conds[i].kind = "when" THEN p.conds[i].body
               ELSE [op |-> "not", a |-> p.conds[i].body]], 1)

OutcomeOfExpr(e, env) == LET r == Eval(e, env)
                         IN IF ~r.ok \/ r.v.k # "bool" THEN "err" ELSE IF r.v.b THEN "sat" ELSE "unsat"

ScopeFromWire(w) ==
  CASE w.t \in {"all", "is"} -> w
    [] w.t \in {"eq", "in", "isIn"} -> w       \* uid values need no conversion
    [] w.t = "inSet" -> w
PolicyFromWire(w) ==
  [effect |-> w.effect, annos |-> w.annos,
   principal |-> w.principal, action |-> w.action, resource |-> w.resource,
   conds |-> [i \in DOMAIN w.conds |-> [kind |-> w.conds[i].kind, body |-> ExprFromWire(w.conds[i].body)]]]
=============================================================================
