----------------------------- MODULE PolicyJson -----------------------------
(***************************************************************************)
(* C09: the JSON policy format (EST), read by the specification, and what  *)
(* "the identical AST" means.                                              *)
(*                                                                         *)
(* FromEst(x): the policy a JSON document (TJSON, see ValueJson) denotes   *)
(* under the documented format: effect, annotations, the three scope       *)
(* objects (op All / == / in with entity or entities / is with optional    *)
(* in), conditions of kind when / unless whose body is an expression       *)
(* object with exactly one key: Value, Var, the unary and binary           *)
(* operators, . and has with attr, is with entity_type and optional in,    *)
(* like with a pattern list of "Wildcard" / {"Literal": s}, if-then-else,  *)
(* Set, Record; any other key is an extension call with its argument list. *)
(* Norm(p): the comparison form -- annotations and record-literal entries  *)
(* by key, a constructor call on a valid literal is the value it denotes   *)
(* (the encoder writes decimal / ipaddr value nodes as such calls),        *)
(* adjacent pattern wildcards collapse.                                    *)
(***************************************************************************)
EXTENDS ValueJson

RECURSIVE ExprFromJ(_)
BinFromJ(op, b) ==
  IF ~JIsO(b) \/ JGet(b, K_left) = Missing \/ JGet(b, K_right) = Missing THEN PFail
  ELSE LET l == ExprFromJ(JGet(b, K_left))  r == ExprFromJ(JGet(b, K_right)) IN
       IF l.ok /\ r.ok THEN Ok([op |-> op, l |-> l.v, r |-> r.v]) ELSE PFail
UnFromJ(op, b) ==
  IF ~JIsO(b) \/ JGet(b, K_arg) = Missing THEN PFail
  ELSE LET a == ExprFromJ(JGet(b, K_arg)) IN IF a.ok THEN Ok([op |-> op, a |-> a.v]) ELSE PFail
StrFromJ(op, b) ==
  IF ~JIsO(b) \/ JGet(b, K_left) = Missing \/ JGet(b, K_attr) = Missing \/ ~JIsS(JGet(b, K_attr)) THEN PFail
  ELSE LET a == ExprFromJ(JGet(b, K_left)) IN
       IF a.ok THEN Ok([op |-> op, a |-> a.v, attr |-> NameOfCps(JGet(b, K_attr).s)]) ELSE PFail
PatFromJ(p) ==     \* pattern list -> code points with -1 for the wildcard; <<-2>> if malformed
  IF ~JIsA(p) THEN <<-2>>
  ELSE LET parts == [i \in DOMAIN p.a |->
                       IF JIsS(p.a[i]) /\ p.a[i].s = K_Wildcard THEN <<-1>>
                       ELSE IF JIsO(p.a[i]) /\ JGet(p.a[i], K_Literal) # Missing /\ JIsS(JGet(p.a[i], K_Literal))
                       THEN JGet(p.a[i], K_Literal).s ELSE <<-2>>]
           RECURSIVE Cat(_)
           Cat(i) == IF i > Len(parts) THEN <<>> ELSE parts[i] \o Cat(i + 1)
       IN IF \E i \in DOMAIN parts : parts[i] = <<-2>> THEN <<-2>> ELSE Cat(1)
SeqFromJ(arr) ==
  IF ~JIsA(arr) THEN PFail
  ELSE LET rs == [i \in DOMAIN arr.a |-> ExprFromJ(arr.a[i])] IN
       IF \A i \in DOMAIN rs : rs[i].ok THEN Ok([i \in DOMAIN rs |-> rs[i].v]) ELSE PFail

BinKeys == << <<K_Eq, "eq">>, <<K_Ne, "ne">>, <<K_In, "in">>, <<K_Lt, "lt">>, <<K_Le, "le">>, <<K_Gt, "gt">>, <<K_Ge, "ge">>,
              <<K_And, "and">>, <<K_Or, "or">>, <<K_Add, "add">>, <<K_Sub, "sub">>, <<K_Mul, "mul">>, <<K_Contains, "contains">>,
              <<K_ContainsAll, "containsAll">>, <<K_ContainsAny, "containsAny">>, <<K_GetTag, "getTag">>, <<K_HasTag, "hasTag">> >>
UnKeys == << <<K_Not, "not">>, <<K_Neg, "neg">>, <<K_IsEmpty, "isEmpty">> >>
VarNames == << <<K_principal, "principal">>, <<K_action, "action">>, <<K_resource, "resource">>, <<K_context, "context">> >>
Lookup(tab, k) == IF \E i \in DOMAIN tab : tab[i][1] = k THEN tab[CHOOSE i \in DOMAIN tab : tab[i][1] = k][2] ELSE ""

ExprFromJ(x) ==
  IF ~JIsO(x) \/ Len(x.o) # 1 THEN PFail
  ELSE LET k == x.o[1].k  b == x.o[1].v IN
       IF k = K_Value THEN (LET v == FromValueJ(b) IN IF v.ok THEN Ok([op |-> "val", v |-> v.v]) ELSE PFail)
       ELSE IF k = K_Var THEN (IF JIsS(b) /\ Lookup(VarNames, b.s) # "" THEN Ok([op |-> "var", name |-> Lookup(VarNames, b.s)]) ELSE PFail)
       ELSE IF Lookup(BinKeys, k) # "" THEN BinFromJ(Lookup(BinKeys, k), b)
       ELSE IF Lookup(UnKeys, k) # "" THEN UnFromJ(Lookup(UnKeys, k), b)
       ELSE IF k = K_Access THEN StrFromJ("access", b)
       ELSE IF k = K_Has THEN StrFromJ("has", b)
       ELSE IF k = K_Is
       THEN IF ~JIsO(b) \/ JGet(b, K_left) = Missing \/ JGet(b, K_entity_type) = Missing \/ ~JIsS(JGet(b, K_entity_type)) THEN PFail
            ELSE LET a == ExprFromJ(JGet(b, K_left))  ty == TypeOfCps(JGet(b, K_entity_type).s) IN
                 IF ~a.ok THEN PFail
                 ELSE IF JGet(b, K_in) = Missing THEN Ok([op |-> "is", a |-> a.v, ty |-> ty])
                 ELSE LET e == ExprFromJ(JGet(b, K_in)) IN
                      IF e.ok THEN Ok([op |-> "isIn", a |-> a.v, ty |-> ty, e |-> e.v]) ELSE PFail
       ELSE IF k = K_Like
       THEN IF ~JIsO(b) \/ JGet(b, K_left) = Missing \/ JGet(b, K_pattern) = Missing THEN PFail
            ELSE LET a == ExprFromJ(JGet(b, K_left))  p == PatFromJ(JGet(b, K_pattern)) IN
                 IF a.ok /\ p # <<-2>> THEN Ok([op |-> "like", a |-> a.v, pat |-> p]) ELSE PFail
       ELSE IF k = K_If
       THEN IF ~JIsO(b) \/ JGet(b, K_if) = Missing \/ JGet(b, K_then) = Missing \/ JGet(b, K_else) = Missing THEN PFail
            ELSE LET c == ExprFromJ(JGet(b, K_if))  t == ExprFromJ(JGet(b, K_then))  e == ExprFromJ(JGet(b, K_else)) IN
                 IF c.ok /\ t.ok /\ e.ok THEN Ok([op |-> "if", c |-> c.v, t |-> t.v, e |-> e.v]) ELSE PFail
       ELSE IF k = K_Set THEN (LET s == SeqFromJ(b) IN IF s.ok THEN Ok([op |-> "set", els |-> s.v]) ELSE PFail)
       ELSE IF k = K_Record
       THEN IF ~JIsO(b) THEN PFail
            ELSE LET rs == [i \in DOMAIN b.o |-> ExprFromJ(b.o[i].v)] IN
                 IF \A i \in DOMAIN rs : rs[i].ok
                 THEN Ok([op |-> "rec", kv |-> [i \in DOMAIN rs |-> [key |-> NameOfCps(b.o[i].k), val |-> rs[i].v]]])
                 ELSE PFail
       ELSE \* any other key: an extension function or method call
            LET s == SeqFromJ(b) IN IF s.ok THEN Ok([op |-> "ext", fn |-> NameOfCps(k), args |-> s.v]) ELSE PFail

\* scope entities: implicit {"type", "id"} or explicit {"__entity": {"type", "id"}}
ScopeEntFromJ(e) == EntRefFromJ(e)
ScopeFromJ(x) ==
  IF ~JIsO(x) \/ JGet(x, K_op) = Missing \/ ~JIsS(JGet(x, K_op)) THEN PFail
  ELSE LET op == JGet(x, K_op).s IN
       IF op = K_All THEN Ok(ScopeAll)
       ELSE IF op = K_Eq
       THEN (LET e == IF JGet(x, K_entity) = Missing THEN PFail ELSE ScopeEntFromJ(JGet(x, K_entity)) IN
             IF e.ok THEN Ok(ScopeEq(e.v)) ELSE PFail)
       ELSE IF op = K_In
       THEN IF JGet(x, K_entity) # Missing
            THEN (LET e == ScopeEntFromJ(JGet(x, K_entity)) IN IF e.ok THEN Ok(ScopeIn(e.v)) ELSE PFail)
            ELSE IF JGet(x, K_entities) # Missing /\ JIsA(JGet(x, K_entities))
            THEN LET es == JGet(x, K_entities).a  rs == [i \in DOMAIN es |-> ScopeEntFromJ(es[i])] IN
                 IF \A i \in DOMAIN rs : rs[i].ok THEN Ok(ScopeInSet([i \in DOMAIN rs |-> rs[i].v])) ELSE PFail
            ELSE IF JGet(x, K_entities) = Missing THEN Ok(ScopeInSet(<<>>))   \* deviation of the code, named: its encoder
                                                                              \* omits an empty "entities" list
            ELSE PFail
       ELSE IF op = K_Is
       THEN IF JGet(x, K_entity_type) = Missing \/ ~JIsS(JGet(x, K_entity_type)) THEN PFail
            ELSE LET ty == TypeOfCps(JGet(x, K_entity_type).s) IN
                 IF JGet(x, K_in) = Missing THEN Ok(ScopeIs(ty))
                 ELSE IF ~JIsO(JGet(x, K_in)) \/ JGet(JGet(x, K_in), K_entity) = Missing THEN PFail
                 ELSE LET e == ScopeEntFromJ(JGet(JGet(x, K_in), K_entity)) IN
                      IF e.ok THEN Ok(ScopeIsIn(ty, e.v)) ELSE PFail
       ELSE PFail

FromEst(x) ==
  IF ~JIsO(x) \/ JGet(x, K_effect) = Missing \/ ~JIsS(JGet(x, K_effect)) THEN PFail
  ELSE LET eff == JGet(x, K_effect).s
           pr == IF JGet(x, K_principal) = Missing THEN PFail ELSE ScopeFromJ(JGet(x, K_principal))
           ac == IF JGet(x, K_action) = Missing THEN PFail ELSE ScopeFromJ(JGet(x, K_action))
           re == IF JGet(x, K_resource) = Missing THEN PFail ELSE ScopeFromJ(JGet(x, K_resource))
           an == JGet(x, K_annotations)
           cs == JGet(x, K_conditions)
           conds == IF cs = Missing THEN Ok(<<>>)
                    ELSE IF ~JIsA(cs) THEN PFail
                    ELSE LET rs == [i \in DOMAIN cs.a |->
                                      LET c == cs.a[i] IN
                                      IF ~JIsO(c) \/ JGet(c, K_kind) = Missing \/ JGet(c, K_body) = Missing \/ ~JIsS(JGet(c, K_kind))
                                         \/ JGet(c, K_kind).s \notin {K_when, K_unless} THEN PFail
                                      ELSE LET b == ExprFromJ(JGet(c, K_body)) IN
                                           IF b.ok THEN Ok([kind |-> IF JGet(c, K_kind).s = K_when THEN "when" ELSE "unless", body |-> b.v])
                                           ELSE PFail] IN
                         IF \A i \in DOMAIN rs : rs[i].ok THEN Ok([i \in DOMAIN rs |-> rs[i].v]) ELSE PFail
           annos == IF an = Missing THEN Ok(<<>>)
                    ELSE IF ~JIsO(an) \/ \E i \in DOMAIN an.o : ~JIsS(an.o[i].v) THEN PFail
                    ELSE Ok([i \in DOMAIN an.o |-> [k |-> NameOfCps(an.o[i].k), v |-> an.o[i].v.s]])
       IN IF eff \notin {K_permit, K_forbid} \/ ~pr.ok \/ ~ac.ok \/ ~re.ok \/ ~conds.ok \/ ~annos.ok THEN PFail
          ELSE Ok([effect |-> IF eff = K_permit THEN "permit" ELSE "forbid", annos |-> annos.v,
                   principal |-> pr.v, action |-> ac.v, resource |-> re.v, conds |-> conds.v])

\* ---------------------------------------------------------------- comparison form
CtorKinds == {"decimal", "ip"}     \* value nodes the encoder writes as constructor calls
\* NormX(e, ctor): ctor = TRUE is the comparison form used for verdicts (a constructor call on a valid literal is the
\* value it denotes); ctor = FALSE keeps the two apart (strict: `identical expression nodes`)
RECURSIVE NormX(_, _)
NormE(e) == NormX(e, TRUE)
NormX(e, ctor) ==
  LET op == e.op IN
  CASE op = "val" -> e
    [] op \in {"var", "error"} -> e
    [] op \in {"and", "or", "eq", "ne", "lt", "le", "gt", "ge", "add", "sub", "mul", "in",
               "contains", "containsAll", "containsAny", "hasTag", "getTag"} -> [op |-> op, l |-> NormX(e.l, ctor), r |-> NormX(e.r, ctor)]
    [] op \in {"not", "neg", "isEmpty"} -> [op |-> op, a |-> NormX(e.a, ctor)]
    [] op \in {"access", "has"} -> [op |-> op, a |-> NormX(e.a, ctor), attr |-> e.attr]
    [] op = "like" -> [op |-> op, a |-> NormX(e.a, ctor), pat |-> NormPat(e.pat)]
    [] op = "is" -> [op |-> op, a |-> NormX(e.a, ctor), ty |-> e.ty]
    [] op = "isIn" -> [op |-> op, a |-> NormX(e.a, ctor), ty |-> e.ty, e |-> NormX(e.e, ctor)]
    [] op = "if" -> [op |-> op, c |-> NormX(e.c, ctor), t |-> NormX(e.t, ctor), e |-> NormX(e.e, ctor)]
    [] op = "set" -> [op |-> op, els |-> [i \in DOMAIN e.els |-> NormX(e.els[i], ctor)]]
    [] op = "rec" -> [op |-> op, kv |-> { [key |-> e.kv[i].key, val |-> NormX(e.kv[i].val, ctor)] : i \in DOMAIN e.kv }]
    [] op = "ext" ->
         LET args == [i \in DOMAIN e.args |-> NormX(e.args[i], ctor)] IN
         IF ctor /\ e.fn \in CtorKinds /\ Len(args) = 1 /\ args[1].op = "val" /\ args[1].v.k = "str" /\ SpecRead(e.fn, args[1].v.s).ok
         THEN [op |-> "val", v |-> SpecRead(e.fn, args[1].v.s).v]
         ELSE [op |-> op, fn |-> e.fn, args |-> args]
NormP(p) == [effect |-> p.effect, annos |-> { p.annos[i] : i \in DOMAIN p.annos },
             principal |-> p.principal, action |-> p.action, resource |-> p.resource,
             conds |-> [i \in DOMAIN p.conds |-> [kind |-> p.conds[i].kind, body |-> NormE(p.conds[i].body)]]]
SameAst(a, b) == NormP(a) = NormP(b)
NormPStrict(p) == [effect |-> p.effect, annos |-> { p.annos[i] : i \in DOMAIN p.annos },
                   principal |-> p.principal, action |-> p.action, resource |-> p.resource,
                   conds |-> [i \in DOMAIN p.conds |-> [kind |-> p.conds[i].kind, body |-> NormX(p.conds[i].body, FALSE)]]]
SameAstStrict(a, b) == NormPStrict(a) = NormPStrict(b)
=============================================================================
