---------------------------- MODULE SyntaxTables ----------------------------
(* The name tables of the syntax universes: entity-type paths and the attribute /
   record-key names that have to be written as string literals, with their
   code points (TLC cannot look inside strings).  Wire names of non-ASCII
   names follow harness/cwf NameToWire ("~{hex}"). *)
MCPathTable == << [name |-> "U", parts |-> <<"U">>], [name |-> "G", parts |-> <<"G">>], [name |-> "Action", parts |-> <<"Action">>],
                  [name |-> "NS::T", parts |-> <<"NS", "T">>], [name |-> "A::B::C", parts |-> <<"A", "B", "C">>],
                  [name |-> "T1", parts |-> <<"T1">>], [name |-> "T2", parts |-> <<"T2">>] >>
MCNameTable == << [name |-> "if", cps |-> <<105, 102>>], [name |-> "a b", cps |-> <<97, 32, 98>>],
                  [name |-> "", cps |-> <<>>], [name |-> "true", cps |-> <<116, 114, 117, 101>>],
                  [name |-> "~{e9}", cps |-> <<233>>], [name |-> "~{22}", cps |-> <<34>>], [name |-> "1a", cps |-> <<49, 97>>],
                  [name |-> "in", cps |-> <<105, 110>>], [name |-> "__cedar", cps |-> <<95, 95, 99, 101, 100, 97, 114>>],
                  [name |-> "a", cps |-> <<97>>] >>
MCIdTable == << [name |-> "a", cps |-> <<97>>],
                [name |-> "b", cps |-> <<98>>],
                [name |-> "c", cps |-> <<99>>],
                [name |-> "g", cps |-> <<103>>],
                [name |-> "h", cps |-> <<104>>],
                [name |-> "view", cps |-> <<118, 105, 101, 119>>],
                [name |-> "edit", cps |-> <<101, 100, 105, 116>>],
                [name |-> "all", cps |-> <<97, 108, 108>>],
                [name |-> "zz", cps |-> <<122, 122>>],
                [name |-> "top", cps |-> <<116, 111, 112>>],
                [name |-> "x y", cps |-> <<120, 32, 121>>],
                [name |-> "", cps |-> <<>>],
                [name |-> "other", cps |-> <<111, 116, 104, 101, 114>>],
                [name |-> "n1", cps |-> <<110, 49>>],
                [name |-> "n2", cps |-> <<110, 50>>],
                [name |-> "n3", cps |-> <<110, 51>>],
                [name |-> "n4", cps |-> <<110, 52>>],
                [name |-> "n5", cps |-> <<110, 53>>],
                [name |-> "n6", cps |-> <<110, 54>>],
                [name |-> "n7", cps |-> <<110, 55>>],
                [name |-> "n8", cps |-> <<110, 56>>],
                [name |-> "n9", cps |-> <<110, 57>>],
                [name |-> "n10", cps |-> <<110, 49, 48>>] >>
=============================================================================
