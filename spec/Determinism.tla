---------------------------- MODULE Determinism ----------------------------
(***************************************************************************)
(* C14: results are functions of their inputs.  The state is the history    *)
(* `first`: for every input already seen, the first observation made of it. *)
(* Observe(i, o) is enabled for a new input, or for a known input only with *)
(* the observation recorded first -- whatever the insertion order of        *)
(* policies / entities, the repetition, or the iteration order of the       *)
(* implementation's maps was.                                               *)
(***************************************************************************)
EXTENDS Sequences, FiniteSets, TLC

VARIABLES first          \* function: input key -> first observation
Init == first = <<>>
Known(i) == i \in DOMAIN first
Observe(i, o) == /\ (Known(i) => first[i] = o)
                 /\ first' = IF Known(i) THEN first ELSE [k \in DOMAIN first \cup {i} |-> IF k = i THEN o ELSE first[k]]
\* the property: the history is functional
Functional(hist) == \A a, b \in DOMAIN hist : hist[a].input = hist[b].input => hist[a].obs = hist[b].obs
=============================================================================
