-------------------------------- MODULE Authz --------------------------------
(***************************************************************************)
(* Authorization.                                                          *)
(*                                                                         *)
(* Abstract definition (AuthzResult): over a set of identified policies,   *)
(* Allow iff some permit is satisfied and no forbid is satisfied; reasons  *)
(* are the satisfied forbids if any, otherwise the satisfied permits;      *)
(* errors are the erroring policies.  A policy whose evaluation fails is   *)
(* not satisfied.                                                          *)
(*                                                                         *)
(* Algorithm-shaped state machine (LoopInit, LoopStep, LoopResult): the     *)
(* code's single pass over a                                               *)
(* PolicyIterator, one action per loop iteration, the iteration order a    *)
(* nondeterministic choice (Go map order, or whatever a user's iterator    *)
(* does).  M1 (MC_Authz) shows that every order yields AuthzResult.        *)
(***************************************************************************)
EXTENDS CedarPolicy

\* ps: function id -> policy;  outcome(id) given by oc: function id -> {"sat","unsat","err"}
ResultOf(ids, effect, oc) ==
  LET satF == { i \in ids : effect[i] = "forbid" /\ oc[i] = "sat" }
      satP == { i \in ids : effect[i] = "permit" /\ oc[i] = "sat" }
  IN [decision |-> IF satF # {} THEN "deny" ELSE IF satP # {} THEN "allow" ELSE "deny",
      reasons  |-> IF satF # {} THEN satF ELSE satP,
      errors   |-> { i \in ids : oc[i] = "err" }]

AuthzResult(ps, env) ==
  ResultOf(DOMAIN ps, [i \in DOMAIN ps |-> ps[i].effect], [i \in DOMAIN ps |-> Outcome(ps[i], env)])

\* --------------------------------------------------- the loop as a state machine
\* state: todo (ids not yet visited), permits / forbids / errs (collected so far), res
LoopInit(ids) == [todo |-> ids, permits |-> {}, forbids |-> {}, errs |-> {}, done |-> FALSE]

LoopStep(s, i, effect, oc) ==       \* visit policy i
  [todo    |-> s.todo \ {i},
   permits |-> IF oc[i] = "sat" /\ effect[i] = "permit" THEN s.permits \cup {i} ELSE s.permits,
   forbids |-> IF oc[i] = "sat" /\ effect[i] = "forbid" THEN s.forbids \cup {i} ELSE s.forbids,
   errs    |-> IF oc[i] = "err" THEN s.errs \cup {i} ELSE s.errs,
   done    |-> FALSE]

LoopResult(s) ==
  [decision |-> IF s.forbids # {} THEN "deny" ELSE IF s.permits # {} THEN "allow" ELSE "deny",
   reasons  |-> IF s.forbids # {} THEN s.forbids ELSE s.permits,
   errors   |-> s.errs]

\* wire: policies as a sequence of [id, policy]
PolicySetFromWire(ws) ==
  [i \in { ws[k].id : k \in DOMAIN ws } |-> PolicyFromWire(ws[CHOOSE k \in DOMAIN ws : ws[k].id = i].policy)]
=============================================================================
