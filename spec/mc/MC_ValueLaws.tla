---------------------------- MODULE MC_ValueLaws ----------------------------
(***************************************************************************)
(* C11, M2.  Mode "laws": every sequence of up to MaxLen values of the     *)
(* collision universe (values that collide in the implementation's hash:   *)
(* true / 1 / decimal 0.0001 / 1ms / datetime 1, neighbouring longs, sets  *)
(* whose additive hashes coincide, nested sets and records), paired with   *)
(* its permutations, duplications, prefixes and one-element replacements:  *)
(* expected length, membership of every universe value, equality,          *)
(* containsAll / containsAny; record pairs; the universe's equality        *)
(* matrix.  Mode "hist": every interleaving of construct / mutate input /  *)
(* take accessor output / mutate output / observe up to MaxLen steps.      *)
(***************************************************************************)
EXTENDS ValueLaws, Universe, SequencesExt, Json, IOUtils, TLC

CONSTANTS Mode, MaxLen

WSet(s) == [k |-> "set", els |-> s]
\* wire form (sets as sequences, to control insertion order on the Go side)
UW == << VTrue, VInt(1), VDec(FromInt(1)), VDur(FromInt(1)), VDt(FromInt(1)),
         VFalse, VInt(0), VDec(FromInt(0)),
         VInt(2), VInt(3), VInt(4), VStr(<<>>), VStr(<<97>>), U("a"),
         WSet(<<VInt(1), VInt(4)>>), WSet(<<VInt(2), VInt(3)>>), WSet(<<VTrue>>), WSet(<<VInt(1)>>), WSet(<<>>),
         WSet(<<VInt(1), VTrue>>), WSet(<<VTrue, VInt(1)>>),
         VRec([a |-> VInt(1)]), VRec([a |-> VTrue]), EmptyRec,
         WSet(<<WSet(<<VInt(1), VTrue>>)>>), VRec([a |-> WSet(<<VTrue, VInt(1)>>)]) >>
UM == [i \in DOMAIN UW |-> FromWire(UW[i])]          \* model form
N == Len(UW)

Seqs(n) == UNION { [1..k -> 1..N] : k \in 0..n }
\* probe chains: longer sequences over the values whose hashes coincide or are neighbours (true, 1, decimal 0.0001,
\* 1 ms, datetime 1 -> hash 1; 2, 3, 4 -> the following slots), at every tier: a member displaced from its home
\* slot by a collision occupies the home slot of the next value
ChainIdx3 == {1, 2, 3, 4, 5, 9, 10}
ChainIdx4 == {2, 3, 9, 10}
ChainIdx5 == {2, 3, 9}
ChainSeqs == [1..3 -> ChainIdx3] \cup [1..4 -> ChainIdx4] \cup [1..5 -> ChainIdx5]
Variants(a) ==
  {a, Reverse(a)} \cup { a \o <<a[i]>> : i \in DOMAIN a } \cup { SubSeq(a, 1, k) : k \in 0..Len(a) }
  \cup { [a EXCEPT ![i] = (a[i] % N) + 1] : i \in DOMAIN a }
  \cup (IF Len(a) >= 2 THEN { <<a[2], a[1]>> \o SubSeq(a, 3, Len(a)) } ELSE {})

Keys == <<"a", "b", "c">>
RecVals == <<1, 2, 6, 7, 18, 20>>       \* indices into the universe: true, 1, false, 0, {1}, {1,true}
Recs == { r \in [DOMAIN Keys -> 0..Len(RecVals)] : TRUE }     \* 0 = key absent
RecSeq(r) == LET ks == SelectSeq(<<1, 2, 3>>, LAMBDA k : r[k] # 0) IN [i \in DOMAIN ks |-> [key |-> Keys[ks[i]], idx |-> RecVals[r[ks[i]]]]]
RecVariants(r) == {r} \cup UNION { { [r EXCEPT ![k] = 0], [r EXCEPT ![k] = (r[k] % Len(RecVals)) + 1] } : k \in DOMAIN Keys }

VARIABLES case, out
vars == <<case, out, input, val, built, outs, hist>>

LawInit == /\ case \in ({ [kind |-> "table"] }
                        \cup { [kind |-> "sets", a |-> a] : a \in Seqs(MaxLen) \cup ChainSeqs }
                        \cup { [kind |-> "recs", r |-> r] : r \in Recs })
           /\ out = <<>> /\ input = <<>> /\ val = {} /\ built = FALSE /\ outs = <<>> /\ hist = <<>>
LawNext == /\ out = <<>>
           /\ out' = CASE case.kind = "table" ->
                            << [op |-> "valuetable", universe |-> UW,
                                exp |-> [eq |-> [i \in 1..N |-> [j \in 1..N |-> UM[i] = UM[j]]]]] >>
                       [] case.kind = "sets" ->
                            LET vs == SetToSeq(Variants(case.a)) IN
                            [k \in DOMAIN vs |-> [op |-> "setlaws", a |-> case.a, b |-> vs[k], exp |-> SetObs(UM, case.a, vs[k])]]
                       [] OTHER ->
                            LET vs == SetToSeq(RecVariants(case.r)) IN
                            [k \in DOMAIN vs |-> [op |-> "reclaws", r1 |-> RecSeq(case.r), r2 |-> RecSeq(vs[k]),
                                                  exp |-> RecObs(UM, RecSeq(case.r), RecSeq(vs[k]))]]
           /\ UNCHANGED <<case, input, val, built, outs, hist>>

HistInit == HInit /\ case = [kind |-> "hist"] /\ out = <<>>
HistNext == HNext /\ UNCHANGED <<case, out>>

Init == IF Mode = "laws" THEN LawInit ELSE HistInit
Next == IF Mode = "laws" THEN LawNext ELSE HistNext
Bounded == Len(hist) < MaxLen

Opts == [format |-> "TXT", charset |-> "UTF-8", openOptions |-> <<"WRITE", "CREATE", "APPEND">>]
Emit ==
  IF Mode = "laws"
  THEN out # <<>> => \A k \in DOMAIN out : Serialize(ToJson(out[k]) \o "\n", "cases.ndjson", Opts).exitValue = 0
  ELSE (hist # <<>> /\ Len(hist) <= MaxLen /\ hist[Len(hist)].a = "observe") =>
         Serialize(ToJson([op |-> "valuehist", steps |-> hist]) \o "\n", "cases.ndjson", Opts).exitValue = 0
=============================================================================
