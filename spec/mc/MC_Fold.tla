------------------------------- MODULE MC_Fold -------------------------------
(***************************************************************************)
(* C04.  M1: FoldSound for every expression of ExprUniverse (Depth1, and   *)
(* Depth2 when UseDepth2) under every environment of the table, and the    *)
(* same on policy level (Outcome of the folded policy = Outcome of the     *)
(* original).  M2: every policy is emitted with the Outcome of the         *)
(* ORIGINAL tree per environment; the harness compiles it with the real    *)
(* cedar.NewPolicyFromAST (which folds) and authorizes, evaluates the      *)
(* unfolded tree directly, and compares AST / text / JSON snapshots.       *)
(* Line 0 of the output is the environment table.                          *)
(***************************************************************************)
EXTENDS Fold, ExprUniverse, SequencesExt, Json, IOUtils, TLC

CONSTANTS UseDepth2, EnvStride

Exprs == IF UseDepth2 THEN Depth1 \o Depth2 ELSE Depth1
AllEnvWs == SetToSeq(EnvUW)
EnvWs == SelectSeq([i \in DOMAIN AllEnvWs |-> IF i % EnvStride = 0 THEN AllEnvWs[i] ELSE <<>>], LAMBDA x : x # <<>>)
Envs == [i \in DOMAIN EnvWs |-> EnvFromWire(EnvWs[i])]

PolicyOf(i) ==
  LET e == Exprs[i]
      conds == CASE i % 3 = 0 -> <<[kind |-> "unless", body |-> e]>>
                 [] i % 3 = 1 -> <<[kind |-> "when", body |-> e]>>
                 [] OTHER -> <<[kind |-> "when", body |-> T], [kind |-> "when", body |-> e]>>
  IN [effect |-> IF i % 2 = 0 THEN "permit" ELSE "forbid", annos |-> <<>>,
      principal |-> IF i % 5 = 0 THEN ScopeIn(G("g")) ELSE ScopeAll, action |-> ScopeAll, resource |-> ScopeAll,
      conds |-> conds]

VARIABLES idx, out
vars == <<idx, out>>

Init == idx \in 0..Len(Exprs) /\ out = <<>>

Compute == /\ out = <<>>
           /\ out' = IF idx = 0 THEN <<"envtable">>
                     ELSE LET p == PolicyFromWire(PolicyOf(idx)) IN [k \in DOMAIN Envs |-> Outcome(p, Envs[k])]
           /\ UNCHANGED idx
Next == Compute

\* M1: the fold rules never change meaning
FoldTheorem ==
  (out # <<>> /\ idx > 0) =>
    LET e == ExprFromWire(Exprs[idx])  p == PolicyFromWire(PolicyOf(idx)) IN
    \A k \in DOMAIN Envs : /\ FoldSound(e, Envs[k])
                           /\ Outcome(FoldPolicy(p), Envs[k]) = out[k]

Emit ==
  out # <<>> =>
    Serialize(ToJson(IF idx = 0 THEN [op |-> "envtable", envs |-> EnvWs]
                     ELSE [op |-> "fold", policy |-> PolicyOf(idx), exp |-> out]) \o "\n",
              "cases.ndjson",
              [format |-> "TXT", charset |-> "UTF-8", openOptions |-> <<"WRITE", "CREATE", "APPEND">>]).exitValue = 0
=============================================================================
