------------------------------ MODULE MC_Batch ------------------------------
(***************************************************************************)
(* C05, M1: the enumeration algorithm of x/exp/batch (doBatch), one action *)
(* per critical step:                                                      *)
(*   Enter    entry of doBatch at some recursion level: context check      *)
(*   Callback leaf: the callback is invoked (it may fail or cancel the     *)
(*            context, according to the fault plan)                        *)
(*   Iterate  next value of this level's variable: bind it, recurse        *)
(*   Ascend   values exhausted: restore the saved state, return to caller  *)
(*   Unwind   an error propagates to the caller                            *)
(* Variables are processed in order of increasing list length.  Checked:   *)
(* the callback log is the Cartesian product (as a multiset) when there is *)
(* no fault, exactly k callbacks with pairwise distinct choices and the    *)
(* right error otherwise, and the binding map is restored on Ascend.       *)
(* Values are abstract here (the choice index per variable): substitution  *)
(* and decisions are specified in Batch.tla and bound by M2/M3.            *)
(***************************************************************************)
EXTENDS Integers, Sequences, FiniteSets, TLC

CONSTANTS MaxVars, MaxList

VARIABLES lens,      \* lens[v]: length of variable v's value list (v in 1..n)
          fault,     \* [kind, at]
          order,     \* variables sorted by list length (a permutation of 1..n)
          stack,     \* recursion: sequence of frames [level, i, saved]
          binding,   \* current partial choice: function from bound variables to index
          log,       \* choices passed to the callback
          cancelled, ret, pc
vars == <<lens, fault, order, stack, binding, log, cancelled, ret, pc>>

N == DOMAIN lens
Sorted(o) == \A i, j \in DOMAIN o : i < j => lens[o[i]] <= lens[o[j]]
Perms(S) == { f \in [1..Cardinality(S) -> S] : \A i, j \in 1..Cardinality(S) : i # j => f[i] # f[j] }

Init == /\ \E n \in 0..MaxVars : lens \in [1..n -> 0..MaxList]
        /\ fault \in [kind : {"none", "fail", "cancel"}, at : 1..((MaxList ^ MaxVars) + 1)]
        /\ (fault.kind = "none" => fault.at = 1)
        /\ order \in { o \in Perms(DOMAIN lens) : \A i, j \in DOMAIN o : i < j => lens[o[i]] <= lens[o[j]] }
        /\ stack = <<>> /\ binding = <<>> /\ log = <<>> /\ cancelled = FALSE /\ ret = "none"
        /\ pc = IF \E v \in DOMAIN lens : lens[v] = 0 THEN "finished" ELSE "enter"
        \* (an empty value list returns nil before any work)

Level == Len(stack) + 1          \* level being entered: binds order[Level]
NVars == Cardinality(N)

\* entry of doBatch
Enter ==
  /\ pc = "enter"
  /\ IF cancelled THEN pc' = "unwind" /\ ret' = "ctx" /\ UNCHANGED <<stack, binding, log>>
     ELSE IF Level > NVars
     THEN \* leaf: invoke the callback
          /\ log' = Append(log, binding)
          /\ IF fault.kind = "fail" /\ fault.at = Len(log) + 1
             THEN pc' = "unwind" /\ ret' = "cb" /\ UNCHANGED cancelled
             ELSE /\ pc' = "return" /\ ret' = ret
                  /\ cancelled' = (cancelled \/ (fault.kind = "cancel" /\ fault.at = Len(log) + 1))
          /\ UNCHANGED <<stack, binding>>
     ELSE \* save state, start iterating this level's variable
          /\ stack' = Append(stack, [i |-> 1, saved |-> binding])
          /\ pc' = "iterate" /\ UNCHANGED <<binding, log, ret>>
  /\ (pc' # "return" => UNCHANGED cancelled) /\ UNCHANGED <<lens, fault, order>>

Top == stack[Len(stack)]
VarAt == order[Len(stack)]

Iterate ==
  /\ pc = "iterate"
  /\ IF Top.i <= lens[VarAt]
     THEN /\ binding' = [v \in DOMAIN binding \cup {VarAt} |-> IF v = VarAt THEN Top.i ELSE binding[v]]
          /\ stack' = [stack EXCEPT ![Len(stack)].i = Top.i + 1]
          /\ pc' = "enter"
     ELSE \* values exhausted: restore previous state and return
          /\ binding' = Top.saved
          /\ stack' = SubSeq(stack, 1, Len(stack) - 1)
          /\ pc' = "return"
  /\ UNCHANGED <<lens, fault, order, log, cancelled, ret>>

\* normal return of a doBatch call to its caller's loop (or to Authorize)
Return ==
  /\ pc = "return"
  /\ IF stack = <<>> THEN pc' = "finished" /\ ret' = (IF cancelled THEN "ctx" ELSE "nil")
     ELSE pc' = "iterate" /\ UNCHANGED ret
  /\ UNCHANGED <<lens, fault, order, stack, binding, log, cancelled>>

\* an error return propagates through every caller without restoring anything
Unwind ==
  /\ pc = "unwind"
  /\ pc' = "finished"
  /\ UNCHANGED <<lens, fault, order, stack, binding, log, cancelled, ret>>

Next == Enter \/ Iterate \/ Return \/ Unwind
Spec == Init /\ [][Next]_vars /\ WF_vars(Next)

Product == { f \in [N -> 1..MaxList] : \A v \in N : f[v] <= lens[v] }
TotalCalls == Cardinality(Product)
LogSet == { log[i] : i \in DOMAIN log }
Distinct == \A i, j \in DOMAIN log : i # j => log[i] # log[j]

Correct ==
  pc = "finished" =>
    IF \E v \in N : lens[v] = 0 THEN log = <<>> /\ ret = "none"
    ELSE IF fault.kind = "none" \/ fault.at > TotalCalls
         THEN LogSet = Product /\ Distinct /\ ret = "nil"
         ELSE /\ Len(log) = fault.at /\ Distinct /\ LogSet \subseteq Product
              /\ ret = (IF fault.kind = "fail" THEN "cb" ELSE "ctx")
\* every callback sees a complete binding; bindings are restored when a level is left
Complete == \A i \in DOMAIN log : DOMAIN log[i] = N
Restored == pc = "finished" /\ ret = "nil" => binding = <<>> /\ stack = <<>>
Terminates == <>(pc = "finished")
=============================================================================
