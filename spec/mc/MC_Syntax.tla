------------------------------ MODULE MC_Syntax ------------------------------
(***************************************************************************)
(* C07 (and the AST universe of C08/C09).                                  *)
(* M1: for every policy AST of the universe, parsing its rendering -- with *)
(*   only the parentheses the grammar requires, and fully parenthesised -- *)
(*   gives back that AST (RoundTrip).                                      *)
(* M2: every AST is emitted with both token renderings; every single-token *)
(*   deletion, duplication and replacement of the minimal rendering is     *)
(*   emitted with what the specification's parser says about it (rejected, *)
(*   or accepted with which AST); alternative spellings of string literals *)
(*   with their values; the named families of texts outside the grammar.   *)
(* The harness lays the tokens out (spaces, newlines, comments) and feeds  *)
(* them to the real parser.                                                *)
(***************************************************************************)
EXTENDS Syntax, SyntaxTables, Universe, Json, IOUtils, TLC

CONSTANT Mode        \* "ast" | "mutants"

Var(n) == [op |-> "var", name |-> n]
Bin(op, a, b) == [op |-> op, l |-> a, r |-> b]
Un(op, a) == [op |-> op, a |-> a]
Ent(ty, id) == V(VEnt(ty, id))

\* leaves (every literal kind the syntax has)
La == Var("principal")   Lb == Var("context")   Lc == V(VInt(7))
Leaves == << La, Lb, Var("action"), Var("resource"), Lc, V(VInt(0)), V(VLong(MaxI64)), V(VLong(MinI64)), V(VInt(-5)),
             V(VTrue), V(VFalse), V(VStr(<<97>>)), V(VStr(<<>>)), Ent(<<"U">>, "a"), Ent(<<"NS", "T">>, "x y"),
             Ent(<<"A", "B", "C">>, "") >>

\* expression forms: Form(f, x, y, z) with Arity(f) operands
NForms == 41
Arity(f) == CASE f \in 1..12 -> 2 [] f \in 13..15 -> 1 [] f = 16 -> 1 [] f = 17 -> 1 [] f = 18 -> 2 [] f \in 19..20 -> 1
              [] f \in 21..23 -> 1 [] f \in 24..28 -> 2 [] f = 29 -> 1 [] f = 30 -> 1 [] f = 31 -> 2 [] f = 32 -> 2 [] f = 33 -> 1
              [] f = 34 -> 3 [] f = 35 -> 2 [] f = 36 -> 2 [] f = 37 -> 1 [] f = 38 -> 1 [] f = 39 -> 1 [] f = 40 -> 2 [] OTHER -> 1
Form(f, x, y, z) ==
  CASE f = 1 -> Bin("or", x, y) [] f = 2 -> Bin("and", x, y) [] f = 3 -> Bin("eq", x, y) [] f = 4 -> Bin("ne", x, y)
    [] f = 5 -> Bin("lt", x, y) [] f = 6 -> Bin("le", x, y) [] f = 7 -> Bin("gt", x, y) [] f = 8 -> Bin("ge", x, y)
    [] f = 9 -> Bin("in", x, y) [] f = 10 -> Bin("add", x, y) [] f = 11 -> Bin("sub", x, y) [] f = 12 -> Bin("mul", x, y)
    [] f = 13 -> [op |-> "has", a |-> x, attr |-> "name"] [] f = 14 -> [op |-> "has", a |-> x, attr |-> "if"]
    [] f = 15 -> [op |-> "has", a |-> x, attr |-> "a b"]
    [] f = 16 -> [op |-> "like", a |-> x, pat |-> <<97, -1, 42, 34, 92, -1>>]
    [] f = 17 -> [op |-> "is", a |-> x, ty |-> <<"NS", "T">>] [] f = 18 -> [op |-> "isIn", a |-> x, ty |-> <<"U">>, e |-> y]
    [] f = 19 -> Un("not", x) [] f = 20 -> Un("neg", x)
    [] f = 21 -> [op |-> "access", a |-> x, attr |-> "name"] [] f = 22 -> [op |-> "access", a |-> x, attr |-> "if"]
    [] f = 23 -> [op |-> "access", a |-> x, attr |-> ""]
    [] f = 24 -> Bin("contains", x, y) [] f = 25 -> Bin("containsAll", x, y) [] f = 26 -> Bin("containsAny", x, y)
    [] f = 27 -> Bin("hasTag", x, y) [] f = 28 -> Bin("getTag", x, y) [] f = 29 -> Un("isEmpty", x)
    [] f = 30 -> [op |-> "ext", fn |-> "decimal", args |-> <<x>>]
    [] f = 31 -> [op |-> "ext", fn |-> "lessThan", args |-> <<x, y>>] [] f = 32 -> [op |-> "ext", fn |-> "isInRange", args |-> <<x, y>>]
    [] f = 33 -> [op |-> "ext", fn |-> "toDate", args |-> <<x>>]
    [] f = 34 -> [op |-> "if", c |-> x, t |-> y, e |-> z]
    [] f = 35 -> [op |-> "set", els |-> <<x, y>>]
    [] f = 36 -> [op |-> "rec", kv |-> <<[key |-> "k", val |-> x], [key |-> "a b", val |-> y]>>]
    [] f = 37 -> [op |-> "set", els |-> <<x>>] [] f = 38 -> [op |-> "rec", kv |-> <<[key |-> "true", val |-> x]>>]
    [] f = 39 -> [op |-> "ext", fn |-> "ip", args |-> <<x>>]
    [] f = 40 -> [op |-> "ext", fn |-> "offset", args |-> <<x, y>>]
    [] OTHER -> [op |-> "ext", fn |-> "isIpv4", args |-> <<x>>]

Rep(f) == Form(f, La, Lb, Lc)
Flat(ss) == LET RECURSIVE FlatFrom(_) FlatFrom(i) == IF i > Len(ss) THEN <<>> ELSE ss[i] \o FlatFrom(i + 1) IN FlatFrom(1)

\* every (parent form, operand position, child form) triple, plus every leaf in every position of a few parents
Depth2 == Flat([p \in 1..NForms |-> Flat([k \in 1..Arity(p) |->
             [c \in 1..NForms |-> Form(p, IF k = 1 THEN Rep(c) ELSE La, IF k = 2 THEN Rep(c) ELSE Lb, IF k = 3 THEN Rep(c) ELSE Lc)]])])
LeafParents == <<3, 11, 20, 21, 24, 34, 35>>
LeafExprs == Leaves \o Flat([k \in DOMAIN LeafParents |-> [l \in DOMAIN Leaves |-> Form(LeafParents[k], Leaves[l], Leaves[l], Leaves[l])]])
            \o << [op |-> "set", els |-> <<>>], [op |-> "rec", kv |-> <<>>],
                  Un("neg", [op |-> "access", a |-> Lc, attr |-> "name"]), Un("neg", [op |-> "access", a |-> Lc, attr |-> "if"]),
                  Un("neg", Bin("contains", Lc, La)), Un("neg", Un("neg", [op |-> "ext", fn |-> "toDate", args |-> <<Lc>>])),
                  Bin("sub", Lc, Un("neg", Un("isEmpty", V(VInt(0))))),
                  Un("not", Un("not", Un("neg", Un("neg", La)))), Un("neg", V(VInt(5))), Un("neg", V(VInt(-5))),
                  Bin("sub", V(VInt(-5)), V(VInt(-5))), Bin("sub", Bin("sub", La, Lb), Lc), Bin("sub", La, Bin("sub", Lb, Lc)),
                  Bin("and", Bin("and", La, Lb), Lc), Bin("and", La, Bin("and", Lb, Lc)), Bin("or", Bin("and", La, Lb), Bin("and", Lb, Lc)),
                  Bin("and", Bin("or", La, Lb), Bin("or", Lb, Lc)) >>
Exprs == [f \in 1..NForms |-> Rep(f)] \o LeafExprs \o Depth2

WhenP(e) == [effect |-> "permit", annos |-> <<>>, principal |-> ScopeAll, action |-> ScopeAll, resource |-> ScopeAll,
             conds |-> <<[kind |-> "when", body |-> e]>>]
Ua == VEnt(<<"U">>, "a")   Nx == VEnt(<<"NS", "T">>, "x y")
ScopePolicies ==
  LET base == [effect |-> "forbid", annos |-> <<>>, principal |-> ScopeAll, action |-> ScopeAll, resource |-> ScopeAll, conds |-> <<>>]
      PS == <<ScopeAll, ScopeEq(Ua), ScopeIn(Nx), ScopeIs(<<"NS", "T">>), ScopeIsIn(<<"U">>, Nx)>>
      AS == <<ScopeAll, ScopeEq(Ua), ScopeIn(Nx), ScopeInSet(<<>>), ScopeInSet(<<Ua>>), ScopeInSet(<<Ua, Nx, Ua>>)>>
  IN Flat([i \in DOMAIN PS |-> Flat([j \in DOMAIN AS |-> [k \in DOMAIN PS |->
        [base EXCEPT !.principal = PS[i], !.action = AS[j], !.resource = PS[k]]]])])
     \o << [base EXCEPT !.annos = <<[k |-> "id", v |-> <<97>>]>>],
           [base EXCEPT !.annos = <<[k |-> "a", v |-> <<>>], [k |-> "if", v |-> <<34, 10, 233>>], [k |-> "permit", v |-> <<120>>]>>],
           [base EXCEPT !.conds = <<[kind |-> "when", body |-> La], [kind |-> "unless", body |-> Lb], [kind |-> "when", body |-> Lc]>>],
           [base EXCEPT !.effect = "permit", !.conds = <<[kind |-> "unless", body |-> Rep(34)]>>] >>
StringPolicies == [s \in DOMAIN StrB |-> WhenP(Bin("eq", V(VStr(StrB[s])), [op |-> "like", a |-> Lb, pat |-> StrB[s] \o <<-1>> \o StrB[s]]))]

Policies == [i \in DOMAIN Exprs |-> WhenP(Exprs[i])] \o ScopePolicies \o StringPolicies

\* ------------------------------------------------------------------ mutants of the representative policies
MutSeeds == [f \in 1..NForms |-> WhenP(Rep(f))] \o SubSeq(ScopePolicies, 1, 12) \o SubSeq(ScopePolicies, Len(ScopePolicies) - 3, Len(ScopePolicies))
Replacements == << Id("principal"), Id("if"), Id("foo"), Id("__cedar"), IntT(<<1>>), StrT(<<97>>), Op("("), Op(")"), Op(","), Op("=="), Op("<"),
                   Op("&&"), Op("."), Op("::"), Op("-"), Op("!"), Op(";"), Op("{"), Op("}"), Op("["), Op("]"), Id("in"), Id("has"),
                   Id("like"), Id("is"), Id("then"), Id("else"), Id("true"), Id("when"), Op("@"), Op(":"), Op("*"), Op("+") >>
Mutants(ts) ==
  [i \in DOMAIN ts |-> SubSeq(ts, 1, i - 1) \o SubSeq(ts, i + 1, Len(ts))]                        \* deletion
  \o [i \in DOMAIN ts |-> SubSeq(ts, 1, i) \o SubSeq(ts, i, Len(ts))]                            \* duplication
  \o Flat([i \in DOMAIN ts |-> [r \in DOMAIN Replacements |-> SubSeq(ts, 1, i - 1) \o <<Replacements[r]>> \o SubSeq(ts, i + 1, Len(ts))]])
  \o Flat([i \in 1..(Len(ts) - 1) |-> << SubSeq(ts, 1, i - 1) \o <<ts[i + 1], ts[i]>> \o SubSeq(ts, i + 2, Len(ts)) >>])   \* swap

\* named families of texts outside the grammar (token form), and spelling cases
S(x) == StrT(x)
PolToks(cond) == <<Id("permit"), Op("("), Id("principal"), Op(","), Id("action"), Op(","), Id("resource"), Op(")"), Id("when"), Op("{")>>
                 \o cond \o <<Op("}"), Op(";")>>
Named == <<
  PolToks(<<Id("principal"), Op("<"), IntT(<<1>>), Op("<"), IntT(<<2>>)>>),
  PolToks(<<Id("principal"), Op("=="), IntT(<<1>>), Op("=="), IntT(<<2>>)>>),
  PolToks(<<Id("principal"), Id("in"), Id("action"), Id("in"), Id("resource")>>),
  PolToks(<<Id("principal"), Id("has"), Id("a"), Id("has"), Id("b")>>),
  PolToks(<<Id("if"), Op("=="), IntT(<<1>>)>>), PolToks(<<Id("foo")>>), PolToks(<<Id("principal"), Op("."), Id("if")>>),
  \* every reserved word in every identifier position
  PolToks(<<Id("__cedar"), Op("::"), S(<<120>>)>>), PolToks(<<Id("U"), Op("::"), Id("__cedar"), Op("::"), S(<<120>>)>>),
  PolToks(<<Id("context"), Op("."), Id("__cedar")>>), PolToks(<<Id("context"), Id("has"), Id("__cedar")>>),
  PolToks(<<Id("context"), Id("has"), Id("a"), Op("."), Id("__cedar")>>), PolToks(<<Op("{"), Id("__cedar"), Op(":"), IntT(<<1>>), Op("}")>>),
  PolToks(<<Id("principal"), Id("is"), Id("__cedar")>>), PolToks(<<Id("principal"), Id("is"), Id("U"), Op("::"), Id("in")>>),
  PolToks(<<Id("true"), Op("::"), S(<<120>>)>>), PolToks(<<Id("context"), Op("."), Id("like")>>),
  PolToks(<<Id("context"), Op("."), Id("then")>>), PolToks(<<Id("context"), Id("has"), Id("else")>>),
  PolToks(<<Op("{"), Id("false"), Op(":"), IntT(<<1>>), Op("}")>>), PolToks(<<Id("principal"), Id("is"), Id("has")>>),
  PolToks(<<Id("context"), Op("."), Id("is"), Op("("), Op(")")>>), PolToks(<<Id("in"), Op("("), IntT(<<1>>), Op(")")>>),
  PolToks(<<Id("principal"), Id("has"), Id("if")>>), PolToks(<<Id("principal"), Id("has"), IntT(<<1>>)>>),
  PolToks(<<Op("{"), Id("a"), Op(":"), IntT(<<1>>), Op(","), Id("a"), Op(":"), IntT(<<2>>), Op("}")>>),
  PolToks(<<Op("{"), Id("a"), Op(":"), IntT(<<1>>), Op(","), S(<<97>>), Op(":"), IntT(<<2>>), Op("}")>>),
  PolToks(<<Op("{"), Id("if"), Op(":"), IntT(<<1>>), Op("}")>>),
  PolToks(<<Id("nosuch"), Op("("), IntT(<<1>>), Op(")")>>), PolToks(<<Id("lessThan"), Op("("), IntT(<<1>>), Op(","), IntT(<<2>>), Op(")")>>),
  PolToks(<<Id("principal"), Op("."), Id("decimal"), Op("("), S(<<49, 46, 48>>), Op(")")>>),
  PolToks(<<Id("principal"), Op("."), Id("nosuch"), Op("("), Op(")")>>),
  PolToks(<<Id("principal"), Op("."), Id("contains"), Op("("), Op(")")>>),
  PolToks(<<Id("principal"), Op("."), Id("contains"), Op("("), IntT(<<1>>), Op(","), IntT(<<2>>), Op(")")>>),
  PolToks(<<Id("principal"), Op("."), Id("isEmpty"), Op("("), IntT(<<1>>), Op(")")>>),
  PolToks(<<Id("U"), Op("::"), Id("decimal"), Op("("), S(<<49>>), Op(")")>>),
  PolToks(<<IntT(<<9, 2, 2, 3, 3, 7, 2, 0, 3, 6, 8, 5, 4, 7, 7, 5, 8, 0, 8>>)>>),
  PolToks(<<Op("-"), IntT(<<9, 2, 2, 3, 3, 7, 2, 0, 3, 6, 8, 5, 4, 7, 7, 5, 8, 0, 9>>)>>),
  PolToks(<<Op("-"), Op("("), IntT(<<9, 2, 2, 3, 3, 7, 2, 0, 3, 6, 8, 5, 4, 7, 7, 5, 8, 0, 8>>), Op(")")>>),
  PolToks(<<S(<<92, 113>>)>>), PolToks(<<S(<<92, 120, 56, 48>>)>>), PolToks(<<S(<<92, 117, 123, 125>>)>>),
  PolToks(<<S(<<92, 117, 123, 68, 56, 48, 48, 125>>)>>), PolToks(<<S(<<92, 117, 123, 49, 49, 48, 48, 48, 48, 125>>)>>),
  PolToks(<<S(<<92, 42>>)>>), PolToks(<<Id("principal"), Id("like"), S(<<92, 113>>)>>),
  PolToks(<<Id("principal"), Id("like"), Id("a")>>), PolToks(<<Id("principal"), Id("is"), S(<<97>>)>>),
  PolToks(<<Id("principal"), Id("is"), Id("U"), Op("::"), S(<<97>>)>>),
  PolToks(<<Id("if"), Id("true"), Id("then"), IntT(<<1>>)>>), PolToks(<<IntT(<<1>>), Op("+"), Id("if"), Id("true"), Id("then"), IntT(<<1>>), Id("else"), IntT(<<2>>)>>),
  PolToks(<<>>), PolToks(<<IntT(<<1>>), IntT(<<2>>)>>),
  <<Op("@"), Id("a"), Op("("), S(<<120>>), Op(")"), Op("@"), Id("a"), Op("("), S(<<121>>), Op(")")>> \o PolToks(<<Id("true")>>),
  <<Op("@"), Id("a"), Op("("), IntT(<<1>>), Op(")")>> \o PolToks(<<Id("true")>>),
  <<Op("@"), S(<<97>>), Op("("), S(<<120>>), Op(")")>> \o PolToks(<<Id("true")>>),
  <<Id("allow"), Op("("), Id("principal"), Op(","), Id("action"), Op(","), Id("resource"), Op(")"), Op(";")>>,
  <<Id("permit"), Op("("), Id("action"), Op(","), Id("principal"), Op(","), Id("resource"), Op(")"), Op(";")>>,
  <<Id("permit"), Op("("), Id("principal"), Op(","), Id("action"), Op(")"), Op(";")>>,
  <<Id("permit"), Op("("), Id("principal"), Op(","), Id("action"), Id("is"), Id("U"), Op(","), Id("resource"), Op(")"), Op(";")>>,
  <<Id("permit"), Op("("), Id("principal"), Id("in"), Op("["), Id("U"), Op("::"), S(<<97>>), Op("]"), Op(","), Id("action"), Op(","), Id("resource"), Op(")"), Op(";")>>,
  <<Id("permit"), Op("("), Id("principal"), Op("=="), Id("principal"), Op(","), Id("action"), Op(","), Id("resource"), Op(")"), Op(";")>>,
  <<Id("permit"), Op("("), Id("principal"), Op(","), Id("action"), Op(","), Id("resource"), Op(")"), Id("when"), Op("{"), Id("true"), Op("}")>>,
  <<Id("permit"), Op("("), Id("principal"), Op(","), Id("action"), Op(","), Id("resource"), Op(")"), Id("if"), Op("{"), Id("true"), Op("}"), Op(";")>>
>>
\* prefix chains: every sequence of 1 .. 4 operators ! and - before every kind of operand (an integer literal -- to
\* which a directly preceding '-' belongs --, the two literals at the 64-bit boundary, a literal followed by an access,
\* a parenthesised literal, a variable); the specification's parse decides what each denotes or that it is rejected
ChainOps == <<Op("!"), Op("-")>>
ChainsOf(n) == IF n = 0 THEN << <<>> >> ELSE LET RECURSIVE C(_) C(k) == IF k = 0 THEN << <<>> >> ELSE Flat([i \in DOMAIN C(k - 1) |-> [o \in 1..2 |-> <<ChainOps[o]>> \o C(k - 1)[i]]]) IN C(n)
ChainOperands == << <<IntT(<<5>>)>>, <<IntT(<<0>>)>>, <<IntT(<<9, 2, 2, 3, 3, 7, 2, 0, 3, 6, 8, 5, 4, 7, 7, 5, 8, 0, 8>>)>>,
                    <<IntT(<<9, 2, 2, 3, 3, 7, 2, 0, 3, 6, 8, 5, 4, 7, 7, 5, 8, 0, 7>>)>>, <<Id("principal")>>, <<Op("("), IntT(<<5>>), Op(")")>>,
                    <<IntT(<<5>>), Op("."), Id("foo")>>, <<Op("("), Op("-"), IntT(<<5>>), Op(")")>>, <<Id("true")>> >>
UnaryChains == Flat([n \in 1..4 |-> Flat([c \in DOMAIN ChainsOf(n) |-> [o \in DOMAIN ChainOperands |->
                 PolToks(ChainsOf(n)[c] \o ChainOperands[o] \o <<Op("=="), IntT(<<5>>)>>)]])])
\* accepted spellings with the value they denote
Spellings == <<
  [raw |-> <<92, 117, 123, 52, 49, 125>>, val |-> <<65>>], [raw |-> <<92, 117, 123, 48, 48, 48, 48, 52, 49, 125>>, val |-> <<65>>],
  [raw |-> <<92, 120, 52, 49>>, val |-> <<65>>], [raw |-> <<92, 120, 55, 102>>, val |-> <<127>>], [raw |-> <<92, 120, 55, 70>>, val |-> <<127>>],
  [raw |-> <<92, 39>>, val |-> <<39>>], [raw |-> <<39>>, val |-> <<39>>], [raw |-> <<92, 48, 49>>, val |-> <<0, 49>>],
  [raw |-> <<92, 117, 123, 49, 70, 54, 48, 48, 125>>, val |-> <<128512>>], [raw |-> <<92, 117, 123, 49, 48, 102, 102, 102, 102, 125>>, val |-> <<1114111>>],
  [raw |-> <<92, 117, 123, 100, 55, 102, 102, 125>>, val |-> <<55295>>], [raw |-> <<92, 117, 123, 101, 48, 48, 48, 125>>, val |-> <<57344>>],
  [raw |-> <<9>>, val |-> <<9>>], [raw |-> <<47, 47, 120>>, val |-> <<47, 47, 120>>], [raw |-> <<47, 42>>, val |-> <<47, 42>>],
  [raw |-> <<92, 92, 110>>, val |-> <<92, 110>>], [raw |-> <<92, 116, 92, 114, 92, 110, 92, 48, 92, 34>>, val |-> <<9, 13, 10, 0, 34>>] >>

\* ------------------------------------------------------------------ C08: policies to marshal
\* every (parent, position, child) triple again with operands that evaluate: numbers and booleans
DepthWith(x, y, z) == Flat([p \in 1..NForms |-> Flat([k \in 1..Arity(p) |->
             [c \in 1..NForms |-> Form(p, IF k = 1 THEN Form(c, x, y, z) ELSE x, IF k = 2 THEN Form(c, x, y, z) ELSE y,
                                       IF k = 3 THEN Form(c, x, y, z) ELSE z)]])])
TypedExprs == DepthWith(V(VInt(7)), V(VInt(2)), V(VInt(3))) \o DepthWith(V(VTrue), V(VFalse), V(VTrue))
\* arithmetic nesting where the grouping decides between a value and an overflow: a op1 (b op2 c) and (a op1 b) op2 c
\* for every pair of + - * and every operand triple over {0, 2, -1, MAX, MIN}; negation inside and outside
ArithVals == << V(VInt(0)), V(VInt(2)), V(VInt(-1)), V(VLong(MaxI64)), V(VLong(MinI64)) >>
ArithOps == <<"add", "sub", "mul">>
ArithExprs ==
  Flat([o1 \in 1..3 |-> Flat([o2 \in 1..3 |-> Flat([a \in 1..5 |-> Flat([b \in 1..5 |-> Flat([c \in 1..5 |->
     << Bin(ArithOps[o1], ArithVals[a], Bin(ArithOps[o2], ArithVals[b], ArithVals[c])),
        Bin(ArithOps[o2], Bin(ArithOps[o1], ArithVals[a], ArithVals[b]), ArithVals[c]) >>])])])])])
  \o Flat([o1 \in 1..3 |-> Flat([a \in 1..5 |-> [b \in 1..5 |->
        Un("neg", Bin(ArithOps[o1], ArithVals[a], ArithVals[b]))]])])
  \o Flat([o1 \in 1..3 |-> Flat([a \in 1..5 |-> Flat([b \in 1..5 |->
        << Bin(ArithOps[o1], Un("neg", ArithVals[a]), ArithVals[b]), Bin(ArithOps[o1], ArithVals[a], Un("neg", ArithVals[b])) >>])])])
\* value nodes that only a program or the JSON decoder can build: sets, records, extension values
WSet(s) == [k |-> "set", els |-> s]
OddRec == VRec([n \in {"k", "a b", "if", "", "~{22}", "~{e9}", "true"} |-> VInt(1)])
IpVals == LET ps == [i \in DOMAIN IpLits |-> ParseIP(IpLits[i])] IN SelectSeq(ps, LAMBDA r : r.ok)
ValueLeaves ==
  << WSet(<<VInt(1), VInt(-2), VStr(<<97>>)>>), WSet(<<>>), WSet(<<WSet(<<VTrue>>), WSet(<<>>)>>), OddRec, EmptyRec,
     VRec([k |-> WSet(<<VRec([n |-> VInt(-1)])>>)]), WSet(<<VEnt(<<"U">>, "a"), VEnt(<<"NS", "T">>, "~{22}")>>),
     VEnt(<<"U">>, "~{e9}"), VEnt(<<"U">>, "~{22}") >>
  \o [i \in DOMAIN DecB |-> VDec(DecB[i])] \o [i \in DOMAIN DtB |-> VDt(DtB[i])] \o [i \in DOMAIN DurB |-> VDur(DurB[i])]
  \o [i \in DOMAIN IpVals |-> IpVals[i].v] \o [i \in DOMAIN LongB |-> VLong(LongB[i])]
ValueExprs ==
  Flat([i \in DOMAIN ValueLeaves |-> LET v == V(ValueLeaves[i]) IN
         << v, Bin("eq", v, v), [op |-> "access", a |-> v, attr |-> "k"], [op |-> "has", a |-> v, attr |-> "a b"],
            Bin("contains", v, V(VInt(1))), [op |-> "ext", fn |-> "lessThan", args |-> <<v, v>>],
            [op |-> "ext", fn |-> "toDate", args |-> <<v>>], [op |-> "ext", fn |-> "isIpv4", args |-> <<v>>],
            [op |-> "ext", fn |-> "toDays", args |-> <<v>>], Un("neg", v), Bin("sub", V(VInt(1)), v),
            [op |-> "set", els |-> <<v, v>>], [op |-> "rec", kv |-> <<[key |-> "a b", val |-> v]>>],
            [op |-> "like", a |-> v, pat |-> <<-1>>], Bin("in", v, v), [op |-> "is", a |-> v, ty |-> <<"U">>] >>])
\* attribute names and record keys around the border of what may be written as an identifier
\* (wire names: ~{hex} for characters outside [A-Za-z0-9 _:.-])
OddNames == << "k ", " k", "k~{a}", "k~{9}", "k~{d}", "k~{2f}~{2f}x", "k~{2f}~{2a}x~{2a}~{2f}", "K", "k1", "_k", "1k", "k-1", "k.k",
               "k::k", "principal", "permit", "when", "is", "then", "in", "k~{e9}", "~{e9}", "k~{22}", "k~{5c}", "k~{0}" >>
NameExprs == Flat([i \in DOMAIN OddNames |-> LET n == OddNames[i] IN
               << [op |-> "access", a |-> Lb, attr |-> n], [op |-> "has", a |-> Lb, attr |-> n],
                  [op |-> "rec", kv |-> <<[key |-> n, val |-> Lc]>>],
                  [op |-> "has", a |-> V(VRec([x \in {n, "k"} |-> VInt(1)])), attr |-> n],
                  [op |-> "access", a |-> [op |-> "rec", kv |-> <<[key |-> n, val |-> Lc], [key |-> "k", val |-> V(VInt(1))]>>], attr |-> "k"] >>])
AnnoPolicies ==[s \in DOMAIN StrB |->
   [effect |-> "forbid", annos |-> <<[k |-> "id", v |-> StrB[s]], [k |-> "if", v |-> StrB[s] \o StrB[s]]>>,
    principal |-> ScopeAll, action |-> ScopeAll, resource |-> ScopeAll, conds |-> <<>>]]
MarshalPolicies == Policies \o AnnoPolicies \o [i \in DOMAIN (ValueExprs \o NameExprs) |-> WhenP((ValueExprs \o NameExprs)[i])]
                   \o [i \in DOMAIN TypedExprs |-> WhenP(TypedExprs[i])]
                   \o [i \in DOMAIN ArithExprs |-> WhenP(ArithExprs[i])]
\* policy sets: ids in lexicographic (byte) order; windows of the universe under every id assignment pattern
IdOrder == <<"", "A", "B", "a", "a b", "b", "policy1", "policy10", "policy2", "~{e9}">>
SetPolicies == ScopePolicies \o [f \in 1..NForms |-> WhenP(Rep(f))]
SetCase(i) ==
  LET n == 2 + (i % 3)
      ids == [k \in 1..n |-> ((i * 7 + k * 3) % Len(IdOrder)) + 1]       \* distinct for n <= 4 (3 is invertible mod 10)
      pols == [k \in 1..n |-> SetPolicies[((i + k * 11) % Len(SetPolicies)) + 1]]
  IN [op |-> "marshalset", parts |-> TRUE, envset |-> "S",
      items |-> [k \in 1..n |-> [id |-> IdOrder[ids[k]], rank |-> ids[k], policy |-> pols[k]]]]
NSetCases == 3 * Len(SetPolicies)

\* ------------------------------------------------------------------ state space
VARIABLES idx, out
vars == <<idx, out>>

NCases == IF Mode = "ast" THEN Len(Policies) + Len(Spellings)
          ELSE IF Mode = "marshal" THEN Len(MarshalPolicies) + NSetCases ELSE Len(MutSeeds) + 2
Init == idx \in 1..NCases /\ out = <<>>

Exp(ts) == LET r == ParsePolicyList(ts) IN IF r.ok THEN [ok |-> TRUE, policies |-> r.v] ELSE [ok |-> FALSE]

CaseOf(i) ==
  IF Mode = "ast"
  THEN IF i <= Len(Policies)
       THEN LET p == Policies[i] IN
            << [op |-> "parse", name |-> <<"ast", i>>, tokens |-> RenderPolicy(p, FALSE), exp |-> [ok |-> TRUE, policies |-> <<p>>]],
               [op |-> "parse", name |-> <<"astfull", i>>, tokens |-> RenderPolicy(p, TRUE), exp |-> [ok |-> TRUE, policies |-> <<p>>]] >>
       ELSE LET s == Spellings[i - Len(Policies)] IN
            << [op |-> "parse", name |-> <<"spelling", i - Len(Policies)>>, tokens |-> PolToks(<<S(s.raw), Op("=="), IntT(<<1>>)>>),
                exp |-> [ok |-> TRUE, policies |-> <<WhenP(Bin("eq", V(VStr(s.val)), V(VInt(1))))>>]] >>
  ELSE IF Mode = "marshal"
  THEN IF i <= Len(MarshalPolicies)
       THEN LET p == MarshalPolicies[i] IN
            [v \in 1..(IF i <= Len(Policies) + Len(AnnoPolicies) + Len(ValueExprs) + Len(NameExprs) THEN 3 ELSE 1) |->
               [op |-> "marshal", policy |-> p, via |-> <<"ast", "json", "text">>[v], parts |-> TRUE, envset |-> "S"]]
       ELSE << SetCase(i - Len(MarshalPolicies)) >>
  ELSE IF i <= Len(MutSeeds)
       THEN LET ms == Mutants(RenderPolicy(MutSeeds[i], FALSE)) IN
            [m \in DOMAIN ms |-> [op |-> "parse", name |-> <<"mutant", i, m>>, tokens |-> ms[m], exp |-> Exp(ms[m])]]
       ELSE IF i = Len(MutSeeds) + 1
       THEN [n \in DOMAIN Named |-> [op |-> "parse", name |-> <<"named", n>>, tokens |-> Named[n], exp |-> Exp(Named[n])]]
       ELSE [n \in DOMAIN UnaryChains |-> [op |-> "parse", name |-> <<"chain", n>>, tokens |-> UnaryChains[n], exp |-> Exp(UnaryChains[n])]]

Compute == out = <<>> /\ out' = CaseOf(idx) /\ UNCHANGED idx
Next == Compute

\* M1: parse o render = identity on the universe, in both modes; the named families are rejected
RoundTrip ==
  (Mode = "ast" /\ out # <<>> /\ idx <= Len(Policies)) =>
     /\ ParsePolicy(RenderPolicy(Policies[idx], FALSE)) = [ok |-> TRUE, v |-> Policies[idx]]
     /\ ParsePolicy(RenderPolicy(Policies[idx], TRUE)) = [ok |-> TRUE, v |-> Policies[idx]]
\* M1: the lexer reads back every spelled token sequence of the universe
LexRoundTrip ==
  (Mode = "ast" /\ out # <<>> /\ idx <= Len(Policies)) =>
     \A k \in DOMAIN out : Lex(Spell(out[k].tokens)) = [ok |-> TRUE, toks |-> out[k].tokens]
NamedRejected == (Mode = "mutants" /\ out # <<>> /\ idx = Len(MutSeeds) + 1) => \A n \in DOMAIN out : ~out[n].exp.ok

Opts == [format |-> "TXT", charset |-> "UTF-8", openOptions |-> <<"WRITE", "CREATE", "APPEND">>]
Emit == out # <<>> =>
          \A k \in DOMAIN out : Serialize(ToJson(out[k]) \o "\n", "cases.ndjson", Opts).exitValue = 0
=============================================================================
