--------------------------- MODULE MC_EvalTables ---------------------------
(***************************************************************************)
(* C01, M2: the operator x boundary-operand tables.  Every row is one      *)
(* environment and a sequence of expressions; TLC computes what the        *)
(* specification defines for each and emits the row as one JSON line       *)
(* (cases.ndjson) for the Go harness to execute against the real evaluator *)
(* and the real authorizer.                                                *)
(***************************************************************************)
EXTENDS CedarPolicy, Universe, Json, IOUtils, TLC

V(v) == [op |-> "val", v |-> v]
Bin(op, a, b) == [op |-> op, l |-> a, r |-> b]
Un(op, a) == [op |-> op, a |-> a]
Ext(fn, args) == [op |-> "ext", fn |-> fn, args |-> args]
Str(s) == V(VStr(s))
Var(n) == [op |-> "var", name |-> n]
WSet(s) == [k |-> "set", els |-> s]          \* wire-form set from a sequence

Longs == SeqMap(VLong, LongB)
Decs  == SeqMap(VDec, DecB)
Dts   == SeqMap(VDt, DtB)
Durs  == SeqMap(VDur, DurB)
Strs  == SeqMap(VStr, StrB)

Ip4 == VIp(<<127, 0, 0, 1>>, 32)
Ip6 == VIp([i \in 1..16 |-> IF i = 16 THEN 1 ELSE 0], 128)

\* one or two values of every kind (wire form)
MixedB == << VTrue, VFalse, VInt(0), VInt(1), VStr(<<>>), VStr(<<97>>), U("a"), G("g"),
             WSet(<<>>), WSet(<<VInt(1)>>), WSet(<<U("a")>>), EmptyRec, VRec([n |-> VInt(1)]),
             VDec(FromInt(0)), VDec(FromInt(1)), VDt(FromInt(0)), VDt(FromInt(1)),
             VDur(FromInt(0)), VDur(FromInt(1)), Ip4, Ip6 >>

\* values that collide in the implementation's hash (numeric hashes are the
\* payload, set hashes add up) -- equality must still tell them apart
CollideB == << VTrue, VInt(1), VDec(FromInt(1)), VDur(FromInt(1)), VDt(FromInt(1)),
               VFalse, VInt(0), VDec(FromInt(0)), VDur(FromInt(0)), VDt(FromInt(0)),
               VInt(2), VInt(3), VInt(4),
               WSet(<<VInt(1), VInt(4)>>), WSet(<<VInt(2), VInt(3)>>), WSet(<<VTrue>>), WSet(<<VInt(1)>>),
               WSet(<<VInt(0), VInt(5)>>), WSet(<<VInt(5)>>), WSet(<<VInt(4), VInt(1), VInt(1)>>),
               VRec([a |-> VInt(1)]), VRec([a |-> VTrue]), VRec([b |-> VInt(1)]),
               VRec([a |-> VInt(1), b |-> VInt(2)]), VRec([a |-> VInt(2), b |-> VInt(1)]),
               WSet(<<WSet(<<VInt(1)>>), WSet(<<VTrue>>)>>), WSet(<<WSet(<<VInt(1)>>)>>),
               \* the same members inserted in different orders (colliding members are stored
               \* in insertion order by the implementation's open addressing)
               WSet(<<VInt(1), VTrue>>), WSet(<<VTrue, VInt(1)>>),
               WSet(<<VFalse, VInt(0), VDec(FromInt(0))>>), WSet(<<VDec(FromInt(0)), VInt(0), VFalse>>), WSet(<<VInt(0), VDec(FromInt(0)), VFalse>>),
               WSet(<<VInt(1), VInt(2), VTrue>>), WSet(<<VInt(2), VTrue, VInt(1)>>), WSet(<<VTrue, VInt(2), VInt(1), VInt(2)>>),
               WSet(<<WSet(<<VInt(1), VTrue>>)>>), WSet(<<WSet(<<VTrue, VInt(1)>>)>>),
               VRec([s |-> WSet(<<VFalse, VInt(0)>>)]), VRec([s |-> WSet(<<VInt(0), VFalse>>)]) >>

EntB == << U("a"), U("b"), U("zz"), G("g"), G("h"), G("top"), A("view"), A("edit"), A("all") >>
AttrB == << "n", "s", "opt", "r", "ss", "e", "x", "zz" >>
TagB  == << <<116, 49>>, <<116, 50>>, <<>>, <<122>> >>
TypeB == << "U", "G", "Action", "Z" >>

\* like: patterns (-1 = wildcard) x strings
PatB == << <<>>, <<-1>>, <<97>>, <<97, -1>>, <<-1, 97>>, <<97, -1, 98>>, <<-1, 97, -1>>, <<-1, -1>>,
           <<42>>, <<97, 42, 98>>, <<-1, 42>>, <<97, -1, 98, -1, 99>>, <<-1, 98, 97>>, <<233>>, <<-1, 128512>>,
           <<97, -1, 97>>, <<-1, 97, 98, -1, 97, 98>> >>
LikeStrB == StrB \o << <<97, 97>>, <<97, 98, 97>>, <<97, 98, 97, 98>>, <<97, 120, 98, 121, 99>>, <<98, 97, 98, 97>>,
                      <<97, 98, 99>>, <<120, 128512>>, <<97, 98, 97, 98, 120>> >>

ErrE  == Bin("add", V(VInt(1)), Str(<<97>>))        \* evaluation error
OvfE  == Bin("add", V(VLong(MaxI64)), V(VInt(1)))   \* overflow error
BadExt == Ext("decimal", <<Str(<<120>>)>>)          \* extension error
SCOps == << V(VTrue), V(VFalse), V(VInt(1)), ErrE, OvfE, BadExt, Bin("eq", Var("principal"), V(U("a"))) >>

\* single-character edits of a literal over the characters that occur in the
\* text forms: deletions, replacements, insertions
EditAlphabet == <<48, 49, 57, 46, 45, 43, 58, 84, 90, 100, 104, 109, 115, 47, 32, 102>>
Edits(s) ==
  [i \in 1..Len(s) |-> SubSeq(s, 1, i - 1) \o SubSeq(s, i + 1, Len(s))]
  \o [n \in 1..(Len(s) * Len(EditAlphabet)) |->
        LET i == ((n - 1) \div Len(EditAlphabet)) + 1  c == EditAlphabet[((n - 1) % Len(EditAlphabet)) + 1]
        IN SubSeq(s, 1, i - 1) \o <<c>> \o SubSeq(s, i + 1, Len(s))]
  \o [n \in 1..((Len(s) + 1) * Len(EditAlphabet)) |->
        LET i == ((n - 1) \div Len(EditAlphabet)) + 1  c == EditAlphabet[((n - 1) % Len(EditAlphabet)) + 1]
        IN SubSeq(s, 1, i - 1) \o <<c>> \o SubSeq(s, i, Len(s))]

EditSeeds == << <<"decimal", <<45, 49, 50, 46, 51, 52>>>>,                         \* -12.34
                <<"duration", <<45, 49, 100, 50, 104, 51, 109, 52, 115, 53, 109, 115>>>>,   \* -1d2h3m4s5ms
                <<"datetime", <<50,48,50,52,45,48,50,45,50,57,84,50,51,58,53,57,58,53,57,46,57,57,57,43,48,49,51,48>>>>,
                <<"datetime", <<50,48,50,52,45,48,50,45,50,57>>>>,
                <<"datetime", <<45,48,48,48,48,48,48,48,48,49,45,49,50,45,51,49,84,50,51,58,53,57,58,53,57,90>>>>,
                <<"ip", <<49, 48, 46, 49, 46, 50, 46, 51, 47, 50, 52>>>>,               \* 10.1.2.3/24
                <<"ip", <<102, 102, 48, 50, 58, 58, 49, 47, 49, 50, 48>>>> >>         \* ff02::1/120

\* all rows: [name, env, exprs]; exprs and env are in wire form
Row(name, env, exprs) == [name |-> name, env |-> env, exprs |-> exprs]
Grid(op, xs, ys) == [i \in DOMAIN xs |-> Row(<<op, i>>, Env1W, [j \in DOMAIN ys |-> Bin(op, V(xs[i]), V(ys[j]))])]
UnRow(op, xs) == << Row(<<op>>, Env1W, [i \in DOMAIN xs |-> Un(op, V(xs[i]))]) >>
ExtGrid(fn, xs, ys) == [i \in DOMAIN xs |-> Row(<<fn, i>>, Env1W, [j \in DOMAIN ys |-> Ext(fn, <<V(xs[i]), V(ys[j])>>)])]
ExtRow(fn, xs) == << Row(<<fn>>, Env1W, [i \in DOMAIN xs |-> Ext(fn, <<V(xs[i])>>)]) >>
Flat(ss) == LET RECURSIVE F(_) F(i) == IF i > Len(ss) THEN <<>> ELSE ss[i] \o F(i + 1) IN F(1)

ValidIps == LET RECURSIVE F(_)
                F(i) == IF i > Len(IpLits) THEN <<>>
                        ELSE LET r == ParseIP(IpLits[i]) IN (IF r.ok THEN <<r.v>> ELSE <<>>) \o F(i + 1)
            IN F(1)

Ext1 == <<"ip", "decimal", "datetime", "duration", "isIpv4", "isIpv6", "isLoopback", "isMulticast", "toDate",
          "toTime", "toDays", "toHours", "toMinutes", "toSeconds", "toMilliseconds">>
Ext2 == <<"lessThan", "lessThanOrEqual", "greaterThan", "greaterThanOrEqual", "isInRange", "offset", "durationSince">>
BinOps == <<"and", "or", "eq", "ne", "lt", "le", "gt", "ge", "add", "sub", "mul", "in", "contains", "containsAll",
            "containsAny", "hasTag", "getTag">>
UnOps == <<"not", "neg", "isEmpty">>

QuickRows ==
  Flat(<<
    Grid("add", Longs, Longs), Grid("sub", Longs, Longs), Grid("mul", Longs, Longs), UnRow("neg", Longs),
    Grid("lt", Longs, Longs), Grid("le", Longs, Longs), Grid("gt", Longs, Longs), Grid("ge", Longs, Longs),
    Grid("lt", Dts, Dts), Grid("ge", Dts, Dts), Grid("le", Durs, Durs), Grid("gt", Durs, Durs),
    Flat([o \in DOMAIN BinOps |-> Grid(BinOps[o], MixedB, MixedB)]),
    Flat([o \in DOMAIN UnOps |-> UnRow(UnOps[o], MixedB)]),
    Grid("eq", CollideB, CollideB), Grid("ne", CollideB, CollideB),
    Grid("contains", CollideB, CollideB), Grid("containsAll", CollideB, CollideB),
    Grid("containsAny", CollideB, CollideB), UnRow("isEmpty", CollideB),
    [p \in DOMAIN PatB |-> Row(<<"like", p>>, Env1W,
                               [s \in DOMAIN LikeStrB |-> [op |-> "like", a |-> Str(LikeStrB[s]), pat |-> PatB[p]]])],
    \* entity-dependent operators on both stores
    Flat([w \in 1..2 |-> LET env == IF w = 1 THEN Env1W ELSE Env2W IN
      Flat(<<
        [i \in DOMAIN EntB |-> Row(<<"in", w, i>>, env,
            [j \in DOMAIN EntB |-> Bin("in", V(EntB[i]), V(EntB[j]))]
            \o [j \in DOMAIN EntB |-> Bin("in", V(EntB[i]), V(WSet(<<EntB[j], G("h")>>)))]
            \o << Bin("in", V(EntB[i]), V(WSet(<<>>))), Bin("in", V(EntB[i]), V(WSet(<<G("top"), VInt(1)>>))),
                  Bin("in", V(EntB[i]), [op |-> "set", els |-> <<V(G("g")), V(A("all"))>>]) >>)],
        [i \in DOMAIN EntB |-> Row(<<"has", w, i>>, env,
            [j \in DOMAIN AttrB |-> [op |-> "has", a |-> V(EntB[i]), attr |-> AttrB[j]]]
            \o [j \in DOMAIN AttrB |-> [op |-> "access", a |-> V(EntB[i]), attr |-> AttrB[j]]]
            \o [j \in DOMAIN TagB |-> Bin("hasTag", V(EntB[i]), Str(TagB[j]))]
            \o [j \in DOMAIN TagB |-> Bin("getTag", V(EntB[i]), Str(TagB[j]))]
            \o [j \in DOMAIN TypeB |-> [op |-> "is", a |-> V(EntB[i]), ty |-> TypeB[j]]]
            \o [j \in DOMAIN TypeB |-> [op |-> "isIn", a |-> V(EntB[i]), ty |-> TypeB[j], e |-> V(G("top"))]]
            \o [j \in DOMAIN TypeB |-> [op |-> "isIn", a |-> V(EntB[i]), ty |-> TypeB[j], e |-> ErrE]])],
        << Row(<<"vars", w>>, env,
            << Var("principal"), Var("action"), Var("resource"), Var("context"),
               [op |-> "access", a |-> Var("context"), attr |-> "k"],
               [op |-> "has", a |-> Var("context"), attr |-> "k"],
               [op |-> "access", a |-> [op |-> "access", a |-> Var("context"), attr |-> "r"], attr |-> "n"],
               [op |-> "access", a |-> [op |-> "access", a |-> Var("principal"), attr |-> "r"], attr |-> "x"],
               [op |-> "access", a |-> [op |-> "access", a |-> Var("principal"), attr |-> "e"], attr |-> "n"],
               Bin("in", Var("principal"), Var("resource")), Bin("in", Var("action"), V(A("all"))),
               [op |-> "has", a |-> V(VRec([a |-> VInt(1)])), attr |-> "a"],
               [op |-> "has", a |-> V(VRec([a |-> VInt(1)])), attr |-> "b"],
               [op |-> "access", a |-> V(VRec([a |-> VInt(1)])), attr |-> "b"],
               [op |-> "rec", kv |-> <<[key |-> "a", val |-> V(VInt(1))], [key |-> "b", val |-> ErrE]>>],
               [op |-> "rec", kv |-> <<[key |-> "a", val |-> Var("principal")]>>],
               [op |-> "set", els |-> <<V(VInt(1)), V(VInt(1)), V(VTrue), ErrE>>],
               [op |-> "set", els |-> <<V(VInt(1)), V(VInt(1)), V(VTrue), Var("context")>>] >>) >> >>)]),
    ExtGrid("lessThan", Decs, Decs), ExtGrid("lessThanOrEqual", Decs, Decs),
    ExtGrid("greaterThan", Decs, Decs), ExtGrid("greaterThanOrEqual", Decs, Decs),
    ExtRow("isIpv4", ValidIps), ExtRow("isIpv6", ValidIps), ExtRow("isLoopback", ValidIps),
    ExtRow("isMulticast", ValidIps), ExtGrid("isInRange", ValidIps, ValidIps),
    ExtRow("toDate", Dts), ExtRow("toTime", Dts), ExtGrid("offset", Dts, Durs), ExtGrid("durationSince", Dts, Dts),
    ExtRow("toDays", Durs), ExtRow("toHours", Durs), ExtRow("toMinutes", Durs), ExtRow("toSeconds", Durs),
    ExtRow("toMilliseconds", Durs),
    ExtRow("decimal", SeqMap(VStr, DecLits)), ExtRow("datetime", SeqMap(VStr, DtLits)),
    ExtRow("duration", SeqMap(VStr, DurLits)), ExtRow("ip", SeqMap(VStr, IpLits)),
    [e \in DOMAIN EditSeeds |-> Row(<<"edit", e>>, Env1W,
        LET es == Edits(EditSeeds[e][2]) IN [i \in DOMAIN es |-> Ext(EditSeeds[e][1], <<Str(es[i])>>)])],
    \* every extension function with 0..3 arguments, arguments of every kind
    [f \in DOMAIN Ext1 |-> Row(<<"arity1", f>>, Env1W,
        << Ext(Ext1[f], <<>>), Ext(Ext1[f], <<V(MixedB[3]), V(MixedB[3])>>) >>
        \o [i \in DOMAIN MixedB |-> Ext(Ext1[f], <<V(MixedB[i])>>)])],
    Flat([f \in DOMAIN Ext2 |-> << Row(<<"arity2", f>>, Env1W,
        << Ext(Ext2[f], <<>>), Ext(Ext2[f], <<V(MixedB[3])>>), Ext(Ext2[f], <<V(MixedB[3]), V(MixedB[3]), V(MixedB[3])>>) >>) >>
        \o ExtGrid(Ext2[f], MixedB, MixedB)]),
    << Row(<<"unknownFn">>, Env1W, << Ext("nosuch", <<>>), Ext("nosuch", <<V(VInt(1))>>), Ext("Decimal", <<Str(<<49, 46, 48>>)>>),
                                    Ext("ip::x", <<Str(<<49>>)>>) >>) >>,
    \* short-circuit operators: every combination of bool / non-bool / failing operands
    [i \in DOMAIN SCOps |-> Row(<<"shortcircuit", i>>, Env1W,
        Flat([j \in DOMAIN SCOps |->
           << Bin("and", SCOps[i], SCOps[j]), Bin("or", SCOps[i], SCOps[j]) >>
           \o [m \in DOMAIN SCOps |-> [op |-> "if", c |-> SCOps[i], t |-> SCOps[j], e |-> SCOps[m]]]]))]
  >>)

Rows == QuickRows

VARIABLES row, out
vars == <<row, out>>

Init == row \in DOMAIN Rows /\ out = <<>>

Compute ==
  /\ out = <<>>
  /\ LET r == Rows[row]
         env == EnvFromWire(r.env)
     IN out' = [i \in DOMAIN r.exprs |-> Eval(ExprFromWire(r.exprs[i]), env)]
  /\ UNCHANGED row

Next == Compute

Emit ==
  out # <<>> =>
    Serialize(ToJson([op |-> "eval", name |-> Rows[row].name, env |-> Rows[row].env,
                      exprs |-> Rows[row].exprs, exp |-> out]) \o "\n",
              "cases.ndjson",
              [format |-> "TXT", charset |-> "UTF-8", openOptions |-> <<"WRITE", "CREATE", "APPEND">>]).exitValue = 0

\* transcription sanity (M1): properties of the specification itself
SanityLt == \A i \in DOMAIN LongB, j \in DOMAIN LongB :
              Lt(LongB[i], LongB[j]) = ~Le(LongB[j], LongB[i])
SanityDate == \A i \in DOMAIN DtB :
              LET d == DtToDate(DtB[i])  t == DtToTime(DtB[i]) IN
              /\ t.ok /\ Le(Zero, t.v.n) /\ Lt(t.v.n, FromInt(MsPerDay))
              /\ (d.ok => Add(d.v.n, t.v.n) = DtB[i])
ASSUME SanityLt /\ SanityDate
=============================================================================
