----------------------------- MODULE MC_BatchGen -----------------------------
(***************************************************************************)
(* C05, M2: concrete batch requests.  Templates put variables in each of   *)
(* the four request parts, nested in context records and sets, the same    *)
(* variable under several keys, two variables; value lists are empty,      *)
(* singleton, with duplicates; fault plans: none, the callback fails at    *)
(* its k-th invocation, the context is cancelled during the k-th callback, *)
(* for every k.  Each case is emitted with the multiset of callbacks the   *)
(* specification expects (Batch!ExpectedBag) and the expected error class. *)
(***************************************************************************)
EXTENDS Batch, Json, IOUtils, TLC

Unk(n) == [k |-> "unknown", name |-> n]
VV(v) == [op |-> "val", v |-> v]
Var(n) == [op |-> "var", name |-> n]
Acc(a, k) == [op |-> "access", a |-> a, attr |-> k]
Eq(a, b) == [op |-> "eq", l |-> a, r |-> b]
When(e) == [kind |-> "when", body |-> e]
Pol(eff, ps, cs) == [effect |-> eff, annos |-> <<>>, principal |-> ps, action |-> ScopeAll, resource |-> ScopeAll, conds |-> cs]

Policies == <<
  [id |-> "p1", policy |-> Pol("permit", ScopeAll, <<When(Eq(Acc(Var("context"), "k"), VV(VInt(1))))>>)],
  [id |-> "p2", policy |-> Pol("forbid", ScopeAll, <<When([op |-> "and", l |-> [op |-> "has", a |-> Var("context"), attr |-> "k2"],
                                                                   r |-> Eq(Acc(Var("context"), "k2"), VV(VInt(2)))])>>)],
  [id |-> "p3", policy |-> Pol("permit", ScopeIn(G("g")), <<>>)],
  [id |-> "p4", policy |-> Pol("permit", ScopeEq(U("b")), <<When(Eq(Var("resource"), VV(G("g"))))>>)],
  [id |-> "p5", policy |-> Pol("permit", ScopeAll, <<When(Eq(Var("context"), VV(VRec([k |-> VInt(2), k2 |-> VInt(2)]))))>>)],
  [id |-> "p6", policy |-> Pol("forbid", ScopeAll, <<When([op |-> "contains", l |-> Acc(Var("context"), "ss"), r |-> VV(VInt(2))])>>)],
  [id |-> "p7", policy |-> Pol("permit", ScopeAll, <<When([op |-> "add", l |-> Acc(Var("context"), "k"), r |-> VV(VStr(<<97>>))])>>)],
  \* conditions that relate two request parts (two variables decided at different recursion levels)
  [id |-> "p8", policy |-> Pol("permit", ScopeAll, <<When([op |-> "and", l |-> [op |-> "has", a |-> Var("context"), attr |-> "owner"],
                                                                   r |-> Eq(Var("principal"), Acc(Var("context"), "owner"))])>>)],
  [id |-> "p9", policy |-> Pol("forbid", ScopeAll, <<When([op |-> "and", l |-> [op |-> "has", a |-> Var("context"), attr |-> "ss"],
                                                                   r |-> [op |-> "contains", l |-> Acc(Var("context"), "ss"), r |-> Var("resource")]])>>)],
  [id |-> "p10", policy |-> Pol("permit", ScopeAll, <<When([op |-> "in", l |-> Var("principal"), r |-> Var("resource")])>>)]
>>

B == Env1W
Ctx(f) == [k |-> "rec", f |-> f]
Ints(s) == [i \in DOMAIN s |-> VInt(s[i])]
Templates == <<
  [t |-> [B EXCEPT !.p = Unk("x")], vars |-> <<[key |-> "x", values |-> <<U("a"), U("b"), U("zz")>>]>>],
  [t |-> [B EXCEPT !.a = Unk("x")], vars |-> <<[key |-> "x", values |-> <<A("view"), A("edit")>>]>>],
  [t |-> [B EXCEPT !.r = Unk("x")], vars |-> <<[key |-> "x", values |-> <<G("g"), U("b"), G("g")>>]>>],
  [t |-> [B EXCEPT !.c = Ctx([k |-> Unk("x"), s |-> VStr(<<97>>)])], vars |-> <<[key |-> "x", values |-> Ints(<<1, 2, 1>>)]>>],
  [t |-> [B EXCEPT !.c = Ctx([k |-> Unk("x"), k2 |-> Unk("x")])], vars |-> <<[key |-> "x", values |-> Ints(<<1, 2>>)]>>],
  [t |-> [B EXCEPT !.c = Ctx([k |-> Unk("x"), r |-> Ctx([n |-> Unk("x"), k2 |-> Unk("y")]), k2 |-> Unk("y")])],
   vars |-> <<[key |-> "x", values |-> Ints(<<1, 2>>)], [key |-> "y", values |-> Ints(<<2, 3, 4>>)]>>],
  [t |-> [B EXCEPT !.c = Ctx([k |-> VInt(1), ss |-> [k |-> "set", els |-> <<Unk("x"), VInt(5)>>]])],
   vars |-> <<[key |-> "x", values |-> Ints(<<2, 5, 7>>)]>>],
  [t |-> [B EXCEPT !.p = Unk("x"), !.c = Ctx([k |-> Unk("y"), k2 |-> Unk("y")])],
   vars |-> <<[key |-> "x", values |-> <<U("a"), U("b")>>], [key |-> "y", values |-> Ints(<<1, 2>>)]>>],
  [t |-> [B EXCEPT !.p = Unk("x"), !.r = Unk("x")], vars |-> <<[key |-> "x", values |-> <<U("b"), G("g")>>]>>],
  [t |-> [B EXCEPT !.c = Ctx([k |-> Unk("x")])], vars |-> <<[key |-> "x", values |-> <<>>]>>],
  [t |-> [B EXCEPT !.p = Unk("x"), !.c = Ctx([k |-> Unk("y")])],
   vars |-> <<[key |-> "x", values |-> <<U("a")>>], [key |-> "y", values |-> <<>>]>>],
  [t |-> [B EXCEPT !.c = Ctx([k |-> Unk("x")])], vars |-> <<>>],                                             \* unbound
  [t |-> B, vars |-> <<[key |-> "x", values |-> Ints(<<1>>)]>>],                                               \* unused
  [t |-> B, vars |-> <<>>],                                                                                   \* no variables
  [t |-> [B EXCEPT !.p = Unk("x"), !.c = Ctx([owner |-> Unk("y")])],
   vars |-> <<[key |-> "x", values |-> <<U("a"), U("b")>>], [key |-> "y", values |-> <<U("b"), U("a"), G("g")>>]>>],
  [t |-> [B EXCEPT !.p = Unk("x"), !.c = Ctx([owner |-> Unk("y")])],
   vars |-> <<[key |-> "x", values |-> <<U("a"), U("b"), U("zz")>>], [key |-> "y", values |-> <<U("b"), U("a")>>]>>],
  [t |-> [B EXCEPT !.r = Unk("x"), !.c = Ctx([ss |-> [k |-> "set", els |-> <<Unk("y"), U("zz")>>]])],
   vars |-> <<[key |-> "x", values |-> <<G("g"), U("b"), U("a")>>], [key |-> "y", values |-> <<U("b"), U("a")>>]>>],
  [t |-> [B EXCEPT !.r = Unk("x"), !.c = Ctx([ss |-> [k |-> "set", els |-> <<Unk("y"), U("zz")>>]])],
   vars |-> <<[key |-> "x", values |-> <<G("g"), U("b")>>], [key |-> "y", values |-> <<U("b"), U("a"), G("g")>>]>>],
  [t |-> [B EXCEPT !.p = Unk("x"), !.r = Unk("y")],
   vars |-> <<[key |-> "x", values |-> <<U("a"), U("b")>>], [key |-> "y", values |-> <<G("g"), G("top"), U("b")>>]>>],
  [t |-> [B EXCEPT !.p = Unk("x"), !.a = Unk("y"), !.c = Ctx([k |-> Unk("z"), k2 |-> Unk("z")])],
   vars |-> <<[key |-> "x", values |-> <<U("a"), U("b")>>], [key |-> "y", values |-> <<A("view")>>],
              [key |-> "z", values |-> Ints(<<1, 2, 2>>)]>>]
>>

PolicySets == << <<1, 2, 3, 4, 5, 6, 7, 8, 9, 10>>, <<1, 3>>, <<2, 5, 6>>, <<>>, <<8>>, <<9, 3>>, <<10, 4>> >>
PolsOf(s) == [i \in DOMAIN PolicySets[s] |-> Policies[PolicySets[s][i]]]

VARIABLES ti, si, fault, done
vars == <<ti, si, fault, done>>

TM(i) == EnvFromWire(Templates[i].t)
VS(i) == LET ws == Templates[i].vars IN
         [k \in DOMAIN ws |-> [key |-> ws[k].key, values |-> [j \in DOMAIN ws[k].values |-> FromWire(ws[k].values[j])]]]
NCalls(i) == IF PreError(TM(i), VS(i)) \/ NoWork(TM(i), VS(i)) THEN 0 ELSE Total(VS(i))

Init == /\ ti \in DOMAIN Templates /\ si \in DOMAIN PolicySets
        /\ fault \in [kind : {"none", "fail", "cancel", "precancel"}, at : 1..13]
        /\ (fault.kind \in {"none", "precancel"} => fault.at = 1)
        /\ fault.at <= NCalls(ti) + 1
        /\ done = FALSE
Next == ~done /\ done' = TRUE /\ UNCHANGED <<ti, si, fault>>

Case == LET T == Templates[ti]
            tm == TM(ti)
            vs == VS(ti)
            ps == PolicySetFromWire(PolsOf(si))
            pre == IF PreError(tm, vs) THEN "error" ELSE IF fault.kind = "precancel" THEN "precancel"
                   ELSE IF NoWork(tm, vs) THEN "nowork" ELSE "run"
            bag == IF pre = "run" THEN ExpectedBag(ps, tm, vs) ELSE <<>>
        IN [op |-> "batch", policies |-> PolsOf(si), template |-> T.t, vars |-> T.vars, fault |-> fault,
            exp |-> [pre |-> pre, total |-> IF pre = "run" THEN Total(vs) ELSE 0,
                     calls |-> IF pre = "run" THEN [c \in 1..Cardinality(DOMAIN bag) |->
                                                     LET call == SetToSeq(DOMAIN bag)[c] IN [call |-> call, count |-> bag[call]]]
                               ELSE <<>>]]

Emit == done => Serialize(ToJson(Case) \o "\n", "cases.ndjson",
                          [format |-> "TXT", charset |-> "UTF-8", openOptions |-> <<"WRITE", "CREATE", "APPEND">>]).exitValue = 0
=============================================================================
