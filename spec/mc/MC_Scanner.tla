----------------------------- MODULE MC_Scanner -----------------------------
(***************************************************************************)
(* C18, M1 + M2: every reader schedule at a scaled-down buffer.  The       *)
(* documents are built so that a word, a '(' token, a string, a 2-, 3- and *)
(* 4-byte character, a blank and a line feed each straddle every buffer    *)
(* boundary.  Every terminal behaviour is emitted (document, the (n, eof,  *)
(* fail) of every Read, the tokens or the error) and replayed on the real  *)
(* tokenizer with a reader that returns exactly those reads.               *)
(***************************************************************************)
EXTENDS Scanner, Json, IOUtils

\* a = 97, ( = 40, " = 34, space = 32, LF = 10, e-acute = C3 A9, euro = E2 82 AC, emoji = F0 9F 98 80
E2 == <<195, 169>>   E3 == <<226, 130, 172>>   E4 == <<240, 159, 152, 128>>
Q == <<34>>
MCDocs == { <<>>, <<97>>, <<10>>, <<32, 32>>,
            <<97, 98, 99, 100, 101, 102, 103, 104>>,                    \* one word longer than the buffer
            <<97, 98, 32, 99, 100, 101, 10, 102, 40, 103, 10, 10, 104>>,
            <<97, 98, 99>> \o Q \o E2 \o <<100>> \o E2 \o <<32>> \o E2 \o Q,
            <<97>> \o Q \o E3 \o <<98>> \o E3 \o Q \o <<10>> \o Q \o E3 \o Q \o <<99>>,
            Q \o E4 \o <<97>> \o E4 \o Q \o <<32, 40>> \o Q \o E4 \o Q,
            <<97, 98, 99, 100>> \o Q \o E4 \o Q \o <<10, 40, 40>>,
            <<40, 97, 40, 10>> \o Q \o E3 \o E2 \o <<40>> \o E4 \o Q \o <<98>>,
            Q \o <<97, 32, 32, 98, 99, 100, 101, 102, 103>> \o Q \o Q \o Q \o <<104>>,
            <<32, 10, 32, 97, 98, 99, 100, 10, 32, 32, 101, 102, 32>> }

Emit ==
  ~Running =>
    Serialize(ToJson([op |-> "scanreplay", doc |-> doc, reads |-> reads, failAt |-> failAt,
                      exp |-> IF pc = "done" THEN [ok |-> TRUE, toks |-> toks] ELSE [ok |-> FALSE]]) \o "\n",
              "cases.ndjson",
              [format |-> "TXT", charset |-> "UTF-8", openOptions |-> <<"WRITE", "CREATE", "APPEND">>]).exitValue = 0
=============================================================================
