--------------------------- MODULE MC_HierarchyGen ---------------------------
(***************************************************************************)
(* C03, M2: every store over N nodes (every parent function on the present *)
(* nodes, every presence set), with the vector of answers the              *)
(* specification defines for every ordered pair, every target set and      *)
(* every scope form (HierVec).  One JSON line per store.                   *)
(***************************************************************************)
EXTENDS HierVec, Json, IOUtils, TLC

CONSTANT N
Nodes == 1..N

SetOfMask(k) == { i \in Nodes : (k \div (2 ^ (i - 1))) % 2 = 1 }
AllSets == [k \in 1..(2 ^ N) |-> SetOfMask(k - 1)]

VARIABLES par, present, out
vars == <<par, present, out>>

Init == /\ present \in SUBSET Nodes
        /\ par \in [Nodes -> SUBSET Nodes]
        /\ \A x \in Nodes \ present : par[x] = {}
        /\ out = <<>>

Compute == /\ out = <<>>
           /\ out' = Vec(N, par, present, AllSets)
           /\ UNCHANGED <<par, present>>
Next == Compute

Emit ==
  out # <<>> =>
    Serialize(ToJson([op |-> "hier", n |-> N, par |-> par, present |-> present, sets |-> AllSets, exp |-> out]) \o "\n",
              "cases.ndjson",
              [format |-> "TXT", charset |-> "UTF-8", openOptions |-> <<"WRITE", "CREATE", "APPEND">>]).exitValue = 0
=============================================================================
