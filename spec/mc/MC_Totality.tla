---------------------------- MODULE MC_Totality ----------------------------
(***************************************************************************)
(* C10, M2: TLC reads the seed documents recorded from the real encoders   *)
(* (seeds.ndjson: kind + TJSON document) and emits EVERY single-position   *)
(* mutation of every seed as one case for the harness to run through the   *)
(* matching decoders, and on to the encoders and the authorizer.           *)
(***************************************************************************)
EXTENDS Totality, Json, IOUtils, TLC

Seeds == ndJsonDeserialize("seeds.ndjson")

VARIABLES idx, done
vars == <<idx, done>>
Init == idx \in DOMAIN Seeds /\ done = FALSE
Next == ~done /\ done' = TRUE /\ UNCHANGED idx

Opts == [format |-> "TXT", charset |-> "UTF-8", openOptions |-> <<"WRITE", "CREATE", "APPEND">>]
Emit ==
  done => LET ms == Mutants(Seeds[idx].doc) IN
          \A k \in DOMAIN ms :
            Serialize(ToJson([op |-> "total", kind |-> Seeds[idx].kind, seed |-> idx, mutant |-> k, doc |-> ms[k]]) \o "\n",
                      "cases.ndjson", Opts).exitValue = 0
=============================================================================
