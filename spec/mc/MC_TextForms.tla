--------------------------- MODULE MC_TextForms ---------------------------
(***************************************************************************)
(* C12, M2: parse tables and constructor tables.  TLC computes, for every  *)
(* literal text (the boundary lists, the literals assembled from           *)
(* components and every single-character edit of representative literals), *)
(* what the documented syntax makes of it, and for every constructor call  *)
(* the exact result; the harness asks types.Parse*, the JSON __extn        *)
(* decoder, the constructor functions through the evaluator, and the       *)
(* types.New* functions.                                                   *)
(***************************************************************************)
EXTENDS TextForms, SyntaxTables, Json, IOUtils, TLC


EditAlphabet == <<48, 49, 57, 46, 45, 43, 58, 84, 90, 100, 104, 109, 115, 47, 32, 102, 95, 37>>
Edits(s) ==
  [i \in 1..Len(s) |-> SubSeq(s, 1, i - 1) \o SubSeq(s, i + 1, Len(s))]
  \o [n \in 1..(Len(s) * Len(EditAlphabet)) |->
        LET i == ((n - 1) \div Len(EditAlphabet)) + 1  c == EditAlphabet[((n - 1) % Len(EditAlphabet)) + 1]
        IN SubSeq(s, 1, i - 1) \o <<c>> \o SubSeq(s, i + 1, Len(s))]
  \o [n \in 1..((Len(s) + 1) * Len(EditAlphabet)) |->
        LET i == ((n - 1) \div Len(EditAlphabet)) + 1  c == EditAlphabet[((n - 1) % Len(EditAlphabet)) + 1]
        IN SubSeq(s, 1, i - 1) \o <<c>> \o SubSeq(s, i, Len(s))]
  \o [i \in 1..(Len(s) - 1) |-> SubSeq(s, 1, i - 1) \o <<s[i + 1], s[i]>> \o SubSeq(s, i + 2, Len(s))]

EditSeeds == << <<"decimal", <<45, 49, 50, 46, 51, 52>>>>,                                     \* -12.34
                <<"decimal", <<57,50,50,51,51,55,50,48,51,54,56,53,52,55,55,46,53,56,48,55>>>>, \* 922337203685477.5807
                <<"duration", <<45, 49, 100, 50, 104, 51, 109, 52, 115, 53, 109, 115>>>>,       \* -1d2h3m4s5ms
                <<"duration", <<49,48,54,55,53,49,57,57,49,49,54,55,100,55,104,49,50,109,53,53,115,56,48,55,109,115>>>>,
                <<"datetime", <<50,48,50,52,45,48,50,45,50,57,84,50,51,58,53,57,58,53,57,46,57,57,57,43,48,49,51,48>>>>,
                <<"datetime", <<50,48,50,52,45,48,50,45,50,57>>>>,
                <<"datetime", <<45,48,48,48,48,48,48,48,48,49,45,49,50,45,51,49,84,50,51,58,53,57,58,53,57,90>>>>,
                <<"datetime", <<43,50,57,50,50,55,56,57,57,52,45,48,56,45,49,55,84,48,55,58,49,50,58,53,53,46,56,48,55,90>>>>,
                <<"ip", <<49, 48, 46, 49, 46, 50, 46, 51, 47, 50, 52>>>>,                       \* 10.1.2.3/24
                <<"ip", <<102, 102, 48, 50, 58, 58, 49, 47, 49, 50, 48>>>>,                     \* ff02::1/120
                <<"ip", <<49,58,50,58,51,58,52,58,53,58,54,58,55,58,56>>>> >>                   \* 1:2:3:4:5:6:7:8

Flat(ss) == LET RECURSIVE F(_) F(i) == IF i > Len(ss) THEN <<>> ELSE ss[i] \o F(i + 1) IN F(1)

\* chunks of at most n texts
Chunks(kind, name, texts, n) ==
  [c \in 1..((Len(texts) + n - 1) \div n) |->
     [op |-> "parsetext", kind |-> kind, name |-> <<name, c>>,
      texts |-> SubSeq(texts, (c - 1) * n + 1, IF c * n > Len(texts) THEN Len(texts) ELSE c * n)]]

ParseRows ==
  Flat(<< Chunks("decimal", "lits", DecLits \o DecLits2, 120),
          Chunks("duration", "lits", DurLits \o DurLits2, 120),
          Chunks("datetime", "lits", DtLits \o DtLits2, 150),
          Chunks("ip", "lits", IpLits \o IpLits2, 120),
          Flat([e \in DOMAIN EditSeeds |-> Chunks(EditSeeds[e][1], <<"edit", e>>, Edits(EditSeeds[e][2]), 200)]) >>)

\* NewDecimal(i, e)
Exps == [k \in 1..23 |-> k - 7]          \* -6 .. 16
DecIs == LongB \o WrapB
NewDecRows == [k \in DOMAIN Exps |->
                 [op |-> "construct", fn |-> "NewDecimal", name |-> <<"NewDecimal", Exps[k]>>, e |-> Exps[k], is |-> DecIs]]

\* NewDecimalFromFloat(m * 2^p): exactly representable inputs whose product with 10^4 is exact in a
\* double (|m| < 2^39), and the edges of the range
FloatSmall == << <<0, 0>>, <<1, 0>>, <<-1, 0>>, <<1, -1>>, <<-1, -1>>, <<3, -2>>, <<-3, -2>>, <<1, -4>>, <<15, -4>>, <<-15, -4>>,
                 <<12345, 0>>, <<-12345, -3>>, <<1, 10>>, <<-1, 20>>, <<1, 30>>, <<123456789, -4>>, <<1, 38>>, <<-1, 38>>,
                 <<1, -5>>, <<1, -10>>, <<-1, -14>>, <<5, -17>> >>
\* the edges of the range: 2^50, 2^60, 2^62, 922337203685477.625 = 7378697629483821 * 2^-3 (the first double
\* whose product with 10^4 exceeds 2^63 - 1), NaN and the infinities (p = 9999 / 9998 / 9997 on the wire)
FloatNums == [i \in DOMAIN FloatSmall |-> [m |-> FromInt(FloatSmall[i][1]), p |-> FloatSmall[i][2]]]
             \o << [m |-> One, p |-> 50], [m |-> FromInt(-1), p |-> 50], [m |-> One, p |-> 60], [m |-> One, p |-> 62],
                   [m |-> FromInt(-1), p |-> 62], [m |-> Mk(FALSE, <<3821, 2948, 6976, 7378>>), p |-> -3],
                   [m |-> Mk(FALSE, <<3822, 2948, 6976, 7378>>), p |-> -3] >>
FloatSpecials == << [m |-> Zero, p |-> 9999], [m |-> Zero, p |-> 9998], [m |-> Zero, p |-> 9997] >>
FloatRows == << [op |-> "construct", fn |-> "NewDecimalFromFloat", name |-> <<"NewDecimalFromFloat">>,
                 fs |-> FloatNums \o FloatSpecials] >>

\* Duration.Duration(): around the largest millisecond count whose nanoseconds fit 64 bits (9223372036854), around the
\* bound the implementation might confuse it with (9223372036854775 = MaxInt64 / 1000), and the boundary longs
DurMs == << Mk(FALSE, <<6854, 7203, 2233, 9>>), Mk(FALSE, <<6855, 7203, 2233, 9>>), Mk(TRUE, <<6854, 7203, 2233, 9>>), Mk(TRUE, <<6855, 7203, 2233, 9>>),
            Mk(FALSE, <<4775, 3685, 3720, 9223>>), Mk(FALSE, <<4776, 3685, 3720, 9223>>), Mk(TRUE, <<4775, 3685, 3720, 9223>>),
            Mk(TRUE, <<4776, 3685, 3720, 9223>>), Mk(FALSE, <<0, 0, 0, 10>>), Mk(TRUE, <<0, 0, 0, 10>>), Mk(FALSE, <<9999, 9999, 9999, 9999>>) >>
DurRows == << [op |-> "construct", fn |-> "Duration.Duration", name |-> <<"Duration.Duration">>, is |-> DurMs \o LongB] >>

Units == <<"Duration.ToDays", "Duration.ToHours", "Duration.ToMinutes", "Duration.ToSeconds", "Duration.ToMilliseconds">>
UnitRows == [u \in DOMAIN Units |-> [op |-> "construct", fn |-> Units[u], name |-> <<Units[u]>>, is |-> DurMs \o LongB]]
GoRows == << [op |-> "construct", fn |-> "NewDuration", name |-> <<"NewDuration">>, is |-> DurMs \o LongB],
             [op |-> "construct", fn |-> "Datetime.Time", name |-> <<"Datetime.Time">>, is |-> DurMs \o LongB] >>

Rows == ParseRows \o NewDecRows \o FloatRows \o DurRows \o UnitRows \o GoRows

VARIABLES row, out
vars == <<row, out>>

Init == row \in DOMAIN Rows /\ out = <<>>

Expected(r) ==
  IF r.op = "parsetext" THEN [i \in DOMAIN r.texts |-> Obs(SpecRead(r.kind, r.texts[i]))]
  ELSE IF r.fn = "NewDecimal" THEN [i \in DOMAIN r.is |-> Obs(NewDecimalExact(r.is[i], r.e))]
  ELSE IF r.fn = "Duration.Duration" THEN [i \in DOMAIN r.is |-> Obs(DurationToNanos(r.is[i]))]
  ELSE IF r.fn \in SeqRange(Units) THEN [i \in DOMAIN r.is |-> Obs(DurationToUnit(r.fn, r.is[i]))]
  ELSE IF r.fn = "NewDuration" THEN [i \in DOMAIN r.is |-> Obs(NewDurationFromNanos(r.is[i]))]
  ELSE IF r.fn = "Datetime.Time" THEN [i \in DOMAIN r.is |-> Obs(Ok(VDt(r.is[i])))]
  ELSE [i \in DOMAIN r.fs |-> IF r.fs[i].p > 9000 THEN Obs(PFail) ELSE Obs(NewDecimalFromFloatExact(r.fs[i].m, r.fs[i].p))]

Compute == /\ out = <<>>
           /\ out' = <<Expected(Rows[row])>>
           /\ UNCHANGED row
Next == Compute

Emit ==
  out # <<>> =>
    Serialize(ToJson(Rows[row] @@ [exp |-> out[1]]) \o "\n", "cases.ndjson",
              [format |-> "TXT", charset |-> "UTF-8", openOptions |-> <<"WRITE", "CREATE", "APPEND">>]).exitValue = 0

\* M1 sanity of the literal parsers: the boundary values print-parse in the specification itself
\* (a valid literal of each boundary value is in the lists: every DecB / DurB value is hit by some literal)
ASSUME SpecRead("decimal", DecLits[12]) = Ok(VDec(MaxI64))
ASSUME SpecRead("decimal", DecLits[13]) = Ok(VDec(MinI64))
ASSUME ~SpecRead("decimal", DecLits[14]).ok
ASSUME NewDecimalExact(FromInt(184468), 14) = PFail
ASSUME NewDecimalExact(FromInt(92233), 10) = Ok(VDec(Mul(FromInt(92233), Pow10(14))))
ASSUME NewDecimalFromFloatExact(FromInt(3), -2) = Ok(VDec(FromInt(7500)))
=============================================================================
