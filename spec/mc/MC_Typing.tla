----------------------------- MODULE MC_Typing -----------------------------
(***************************************************************************)
(* C15, input enumeration: a schema (entity types with required and        *)
(* optional attributes of every type, nested records, sets, the four       *)
(* extension types, tags, an entity-typed optional attribute, an action    *)
(* group, two actions with different contexts), the conforming             *)
(* environments (every combination of optional attributes / tags / context *)
(* members present and absent, entities present in and absent from the     *)
(* store, both actions), and the policies: every operator over every       *)
(* ordered pair of typed leaves (attributes of principal / resource /      *)
(* context at depth 1 and 2, tags, literals of every type), every unary    *)
(* operator and extension function over every leaf, and the guard forms    *)
(* (has / hasTag before access, in then / else / && / || / ! positions),   *)
(* under three action scopes.                                              *)
(* M1 (ASSUME / invariant EnvsConform): every environment of the universe  *)
(* conforms to the schema per Typing!ConformsEnv.                          *)
(***************************************************************************)
EXTENDS Typing, Json, IOUtils

CONSTANTS Stride, ScopeStride

NoA == <<>>
TS == [t |-> "string"]  TL == [t |-> "long"]  TB == [t |-> "bool"]
TExt(n) == [t |-> "ext", name |-> n]
TSetOf(e) == [t |-> "set", el |-> e]
TRec(attrs) == [t |-> "rec", attrs |-> attrs]
TEnt(n) == [t |-> "entref", q |-> "", n |-> n]
Attr(n, ty, opt) == [name |-> n, type |-> ty, opt |-> opt, annos |-> NoA]
None == [t |-> "none"]
Ref(n) == [q |-> "", n |-> n]

Schema ==
  [ns |-> << [name |-> "", annos |-> NoA, enums |-> <<>>, commons |-> <<>>,
     entities |-> <<
       [name |-> "User", annos |-> NoA, parents |-> <<Ref("Group")>>,
        shape |-> << Attr("name", TS, FALSE), Attr("age", TL, FALSE), Attr("opt", TL, TRUE), Attr("mgr", TEnt("User"), TRUE),
                     Attr("ip", TExt("ipaddr"), FALSE), Attr("d", TExt("decimal"), TRUE), Attr("t", TExt("datetime"), FALSE),
                     Attr("dur", TExt("duration"), FALSE), Attr("r", TRec(<<Attr("x", TL, FALSE), Attr("y", TS, TRUE)>>), FALSE),
                     Attr("ss", TSetOf(TS), FALSE), Attr("flag", TB, FALSE),
                     Attr("__tag:t1", TL, TRUE) >>,     \* an attribute whose name reads like a tag capability
        tags |-> TL],
       [name |-> "Group", annos |-> NoA, parents |-> <<>>, shape |-> <<Attr("n", TL, FALSE)>>, tags |-> None],
       [name |-> "Doc", annos |-> NoA, parents |-> <<>>,
        shape |-> << Attr("owner", TEnt("User"), FALSE), Attr("labels", TSetOf(TS), FALSE), Attr("opt", TS, TRUE),
                     Attr("r2", TRec(<<Attr("x", TL, TRUE), Attr("y", TS, TRUE)>>), FALSE) >>, tags |-> TS] >>,
     actions |-> <<
       [name |-> "view", annos |-> NoA, parents |-> <<[q |-> "G::Action", id |-> "grp"]>>,
        applies |-> [t |-> "some", principals |-> <<Ref("User")>>, resources |-> <<Ref("Doc")>>,
                     context |-> TRec(<<Attr("k", TL, FALSE), Attr("o", TS, TRUE), Attr("e", TEnt("User"), TRUE),
                                       \* one attribute named "r.q" and the path r . q: the same text, different places
                                       Attr("r.q", TRec(<<Attr("y", TS, TRUE)>>), FALSE),
                                       Attr("r", TRec(<<Attr("q", TRec(<<Attr("y", TS, TRUE)>>), FALSE)>>), FALSE)>>)]],
       [name |-> "edit", annos |-> NoA, parents |-> <<[q |-> "", id |-> "all"]>>,
        applies |-> [t |-> "some", principals |-> <<Ref("User"), Ref("Group")>>, resources |-> <<Ref("Doc"), Ref("User")>>, context |-> None]],
       [name |-> "all", annos |-> NoA, parents |-> <<>>, applies |-> [t |-> "none"]] >>],
     \* a second namespace: an action group of another action type (G::Action) that view belongs to
     [name |-> "G", annos |-> NoA, enums |-> <<>>, commons |-> <<>>, entities |-> <<>>,
      actions |-> << [name |-> "grp", annos |-> NoA, parents |-> <<>>, applies |-> [t |-> "none"]],
                     [name |-> "other", annos |-> NoA, parents |-> <<>>, applies |-> [t |-> "none"]] >>] >>]

RS == Resolve(Schema).v

\* ------------------------------------------------------------ environments (wire form)
E(ty, id) == VEnt(ty, id)
Ip == VIp(<<10, 0, 0, 1>>, 32)
URec(y) == [k |-> "rec", f |-> IF y THEN [x |-> VInt(3), y |-> VStr(<<121>>)] ELSE [x |-> VInt(3)]]
UAttrs(full) ==
  IF full THEN [name |-> VStr(<<97>>), age |-> VInt(30), opt |-> VInt(5), mgr |-> E("User", "u2"), ip |-> Ip, d |-> VDec(FromInt(15000)),
                t |-> VDt(FromInt(0)), dur |-> VDur(FromInt(1000)), r |-> URec(TRUE), ss |-> [k |-> "set", els |-> <<VStr(<<97>>)>>], flag |-> VTrue]
  ELSE ("__tag:t1" :> VInt(1)) @@
       [name |-> VStr(<<>>), age |-> VLong(MaxI64), ip |-> Ip, t |-> VDt(FromInt(0)), dur |-> VDur(FromInt(1)),
        r |-> URec(FALSE), ss |-> [k |-> "set", els |-> <<>>], flag |-> VFalse]
U1 == [uid |-> E("User", "u1"), parents |-> <<E("Group", "g1")>>, attrs |-> UAttrs(TRUE), tags |-> << <<<<116, 49>>, VInt(1)>> >>]
U2 == [uid |-> E("User", "u2"), parents |-> <<E("Group", "g1")>>, attrs |-> UAttrs(FALSE), tags |-> <<>>]
G1 == [uid |-> E("Group", "g1"), parents |-> <<>>, attrs |-> [n |-> VInt(1)], tags |-> <<>>]
D1 == [uid |-> E("Doc", "d1"), parents |-> <<>>, attrs |-> [owner |-> E("User", "u1"), labels |-> [k |-> "set", els |-> <<VStr(<<108>>)>>], opt |-> VStr(<<111>>),
                                                               r2 |-> [k |-> "rec", f |-> [x |-> VInt(1), y |-> VStr(<<121>>)]]],
       tags |-> << <<<<116, 49>>, VStr(<<120>>)>> >>]
D2 == [uid |-> E("Doc", "d2"), parents |-> <<>>, attrs |-> [owner |-> E("User", "ghost"), labels |-> [k |-> "set", els |-> <<>>], r2 |-> EmptyRec], tags |-> <<>>]
AView == [uid |-> E("Action", "view"), parents |-> <<E("G::Action", "grp")>>, attrs |-> <<>>, tags |-> <<>>]
AGrp == [uid |-> E("G::Action", "grp"), parents |-> <<>>, attrs |-> <<>>, tags |-> <<>>]
AOther == [uid |-> E("G::Action", "other"), parents |-> <<>>, attrs |-> <<>>, tags |-> <<>>]
AEdit == [uid |-> E("Action", "edit"), parents |-> <<E("Action", "all")>>, attrs |-> <<>>, tags |-> <<>>]
AAll == [uid |-> E("Action", "all"), parents |-> <<>>, attrs |-> <<>>, tags |-> <<>>]
Stores == << <<U1, U2, G1, D1, D2, AView, AEdit, AAll, AGrp, AOther>>, <<U2, D2, AView, AEdit, AAll, AGrp, AOther>> >>
YS == VRec([y |-> VStr(<<115>>)])
CtxView == << VRec(("r.q" :> YS) @@ [k |-> VInt(1), r |-> VRec([q |-> EmptyRec])]),
              VRec(("r.q" :> EmptyRec) @@ [k |-> VLong(MaxI64), o |-> VStr(<<115>>), e |-> E("User", "u1"), r |-> VRec([q |-> YS])]) >>
SetToSeqT(S) == LET RECURSIVE F(_) F(T) == IF T = {} THEN <<>> ELSE LET x == CHOOSE y \in T : TRUE IN <<x>> \o F(T \ {x}) IN F(S)
EnvsW ==
  LET view == { [p |-> p, a |-> E("Action", "view"), r |-> r, c |-> c, store |-> s] :
                  p \in {E("User", "u1"), E("User", "u2")}, r \in {E("Doc", "d1"), E("Doc", "d2")}, c \in Range(CtxView), s \in Range(Stores) }
      edit == { [p |-> p, a |-> E("Action", "edit"), r |-> r, c |-> EmptyRec, store |-> s] :
                  p \in {E("User", "u1"), E("User", "u2"), E("Group", "g1")}, r \in {E("Doc", "d1"), E("User", "u2")}, s \in Range(Stores) }
  IN SetToSeqT(view \cup edit)
Envs == [k \in DOMAIN EnvsW |-> EnvFromWire(EnvsW[k])]
EnvsConform == \A k \in DOMAIN Envs : ConformsEnv(RS, Envs[k])
ASSUME Resolve(Schema).ok
ASSUME EnvsConform

\* ------------------------------------------------------------ policies
V(v) == [op |-> "val", v |-> v]
Var(n) == [op |-> "var", name |-> n]
Acc(a, n) == [op |-> "access", a |-> a, attr |-> n]
Has(a, n) == [op |-> "has", a |-> a, attr |-> n]
Bin(op, l, r) == [op |-> op, l |-> l, r |-> r]
Un(op, a) == [op |-> op, a |-> a]
Ext(fn, args) == [op |-> "ext", fn |-> fn, args |-> args]
Str(s) == V(VStr(s))
P == Var("principal")  R == Var("resource")  C == Var("context")
T1 == Str(<<116, 49>>)
Leaves == << Acc(P, "age"), Acc(P, "opt"), Acc(C, "k"), Acc(Acc(P, "r"), "x"), V(VInt(1)), V(VLong(MaxI64)),
             Acc(P, "name"), Acc(Acc(P, "r"), "y"), Acc(C, "o"), Acc(R, "opt"), Str(<<115>>),
             V(VTrue), Acc(P, "flag"), Has(P, "opt"), Has(C, "o"), Bin("hasTag", P, T1),
             P, R, Acc(P, "mgr"), Acc(R, "owner"), Acc(C, "e"), V(E("User", "u1")), V(E("Group", "g1")), Var("action"),
             Acc(R, "labels"), Acc(P, "ss"), [op |-> "set", els |-> <<V(VInt(1)), V(VInt(2))>>],
             Acc(P, "ip"), Acc(P, "d"), Acc(P, "t"), Acc(P, "dur"), Ext("decimal", <<Str(<<49, 46, 48>>)>>), Ext("ip", <<Str(<<49, 46, 49, 46, 49, 46, 49>>)>>),
             Acc(P, "r"), C, Bin("getTag", P, T1), Bin("getTag", R, T1), Acc(Acc(P, "mgr"), "age"), Acc(Acc(R, "owner"), "name") >>
BinOps == <<"and", "or", "eq", "ne", "lt", "le", "gt", "ge", "add", "sub", "mul", "in", "contains", "containsAll", "containsAny", "hasTag", "getTag">>
UnOps == <<"not", "neg", "isEmpty">>
Ext1 == <<"isIpv4", "isLoopback", "toDate", "toTime", "toDays", "toMilliseconds", "decimal", "ip", "datetime", "duration">>
Ext2 == <<"lessThan", "greaterThanOrEqual", "isInRange", "offset", "durationSince">>
NL == Len(Leaves)
Flat(ss) == LET RECURSIVE F(_) F(i) == IF i > Len(ss) THEN <<>> ELSE ss[i] \o F(i + 1) IN F(1)

Guarded ==
  LET opt == Acc(P, "opt")  hasOpt == Has(P, "opt")  gt1 == Bin("gt", opt, V(VInt(1)))  mgrAge == Acc(Acc(P, "mgr"), "age")
      tag == Bin("getTag", P, T1)  hasTag == Bin("hasTag", P, T1)  ite(c, t, e) == [op |-> "if", c |-> c, t |-> t, e |-> e] IN
  << Bin("and", hasOpt, gt1), Bin("and", gt1, hasOpt), Bin("or", hasOpt, gt1), Bin("or", Un("not", hasOpt), gt1),
     Bin("and", Bin("or", hasOpt, V(VTrue)), gt1), Bin("and", Bin("or", hasOpt, Has(P, "mgr")), gt1),
     Bin("and", Bin("and", hasOpt, Has(P, "mgr")), Bin("gt", mgrAge, opt)),
     ite(hasOpt, gt1, V(VFalse)), ite(hasOpt, V(VFalse), gt1), ite(Un("not", hasOpt), gt1, V(VTrue)), ite(Un("not", hasOpt), V(VTrue), gt1),
     Bin("eq", ite(hasOpt, opt, V(VInt(0))), V(VInt(5))), Bin("eq", ite(V(VTrue), V(VInt(0)), opt), V(VInt(0))),
     Bin("and", Has(P, "mgr"), Bin("gt", mgrAge, V(VInt(1)))), Bin("gt", mgrAge, V(VInt(1))),
     Bin("and", Bin("in", P, V(E("Group", "g1"))), gt1),
     Bin("and", hasTag, Bin("eq", tag, V(VInt(1)))), Bin("eq", tag, V(VInt(1))), Bin("or", hasTag, Bin("eq", tag, V(VInt(1)))),
     Bin("and", Bin("hasTag", R, T1), Bin("eq", tag, V(VInt(1)))), Bin("and", hasTag, Bin("eq", Bin("getTag", P, Str(<<116, 50>>)), V(VInt(1)))),
     Bin("and", Has(C, "o"), Bin("eq", Acc(C, "o"), Str(<<115>>))), Bin("and", Has(C, "e"), Bin("eq", Acc(Acc(C, "e"), "age"), V(VInt(1)))),
     Bin("and", Has(Acc(P, "r"), "y"), Bin("eq", Acc(Acc(P, "r"), "y"), Str(<<121>>))), Bin("eq", Acc(Acc(P, "r"), "z"), V(VInt(1))),
     Bin("and", Has(P, "nosuch"), Bin("eq", Acc(P, "nosuch"), V(VInt(1)))), Bin("eq", Acc(P, "nosuch"), V(VInt(1))),
     [op |-> "like", a |-> Acc(P, "name"), pat |-> <<97, -1>>], [op |-> "like", a |-> Acc(P, "age"), pat |-> <<-1>>],
     [op |-> "is", a |-> P, ty |-> "User"], [op |-> "is", a |-> R, ty |-> "User"], [op |-> "isIn", a |-> R, ty |-> "Doc", e |-> P],
     Bin("and", [op |-> "is", a |-> R, ty |-> "User"], Bin("gt", Acc(R, "age"), V(VInt(1)))),
     Bin("and", [op |-> "is", a |-> R, ty |-> "Doc"], Bin("contains", Acc(R, "labels"), Str(<<108>>))),
     Bin("eq", [op |-> "rec", kv |-> <<[key |-> "a", val |-> opt]>>], V(VInt(1))), Bin("contains", [op |-> "set", els |-> <<opt, V(VInt(1))>>], V(VInt(1))),
     Ext("lessThan", <<Acc(P, "d"), Ext("decimal", <<Str(<<49, 46, 48>>)>>)>>), Bin("and", Has(P, "d"), Ext("lessThan", <<Acc(P, "d"), Ext("decimal", <<Str(<<49, 46, 48>>)>>)>>)),
     Ext("nosuch", <<V(VInt(1))>>), Ext("isIpv4", <<>>), Ext("isIpv4", <<Acc(P, "ip"), Acc(P, "ip")>>) >>

Sel == <<1, 5, 7, 28, 29, 30, 31, 32, 33>>
\* every guard shape x every position of the guarded use: optional attribute and tag
IsF == [op |-> "is", a |-> R, ty |-> "User"]      \* constant false under action == view (the resource is a Doc)
IsT == [op |-> "is", a |-> R, ty |-> "Doc"]       \* constant true there
GuardShapes(g) == << g, Un("not", g), Bin("and", g, IsF), Bin("and", IsF, g), Bin("or", g, IsF), Bin("or", IsF, g), Bin("and", g, IsT), Bin("and", IsT, g),
                     Bin("or", g, IsT), Un("not", Un("not", g)), Bin("and", g, Has(P, "mgr")), Bin("or", g, Has(P, "mgr")), Bin("and", Un("not", g), IsT) >>
Uses(g, use) == << [op |-> "if", c |-> g, t |-> use, e |-> V(VTrue)], [op |-> "if", c |-> g, t |-> V(VTrue), e |-> use], Bin("and", g, use), Bin("or", g, use),
                   Bin("and", use, g), Bin("eq", [op |-> "if", c |-> g, t |-> V(VInt(1)), e |-> V(VInt(2))], V(VInt(1))) >>
GuardMatrix ==
  LET optUse == Bin("gt", Acc(P, "opt"), V(VInt(1)))  tagUse == Bin("eq", Bin("getTag", P, T1), V(VInt(1)))
      go == GuardShapes(Has(P, "opt"))  gt == GuardShapes(Bin("hasTag", P, T1)) IN
  Flat([i \in DOMAIN go |-> Uses(go[i], optUse)]) \o Flat([i \in DOMAIN gt |-> Uses(gt[i], tagUse)])
\* least upper bounds of records that differ in which attributes are optional, of entity types, of sets
LubForms ==
  LET pr == Acc(P, "r")  r2 == Acc(R, "r2")  ite(c, t, e) == [op |-> "if", c |-> c, t |-> t, e |-> e]  fl == Acc(P, "flag") IN
  << Bin("gt", Acc(ite(fl, pr, r2), "x"), V(VInt(0))), Bin("gt", Acc(ite(fl, r2, pr), "x"), V(VInt(0))),
     Has(ite(fl, pr, r2), "x"), Bin("eq", Acc(ite(fl, pr, r2), "y"), Str(<<121>>)),
     Bin("contains", [op |-> "set", els |-> <<pr, r2>>], pr), Bin("contains", [op |-> "set", els |-> <<r2, pr>>], pr),
     Bin("gt", Acc(ite(fl, [op |-> "rec", kv |-> <<[key |-> "x", val |-> V(VInt(1))]>>], r2), "x"), V(VInt(0))),
     Bin("gt", Acc(ite(fl, P, Acc(R, "owner")), "age"), V(VInt(0))), Bin("gt", Acc(ite(fl, P, Acc(R, "owner")), "opt"), V(VInt(0))),
     Bin("eq", Acc(ite(fl, P, R), "opt"), V(VInt(0))), Bin("gt", Acc(ite(fl, P, R), "age"), V(VInt(0))),
     Bin("and", Has(ite(fl, pr, r2), "x"), Bin("gt", Acc(ite(fl, pr, r2), "x"), V(VInt(0)))) >>
\* the identity of a capability: a guard on one place must not open another place that is merely SPELLED alike
\* (the attribute "r.q" vs the path r . q; the attribute "__tag:t1" vs the tag t1), and must open its own place
CapForms ==
  LET dotted == Acc(C, "r.q")  path == Acc(Acc(C, "r"), "q")  s == Str(<<115>>)  one == V(VInt(1))  ta == "__tag:t1" IN
  << Bin("and", Has(dotted, "y"), Bin("eq", Acc(path, "y"), s)), Bin("and", Has(path, "y"), Bin("eq", Acc(dotted, "y"), s)),
     Bin("and", Has(dotted, "y"), Bin("eq", Acc(dotted, "y"), s)), Bin("and", Has(path, "y"), Bin("eq", Acc(path, "y"), s)),
     Bin("and", Has(P, ta), Bin("eq", Bin("getTag", P, T1), one)), Bin("and", Bin("hasTag", P, T1), Bin("eq", Acc(P, ta), one)),
     Bin("and", Has(P, ta), Bin("eq", Acc(P, ta), one)),
     Bin("and", Has(C, "r.q"), Bin("eq", Acc(path, "y"), s)), Bin("and", Has(Acc(C, "r"), "q"), Bin("eq", Acc(dotted, "y"), s)) >>
\* `in` with every shape of right-hand side (one entity, sets whose members have one or several entity types in
\* either order, an attribute, an empty set) guarding an unsafe use: whatever `in` is typed as, the guarded
\* expression must still be checked unless the test cannot be true
InForms ==
  LET g1 == V(E("Group", "g1"))  d1 == V(E("Doc", "d1"))  u1 == V(E("User", "u1"))  mgr == Acc(P, "mgr")
      set(xs) == [op |-> "set", els |-> xs]
      rhs == << g1, set(<<d1, g1>>), set(<<g1, d1>>), set(<<u1, g1>>), set(<<g1, u1>>), set(<<>>), set(<<g1>>), set(<<d1>>), d1,
                R, Acc(R, "owner"), set(<<Acc(R, "owner"), g1>>), set(<<g1, g1>>), set(<<d1, u1, g1>>) >>
      optUse == Bin("gt", Acc(P, "opt"), V(VInt(1)))
      lhs == << P, Acc(R, "owner"), V(E("User", "u2")) >>
  IN Flat([i \in DOMAIN rhs |-> Flat([j \in DOMAIN lhs |->
        << Bin("and", Bin("in", lhs[j], rhs[i]), optUse), Bin("or", Bin("in", lhs[j], rhs[i]), optUse),
           [op |-> "if", c |-> Bin("in", lhs[j], rhs[i]), t |-> optUse, e |-> V(VTrue)],
           Bin("and", [op |-> "isIn", a |-> lhs[j], ty |-> "User", e |-> rhs[i]], optUse) >>])])
\* `is`, `like`, entity references and action comparisons in every typing situation: known / unknown entity type,
\* possible / impossible for the variable, string / non-string subject, unknown entity id of an enumerated or action type
IsLikeForms ==
  LET optUse == Bin("gt", Acc(P, "opt"), V(VInt(1)))  is(a, ty) == [op |-> "is", a |-> a, ty |-> ty]
      subj == << P, R, Acc(R, "owner"), V(E("User", "u1")), V(E("Nosuch", "x")), Var("action"), Acc(P, "age") >>
      tys == <<"User", "Doc", "Group", "Nosuch", "Action">>
      likes == << Acc(P, "name"), Acc(P, "age"), Acc(R, "opt"), Str(<<97>>), P, Acc(C, "o") >>
      act == Var("action") IN
  Flat([i \in DOMAIN subj |-> Flat([t \in DOMAIN tys |->
        << is(subj[i], tys[t]), Bin("and", is(subj[i], tys[t]), optUse), Bin("or", is(subj[i], tys[t]), optUse),
           Bin("and", Un("not", is(subj[i], tys[t])), optUse) >>])])
  \o Flat([i \in DOMAIN likes |-> << [op |-> "like", a |-> likes[i], pat |-> <<97, -1>>],
                                       Bin("and", [op |-> "like", a |-> likes[i], pat |-> <<-1>>], optUse) >>])
  \o << Bin("eq", act, V(E("Action", "view"))), Bin("eq", act, V(E("Action", "nosuch"))), Bin("and", Bin("eq", act, V(E("Action", "edit"))), optUse),
        Bin("in", act, V(E("Action", "all"))), Bin("and", Bin("in", act, V(E("Action", "all"))), optUse),
        Bin("in", act, [op |-> "set", els |-> <<V(E("Action", "view")), V(E("Action", "edit"))>>]),
        Bin("and", Bin("in", act, [op |-> "set", els |-> <<V(E("Action", "edit")), V(E("Action", "all"))>>]), Bin("eq", Acc(C, "k"), V(VInt(1)))),
        Bin("and", Bin("eq", act, V(E("Action", "view"))), Bin("eq", Acc(C, "k"), V(VInt(1)))),
        Bin("or", Bin("eq", act, V(E("Action", "edit"))), Bin("eq", Acc(C, "k"), V(VInt(1)))),
        Bin("eq", P, V(E("User", "nosuch"))), Bin("eq", R, V(E("Nosuch", "x"))), Bin("in", P, V(E("Nosuch", "x"))),
        Bin("eq", Bin("getTag", P, [op |-> "if", c |-> V(VTrue), t |-> T1, e |-> Str(<<120>>)]), V(VInt(1))),
        Bin("and", Bin("hasTag", P, [op |-> "if", c |-> V(VTrue), t |-> T1, e |-> Str(<<120>>)]), Bin("eq", Bin("getTag", P, T1), V(VInt(1)))),
        Bin("and", Bin("hasTag", P, T1), Bin("eq", Bin("getTag", P, [op |-> "if", c |-> V(VFalse), t |-> Str(<<120>>), e |-> T1]), V(VInt(1)))),
        Bin("and", Bin("hasTag", P, Acc(P, "name")), Bin("eq", Bin("getTag", P, Acc(P, "name")), V(VInt(1)))),
        Bin("contains", [op |-> "set", els |-> <<V(VInt(1)), Str(<<97>>)>>], V(VInt(1))), Un("isEmpty", [op |-> "set", els |-> <<>>]),
        Bin("eq", [op |-> "set", els |-> <<>>], [op |-> "set", els |-> <<V(VInt(1))>>]),
        Bin("containsAll", [op |-> "set", els |-> <<P, R>>], [op |-> "set", els |-> <<P>>]) >>
\* scope clauses of every form around conditions that rely on what the scope establishes
ScopeP == << ScopeAll, ScopeEq(E("User", "u1")), ScopeIn(E("Group", "g1")), ScopeIs("User"), ScopeIsIn("User", E("Group", "g1")),
             ScopeIs("Doc"), ScopeEq(E("Doc", "d1")), ScopeEq(E("Nosuch", "x")), ScopeIs("Nosuch"), ScopeIn(E("User", "u2")) >>
ScopeR == << ScopeAll, ScopeEq(E("Doc", "d1")), ScopeIn(E("Doc", "d1")), ScopeIs("Doc"), ScopeIs("User"), ScopeIsIn("User", E("Group", "g1")),
             ScopeEq(E("User", "u2")), ScopeIs("Group"), ScopeIsIn("Doc", E("Nosuch", "x")) >>
ScopeA == << ScopeAll, ScopeEq(E("Action", "view")), ScopeEq(E("Action", "edit")), ScopeIn(E("Action", "all")),
             ScopeInSet(<<E("Action", "view"), E("Action", "edit")>>), ScopeInSet(<<>>), ScopeEq(E("Action", "nosuch")),
             ScopeInSet(<<E("Action", "edit"), E("Action", "all")>>) >>
ScopeConds == << V(VTrue), Bin("gt", Acc(R, "age"), V(VInt(1))), Bin("contains", Acc(R, "labels"), Str(<<108>>)), Bin("eq", Acc(C, "k"), V(VInt(1))),
                 Bin("eq", Acc(R, "owner"), P), Bin("gt", Acc(P, "opt"), V(VInt(1))), Bin("eq", Bin("getTag", R, T1), Str(<<120>>)) >>
NScope == Len(ScopeP) * Len(ScopeR) * Len(ScopeA) * Len(ScopeConds)
ScopePolicy(i) ==       \* i in 0 .. NScope - 1
  LET a == i % Len(ScopeP)  b == (i \div Len(ScopeP)) % Len(ScopeR)  c == (i \div (Len(ScopeP) * Len(ScopeR))) % Len(ScopeA)
      d == (i \div (Len(ScopeP) * Len(ScopeR) * Len(ScopeA))) % Len(ScopeConds) IN
  [effect |-> "permit", annos |-> <<>>, principal |-> ScopeP[a + 1], action |-> ScopeA[c + 1], resource |-> ScopeR[b + 1],
   conds |-> <<[kind |-> "when", body |-> ScopeConds[d + 1]]>>]
\* two principal types under one action (edit: User or Group): what holds for one type must not be assumed for the
\* other.  Checked under the action scopes edit / all actions / the group "all".
KindForms ==
  LET is(a, ty) == [op |-> "is", a |-> a, ty |-> ty]  n0 == Bin("gt", Acc(P, "n"), V(VInt(0)))  age == Bin("gt", Acc(P, "age"), V(VInt(0)))
      ite(c, t, e) == [op |-> "if", c |-> c, t |-> t, e |-> e] IN
  << n0, age, Bin("and", is(P, "Group"), n0), Bin("and", is(P, "User"), n0), Bin("and", is(P, "User"), age), Bin("and", is(P, "Group"), age),
     Bin("or", is(P, "Group"), n0), Bin("or", is(P, "User"), n0), Bin("and", Un("not", is(P, "User")), n0), Bin("and", Un("not", is(P, "Group")), age),
     ite(is(P, "Group"), n0, age), ite(is(P, "Group"), age, n0), ite(is(P, "User"), age, n0),
     Bin("and", Has(P, "n"), n0), Bin("and", Has(P, "age"), age), Bin("and", Has(P, "opt"), Bin("gt", Acc(P, "opt"), V(VInt(1)))),
     Bin("eq", Acc(P, "n"), Acc(P, "age")), Bin("and", Bin("in", P, V(E("Group", "g1"))), age), Bin("and", Bin("eq", P, V(E("Group", "g1"))), n0),
     Bin("and", Bin("eq", P, V(E("User", "u1"))), age), Bin("and", Bin("eq", P, V(E("Group", "g1"))), age),
     Bin("and", Bin("eq", P, R), Bin("gt", Acc(R, "age"), V(VInt(0)))), Bin("and", Bin("in", R, P), age),
     Bin("and", Bin("and", is(P, "User"), is(R, "User")), Bin("eq", Acc(P, "age"), Acc(R, "age"))),
     Bin("and", is(R, "User"), Bin("eq", Acc(P, "age"), Acc(R, "age"))),
     Bin("eq", Bin("getTag", P, T1), V(VInt(1))), Bin("and", Bin("hasTag", P, T1), Bin("eq", Bin("getTag", P, T1), V(VInt(1)))),
     Bin("and", is(P, "Group"), Bin("hasTag", P, T1)), Bin("and", Bin("and", is(P, "Group"), Bin("hasTag", P, T1)), Bin("eq", Bin("getTag", P, T1), V(VInt(1)))) >>
\* tests the validator may wrongly type as constant False -- membership in an action group of another action type,
\* hasTag on a union of entity types of which one has no tags, has on the least upper bound of records whose common
\* attribute has incompatible types -- guarding an ill-typed or unsafe use; and calls of unknown functions
FalseForms ==
  LET act == Var("action")  grp == V(E("G::Action", "grp"))  other == V(E("G::Action", "other"))
      recAct == Acc([op |-> "rec", kv |-> <<[key |-> "a", val |-> act]>>], "a")
      ite(c, t, e) == [op |-> "if", c |-> c, t |-> t, e |-> e]  fl == Acc(P, "flag")
      bad == Bin("eq", Bin("add", V(VInt(1)), Str(<<120>>)), V(VInt(2)))
      optUse == Bin("gt", Acc(P, "opt"), V(VInt(1)))
      union == Acc(ite(fl, [op |-> "rec", kv |-> <<[key |-> "e", val |-> P]>>], [op |-> "rec", kv |-> <<[key |-> "e", val |-> V(E("Group", "g1"))]>>]), "e")
      recLub == ite(fl, [op |-> "rec", kv |-> <<[key |-> "a", val |-> V(VInt(1))]>>], [op |-> "rec", kv |-> <<[key |-> "a", val |-> Str(<<115>>)]>>])
      tests == << Bin("in", recAct, grp), Bin("in", act, ite(fl, grp, grp)), Bin("in", act, ite(fl, grp, other)), Bin("in", recAct, other),
                  Bin("in", act, grp), Bin("in", recAct, [op |-> "set", els |-> <<grp, other>>]),
                  Bin("hasTag", union, T1), Bin("hasTag", ite(fl, P, V(E("Group", "g1"))), T1),
                  Has(recLub, "a"), Has(Acc(ite(fl, [op |-> "rec", kv |-> <<[key |-> "r", val |-> recLub]>>], [op |-> "rec", kv |-> <<[key |-> "r", val |-> recLub]>>]), "r"), "a") >> IN
  Flat([i \in DOMAIN tests |-> << Bin("and", tests[i], bad), Bin("and", tests[i], optUse), ite(tests[i], bad, V(VTrue)), ite(tests[i], optUse, V(VTrue)),
                                    Bin("or", Un("not", tests[i]), bad), tests[i] >>])
  \o << Ext("nosuch", <<>>), Bin("eq", Ext("nosuch", <<>>), V(VInt(1))), Bin("and", V(VFalse), Ext("nosuch", <<>>)), Ext("nosuch", <<P, R>>) >>
\* `is` (and ==, in) on an operand whose type is a UNION of entity types: the test is neither True nor False, so
\* what it guards on either side must be checked
UnionIsForms ==
  LET is(a, ty) == [op |-> "is", a |-> a, ty |-> ty]  ite(c, t, e) == [op |-> "if", c |-> c, t |-> t, e |-> e]
      union == ite(Acc(P, "flag"), P, R)           \* User | Doc under view
      unionRec == Acc(ite(Acc(P, "flag"), [op |-> "rec", kv |-> <<[key |-> "e", val |-> P]>>], [op |-> "rec", kv |-> <<[key |-> "e", val |-> R]>>]), "e")
      bads == << Bin("gt", Acc(R, "age"), V(VInt(0))), Bin("eq", Acc(P, "nosuch"), V(VInt(1))), Bin("eq", Bin("add", V(VInt(1)), Str(<<120>>)), V(VInt(2))),
                 Bin("gt", Acc(P, "opt"), V(VInt(1))) >>
      tests(u) == << is(u, "User"), is(u, "Doc"), is(u, "Group"), Bin("eq", u, P), Bin("eq", u, R), Bin("in", u, V(E("Group", "g1"))),
                     [op |-> "isIn", a |-> u, ty |-> "User", e |-> V(E("Group", "g1"))] >>
      allTests == tests(union) \o tests(unionRec) IN
  Flat([t \in DOMAIN allTests |-> Flat([b \in DOMAIN bads |->
     << Bin("or", allTests[t], bads[b]), Bin("and", Un("not", allTests[t]), bads[b]), ite(allTests[t], V(VTrue), bads[b]),
        Bin("and", allTests[t], bads[b]), ite(allTests[t], bads[b], V(VTrue)) >>])])
Conds ==
  Flat(<< [i \in 1..NL |-> Bin("eq", Leaves[i], Leaves[i])],
          Flat([o \in DOMAIN BinOps |-> Flat([i \in 1..NL |-> [j \in 1..NL |-> Bin(BinOps[o], Leaves[i], Leaves[j])]])]),
          Flat([o \in DOMAIN UnOps |-> [i \in 1..NL |-> Un(UnOps[o], Leaves[i])]]),
          Flat([f \in DOMAIN Ext1 |-> [i \in 1..NL |-> Ext(Ext1[f], <<Leaves[i]>>)]]),
          Flat([f \in DOMAIN Ext2 |-> Flat([a \in DOMAIN Sel |-> [b \in DOMAIN Sel |-> Ext(Ext2[f], <<Leaves[Sel[a]], Leaves[Sel[b]]>>)]])]),
          UnionIsForms \o FalseForms \o InForms \o IsLikeForms \o CapForms \o GuardMatrix \o LubForms \o Guarded >>)
\* KindForms are emitted under three action scopes of their own (idx beyond Conds)
NKind == 3 * Len(KindForms)
KindPolicy(j) ==        \* j in 1 .. NKind
  LET f == ((j - 1) % Len(KindForms)) + 1  sc == ((j - 1) \div Len(KindForms)) + 1 IN
  [effect |-> "permit", annos |-> <<>>, principal |-> ScopeAll,
   action |-> CASE sc = 1 -> ScopeEq(E("Action", "edit")) [] sc = 2 -> ScopeAll [] OTHER -> ScopeIn(E("Action", "all")),
   resource |-> ScopeAll, conds |-> <<[kind |-> "when", body |-> KindForms[f]]>>]

NSpecial == Len(Guarded) + Len(GuardMatrix) + Len(LubForms) + Len(CapForms) + Len(InForms) + Len(IsLikeForms) + Len(FalseForms) + Len(UnionIsForms)
ActionScope(k) == CASE k = 1 -> ScopeEq(E("Action", "view")) [] k = 2 -> ScopeAll [] OTHER -> ScopeIn(E("Action", "all"))
PolicyOf(i) ==
  [effect |-> "permit", annos |-> <<>>, principal |-> ScopeAll, action |-> ActionScope(IF i > Len(Conds) - NSpecial THEN 1 ELSE IF i % 7 = 0 THEN 2 ELSE IF i % 11 = 0 THEN 3 ELSE 1),
   resource |-> ScopeAll, conds |-> <<[kind |-> "when", body |-> Conds[i]]>>]

VARIABLES idx, done
vars == <<idx, done>>
\* idx > 0: condition idx; idx <= 0: scope policy -idx
Init == /\ done = FALSE
        /\ idx \in { i \in DOMAIN Conds : i % Stride = 0 \/ i > Len(Conds) - NSpecial } \cup { -i : i \in { j \in 0..(NScope - 1) : j % ScopeStride = 0 } }
                   \cup { Len(Conds) + j : j \in 1..NKind }
Next == ~done /\ done' = TRUE /\ UNCHANGED idx
Opts == [format |-> "TXT", charset |-> "UTF-8", openOptions |-> <<"WRITE", "CREATE", "APPEND">>]
Emit == done => Serialize(ToJson([op |-> "typing", policy |-> IF idx > Len(Conds) THEN KindPolicy(idx - Len(Conds)) ELSE IF idx > 0 THEN PolicyOf(idx) ELSE ScopePolicy(-idx)]) \o "\n", "cases.ndjson", Opts).exitValue = 0
\* the schema and the environments, emitted once (a table for the harness and the validating trace)
EmitTable == (done /\ idx = CHOOSE i \in { j \in DOMAIN Conds : j % Stride = 0 \/ j > Len(Conds) - Len(Guarded) } : TRUE) =>
               Serialize(ToJson([op |-> "typingtable", schema |-> Schema, envs |-> EnvsW]) \o "\n", "table.ndjson", Opts).exitValue = 0
=============================================================================
