--------------------------- MODULE MC_PolicyStore ---------------------------
(***************************************************************************)
(* C20.                                                                    *)
(* M1 (cfg "graph"): the state graph of PolicyStore, history hidden by the *)
(*   VIEW, bounded by the constraints OneAux / SmallBig: refinement        *)
(*   invariants and the isolation action properties.                       *)
(* M2 (cfg "hist"): EVERY history of at most MaxLen operations, each       *)
(*   emitted with the predicted return value of its last step and the      *)
(*   projection of the resulting state (prefixes are histories too).       *)
(* M2 (cfg "sim", run with -simulate): long random behaviours, emitted     *)
(*   with the predicted return value and projection after EVERY step.      *)
(* The first line of the output is the table of policies and probe         *)
(* requests that steps refer to by number.                                 *)
(***************************************************************************)
EXTENDS PolicyStore, Json, IOUtils, TLC

CONSTANT MaxLen

Bounded == Len(hist) < MaxLen        \* states at the bound are not expanded
Opts == [format |-> "TXT", charset |-> "UTF-8", openOptions |-> <<"WRITE", "CREATE", "APPEND">>]

Header == [op |-> "storetable", pols |-> [n \in 1..NPol |-> PolW(n)], probes |-> ProbeW]
EmitHeader == Serialize(ToJson(Header) \o "\n", "cases.ndjson", Opts).exitValue = 0

\* every history once: the last step's return value and the resulting projection
EmitHist ==
  IF hist = <<>> THEN EmitHeader
  ELSE Len(hist) <= MaxLen =>
    Serialize(ToJson([op |-> "store", steps |-> [k \in DOMAIN hist |-> hist[k].step],
                      exp |-> [rets |-> <<hist[Len(hist)].step.ret>>, projs |-> <<hist[Len(hist)].proj>>]]) \o "\n",
              "cases.ndjson", Opts).exitValue = 0

\* a complete simulated behaviour: return value and projection after every step
EmitSim ==
  IF hist = <<>> THEN EmitHeader
  ELSE Len(hist) = MaxLen =>
    Serialize(ToJson([op |-> "store", steps |-> [k \in DOMAIN hist |-> hist[k].step],
                      exp |-> [rets |-> [k \in DOMAIN hist |-> hist[k].step.ret],
                               projs |-> [k \in DOMAIN hist |-> hist[k].proj]]]) \o "\n",
              "cases.ndjson", Opts).exitValue = 0
=============================================================================
