--------------------------- MODULE MC_MarshalExpr ---------------------------
(***************************************************************************)
(* C08: the policies of the expression universe (conditions that evaluate  *)
(* to something under the 72 environments of Universe!EnvUW: every         *)
(* operator over operands of the right and of the wrong type, Depth2 =     *)
(* every parent / child / position triple) as inputs for MarshalCedar,     *)
(* built from the AST, decoded from its JSON encoding and reparsed from    *)
(* its own text.  The harness renders and reparses with the real code;     *)
(* Trace_Marshal compares the meaning of what comes back.                  *)
(***************************************************************************)
EXTENDS CedarPolicy, ExprUniverse, Json, IOUtils, TLC

CONSTANTS UseDepth2, Stride

Exprs == IF UseDepth2 THEN Depth1 \o Depth2 ELSE Depth1

PolicyOf(i) ==
  LET e == Exprs[i]
      conds == CASE i % 3 = 0 -> <<[kind |-> "unless", body |-> e]>>
                 [] i % 3 = 1 -> <<[kind |-> "when", body |-> e]>>
                 [] OTHER -> <<[kind |-> "when", body |-> e], [kind |-> "unless", body |-> NC]>>
  IN [effect |-> IF i % 2 = 0 THEN "permit" ELSE "forbid",
      annos |-> IF i % 11 = 0 THEN <<[k |-> "id", v |-> <<112, 34, 10>>]>> ELSE <<>>,
      principal |-> IF i % 5 = 0 THEN ScopeIn(G("g")) ELSE IF i % 5 = 1 THEN ScopeEq(U("a")) ELSE ScopeAll,
      action |-> IF i % 7 = 0 THEN ScopeInSet(<<A("view"), A("edit")>>) ELSE ScopeAll,
      resource |-> IF i % 4 = 0 THEN ScopeIsIn("G", G("top")) ELSE IF i % 4 = 1 THEN ScopeIs("U") ELSE ScopeAll,
      conds |-> conds]

VARIABLES idx, via, done
vars == <<idx, via, done>>
Init == idx \in { i \in DOMAIN Exprs : i % Stride = 0 } /\ via \in {"ast", "json", "text"} /\ done = FALSE
Next == ~done /\ done' = TRUE /\ UNCHANGED <<idx, via>>

Emit ==
  done =>
    Serialize(ToJson([op |-> "marshal", policy |-> PolicyOf(idx), via |-> via, parts |-> FALSE, envset |-> "U"]) \o "\n",
              "cases.ndjson",
              [format |-> "TXT", charset |-> "UTF-8", openOptions |-> <<"WRITE", "CREATE", "APPEND">>]).exitValue = 0
=============================================================================
