---------------------------- MODULE MC_SchemaGen ----------------------------
(***************************************************************************)
(* C16 / C17, input enumeration: schema ASTs over a small name universe.   *)
(*   graphs   EVERY directed graph on three nodes (self-loops, 2- and      *)
(*            3-cycles, diamonds) as (1) the parent relation of three      *)
(*            entity types, (2) the reference relation of three common     *)
(*            types (through record attributes and Set<>), (3) the `in`    *)
(*            relation of three actions -- in the empty namespace and in a *)
(*            namespace with qualified and unqualified references;         *)
(*   big      the same ten schemas per graph over pseudo-random graphs on   *)
(*            five or six nodes (DAGs, loop-free, arbitrary; 4 densities);  *)
(*   names    the same base name declared in two namespaces, shadowing of  *)
(*            the empty namespace, entity / common type / built-in         *)
(*            precedence of an unqualified type reference, __cedar::,      *)
(*            undefined and dangling references;                           *)
(*   features annotations with and without values, optional attributes,    *)
(*            nested records, sets, extension types, enumerated entities,  *)
(*            names that need quoting, appliesTo shapes, tags.             *)
(* M1 (invariant Total): Resolve is a total function on the universe, it   *)
(* fails on every cyclic common-type and action graph and on none of the   *)
(* entity-parent graphs.                                                   *)
(***************************************************************************)
EXTENDS SchemaModel, Json, IOUtils

CONSTANTS Family,     \* "graphs" | "names" | "big"
          NodesN,     \* nodes of the graph families: 3 (every graph: 512) or 4 (65536 graphs, thinned by GStride); big: 5 or 6
          GStride,
          BigK,       \* big: number of pseudo-random graphs on NodesN nodes
          BigSeed     \* big: seed of the edge hash

N3 == 1..NodesN
\* a graph is given by one successor bit mask per node
Masks == 0..(2 ^ NodesN - 1)
Succ(m) == { j \in N3 : (m \div (2 ^ (j - 1))) % 2 = 1 }
GraphOf(ms) == { <<i, j>> \in N3 \X N3 : j \in Succ(ms[i]) }
MaskTuples == { ms \in [N3 -> Masks] : (ms[1] + 7 * ms[2] + 3 * ms[3] + (IF NodesN > 3 THEN 5 * ms[4] ELSE 0)) % GStride = 0 }
\* big: graphs too large to enumerate (2^36 on six nodes) are drawn by a hash of (graph number, edge, seed).  Three
\* shapes by graph number: forward edges only (a DAG: chains, diamonds, wide fans -- the graphs that RESOLVE, so that the
\* transitive closures of the resolver and everything downstream of it are exercised on depths > 3), no self-loops,
\* any edge; four densities.  All arithmetic stays below 2^31 (TLC integers).
EdgeHash(k, i, j) == LET a == (k * 131 + i * 31 + j * 17 + BigSeed * 977 + 1) % 32749
                         b == ((((a * a) % 32749) * 13) + (a * 7) + 5) % 32749 IN ((b * b) % 32749) \div 8
BigDens == <<3, 4, 6, 9>>
BigGraph(k) == { <<i, j>> \in N3 \X N3 :
                   /\ EdgeHash(k, i, j) % BigDens[((k \div 3) % 4) + 1] = 0
                   /\ (IF k % 3 = 0 THEN i < j ELSE IF k % 3 = 1 THEN i # j ELSE TRUE) }
Graphs == IF Family = "big" THEN { BigGraph(k) : k \in 1..BigK } ELSE { GraphOf(ms) : ms \in MaskTuples }
A(k, v) == <<[k |-> k, v |-> v]>>
NoA == <<>>
Ref(q, n) == [q |-> q, n |-> n]
TString == [t |-> "string"]  TLong == [t |-> "long"]  TBool == [t |-> "bool"]
TRef(q, n) == [t |-> "ref", q |-> q, n |-> n]
TEnt(q, n) == [t |-> "entref", q |-> q, n |-> n]
TSet(e) == [t |-> "set", el |-> e]
TRec(attrs) == [t |-> "rec", attrs |-> attrs]
Attr(n, ty, opt) == [name |-> n, type |-> ty, opt |-> opt, annos |-> NoA]
None == [t |-> "none"]
Ent(n, parents, shape, tags) == [name |-> n, annos |-> NoA, parents |-> parents, shape |-> shape, tags |-> tags]
Act(n, parents, applies) == [name |-> n, annos |-> NoA, parents |-> parents, applies |-> applies]
Applies(ps, rs, ctx) == [t |-> "some", principals |-> ps, resources |-> rs, context |-> ctx]
Ns(name, ents, enums, acts, commons) == [name |-> name, annos |-> NoA, entities |-> ents, enums |-> enums, actions |-> acts, commons |-> commons]
SetToSeqBy(S) == LET RECURSIVE F(_) F(T) == IF T = {} THEN <<>> ELSE LET x == CHOOSE y \in T : TRUE IN <<x>> \o F(T \ {x}) IN F(S)

EN == <<"A", "B", "C", "D", "E5", "F">>   CN == <<"T", "U", "V", "W", "X", "Y">>   AN == <<"a", "b c", "if", "d", "", "f::g">>

\* (1) entity parents: node i has parents { j : <<i, j>> \in g }; q = qualifier used in references
EntGraph(ns, q, g) ==
  Ns(ns, [i \in N3 |-> Ent(EN[i], SetToSeqBy({ Ref(IF j = 3 THEN q ELSE "", EN[j]) : j \in { k \in N3 : <<i, k>> \in g } }),
                           <<Attr("n", TLong, FALSE), Attr("p", TSet(TEnt("", EN[(i % NodesN) + 1])), TRUE)>>, IF i = 1 THEN TString ELSE None)],
     <<>>,
     << Act("view", <<>>, Applies(<<Ref("", "A"), Ref("", "B")>>, <<Ref("", "C")>>, TRec(<<Attr("k", TLong, FALSE)>>))) >>,
     <<>>)
\* (2) common types: Ti refers to Tj for every edge, through a record attribute (and Set<> for the first edge)
CommonGraph(ns, q, g) ==
  Ns(ns, << Ent("E", <<>>, <<Attr("x", TRef("", "T"), FALSE)>>, None) >>, <<>>, <<>>,
     [i \in N3 |-> [name |-> CN[i], annos |-> NoA,
                    type |-> LET js == SetToSeqBy({ k \in N3 : <<i, k>> \in g }) IN
                             IF js = <<>> THEN TLong
                             ELSE TRec([m \in DOMAIN js |-> Attr(CN[js[m]], IF m = 1 THEN TSet(TRef(IF js[m] = 3 THEN q ELSE "", CN[js[m]]))
                                                                         ELSE TRef(IF js[m] = 2 THEN q ELSE "", CN[js[m]]), m = 2)])]])
\* (3) action hierarchy
ActionGraph(ns, q, g) ==
  Ns(ns, << Ent("E", <<>>, <<>>, None) >>, <<>>,
     [i \in N3 |-> Act(AN[i], SetToSeqBy({ [q |-> IF j = 3 THEN q ELSE "", id |-> AN[j]] : j \in { k \in N3 : <<i, k>> \in g } }),
                       IF i = 1 THEN Applies(<<Ref("", "E")>>, <<Ref("", "E")>>, None) ELSE None)],
     <<>>)

\* (2b) common types across namespaces: node 1 = T in the empty namespace, nodes 2, 3 = N::U, N::V.  A reference from
\* inside N to T is unqualified (it falls through to the empty namespace), from T into N qualified, inside N unqualified
\* (edge to U) or qualified (edge to V); an entity of N uses U, an action context uses T
CrossNode == <<[ns |-> "", n |-> "T"], [ns |-> "N", n |-> "U"], [ns |-> "N", n |-> "V"], [ns |-> "N", n |-> "W"],
               [ns |-> "N", n |-> "X"], [ns |-> "N", n |-> "Y"]>>
CrossRef(i, j) == IF i = 1 THEN TRef("N", CrossNode[j].n)
                  ELSE IF j = 1 THEN TRef("", "T") ELSE IF j = 2 THEN TRef("", "U") ELSE TRef("N", CrossNode[j].n)
CrossType(i, g) == LET js == SetToSeqBy({ k \in N3 : <<i, k>> \in g }) IN
                   IF js = <<>> THEN TLong
                   ELSE TRec([m \in DOMAIN js |-> Attr(CrossNode[js[m]].n, IF m = 1 THEN TSet(CrossRef(i, js[m])) ELSE CrossRef(i, js[m]), m = 2)])
CrossCommonGraph(g) ==
  [ns |-> << Ns("", <<>>, <<>>, <<>>, <<[name |-> "T", annos |-> NoA, type |-> CrossType(1, g)]>>),
             Ns("N", << Ent("E", <<>>, <<Attr("u", TRef("", "U"), FALSE)>>, None) >>, <<>>,
                << Act("a", <<>>, Applies(<<Ref("", "E")>>, <<Ref("", "E")>>, TRec(<<Attr("t", TRef("", "T"), TRUE)>>))) >>,
                [k \in 1..(NodesN - 1) |-> [name |-> CrossNode[k + 1].n, annos |-> NoA, type |-> CrossType(k + 1, g)]]) >>]

GraphSchemas(g) ==
  << [ns |-> <<EntGraph("", "", g)>>], [ns |-> <<EntGraph("N", "N", g)>>],
     [ns |-> <<CommonGraph("", "", g)>>], [ns |-> <<CommonGraph("N", "N", g)>>],
     [ns |-> <<ActionGraph("", "Action", g)>>], [ns |-> <<ActionGraph("N", "N::Action", g)>>], CrossCommonGraph(g),
     \* the same graphs inside a namespace of two segments (what is "the namespace of a qualified name" there?)
     [ns |-> <<EntGraph("N::M", "N::M", g)>>], [ns |-> <<CommonGraph("N::M", "N::M", g)>>], [ns |-> <<ActionGraph("N::M", "N::M::Action", g)>>] >>

\* names: two namespaces + the empty one; X may be declared as entity (e), common type (c) or not at all (-) in "", in N;
\* an attribute of N::E refers to X unqualified / qualified with N / with M (undeclared) / __cedar::Long / a built-in name
Decl == {"e", "c", "-"}
NameRefs == << TRef("", "X"), TRef("N", "X"), TRef("M", "X"), TEnt("", "X"), TEnt("N", "X"), TRef("__cedar", "Long"), TRef("__cedar", "X"),
               TRef("", "Long"), TRef("", "Boolean"), TRef("", "decimal"), TRef("", "Y"),
               \* the built-in types themselves (not references): with a declaration of the same name in scope
               \* (builtinShadow) their text form must still mean the built-in
               TLong, TString, [t |-> "ext", name |-> "decimal"], TSet(TBool),
               \* extension types the language does not have
               [t |-> "ext", name |-> "foo"], [t |-> "ext", name |-> "Long"] >>
NameSchema(dBare, dN, r, builtinShadow) ==
  [ns |-> << Ns("", (IF dBare = "e" THEN <<Ent("X", <<>>, <<>>, None)>> ELSE <<>>) \o (IF builtinShadow THEN <<Ent("Long", <<>>, <<>>, None)>> ELSE <<>>),
                <<>>, <<>>, (IF dBare = "c" THEN <<[name |-> "X", annos |-> NoA, type |-> TString]>> ELSE <<>>)
                            \o (IF builtinShadow THEN <<[name |-> "decimal", annos |-> NoA, type |-> TString]>> ELSE <<>>)),
             Ns("N", <<Ent("E", <<>>, <<Attr("x", NameRefs[r], FALSE)>>, None)>> \o (IF dN = "e" THEN <<Ent("X", <<>>, <<>>, None)>> ELSE <<>>)
                     \o (IF builtinShadow THEN <<Ent("String", <<>>, <<>>, None), Ent("Bool", <<>>, <<>>, None)>> ELSE <<>>),
                <<>>, <<>>, IF dN = "c" THEN <<[name |-> "X", annos |-> NoA, type |-> TBool]>> ELSE <<>>) >>]

\* features
Odd == <<233, 34, 92, 10, 128512>>        \* e-acute " \ LF emoji
\* a ladder of diamonds in the action hierarchy: two actions per level, each a member of both actions of the next
\* level -- 2^depth paths to the top, 2 * depth actions
LadderDepth == 24
LadderName(i) == "a" \o ToString(i)
Ladder ==
  [ns |-> << Ns("", << Ent("E", <<>>, <<>>, None) >>, <<>>,
                [i \in 1..(2 * LadderDepth) |->
                   Act(LadderName(i),
                       IF (i + 1) \div 2 < LadderDepth
                       THEN << [q |-> "", id |-> LadderName(2 * ((i + 1) \div 2) + 1)], [q |-> "", id |-> LadderName(2 * ((i + 1) \div 2) + 2)] >>
                       ELSE <<>>,
                       IF i = 1 THEN Applies(<<Ref("", "E")>>, <<Ref("", "E")>>, None) ELSE None)],
                <<>>) >>]
\* an entity type that is NAMED Action (legal for this resolver) with record-typed attributes, one of them with the
\* empty name: access paths through the `action` variable
ActionNamed ==
  [ns |-> << Ns("", << Ent("Action", <<>>, << Attr("", TRec(<<Attr("opt", TLong, TRUE)>>), FALSE), Attr("r", TRec(<<Attr("opt", TLong, TRUE)>>), FALSE) >>, None),
                       Ent("User", <<>>, << Attr("r", TRec(<<Attr("opt", TLong, TRUE)>>), FALSE) >>, None) >>, <<>>,
                << Act("view", <<>>, Applies(<<Ref("", "User")>>, <<Ref("", "User")>>, TRec(<<Attr("r", TRec(<<Attr("opt", TLong, TRUE)>>), FALSE)>>))) >>, <<>>) >>]
FeatureSchemas ==
  << Ladder, ActionNamed, [ns |-> << [name |-> "N", annos |-> A("doc", Odd) \o A("flag", <<>>),
                 entities |-> << [name |-> "E", annos |-> A("id", <<101>>), parents |-> <<Ref("", "F"), Ref("N", "F")>>,
                                  shape |-> << [name |-> "if", type |-> TString, opt |-> TRUE, annos |-> A("a", <<49>>)],
                                               Attr("a b", TSet(TRec(<<Attr("", TLong, TRUE), Attr("~{e9}", TRef("", "ipaddr"), FALSE)>>)), FALSE),
                                               Attr("d", [t |-> "ext", name |-> "decimal"], TRUE), Attr("self", TEnt("", "E"), TRUE),
                                               Attr("t", TRef("", "T"), FALSE) >>,
                                  tags |-> TSet(TString)],
                                 Ent("F", <<>>, <<>>, TRef("", "T")) >>,
                 enums |-> << [name |-> "Color", annos |-> A("x", <<>>), values |-> << <<114>>, <<>>, <<97, 32, 98>>, Odd >>] >>,
                 actions |-> << Act("read", <<[q |-> "", id |-> "all"], [q |-> "N::Action", id |-> "g 2"]>>,
                                    Applies(<<Ref("", "E"), Ref("", "Color")>>, <<Ref("N", "F")>>, TRef("", "Ctx"))),
                                Act("all", <<>>, None), Act("g 2", <<>>, Applies(<<Ref("", "F")>>, <<Ref("", "F")>>, None)),
                                Act("noctx", <<>>, Applies(<<Ref("", "E")>>, <<Ref("", "E")>>, None)),
                                Act("~{e9}", <<>>, Applies(<<Ref("", "E")>>, <<Ref("", "F")>>, TRec(<<>>))) >>,
                 commons |-> << [name |-> "T", annos |-> A("c", <<99>>), type |-> TRec(<<Attr("n", TLong, FALSE), Attr("u", TRef("N", "U"), TRUE)>>)],
                                [name |-> "U", annos |-> NoA, type |-> TSet(TEnt("", "F"))],
                                [name |-> "Ctx", annos |-> NoA, type |-> TRec(<<Attr("k", TLong, FALSE), Attr("t", TRef("", "T"), TRUE)>>)] >>] >>],
     \* appliesTo with empty lists (JSON can say it, the text grammar cannot)
     [ns |-> <<Ns("N", <<Ent("E", <<>>, <<>>, None)>>, <<>>, <<Act("none", <<>>, Applies(<<>>, <<>>, None)), Act("half", <<>>, Applies(<<Ref("", "E")>>, <<>>, None))>>, <<>>)>>],
     \* a context that is not a record; an undefined principal type; an enumerated type declared twice
     [ns |-> <<Ns("", <<Ent("E", <<>>, <<>>, None)>>, <<>>, <<Act("a", <<>>, Applies(<<Ref("", "E")>>, <<Ref("", "E")>>, TLong))>>, <<>>)>>],
     [ns |-> <<Ns("", <<Ent("E", <<>>, <<>>, None)>>, <<>>, <<Act("a", <<>>, Applies(<<Ref("", "Z")>>, <<Ref("", "E")>>, None))>>, <<>>)>>],
     [ns |-> <<Ns("N", <<Ent("E", <<>>, <<>>, None)>>, <<[name |-> "E", annos |-> NoA, values |-> << <<97>> >>]>>, <<>>, <<>>)>>],
     \* an action that shadows an action of the empty namespace; a parent in another namespace; an undefined parent
     [ns |-> <<Ns("", <<>>, <<>>, <<Act("a", <<>>, None)>>, <<>>), Ns("N", <<>>, <<>>, <<Act("a", <<>>, None)>>, <<>>)>>],
     [ns |-> <<Ns("", <<>>, <<>>, <<Act("top", <<>>, None)>>, <<>>), Ns("N", <<>>, <<>>, <<Act("a", <<[q |-> "Action", id |-> "top"]>>, None)>>, <<>>)>>],
     [ns |-> <<Ns("N", <<>>, <<>>, <<Act("a", <<[q |-> "", id |-> "nosuch"]>>, None)>>, <<>>)>>],
     \* an unreferenced common type with an undefined reference (the code does not report it); empty schema
     [ns |-> <<Ns("", <<Ent("E", <<>>, <<>>, None)>>, <<>>, <<>>, <<[name |-> "T", annos |-> NoA, type |-> TRef("", "Nope")]>>)>>],
     [ns |-> <<>>] >>

VARIABLES kind, g, nm, done
vars == <<kind, g, nm, done>>
Init == /\ done = FALSE
        /\ IF Family \in {"graphs", "big"} THEN kind = "graph" /\ g \in Graphs /\ nm = <<>>
           ELSE \/ kind = "name" /\ g = {}
                   /\ nm \in { x \in { <<a, b, r, s>> : a \in Decl, b \in Decl, r \in DOMAIN NameRefs, s \in BOOLEAN } :
                                \* an EntityTypeRef in a type position is written like any type name: where a common type of that
                                \* name is in scope the text form cannot express it -- outside the statement's quantifier
                                ~(NameRefs[x[3]].t = "entref" /\ "c" \in {x[1], x[2]}) }
                \/ kind = "feature" /\ g = {} /\ nm \in { <<i>> : i \in DOMAIN FeatureSchemas }
Next == ~done /\ done' = TRUE /\ UNCHANGED <<kind, g, nm>>

Cases == CASE kind = "graph" -> GraphSchemas(g)
           [] kind = "name" -> <<NameSchema(nm[1], nm[2], nm[3], nm[4])>>
           [] OTHER -> <<FeatureSchemas[nm[1]]>>

HasCycle(gr) == LET par == [i \in N3 |-> { j \in N3 : <<i, j>> \in gr }] IN \E i \in N3 : i \in ReachA(par, par[i], par[i])
Total ==
  done => /\ \A k \in DOMAIN Cases : Resolve(Cases[k]).ok \in BOOLEAN
          /\ (kind = "graph" => /\ Resolve(Cases[1]).ok /\ Resolve(Cases[2]).ok
                                /\ Resolve(Cases[3]).ok = ~HasCycle(g) /\ Resolve(Cases[4]).ok = ~HasCycle(g)
                                /\ Resolve(Cases[5]).ok = ~HasCycle(g) /\ Resolve(Cases[6]).ok = ~HasCycle(g)
                                /\ Resolve(Cases[7]).ok = ~HasCycle(g))

Opts == [format |-> "TXT", charset |-> "UTF-8", openOptions |-> <<"WRITE", "CREATE", "APPEND">>]
Emit == done => \A k \in DOMAIN Cases :
          Serialize(ToJson([op |-> "schema", schema |-> Cases[k], probes |-> (kind # "graph" \/ k \in {1, 2, 6, 7})]) \o "\n", "cases.ndjson", Opts).exitValue = 0
=============================================================================
