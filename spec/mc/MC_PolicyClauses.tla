-------------------------- MODULE MC_PolicyClauses --------------------------
(***************************************************************************)
(* C02 / C04, M1: a policy is satisfied iff its scope matches and all its  *)
(* when/unless clauses hold, the first failing or unsatisfied clause       *)
(* decides.  Checked here: the clause-by-clause reading (Outcome) and the  *)
(* documented desugaring into one conjunction (PolicyToExpr) agree, for    *)
(* every sequence of up to MaxClauses clauses over                         *)
(*   when T / when F / when err / when non-bool / unless T / unless F /    *)
(*   unless err / unless non-bool                                          *)
(* and every combination of matching / non-matching scope clauses.         *)
(***************************************************************************)
EXTENDS CedarPolicy, Universe, TLC

CONSTANT MaxClauses

V(v) == [op |-> "val", v |-> v]
ErrE == [op |-> "add", l |-> V(VInt(1)), r |-> V(VStr(<<97>>))]
Bodies == << V(VTrue), V(VFalse), ErrE, V(VInt(1)) >>
Clauses == { [kind |-> k, body |-> Bodies[b]] : k \in {"when", "unless"}, b \in DOMAIN Bodies }

PrincipalScopes == { ScopeAll, ScopeEq(U("a")), ScopeEq(U("b")), ScopeIn(G("top")), ScopeIn(A("all")),
                     ScopeIs("U"), ScopeIs("G"), ScopeIsIn("U", G("g")), ScopeIsIn("G", G("g")) }
ActionScopes == { ScopeAll, ScopeEq(A("view")), ScopeIn(A("all")), ScopeInSet(<<A("edit"), A("all")>>),
                  ScopeInSet(<<>>), ScopeInSet(<<A("edit")>>) }
ResourceScopes == { ScopeAll, ScopeEq(G("g")), ScopeIn(G("top")), ScopeIs("U"), ScopeIsIn("G", G("top")) }

Envs == { EnvFromWire(Env1W), EnvFromWire(Env2W) }

VARIABLES pol
Init == \E n \in 0..MaxClauses : \E cs \in [1..n -> Clauses] :
        \E ps \in PrincipalScopes, as \in ActionScopes, rs \in ResourceScopes, eff \in {"permit", "forbid"} :
          pol = [effect |-> eff, annos |-> <<>>, principal |-> ps, action |-> as, resource |-> rs, conds |-> cs]
Next == UNCHANGED pol

Agree == \A env \in Envs : Outcome(pol, env) = OutcomeOfExpr(PolicyToExpr(pol), env)
\* an unsatisfied or failing clause hides everything after it
FirstDecides ==
  \A env \in Envs : \A k \in DOMAIN pol.conds :
    LET pre == [pol EXCEPT !.conds = SubSeq(pol.conds, 1, k)]
    IN Outcome(pre, env) # "sat" => Outcome(pol, env) = Outcome(pre, env)
=============================================================================
