---------------------------- MODULE MC_PartialGen ----------------------------
(***************************************************************************)
(* C06: inputs for partial evaluation.  Every policy of the expression     *)
(* universe (conditions over the request variables, see MC_Fold!PolicyOf)  *)
(* under every partial-environment shape: unknown principal / action /     *)
(* resource / whole context, unknowns nested in context records and sets,  *)
(* two unknowns at once, ignored principal / context, and the fully        *)
(* concrete environment; and the conditions-loop family (see below).  The  *)
(* harness runs the real PartialPolicy on each  *)
(* and records the residual; Trace_Partial judges it.                      *)
(***************************************************************************)
EXTENDS Partial, ExprUniverse, Json, IOUtils, TLC

CONSTANTS UseDepth2, Stride, LoopStride, LeakStride

Exprs == IF UseDepth2 THEN Depth1 \o Depth2 ELSE Depth1

Unk(n) == [k |-> "unknown", name |-> n]
Ign == [k |-> "ignore"]
BaseEnv == Env1W
Shapes == <<
  BaseEnv,
  \* an unknown two levels down, below a set
  [BaseEnv EXCEPT !.c = VRec([k |-> VInt(1), ss |-> [k |-> "set", els |-> <<VRec([n |-> Unk("x")])>>]])],
  \* a boolean unknown nested in the context
  [BaseEnv EXCEPT !.c = VRec([k |-> Unk("x"), s |-> VStr(<<97>>), ss |-> [k |-> "set", els |-> <<Unk("y")>>]])],
  [BaseEnv EXCEPT !.p = Unk("x")],
  [BaseEnv EXCEPT !.a = Unk("x")],
  [BaseEnv EXCEPT !.r = Unk("x")],
  [BaseEnv EXCEPT !.c = Unk("x")],
  [BaseEnv EXCEPT !.c = VRec([k |-> Unk("x"), s |-> VStr(<<97>>), e |-> U("a")])],
  [BaseEnv EXCEPT !.c = VRec([k |-> VInt(1), s |-> Unk("x"), r |-> VRec([n |-> Unk("y")])])],
  [BaseEnv EXCEPT !.c = VRec([k |-> VInt(1), ss |-> [k |-> "set", els |-> <<Unk("x"), VInt(1)>>]])],
  [BaseEnv EXCEPT !.p = Unk("x"), !.c = VRec([k |-> Unk("y"), s |-> VStr(<<97>>)])],
  [BaseEnv EXCEPT !.p = Unk("x"), !.r = Unk("x")],
  [BaseEnv EXCEPT !.p = Ign],
  [BaseEnv EXCEPT !.c = Ign],
  [BaseEnv EXCEPT !.r = Ign, !.c = VRec([k |-> Unk("x")])]
>>

PolicyOf(i) ==
  LET e == Exprs[i]
      conds == CASE i % 3 = 0 -> <<[kind |-> "unless", body |-> e]>>
                 [] i % 3 = 1 -> <<[kind |-> "when", body |-> e]>>
                 [] OTHER -> <<[kind |-> "when", body |-> NC], [kind |-> "when", body |-> e]>>
  IN [effect |-> IF i % 2 = 0 THEN "permit" ELSE "forbid", annos |-> <<>>,
      principal |-> IF i % 5 = 0 THEN ScopeIn(G("g")) ELSE IF i % 5 = 1 THEN ScopeEq(U("a")) ELSE ScopeAll,
      action |-> IF i % 7 = 0 THEN ScopeInSet(<<A("view"), A("edit")>>) ELSE ScopeAll,
      resource |-> IF i % 4 = 0 THEN ScopeIsIn("G", G("top")) ELSE ScopeAll,
      conds |-> conds]

\* ---------------------------------------------------------------- the conditions loop
\* Policies with three conditions, every ordered triple over bodies that partial evaluation drops (constant,
\* satisfied), rewrites (partly known), keeps as written (unknown), fails (error) or -- on an ignored part --
\* drops from a permit, under environment shapes that mix unknown and ignored parts: every order in which the
\* loop over the conditions of PartialPolicy can meet "drop", "rewrite", "keep" and "stop".
CondBodies == <<
  Bin("eq", CK, L1),                                  \* refers to the context
  NC,                                                 \* refers to the principal
  Bin("in", RVar, V(G("top"))),                       \* refers to the resource
  T,                                                  \* constant: dropped when satisfied
  Bin("and", NC, Bin("eq", CK, L1)),                  \* rewritten when one side is known
  ErrE,                                               \* fails
  [op |-> "isIn", a |-> PVar, ty |-> "U", e |-> RVar],                  \* `is .. in`: type test on one part, membership in another
  [op |-> "isIn", a |-> PVar, ty |-> "U", e |-> Acc(CVar, "e")] >>
KindPatterns == << <<"when", "when", "when">>, <<"unless", "when", "when">>, <<"when", "unless", "when">>, <<"when", "when", "unless">> >>
LoopShapes == <<
  [BaseEnv EXCEPT !.p = Unk("x"), !.c = Ign],
  [BaseEnv EXCEPT !.p = Ign, !.r = Unk("x")],
  [BaseEnv EXCEPT !.c = Ign, !.r = Unk("x"), !.p = Unk("y")],
  [BaseEnv EXCEPT !.c = Ign],
  [BaseEnv EXCEPT !.p = Unk("x")],
  [BaseEnv EXCEPT !.c = VRec([k |-> Unk("x"), s |-> VStr(<<97>>)]), !.r = Ign],
  [BaseEnv EXCEPT !.p = Unk("x"), !.r = Ign],
  [BaseEnv EXCEPT !.p = Unk("x"), !.c = Ign, !.r = Unk("y")] >>
NB == Len(CondBodies)
LoopCount == NB * NB * NB * Len(KindPatterns) * 2
LoopPolicy(i) ==        \* i in 0 .. LoopCount - 1
  LET b1 == (i % NB) + 1  b2 == ((i \div NB) % NB) + 1  b3 == ((i \div (NB * NB)) % NB) + 1
      kp == KindPatterns[((i \div (NB * NB * NB)) % Len(KindPatterns)) + 1]
      eff == IF (i \div (NB * NB * NB * Len(KindPatterns))) % 2 = 0 THEN "permit" ELSE "forbid"
  IN [effect |-> eff, annos |-> <<>>, principal |-> ScopeAll, action |-> ScopeAll, resource |-> ScopeAll,
      conds |-> << [kind |-> kp[1], body |-> CondBodies[b1]], [kind |-> kp[2], body |-> CondBodies[b2]],
                   [kind |-> kp[3], body |-> CondBodies[b3]] >>]

\* ---------------------------------------------------------------- literals and branches over partly known collections
\* The context holds an unknown two levels down ({r: {a: ?x}, s: [?x], k: 1}).  `context.r` and `context.s` evaluate to
\* collections that still hold the placeholder; `context.r.a` is the unknown itself; `context.k` is known.  Every
\* ordered pair of those as the members of a set literal, the fields of a record literal and the branches of an
\* if (condition undecided / decided either way), each consumed by an operator that looks inside: whatever the
\* residual keeps must still mean the same under every completion.
LeakEnv == [BaseEnv EXCEPT !.c = VRec([r |-> VRec([a |-> Unk("x")]), s |-> [k |-> "set", els |-> <<Unk("x")>>], k |-> VInt(1)])]
LeakKids == << Acc(CVar, "r"), Acc(Acc(CVar, "r"), "a"), Acc(CVar, "s"), CK, L1, V(VRec([a |-> VInt(1)])) >>
LeakConds == << Bin("eq", Acc(Acc(CVar, "r"), "a"), L1), Bin("eq", CK, L1), Bin("eq", CK, L2), Bin("eq", Acc(Acc(CVar, "r"), "a"), V(VInt(7))) >>
A1 == V(VRec([a |-> VInt(1)]))
LeakUses(e) == << Bin("contains", e, A1), Bin("contains", e, L1), Bin("eq", Acc(e, "a"), L1), Bin("eq", Acc(Acc(e, "p"), "a"), L1),
                  Bin("eq", Acc(e, "q"), L1), Has(e, "a"), Bin("containsAny", e, SetE(<<L1, A1>>)), Bin("eq", e, SetE(<<A1, L1>>)),
                  Bin("eq", e, A1), Un("isEmpty", e) >>
LeakExprs ==
  Flat([i \in DOMAIN LeakKids |-> Flat([j \in DOMAIN LeakKids |->
     LeakUses(SetE(<<LeakKids[i], LeakKids[j]>>))
     \o LeakUses(RecE(<<[key |-> "p", val |-> LeakKids[i]], [key |-> "q", val |-> LeakKids[j]]>>))
     \o Flat([c \in DOMAIN LeakConds |-> LeakUses(If(LeakConds[c], LeakKids[i], LeakKids[j]))])])])
LeakPolicy(i) ==        \* i in 1 .. 2 * Len(LeakExprs)
  LET e == LeakExprs[((i - 1) % Len(LeakExprs)) + 1] IN
  [effect |-> IF i <= Len(LeakExprs) THEN "permit" ELSE "forbid", annos |-> <<>>, principal |-> ScopeAll, action |-> ScopeAll,
   resource |-> ScopeAll, conds |-> <<[kind |-> "when", body |-> e]>>]
NLeak == 2 * Len(LeakExprs)

VARIABLES idx, sh, done
vars == <<idx, sh, done>>
\* idx > 0: expression universe policy idx under shape sh; idx <= 0: loop policy -idx under loop shape sh
Init == /\ done = FALSE
        /\ \/ idx \in { i \in DOMAIN Exprs : i % Stride = 0 } /\ sh \in DOMAIN Shapes
           \/ idx \in { -i : i \in { j \in 0..(LoopCount - 1) : j % LoopStride = 0 } } /\ sh \in DOMAIN LoopShapes
           \/ idx \in { -(LoopCount + i) : i \in { j \in 1..NLeak : j % LeakStride = 0 } } /\ sh = 1
Next == ~done /\ done' = TRUE /\ UNCHANGED <<idx, sh>>

Emit ==
  done =>
    Serialize(ToJson(IF idx > 0 THEN [op |-> "partial", policy |-> PolicyOf(idx), penv |-> Shapes[sh]]
                     ELSE IF -idx < LoopCount THEN [op |-> "partial", policy |-> LoopPolicy(-idx), penv |-> LoopShapes[sh]]
                     ELSE [op |-> "partial", policy |-> LeakPolicy(-idx - LoopCount), penv |-> LeakEnv]) \o "\n", "cases.ndjson",
              [format |-> "TXT", charset |-> "UTF-8", openOptions |-> <<"WRITE", "CREATE", "APPEND">>]).exitValue = 0
=============================================================================
