---------------------------- MODULE MC_PartialGen ----------------------------
(***************************************************************************)
(* C06: inputs for partial evaluation.  Every policy of the expression     *)
(* universe (conditions over the request variables, see MC_Fold!PolicyOf)  *)
(* under every partial-environment shape: unknown principal / action /     *)
(* resource / whole context, unknowns nested in context records and sets,  *)
(* two unknowns at once, ignored principal / context, and the fully        *)
(* concrete environment; and the conditions-loop family (see below).  The  *)
(* harness runs the real PartialPolicy on each  *)
(* and records the residual; Trace_Partial judges it.                      *)
(***************************************************************************)
EXTENDS Partial, ExprUniverse, Json, IOUtils, TLC

CONSTANTS UseDepth2, Stride, LoopStride

Exprs == IF UseDepth2 THEN Depth1 \o Depth2 ELSE Depth1

Unk(n) == [k |-> "unknown", name |-> n]
Ign == [k |-> "ignore"]
BaseEnv == Env1W
Shapes == <<
  BaseEnv,
  \* an unknown two levels down, below a set
  [BaseEnv EXCEPT !.c = VRec([k |-> VInt(1), ss |-> [k |-> "set", els |-> <<VRec([n |-> Unk("x")])>>]])],
  \* a boolean unknown nested in the context
  [BaseEnv EXCEPT !.c = VRec([k |-> Unk("x"), s |-> VStr(<<97>>), ss |-> [k |-> "set", els |-> <<Unk("y")>>]])],
  [BaseEnv EXCEPT !.p = Unk("x")],
  [BaseEnv EXCEPT !.a = Unk("x")],
  [BaseEnv EXCEPT !.r = Unk("x")],
  [BaseEnv EXCEPT !.c = Unk("x")],
  [BaseEnv EXCEPT !.c = VRec([k |-> Unk("x"), s |-> VStr(<<97>>), e |-> U("a")])],
  [BaseEnv EXCEPT !.c = VRec([k |-> VInt(1), s |-> Unk("x"), r |-> VRec([n |-> Unk("y")])])],
  [BaseEnv EXCEPT !.c = VRec([k |-> VInt(1), ss |-> [k |-> "set", els |-> <<Unk("x"), VInt(1)>>]])],
  [BaseEnv EXCEPT !.p = Unk("x"), !.c = VRec([k |-> Unk("y"), s |-> VStr(<<97>>)])],
  [BaseEnv EXCEPT !.p = Unk("x"), !.r = Unk("x")],
  [BaseEnv EXCEPT !.p = Ign],
  [BaseEnv EXCEPT !.c = Ign],
  [BaseEnv EXCEPT !.r = Ign, !.c = VRec([k |-> Unk("x")])]
>>

PolicyOf(i) ==
  LET e == Exprs[i]
      conds == CASE i % 3 = 0 -> <<[kind |-> "unless", body |-> e]>>
                 [] i % 3 = 1 -> <<[kind |-> "when", body |-> e]>>
                 [] OTHER -> <<[kind |-> "when", body |-> NC], [kind |-> "when", body |-> e]>>
  IN [effect |-> IF i % 2 = 0 THEN "permit" ELSE "forbid", annos |-> <<>>,
      principal |-> IF i % 5 = 0 THEN ScopeIn(G("g")) ELSE IF i % 5 = 1 THEN ScopeEq(U("a")) ELSE ScopeAll,
      action |-> IF i % 7 = 0 THEN ScopeInSet(<<A("view"), A("edit")>>) ELSE ScopeAll,
      resource |-> IF i % 4 = 0 THEN ScopeIsIn("G", G("top")) ELSE ScopeAll,
      conds |-> conds]

\* ---------------------------------------------------------------- the conditions loop
\* Policies with three conditions, every ordered triple over bodies that partial evaluation drops (constant,
\* satisfied), rewrites (partly known), keeps as written (unknown), fails (error) or -- on an ignored part --
\* drops from a permit, under environment shapes that mix unknown and ignored parts: every order in which the
\* loop over the conditions of PartialPolicy can meet "drop", "rewrite", "keep" and "stop".
CondBodies == <<
  Bin("eq", CK, L1),                                  \* refers to the context
  NC,                                                 \* refers to the principal
  Bin("in", RVar, V(G("top"))),                       \* refers to the resource
  T,                                                  \* constant: dropped when satisfied
  Bin("and", NC, Bin("eq", CK, L1)),                  \* rewritten when one side is known
  ErrE >>                                             \* fails
KindPatterns == << <<"when", "when", "when">>, <<"unless", "when", "when">>, <<"when", "unless", "when">>, <<"when", "when", "unless">> >>
LoopShapes == <<
  [BaseEnv EXCEPT !.p = Unk("x"), !.c = Ign],
  [BaseEnv EXCEPT !.p = Ign, !.r = Unk("x")],
  [BaseEnv EXCEPT !.c = Ign, !.r = Unk("x"), !.p = Unk("y")],
  [BaseEnv EXCEPT !.c = Ign],
  [BaseEnv EXCEPT !.p = Unk("x")],
  [BaseEnv EXCEPT !.c = VRec([k |-> Unk("x"), s |-> VStr(<<97>>)]), !.r = Ign] >>
NB == Len(CondBodies)
LoopCount == NB * NB * NB * Len(KindPatterns) * 2
LoopPolicy(i) ==        \* i in 0 .. LoopCount - 1
  LET b1 == (i % NB) + 1  b2 == ((i \div NB) % NB) + 1  b3 == ((i \div (NB * NB)) % NB) + 1
      kp == KindPatterns[((i \div (NB * NB * NB)) % Len(KindPatterns)) + 1]
      eff == IF (i \div (NB * NB * NB * Len(KindPatterns))) % 2 = 0 THEN "permit" ELSE "forbid"
  IN [effect |-> eff, annos |-> <<>>, principal |-> ScopeAll, action |-> ScopeAll, resource |-> ScopeAll,
      conds |-> << [kind |-> kp[1], body |-> CondBodies[b1]], [kind |-> kp[2], body |-> CondBodies[b2]],
                   [kind |-> kp[3], body |-> CondBodies[b3]] >>]

VARIABLES idx, sh, done
vars == <<idx, sh, done>>
\* idx > 0: expression universe policy idx under shape sh; idx <= 0: loop policy -idx under loop shape sh
Init == /\ done = FALSE
        /\ \/ idx \in { i \in DOMAIN Exprs : i % Stride = 0 } /\ sh \in DOMAIN Shapes
           \/ idx \in { -i : i \in { j \in 0..(LoopCount - 1) : j % LoopStride = 0 } } /\ sh \in DOMAIN LoopShapes
Next == ~done /\ done' = TRUE /\ UNCHANGED <<idx, sh>>

Emit ==
  done =>
    Serialize(ToJson(IF idx > 0 THEN [op |-> "partial", policy |-> PolicyOf(idx), penv |-> Shapes[sh]]
                     ELSE [op |-> "partial", policy |-> LoopPolicy(-idx), penv |-> LoopShapes[sh]]) \o "\n", "cases.ndjson",
              [format |-> "TXT", charset |-> "UTF-8", openOptions |-> <<"WRITE", "CREATE", "APPEND">>]).exitValue = 0
=============================================================================
