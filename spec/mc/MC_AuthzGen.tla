----------------------------- MODULE MC_AuthzGen -----------------------------
(***************************************************************************)
(* C02 / C14, M2: behaviours of the authorizer loop with concrete policies.*)
(* Each class {permit, forbid} x {sat, unsat, err} is realised by several  *)
(* concrete policies (unsatisfied by scope / when false / unless true;     *)
(* erroring by type error, missing attribute, overflow, bad extension      *)
(* literal, non-boolean condition, error in an unless clause ...).  TLC    *)
(* explores the loop with every iteration order; every terminal behaviour  *)
(* is emitted with the iteration order that was taken and the result the   *)
(* specification defines.  The harness authorizes the same policies three  *)
(* ways: PolicySet (Go map order), a PolicyIterator that yields exactly    *)
(* the emitted order, and one parsed document (positions).                 *)
(***************************************************************************)
EXTENDS Authz, Universe, Json, IOUtils, TLC

CONSTANT MaxN

V(v) == [op |-> "val", v |-> v]
Var(n) == [op |-> "var", name |-> n]
Bin(op, a, b) == [op |-> op, l |-> a, r |-> b]
When(e) == [kind |-> "when", body |-> e]
Unless(e) == [kind |-> "unless", body |-> e]
Pol(eff, ps, as, rs, cs) == [effect |-> eff, annos |-> <<>>, principal |-> ps, action |-> as, resource |-> rs, conds |-> cs]

ErrType == Bin("add", V(VInt(1)), V(VStr(<<97>>)))
ErrAttr == [op |-> "access", a |-> Var("context"), attr |-> "missing"]
ErrOvf  == Bin("eq", Bin("add", V(VLong(MaxI64)), V(VInt(1))), V(VInt(0)))
ErrExt  == [op |-> "ext", fn |-> "isIpv4", args |-> <<[op |-> "ext", fn |-> "ip", args |-> <<V(VStr(<<120>>))>>]>>]
ErrEnt  == Bin("eq", [op |-> "access", a |-> V(U("zz")), attr |-> "n"], V(VInt(1)))

\* realisations under Env1W (principal U::a in G::g in G::top, action Action::view in Action::all,
\* resource G::g, context {k: 1, s: "a", e: U::a})
Real(eff, o, alt) ==
  CASE o = "sat" ->
         (CASE alt = 1 -> Pol(eff, ScopeAll, ScopeAll, ScopeAll, <<>>)
            [] alt = 2 -> Pol(eff, ScopeEq(U("a")), ScopeIn(A("all")), ScopeIs("G"), <<When(V(VTrue)), Unless(V(VFalse))>>)
            [] alt = 3 -> Pol(eff, ScopeIn(G("top")), ScopeInSet(<<A("edit"), A("view")>>), ScopeIsIn("G", G("top")),
                              <<When(Bin("eq", [op |-> "access", a |-> Var("context"), attr |-> "k"], V(VInt(1))))>>)
            [] OTHER   -> Pol(eff, ScopeIsIn("U", G("g")), ScopeEq(A("view")), ScopeEq(G("g")),
                              <<Unless(Bin("in", Var("principal"), V(A("all")))),
                                When(Bin("or", V(VTrue), ErrType))>>))
    [] o = "unsat" ->
         (CASE alt = 1 -> Pol(eff, ScopeEq(U("b")), ScopeAll, ScopeAll, <<>>)
            [] alt = 2 -> Pol(eff, ScopeAll, ScopeAll, ScopeAll, <<When(V(VFalse)), When(ErrType)>>)
            [] alt = 3 -> Pol(eff, ScopeAll, ScopeInSet(<<>>), ScopeAll, <<When(ErrType)>>)
            [] OTHER   -> Pol(eff, ScopeAll, ScopeAll, ScopeIs("U"), <<Unless(V(VTrue))>>))
    [] OTHER ->
         (CASE alt = 1 -> Pol(eff, ScopeAll, ScopeAll, ScopeAll, <<When(ErrType)>>)
            [] alt = 2 -> Pol(eff, ScopeEq(U("a")), ScopeAll, ScopeAll, <<When(V(VTrue)), Unless(ErrAttr)>>)
            [] alt = 3 -> Pol(eff, ScopeAll, ScopeAll, ScopeAll, <<When(V(VInt(1)))>>)
            [] alt = 4 -> Pol(eff, ScopeAll, ScopeAll, ScopeAll, <<When(ErrOvf)>>)
            [] alt = 5 -> Pol(eff, ScopeAll, ScopeAll, ScopeAll, <<Unless(ErrExt)>>)
            [] OTHER   -> Pol(eff, ScopeAll, ScopeIn(A("all")), ScopeAll, <<When(ErrEnt)>>))

NAlt(o) == IF o = "err" THEN 6 ELSE 4
Classes == {"permit", "forbid"} \X {"sat", "unsat", "err"}
IdOf(i) == <<"p1", "p2", "p3", "p4", "p5", "p6">>[i]

VARIABLES pols, st, order
vars == <<pols, st, order>>

\* the alternative used for position i rotates with i and the class so that all occur
Init == \E n \in 0..MaxN : \E cls \in [1..n -> Classes] : \E rot \in 0..1 :
          /\ pols = [i \in 1..n |-> Real(cls[i][1], cls[i][2], ((i + rot * 3 + n) % NAlt(cls[i][2])) + 1)]
          /\ st = LoopInit(1..n)
          /\ order = <<>>

Env == EnvFromWire(Env1W)
Effects == [i \in DOMAIN pols |-> pols[i].effect]
Outcomes == [i \in DOMAIN pols |-> Outcome(PolicyFromWire(pols[i]), Env)]

Visit(i) == /\ i \in st.todo
            /\ st' = LoopStep(st, i, Effects, Outcomes)
            /\ order' = Append(order, i)
            /\ UNCHANGED pols

Finish == /\ st.todo = {} /\ ~st.done
          /\ st' = [st EXCEPT !.done = TRUE]
          /\ UNCHANGED <<pols, order>>

Next == (\E i \in st.todo : Visit(i)) \/ Finish

Ids(S) == { IdOf(i) : i \in S }
\* the loop's result in this order equals the abstract result (checked on every emitted behaviour)
Correct == st.done => LoopResult(st) = ResultOf(DOMAIN pols, Effects, Outcomes)

Emit ==
  st.done =>
    LET r == LoopResult(st) IN
    Serialize(ToJson([op |-> "authz",
                      policies |-> [i \in DOMAIN pols |-> [id |-> IdOf(i), policy |-> pols[i]]],
                      order |-> [k \in DOMAIN order |-> IdOf(order[k])],
                      env |-> Env1W, text |-> TRUE,
                      exp |-> [decision |-> r.decision, reasons |-> Ids(r.reasons), errors |-> Ids(r.errors)]]) \o "\n",
              "cases.ndjson",
              [format |-> "TXT", charset |-> "UTF-8", openOptions |-> <<"WRITE", "CREATE", "APPEND">>]).exitValue = 0
=============================================================================
