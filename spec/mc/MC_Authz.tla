------------------------------ MODULE MC_Authz ------------------------------
(***************************************************************************)
(* C02 / C14, M1: the authorizer's single pass, in EVERY iteration order,  *)
(* computes the abstract decision/reasons/errors, for every multiset of    *)
(* policy classes {permit, forbid} x {sat, unsat, err} up to MaxN          *)
(* policies.  One action per loop iteration; the order is the choice of i. *)
(***************************************************************************)
EXTENDS Authz, TLC

CONSTANT MaxN

Classes == {"permit", "forbid"} \X {"sat", "unsat", "err"}

VARIABLES effect, oc, st
vars == <<effect, oc, st>>

Init == \E n \in 0..MaxN : \E cls \in [1..n -> Classes] :
          /\ effect = [i \in 1..n |-> cls[i][1]]
          /\ oc = [i \in 1..n |-> cls[i][2]]
          /\ st = LoopInit(1..n)

Visit(i) == /\ i \in st.todo
            /\ st' = LoopStep(st, i, effect, oc)
            /\ UNCHANGED <<effect, oc>>

Finish == /\ st.todo = {} /\ ~st.done
          /\ st' = [st EXCEPT !.done = TRUE]
          /\ UNCHANGED <<effect, oc>>

Next == (\E i \in st.todo : Visit(i)) \/ Finish
Spec == Init /\ [][Next]_vars /\ WF_vars(Next)

Ids == DOMAIN effect
Visited == Ids \ st.todo

\* the result is the abstract one, whatever the order was
Correct == st.done => LoopResult(st) = ResultOf(Ids, effect, oc)

\* at every point of the loop the collected sets describe exactly the visited policies
Collected ==
  /\ st.permits = { i \in Visited : effect[i] = "permit" /\ oc[i] = "sat" }
  /\ st.forbids = { i \in Visited : effect[i] = "forbid" /\ oc[i] = "sat" }
  /\ st.errs    = { i \in Visited : oc[i] = "err" }

\* the statement's clauses, on the final result
Statement ==
  st.done =>
    LET r == LoopResult(st)
        satP == { i \in Ids : effect[i] = "permit" /\ oc[i] = "sat" }
        satF == { i \in Ids : effect[i] = "forbid" /\ oc[i] = "sat" }
    IN /\ (r.decision = "allow") <=> (satP # {} /\ satF = {})
       /\ r.reasons = (IF satF # {} THEN satF ELSE satP)
       /\ r.errors = { i \in Ids : oc[i] = "err" }
       /\ (r.decision = "allow" => \A i \in r.reasons : effect[i] = "permit")
       /\ (r.reasons # {} /\ r.decision = "deny" => \A i \in r.reasons : effect[i] = "forbid")
       /\ r.reasons \cap r.errors = {}

\* every policy is visited exactly once; the loop never revisits
Monotone == [][st'.todo \subseteq st.todo /\ (st'.todo = st.todo => st'.done)]_vars
Terminates == <>(st.done)
=============================================================================
