------------------------------- MODULE Marshal -------------------------------
(***************************************************************************)
(* C08: what it means for a policy to survive rendering to Cedar text.     *)
(* SamePolicy(a, b, envs): same effect, same annotations (as a map), same  *)
(* scope, and every condition evaluates identically (same value or same    *)
(* kind of failure, CedarValues!Same) under every environment; if the      *)
(* conditions do not line up one to one, the policies must at least have   *)
(* the same Outcome everywhere.  The judge for text is the specification's *)
(* own reader: Syntax!Lex followed by Syntax!ParsePolicy.                  *)
(***************************************************************************)
EXTENDS Syntax, Universe

AnnoSet(p) == { p.annos[i] : i \in DOMAIN p.annos }
SameHead(a, b) ==
  /\ a.effect = b.effect
  /\ Len(a.annos) = Len(b.annos) /\ AnnoSet(a) = AnnoSet(b)
  /\ a.principal = b.principal /\ a.action = b.action /\ a.resource = b.resource

Aligned(a, b) == /\ Len(a.conds) = Len(b.conds)
                 /\ \A i \in DOMAIN a.conds : a.conds[i].kind = b.conds[i].kind
SameConds(a, b, envs) ==
  IF Aligned(a, b)
  THEN \A i \in DOMAIN a.conds : \A k \in DOMAIN envs :
          Same(Eval(a.conds[i].body, envs[k]), Eval(b.conds[i].body, envs[k]))
  ELSE \A k \in DOMAIN envs : Outcome(a, envs[k]) = Outcome(b, envs[k])
SamePolicy(a, b, envs) == SameHead(a, b) /\ SameConds(a, b, envs)

\* the first environment under which the policies differ (0: none) -- for reports
FirstDiff(a, b, envs) ==
  IF ~Aligned(a, b) THEN 0
  ELSE LET ks == { k \in DOMAIN envs : \E i \in DOMAIN a.conds :
                      ~Same(Eval(a.conds[i].body, envs[k]), Eval(b.conds[i].body, envs[k])) }
       IN IF ks = {} THEN 0 ELSE CHOOSE k \in ks : \A j \in ks : k <= j

\* what the specification reads in a text (code points): [ok, v] of one policy / [ok, v] of a list
ReadPolicy(cps) == LET lx == Lex(cps) IN IF lx.ok THEN ParsePolicy(lx.toks) ELSE [ok |-> FALSE]
ReadPolicyList(cps) == LET lx == Lex(cps) IN IF lx.ok THEN ParsePolicyList(lx.toks) ELSE [ok |-> FALSE]

\* ------------------------------------------------------------------ environments
\* for the syntax universes (entity types are path components there)
SUa == VEnt(<<"U">>, "a")
SNx == VEnt(<<"NS", "T">>, "x y")
SAct == VEnt(<<"Action">>, "view")
OddAttrs == [n \in {"name", "if", "a b", "", "k", "true"} |->
               IF n = "name" THEN VInt(1) ELSE IF n = "if" THEN VTrue ELSE IF n = "k" THEN VStr(<<97>>)
               ELSE [k |-> "set", els |-> <<VInt(1), VInt(2)>>]]
SStoreW == << [uid |-> SUa, parents |-> <<SNx>>, attrs |-> OddAttrs, tags |-> << <<<<97>>, VInt(1)>> >>],
              [uid |-> SNx, parents |-> <<>>, attrs |-> [name |-> VStr(<<120>>)], tags |-> <<>>] >>
SyntaxEnvWs == << [p |-> SUa, a |-> SAct, r |-> SNx, c |-> VRec(OddAttrs), store |-> SStoreW],
                  [p |-> SNx, a |-> SAct, r |-> SUa, c |-> EmptyRec, store |-> <<>>],
                  [p |-> SUa, a |-> SAct, r |-> SUa, c |-> VRec([name |-> VInt(-5), k |-> VRec(OddAttrs)]), store |-> SStoreW] >>
SyntaxEnvs == [i \in DOMAIN SyntaxEnvWs |-> EnvFromWire(SyntaxEnvWs[i])]
=============================================================================
