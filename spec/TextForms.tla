------------------------------ MODULE TextForms ------------------------------
(***************************************************************************)
(* C12: the text forms of scalar and extension values.                     *)
(*                                                                         *)
(* SpecRead(kind, s): the documented literal syntax of decimal / duration /*)
(* datetime / ipaddr applied to a code-point sequence (CedarExt parsers,   *)
(* exact multi-limb arithmetic, 64-bit range).                             *)
(* ReadValue(s): what the Cedar expression syntax reads in a text: the     *)
(* specification's own lexer, expression parser and evaluator -- used to   *)
(* read what the implementation's MarshalCedar wrote.                      *)
(* ReadUID(s): Path::"string literal".                                     *)
(* Constructors are exact: NewDecimalExact(i, e) = i * 10^e, or failure.   *)
(***************************************************************************)
EXTENDS Marshal

SpecRead(kind, s) ==
  CASE kind = "decimal" -> ParseDecimal(s)
    [] kind = "duration" -> ParseDuration(s)
    [] kind = "datetime" -> ParseDatetime(s)
    [] kind = "ip" -> ParseIP(s)
    [] OTHER -> PFail

KindOfValue(v) == CASE v.k = "dec" -> "decimal" [] v.k = "dur" -> "duration" [] v.k = "dt" -> "datetime"
                    [] v.k = "ip" -> "ip" [] OTHER -> "none"

\* a closed Cedar expression read from text and evaluated (no request, no entities are consulted)
ReadEnv == SyntaxEnvs[1]
ReadValue(s) ==
  LET lx == Lex(s) IN
  IF ~lx.ok THEN PFail
  ELSE LET e == PExpr(lx.toks, 1) IN
       IF ~e.ok \/ e.i # Len(lx.toks) + 1 THEN PFail ELSE Eval(e.v, ReadEnv)

ReadUID(s) ==
  LET lx == Lex(s) IN
  IF ~lx.ok THEN PFail
  ELSE LET e == ParseEntity(lx.toks, 1) IN
       IF ~e.ok \/ e.i # Len(lx.toks) + 1 THEN PFail ELSE Ok(e.v)

\* ---------------------------------------------------------------- constructors
\* decimal values are ten-thousandths: i * 10^e is representable iff i * 10^(e+4) is an integer in i64
Pow10(k) == Mk(FALSE, Pow10Mag(k))
NewDecimalExact(i, e) ==
  IF e >= -4
  THEN (IF e > 20 THEN (IF IsZero(i) THEN Ok(VDec(Zero)) ELSE PFail)
        ELSE LET x == Mul(i, Pow10(e + 4)) IN IF InI64(x) THEN Ok(VDec(x)) ELSE PFail)
  ELSE PFail        \* below the precision: no demand is made (see TextObs)

\* Duration.Duration(): milliseconds as Go nanoseconds (time.Duration is a 64-bit count of nanoseconds), or failure
DurationToNanos(ms) == LET x == Mul(ms, FromInt(1000000)) IN IF InI64(x) THEN Ok(VLong(x)) ELSE PFail

\* the Go-side accessors: whole units, truncating toward zero; NewDuration(time.Duration) keeps whole milliseconds of
\* a nanosecond count; NewDatetime(d.Time()) is d
UnitMillis(u) == CASE u = "Duration.ToDays" -> 86400000 [] u = "Duration.ToHours" -> 3600000 [] u = "Duration.ToMinutes" -> 60000
                   [] u = "Duration.ToSeconds" -> 1000 [] OTHER -> 1
DurationToUnit(u, ms) == Ok(VLong(DivTrunc(ms, UnitMillis(u))))
NewDurationFromNanos(ns) == Ok(VDur(DivTrunc(ns, 1000000)))

\* a binary floating-point number m * 2^p (m: 64-bit integer) times 10^4, truncated toward zero
RECURSIVE Pow2(_)
Pow2(k) == IF k = 0 THEN 1 ELSE 2 * Pow2(k - 1)
RECURSIVE Pow2Num(_)
Pow2Num(k) == IF k = 0 THEN One ELSE Mul(FromInt(2), Pow2Num(k - 1))
FloatTimes1e4(m, p) ==
  LET x == Mul(m, FromInt(10000)) IN
  IF p >= 0 THEN Mul(x, Pow2Num(p)) ELSE DivTrunc(x, Pow2(0 - p))
NewDecimalFromFloatExact(m, p) ==
  LET x == FloatTimes1e4(m, p) IN IF InI64(x) THEN Ok(VDec(x)) ELSE PFail
=============================================================================
