------------------------------- MODULE Typing -------------------------------
(***************************************************************************)
(* C15: what validation promises.  If the validator accepts a policy       *)
(* against a schema, then under every request and entity store that        *)
(* conform to the schema the evaluation of the policy does not fail with   *)
(* an error of a class in Forbidden: a type error, an arity or unknown-    *)
(* function error, a missing attribute (on a record or on an entity that   *)
(* is present), a missing tag on a present entity.  Overflow, absent       *)
(* entities and extension run-time errors remain possible.                 *)
(*                                                                         *)
(* The error class comes from the specification's own evaluator            *)
(* (CedarEval, see C01); the typing RULES are not modelled: the statement  *)
(* is about what the real validator accepts.  ConformsV / ConformsEnv      *)
(* define conformance of values, entities and requests to a resolved       *)
(* schema (SchemaModel!Resolve), so that every environment of the universe *)
(* is checked to conform before it is used as a witness.                   *)
(***************************************************************************)
EXTENDS CedarPolicy, SchemaModel

Forbidden == {"type", "arity", "unknownFunction", "attr", "tag"}
ErrClass(r) == IF r.ok THEN "none" ELSE r.cls
\* the error class of a whole policy (scope, then conditions, as the authorizer evaluates it)
PolicyErrClass(p, env) == ErrClass(Eval(PolicyToExpr(p), env))
Sound(p, envs) == \A k \in DOMAIN envs : PolicyErrClass(p, envs[k]) \notin Forbidden
Witnesses(p, envs) == { k \in DOMAIN envs : PolicyErrClass(p, envs[k]) \in Forbidden }

\* ------------------------------------------------------------ conformance
RECURSIVE ConformsV(_, _, _)
ConformsV(rs, v, t) ==          \* value v has resolved type t (entities: declared type; presence in the store is not required)
  CASE t.t = "string" -> v.k = "str"
    [] t.t = "long" -> v.k = "long"
    [] t.t = "bool" -> v.k = "bool"
    [] t.t = "ext" -> v.k = (CASE t.name = "decimal" -> "dec" [] t.name = "ipaddr" -> "ip" [] t.name = "datetime" -> "dt" [] OTHER -> "dur")
    [] t.t = "set" -> v.k = "set" /\ \A x \in v.els : ConformsV(rs, x, t.el)
    [] t.t = "entity" -> v.k = "ent" /\ v.ty = t.name
    [] t.t = "rec" -> /\ v.k = "rec"
                      /\ DOMAIN v.f \subseteq DOMAIN t.attrs
                      /\ \A a \in DOMAIN t.attrs : (a \in DOMAIN v.f \/ t.attrs[a].opt)
                      /\ \A a \in DOMAIN v.f : ConformsV(rs, v.f[a], t.attrs[a].type)
    [] OTHER -> FALSE
ConformsEntity(rs, uid, e) ==
  IF uid.ty \in DOMAIN rs.entities
  THEN LET d == rs.entities[uid.ty] IN
       /\ ConformsV(rs, VRec(e.attrs), d.shape)
       /\ \A p \in e.parents : p.ty \in d.parents
       /\ IF d.tags.t = "none" THEN DOMAIN e.tags = {} ELSE \A k \in DOMAIN e.tags : ConformsV(rs, e.tags[k], d.tags)
  ELSE \E u \in DOMAIN rs.actions : u = <<uid.ty, uid.id>> /\ { <<p.ty, p.id>> : p \in e.parents } = rs.actions[u].parents
ConformsEnv(rs, env) ==
  /\ env.a.k = "ent" /\ <<env.a.ty, env.a.id>> \in DOMAIN rs.actions
  /\ LET ap == rs.actions[<<env.a.ty, env.a.id>>].applies IN
     /\ ap.t = "some" /\ env.p.ty \in ap.principals /\ env.r.ty \in ap.resources /\ ConformsV(rs, env.c, ap.context)
  /\ \A uid \in DOMAIN env.store : ConformsEntity(rs, uid, env.store[uid])
=============================================================================
