------------------------------ MODULE CedarExt ------------------------------
(***************************************************************************)
(* Cedar extension types: text forms (parsers over code-point sequences)   *)
(* and operations of decimal, ipaddr, datetime (RFC 80, expanded years RFC *)
(* 110) and duration.  Transcribed from the Cedar language documents, not  *)
(* from the Go code.  All arithmetic is exact (Num64) followed by an       *)
(* explicit 64-bit range test.                                             *)
(***************************************************************************)
EXTENDS CedarValues

\* ------------------------------------------------------------- characters
IsDigit(c)  == c \in 48..57
DigitVal(c) == c - 48
IsHex(c)    == c \in 48..57 \/ c \in 65..70 \/ c \in 97..102
HexVal(c)   == IF c \in 48..57 THEN c - 48 ELSE IF c \in 65..70 THEN c - 55 ELSE c - 87
AllDigits(s) == \A i \in DOMAIN s : IsDigit(s[i])
DigitVals(s) == [i \in DOMAIN s |-> DigitVal(s[i])]
Slice(s, i, j) == IF j < i THEN <<>> ELSE SubSeq(s, i, j)   \* tolerant SubSeq

\* index of first occurrence of c in s at or after i, 0 if none
RECURSIVE IndexFrom(_, _, _)
IndexFrom(s, c, i) == IF i > Len(s) THEN 0 ELSE IF s[i] = c THEN i ELSE IndexFrom(s, c, i + 1)
Index(s, c) == IndexFrom(s, c, 1)
CountOf(s, c) == Cardinality({ i \in DOMAIN s : s[i] = c })

\* number written with decimal digits (any length) as a native integer, only
\* used where the caller has bounded the length (<= 9 digits)
RECURSIVE NatOfFrom(_, _, _)
NatOfFrom(s, i, acc) == IF i > Len(s) THEN acc ELSE NatOfFrom(s, i + 1, acc * 10 + DigitVal(s[i]))
NatOf(s) == NatOfFrom(s, 1, 0)

PFail == Err("extension")

\* ---------------------------------------------------------------- decimal
\*   -?[0-9]+ . [0-9]{1,4}   value = +-(int * 10^4 + frac * 10^(4-len)) in i64
ParseDecimal(s) ==
  LET neg  == Len(s) > 0 /\ s[1] = 45
      body == IF neg THEN Tail(s) ELSE s
      dot  == Index(body, 46)
  IN IF dot = 0 THEN PFail
     ELSE LET ip == Slice(body, 1, dot - 1)
              fp == Slice(body, dot + 1, Len(body))
          IN IF ip = <<>> \/ fp = <<>> \/ Len(fp) > 4 \/ ~AllDigits(ip) \/ ~AllDigits(fp)
             THEN PFail
             ELSE LET scale == CASE Len(fp) = 1 -> 1000 [] Len(fp) = 2 -> 100
                                 [] Len(fp) = 3 -> 10 [] OTHER -> 1
                      mag == MagAdd(MagShift(DigitsMag(DigitVals(ip)), 1),
                                    NatMag(NatOf(fp) * scale))
                      x   == Mk(neg, mag)
                  IN IF InI64(x) THEN Ok(VDec(x)) ELSE PFail

\* --------------------------------------------------------------- duration
\*   -?([0-9]+d)?([0-9]+h)?([0-9]+m)?([0-9]+s)?([0-9]+ms)?  (at least one part)
UnitMs(u) == CASE u = 1 -> 86400000 [] u = 2 -> 3600000 [] u = 3 -> 60000 [] u = 4 -> 1000 [] OTHER -> 1

RECURSIVE DigitsEnd(_, _)
DigitsEnd(s, i) == IF i <= Len(s) /\ IsDigit(s[i]) THEN DigitsEnd(s, i + 1) ELSE i

\* returns the total magnitude, or <<-1>> for a syntax error
RECURSIVE DurParts(_, _, _, _, _)
DurParts(s, i, lastUnit, count, acc) ==
  IF i > Len(s) THEN (IF count = 0 THEN <<-1>> ELSE acc)
  ELSE LET e == DigitsEnd(s, i)
       IN IF e = i \/ e > Len(s) THEN <<-1>>
          ELSE LET c  == s[e]
                   ms == c = 109 /\ e + 1 <= Len(s) /\ s[e + 1] = 115
                   u  == CASE c = 100 -> 1 [] c = 104 -> 2 [] ms -> 5 [] c = 109 -> 3
                           [] c = 115 -> 4 [] OTHER -> 0
               IN IF u = 0 \/ u <= lastUnit THEN <<-1>>
                  ELSE DurParts(s, IF ms THEN e + 2 ELSE e + 1, u, count + 1,
                                MagAdd(acc, MagMul(DigitsMag(DigitVals(Slice(s, i, e - 1))),
                                                   NatMag(UnitMs(u)))))

ParseDuration(s) ==
  LET neg  == Len(s) > 0 /\ s[1] = 45
      body == IF neg THEN Tail(s) ELSE s
      tot  == DurParts(body, 1, 0, 0, <<>>)
  IN IF tot = <<-1>> THEN PFail
     ELSE LET x == Mk(neg, tot) IN IF InI64(x) THEN Ok(VDur(x)) ELSE PFail

\* --------------------------------------------------------------- datetime
IsLeap(y)   == (y % 4 = 0 /\ y % 100 # 0) \/ y % 400 = 0
DaysIn(y, m) == CASE m = 2 -> (IF IsLeap(y) THEN 29 ELSE 28)
                  [] m \in {4, 6, 9, 11} -> 30
                  [] OTHER -> 31

\* days since 1970-01-01 of the proleptic Gregorian date y-m-d (astronomical
\* year numbering, year 0 exists) -- "days from civil"; y is a native integer
DaysFromCivil(y, m, d) ==
  LET yy  == IF m <= 2 THEN y - 1 ELSE y
      era == yy \div 400                       \* flooring
      yoe == yy - era * 400                    \* 0..399
      mp  == IF m > 2 THEN m - 3 ELSE m + 9
      doy == (153 * mp + 2) \div 5 + d - 1
      doe == yoe * 365 + yoe \div 4 - yoe \div 100 + doy
  IN Add(Mul(FromInt(era), FromInt(146097)), FromInt(doe - 719468))

MsPerDay == 86400000

Field(s, i, n) == Slice(s, i, i + n - 1)
IsField(s, i, n) == i + n - 1 <= Len(s) /\ AllDigits(Field(s, i, n))
At(s, i, c) == i <= Len(s) /\ s[i] = c

ParseDatetime(s) ==
  LET signed == Len(s) > 0 /\ s[1] \in {43, 45}
      yneg   == signed /\ s[1] = 45
      ylen   == IF signed THEN 9 ELSE 4
      y0     == IF signed THEN 2 ELSE 1          \* first year digit
      m0     == y0 + ylen + 1
      d0     == m0 + 3
      t0     == d0 + 2                           \* position of 'T' or end
  IN IF ~(IsField(s, y0, ylen) /\ At(s, y0 + ylen, 45) /\ IsField(s, m0, 2)
          /\ At(s, m0 + 2, 45) /\ IsField(s, d0, 2))
     THEN PFail
     ELSE
     LET yabs == NatOf(Field(s, y0, ylen))
         y    == IF yneg THEN 0 - yabs ELSE yabs
         mo   == NatOf(Field(s, m0, 2))
         d    == NatOf(Field(s, d0, 2))
     IN IF ~(mo \in 1..12 /\ d >= 1 /\ d <= DaysIn(y, mo)) THEN PFail
        ELSE
        LET dayMs == Mul(DaysFromCivil(y, mo, d), FromInt(MsPerDay))
        IN IF Len(s) = t0 - 1
           THEN (IF InI64(dayMs) THEN Ok(VDt(dayMs)) ELSE PFail)
           ELSE
           IF ~(At(s, t0, 84) /\ IsField(s, t0 + 1, 2) /\ At(s, t0 + 3, 58)
                /\ IsField(s, t0 + 4, 2) /\ At(s, t0 + 6, 58) /\ IsField(s, t0 + 7, 2))
           THEN PFail
           ELSE
           LET hh  == NatOf(Field(s, t0 + 1, 2))
               mi  == NatOf(Field(s, t0 + 4, 2))
               ss  == NatOf(Field(s, t0 + 7, 2))
               f0  == t0 + 9
               hasMs == At(s, f0, 46)
               z0  == IF hasMs THEN f0 + 4 ELSE f0
           IN IF hh > 23 \/ mi > 59 \/ ss > 59 \/ (hasMs /\ ~IsField(s, f0 + 1, 3)) THEN PFail
              ELSE
              LET milli == IF hasMs THEN NatOf(Field(s, f0 + 1, 3)) ELSE 0
                  tod   == hh * 3600000 + mi * 60000 + ss * 1000 + milli
              IN IF At(s, z0, 90) /\ Len(s) = z0
                 THEN LET x == Add(dayMs, FromInt(tod))
                      IN IF InI64(x) THEN Ok(VDt(x)) ELSE PFail
                 ELSE IF (At(s, z0, 43) \/ At(s, z0, 45)) /\ IsField(s, z0 + 1, 4) /\ Len(s) = z0 + 4
                 THEN LET oh == NatOf(Field(s, z0 + 1, 2))
                          om == NatOf(Field(s, z0 + 3, 2))
                          off == oh * 3600000 + om * 60000
                          x  == IF s[z0] = 43 THEN Sub(Add(dayMs, FromInt(tod)), FromInt(off))
                                              ELSE Add(Add(dayMs, FromInt(tod)), FromInt(off))
                      IN IF oh > 23 \/ om > 59 THEN PFail
                         ELSE IF InI64(x) THEN Ok(VDt(x)) ELSE PFail
                 ELSE PFail

\* ----------------------------------------------------------------- ipaddr
\* split s at every occurrence of c: sequence of pieces
RECURSIVE SplitFrom(_, _, _, _)
SplitFrom(s, c, i, start) ==
  IF i > Len(s) THEN << Slice(s, start, Len(s)) >>
  ELSE IF s[i] = c THEN << Slice(s, start, i - 1) >> \o SplitFrom(s, c, i + 1, i + 1)
  ELSE SplitFrom(s, c, i + 1, start)
Split(s, c) == SplitFrom(s, c, 1, 1)

\* decimal field without leading zeros, at most maxLen digits; -1 if malformed
DecField(f, maxLen) ==
  IF f = <<>> \/ Len(f) > maxLen \/ ~AllDigits(f) \/ (Len(f) > 1 /\ f[1] = 48) THEN -1 ELSE NatOf(f)

ParseV4(a) ==       \* <<>> if malformed, else 4 bytes
  LET ps == Split(a, 46)
  IN IF Len(ps) # 4 THEN <<>>
     ELSE LET bs == [i \in 1..4 |-> DecField(ps[i], 3)]
          IN IF \E i \in 1..4 : bs[i] < 0 \/ bs[i] > 255 THEN <<>> ELSE bs

HexGroup(g) ==      \* -1 if malformed else 0..65535
  IF g = <<>> \/ Len(g) > 4 \/ \E i \in DOMAIN g : ~IsHex(g[i]) THEN -1
  ELSE LET RECURSIVE H(_, _)
           H(i, acc) == IF i > Len(g) THEN acc ELSE H(i + 1, acc * 16 + HexVal(g[i]))
       IN H(1, 0)

GroupsOf(part) == IF part = <<>> THEN <<>> ELSE [i \in DOMAIN Split(part, 58) |-> HexGroup(Split(part, 58)[i])]

\* position of the first "::" in a, 0 if none
RECURSIVE DblColon(_, _)
DblColon(a, i) == IF i + 1 > Len(a) THEN 0 ELSE IF a[i] = 58 /\ a[i + 1] = 58 THEN i ELSE DblColon(a, i + 1)

ParseV6(a) ==       \* <<>> if malformed, else 16 bytes
  LET dc == DblColon(a, 1)
      gs == IF dc = 0 THEN GroupsOf(a)
            ELSE LET l == GroupsOf(Slice(a, 1, dc - 1))
                     r == GroupsOf(Slice(a, dc + 2, Len(a)))
                 IN IF Len(l) + Len(r) > 7 \/ DblColon(a, dc + 1) # 0 THEN <<>>
                    ELSE l \o [i \in 1..(8 - Len(l) - Len(r)) |-> 0] \o r
  IN IF Len(gs) # 8 \/ \E i \in DOMAIN gs : gs[i] < 0 THEN <<>>
     ELSE [i \in 1..16 |-> IF i % 2 = 1 THEN gs[(i + 1) \div 2] \div 256 ELSE gs[i \div 2] % 256]

ParseIP(s) ==
  LET sl   == Index(s, 47)
      addr == IF sl = 0 THEN s ELSE Slice(s, 1, sl - 1)
      isV6 == Index(addr, 58) # 0
      bytes == IF isV6 THEN (IF Index(addr, 46) # 0 THEN <<>> ELSE ParseV6(addr)) ELSE ParseV4(addr)
      maxp == IF isV6 THEN 128 ELSE 32
      pfx  == IF sl = 0 THEN maxp ELSE DecField(Slice(s, sl + 1, Len(s)), IF isV6 THEN 3 ELSE 2)
  IN IF bytes = <<>> \/ pfx < 0 \/ pfx > maxp THEN PFail ELSE Ok(VIp(bytes, pfx))

IpIsV4(ip) == Len(ip.a) = 4
IpBit(ip, i) == (ip.a[((i - 1) \div 8) + 1] \div (2 ^ (7 - ((i - 1) % 8)))) % 2    \* i in 1..bitlen
\* a.isInRange(b): same family, a's prefix at least b's, and a's first b.p bits are b's
IpInRange(a, b) == /\ Len(a.a) = Len(b.a)
                   /\ a.p >= b.p
                   /\ \A i \in 1..b.p : IpBit(a, i) = IpBit(b, i)
LoopV4 == VIp(<<127, 0, 0, 0>>, 8)
LoopV6 == VIp([i \in 1..16 |-> IF i = 16 THEN 1 ELSE 0], 128)
McastV4 == VIp(<<224, 0, 0, 0>>, 4)
McastV6 == VIp([i \in 1..16 |-> IF i = 1 THEN 255 ELSE 0], 8)
IpIsLoopback(ip)  == IpInRange(ip, IF IpIsV4(ip) THEN LoopV4 ELSE LoopV6)
IpIsMulticast(ip) == IpInRange(ip, IF IpIsV4(ip) THEN McastV4 ELSE McastV6)

\* ------------------------------------------------- datetime / duration ops
\* toDate: the instant floored to a multiple of one day (error if not representable)
DtToDate(x) == LET r == Mul(DivFloor(x, MsPerDay), FromInt(MsPerDay))
               IN IF InI64(r) THEN Ok(VDt(r)) ELSE Err("overflow")
\* toTime: milliseconds since the start of that day, 0 <= t < one day
DtToTime(x) == Ok(VDur(FromInt(ModFloor(x, MsPerDay))))
Checked(x, mk(_)) == IF InI64(x) THEN Ok(mk(x)) ELSE Err("overflow")

\* ------------------------------------------------------------ arity table
ExtArity(fn) ==
  CASE fn \in {"ip", "decimal", "datetime", "duration"} -> 1
    [] fn \in {"lessThan", "lessThanOrEqual", "greaterThan", "greaterThanOrEqual",
               "isInRange", "offset", "durationSince"} -> 2
    [] fn \in {"isIpv4", "isIpv6", "isLoopback", "isMulticast", "toDate", "toTime",
               "toDays", "toHours", "toMinutes", "toSeconds", "toMilliseconds"} -> 1
    [] OTHER -> -1
ExtNames == {"ip", "decimal", "datetime", "duration", "lessThan", "lessThanOrEqual", "greaterThan",
             "greaterThanOrEqual", "isInRange", "offset", "durationSince", "isIpv4", "isIpv6",
             "isLoopback", "isMulticast", "toDate", "toTime", "toDays", "toHours", "toMinutes",
             "toSeconds", "toMilliseconds"}

\* ---------------------------------------------------------------- self-tests
\* "1970-01-01" etc. as code points
ASSUME DaysFromCivil(1970, 1, 1) = Zero
ASSUME DaysFromCivil(2000, 3, 1) = FromInt(11017)
ASSUME DaysFromCivil(1969, 12, 31) = FromInt(-1)
ASSUME DaysFromCivil(0, 1, 1) = FromInt(-719528)
ASSUME ParseDecimal(<<49, 46, 53>>) = Ok(VDec(FromInt(15000)))
ASSUME ParseDecimal(<<45, 48, 46, 48, 48, 48, 49>>) = Ok(VDec(FromInt(-1)))
ASSUME ParseDecimal(<<49>>) = PFail /\ ParseDecimal(<<49, 46>>) = PFail /\ ParseDecimal(<<46, 49>>) = PFail
ASSUME ParseDuration(<<49, 100, 50, 104, 51, 109, 52, 115, 53, 109, 115>>) =
         Ok(VDur(FromInt(86400000 + 7200000 + 180000 + 4000 + 5)))
ASSUME ParseDuration(<<49, 109, 115>>) = Ok(VDur(FromInt(1)))
ASSUME ParseDuration(<<49, 115, 49, 109>>) = PFail /\ ParseDuration(<<>>) = PFail /\ ParseDuration(<<45>>) = PFail
ASSUME ParseDatetime(<<50,48,50,52,45,48,50,45,50,57>>) = Ok(VDt(Mul(FromInt(19782), FromInt(86400000))))
ASSUME ParseDatetime(<<50,48,50,51,45,48,50,45,50,57>>) = PFail
ASSUME ParseDatetime(<<49,57,55,48,45,48,49,45,48,49,84,48,48,58,48,48,58,48,49,46,48,48,50,43,48,49,48,48>>)
         = Ok(VDt(FromInt(1002 - 3600000)))
ASSUME ParseIP(<<49,50,55,46,48,46,48,46,49>>) = Ok(VIp(<<127,0,0,1>>, 32))
ASSUME ParseIP(<<49,48,46,48,46,48,46,48,47,56>>) = Ok(VIp(<<10,0,0,0>>, 8))
ASSUME ParseIP(<<58,58,49>>) = Ok(LoopV6)
ASSUME ParseIP(<<102,102,48,48,58,58,47,56>>) = Ok(McastV6)
ASSUME ParseIP(<<49,58,58,50,58,58,51>>) = PFail /\ ParseIP(<<48,49,46,48,46,48,46,49>>) = PFail
ASSUME IpIsLoopback(VIp(<<127,1,2,3>>, 16)) /\ ~IpIsLoopback(VIp(<<127,0,0,0>>, 7))
ASSUME IpIsMulticast(VIp(<<239,1,2,3>>, 32)) /\ ~IpIsMulticast(VIp(<<224,0,0,0>>, 3))
ASSUME DtToDate(FromInt(-1)) = Ok(VDt(FromInt(-86400000))) /\ DtToTime(FromInt(-1)) = Ok(VDur(FromInt(86399999)))
ASSUME DtToDate(MinI64) = Err("overflow")
=============================================================================
