----------------------------- MODULE CedarValues -----------------------------
(***************************************************************************)
(* Cedar values.  Sets are TLA+ sets and records are TLA+ functions from   *)
(* keys to values, so duplicates, insertion order and hash collisions do   *)
(* not exist in the model; equality of Cedar values is TLA+ equality.      *)
(* Every kind uses its own payload field names so that values of different *)
(* kinds can live in one TLA+ set.                                         *)
(*                                                                         *)
(* 64-bit payloads (long, decimal in ten-thousandths, datetime and         *)
(* duration in milliseconds) are Num64 numbers.  Strings are sequences of  *)
(* Unicode code points.  Entity types, entity ids and record keys are only *)
(* ever compared, so they are atomic TLA+ strings (the Go side maps        *)
(* non-ASCII names injectively into ASCII).                                *)
(***************************************************************************)
EXTENDS Num64, FiniteSets

VBool(b)    == [k |-> "bool", b |-> b]
VLong(n)    == [k |-> "long", n |-> n]
VStr(s)     == [k |-> "str", s |-> s]
VEnt(ty, id) == [k |-> "ent", ty |-> ty, id |-> id]
VSet(els)   == [k |-> "set", els |-> els]
VRec(f)     == [k |-> "rec", f |-> f]
VDec(n)     == [k |-> "dec", n |-> n]
VDt(n)      == [k |-> "dt", n |-> n]
VDur(n)     == [k |-> "dur", n |-> n]
VIp(a, p)   == [k |-> "ip", a |-> a, p |-> p]     \* a: 4 or 16 bytes, p: prefix length

VTrue  == VBool(TRUE)
VFalse == VBool(FALSE)
VInt(n) == VLong(FromInt(n))                      \* native integer -> long value
EmptyRec == VRec(<<>>)

Kind(v) == v.k

\* results of evaluation / parsing
Ok(v)   == [ok |-> TRUE, v |-> v]
Err(c)  == [ok |-> FALSE, cls |-> c]
\* the observable the properties name: value or failure (not the error class)
Obs(r)  == IF r.ok THEN r ELSE [ok |-> FALSE]
Same(r1, r2) == Obs(r1) = Obs(r2)

\* ASCII TLA+ string <-> code points is impossible in TLC; literals are written
\* as code-point tuples where their characters matter.

(***************************************************************************)
(* Wire form -> model form.  The Json module turns JSON arrays into        *)
(* sequences and JSON objects into records; a Cedar set arrives as a       *)
(* sequence of elements and is turned into a TLA+ set here.                *)
(***************************************************************************)
SeqRange(s) == { s[i] : i \in DOMAIN s }

RECURSIVE FromWire(_)
FromWire(w) ==
  CASE w.k = "set" -> VSet({ FromWire(w.els[i]) : i \in DOMAIN w.els })
    [] w.k = "rec" -> VRec([key \in DOMAIN w.f |-> FromWire(w.f[key])])
    [] OTHER -> w

WireUid(u) == VEnt(u.ty, u.id)
=============================================================================
