------------------------------- MODULE Partial -------------------------------
(***************************************************************************)
(* C06: soundness of partial evaluation, stated without modelling the      *)
(* algorithm: whatever residual the implementation returns must agree with *)
(* the original policy under EVERY completion of the unknowns.             *)
(*                                                                         *)
(* A partial environment is an environment in which request parts, or      *)
(* values nested inside the context, are                                   *)
(*   [k |-> "unknown", name |-> n]   a named unknown, or                    *)
(*   [k |-> "ignore"]                an ignored part.                       *)
(* A completion assigns a value to every unknown name (the same value to   *)
(* every occurrence) and to every ignored part.  Candidate values:         *)
(* entities for request positions, whole records for an unknown context,   *)
(* values of several kinds for unknowns nested in the context.             *)
(*                                                                         *)
(*  kept, residual r:   r[c] satisfied under env[c] <=> p satisfied  for all c *)
(*  dropped:            Outcome(p, env[c]) # "sat"                  for all c *)
(*  ignored part (permit): whenever the original is satisfied under a        *)
(*                      completion, the policy is kept and its residual is   *)
(*                      satisfied under that completion.                     *)
(* A residual may contain error nodes ([op |-> "error"], evaluation fails).  *)
(* A placeholder that survives inside a value literal of the residual is    *)
(* what the evaluator sees: the entity __cedar::variable::"name" (it is NOT *)
(* substituted: a caller evaluating the residual under the completed        *)
(* environment has no way to reach inside the literal).                     *)
(***************************************************************************)
EXTENDS CedarPolicy, Universe

IsUnk(v) == v.k = "unknown"
IsIgn(v) == v.k = "ignore"

RECURSIVE UnkNames(_)
UnkNames(v) ==
  CASE v.k = "unknown" -> {v.name}
    [] v.k = "set" -> UNION { UnkNames(x) : x \in v.els }
    [] v.k = "rec" -> UNION { UnkNames(v.f[key]) : key \in DOMAIN v.f }
    [] OTHER -> {}

RECURSIVE HasIgn(_)
HasIgn(v) ==
  CASE v.k = "ignore" -> TRUE
    [] v.k = "set" -> \E x \in v.els : HasIgn(x)
    [] v.k = "rec" -> \E key \in DOMAIN v.f : HasIgn(v.f[key])
    [] OTHER -> FALSE

\* substitution of a completion c (function name -> value; the ignored parts are named
\* "ignore:p", "ignore:a", "ignore:r", "ignore:c") into a value / expression / policy
RECURSIVE SubstV(_, _)
SubstV(v, c) ==
  CASE v.k = "unknown" -> c[v.name]
    [] v.k = "set" -> VSet({ SubstV(x, c) : x \in v.els })
    [] v.k = "rec" -> VRec([key \in DOMAIN v.f |-> SubstV(v.f[key], c)])
    [] OTHER -> v

RECURSIVE SubstE(_, _)
SubstE(e, c) ==
  LET op == e.op IN
  CASE op = "val" -> [op |-> "val", v |-> SubstV(e.v, c)]
    [] op \in {"var", "error"} -> e
    [] op \in {"and", "or", "eq", "ne", "lt", "le", "gt", "ge", "add", "sub", "mul", "in",
               "contains", "containsAll", "containsAny", "hasTag", "getTag"} ->
         [op |-> op, l |-> SubstE(e.l, c), r |-> SubstE(e.r, c)]
    [] op \in {"not", "neg", "isEmpty"} -> [op |-> op, a |-> SubstE(e.a, c)]
    [] op \in {"access", "has"} -> [op |-> op, a |-> SubstE(e.a, c), attr |-> e.attr]
    [] op = "like" -> [op |-> op, a |-> SubstE(e.a, c), pat |-> e.pat]
    [] op = "is" -> [op |-> op, a |-> SubstE(e.a, c), ty |-> e.ty]
    [] op = "isIn" -> [op |-> op, a |-> SubstE(e.a, c), ty |-> e.ty, e |-> SubstE(e.e, c)]
    [] op = "if" -> [op |-> op, c |-> SubstE(e.c, c), t |-> SubstE(e.t, c), e |-> SubstE(e.e, c)]
    [] op = "ext" -> [op |-> op, fn |-> e.fn, args |-> [i \in DOMAIN e.args |-> SubstE(e.args[i], c)]]
    [] op = "set" -> [op |-> op, els |-> [i \in DOMAIN e.els |-> SubstE(e.els[i], c)]]
    [] op = "rec" -> [op |-> op, kv |-> [i \in DOMAIN e.kv |-> [key |-> e.kv[i].key, val |-> SubstE(e.kv[i].val, c)]]]

SubstP(p, c) == [p EXCEPT !.conds = [i \in DOMAIN p.conds |-> [kind |-> p.conds[i].kind, body |-> SubstE(p.conds[i].body, c)]]]

Part(v, ign, c) == IF IsIgn(v) THEN c[ign] ELSE SubstV(v, c)
CompleteEnv(pe, c) == [p |-> Part(pe.p, "ignore:p", c), a |-> Part(pe.a, "ignore:a", c), r |-> Part(pe.r, "ignore:r", c),
                       c |-> Part(pe.c, "ignore:c", c), store |-> pe.store]

\* candidate values
EntCands == { U("a"), U("b"), G("g"), A("view") }
CtxCands == SeqRange(CtxB)
ValCands == { VInt(1), VInt(2), VStr(<<97>>), VTrue, U("a"), VSet({VInt(1)}), VRec([n |-> VInt(2)]) }

Names(pe) ==
  (IF IsUnk(pe.p) THEN {pe.p.name} ELSE {}) \cup (IF IsUnk(pe.a) THEN {pe.a.name} ELSE {})
  \cup (IF IsUnk(pe.r) THEN {pe.r.name} ELSE {}) \cup UnkNames(pe.c)
  \cup (IF IsIgn(pe.p) THEN {"ignore:p"} ELSE {}) \cup (IF IsIgn(pe.a) THEN {"ignore:a"} ELSE {})
  \cup (IF IsIgn(pe.r) THEN {"ignore:r"} ELSE {}) \cup (IF IsIgn(pe.c) THEN {"ignore:c"} ELSE {})

DomainOf(pe, n) ==
  IF n \in {"ignore:p", "ignore:a", "ignore:r"} THEN EntCands
  ELSE IF n = "ignore:c" THEN CtxCands
  ELSE IF (IsUnk(pe.p) /\ pe.p.name = n) \/ (IsUnk(pe.a) /\ pe.a.name = n) \/ (IsUnk(pe.r) /\ pe.r.name = n) THEN EntCands
  ELSE IF IsUnk(pe.c) /\ pe.c.name = n THEN CtxCands
  ELSE ValCands

\* all completions: functions from the names to values in their domains
Completions(pe) ==
  LET ns == Names(pe) IN { c \in [ns -> EntCands \cup CtxCands \cup ValCands] : \A n \in ns : c[n] \in DomainOf(pe, n) }

\* the residual as the evaluator reads it: surviving placeholders are plain entities
AsRead(res, c) == SubstP(res, [n \in DOMAIN c |-> VEnt("__cedar::variable", n)])

HasIgnored(pe) == IsIgn(pe.p) \/ IsIgn(pe.a) \/ IsIgn(pe.r) \/ IsIgn(pe.c) \/ HasIgn(pe.c)

\* the completions under which the implementation's answer is NOT sound
\* p: original policy; pe: partial environment; keep, res: the implementation's answer
Unsound(p, pe, keep, res) ==
  IF ~HasIgnored(pe)
  THEN { c \in Completions(pe) :
           LET env == CompleteEnv(pe, c) IN
           \* "satisfied exactly when": an erroring and an unsatisfied policy are both not satisfied
           IF keep THEN (Outcome(AsRead(res, c), env) = "sat") # (Outcome(p, env) = "sat")
                   ELSE Outcome(p, env) = "sat" }
  ELSE IF p.effect = "permit"
  THEN { c \in Completions(pe) :
           LET env == CompleteEnv(pe, c) IN
           Outcome(p, env) = "sat" /\ ~(keep /\ Outcome(AsRead(res, c), env) = "sat") }
  ELSE {}      \* a forbid policy with an ignored part: the statement requires nothing
=============================================================================
