----------------------------- MODULE SchemaModel -----------------------------
(***************************************************************************)
(* C16 / C17: schemas and their resolution.                                *)
(*                                                                         *)
(* A schema (wire form, see harness/cwf/schema.go) is a list of namespaces *)
(* (the empty namespace has name ""), each with entity types, enumerated   *)
(* entity types, actions and common types.  Names are atomic strings; a    *)
(* reference carries its qualifier separately ([q, n]; q = "" means        *)
(* unqualified), qualified names are built by concatenation.               *)
(*                                                                         *)
(* Resolve(s): the resolved schema or failure.                             *)
(*   - a name is declared at most once as entity / enumerated entity in a  *)
(*     namespace;                                                          *)
(*   - no entity, enumerated entity or common type of a namespace shadows  *)
(*     a definition with the same base name in the empty namespace, no     *)
(*     action shadows an action of the empty namespace (RFC 70);           *)
(*   - common types must not be cyclic;                                    *)
(*   - entity-type references: qualified ones must be declared;            *)
(*     unqualified N is NS::N if declared, else N;                         *)
(*   - type references: unqualified N in namespace NS is, in this order,   *)
(*     the common type NS::N, the entity type NS::N, the common type N,    *)
(*     the entity type N, a built-in (String, Long, Bool / Boolean, ipaddr,*)
(*     decimal, datetime, duration); qualified: __cedar::built-in, common  *)
(*     type, entity type.  A common type is inlined, resolved in the       *)
(*     namespace that declares it;                                         *)
(*   - an action parent without type is an action of the same namespace;   *)
(*     every parent must be a declared action; the action hierarchy must   *)
(*     be acyclic; a context must resolve to a record.                     *)
(* Entity-type hierarchies MAY be cyclic.  Deviation of the code, named and*)
(* followed: a common type that nothing references is not resolved, so an  *)
(* undefined reference inside it is not reported.                          *)
(***************************************************************************)
EXTENDS Integers, Sequences, FiniteSets, TLC

QN(ns, n) == IF ns = "" THEN n ELSE ns \o "::" \o n
ActionType(ns) == QN(ns, "Action")
Range(s) == { s[i] : i \in DOMAIN s }
Fail == [ok |-> FALSE]
OkV(v) == [ok |-> TRUE, v |-> v]
AnnoSet(a) == { <<a[i].k, a[i].v>> : i \in DOMAIN a }

\* ------------------------------------------------------------ declarations
NsSet(s) == Range(s.ns)
EntityQNs(s) == UNION { { QN(n.name, n.entities[i].name) : i \in DOMAIN n.entities } : n \in NsSet(s) }
EnumQNs(s) == UNION { { QN(n.name, n.enums[i].name) : i \in DOMAIN n.enums } : n \in NsSet(s) }
IsEntityType(s, qn) == qn \in EntityQNs(s) \cup EnumQNs(s)
Commons(s) == UNION { { [ns |-> n.name, qn |-> QN(n.name, n.commons[i].name), type |-> n.commons[i].type] : i \in DOMAIN n.commons } : n \in NsSet(s) }
CommonQNs(s) == { c.qn : c \in Commons(s) }
CommonOf(s, qn) == CHOOSE c \in Commons(s) : c.qn = qn

DeclaredTwice(s) == \E n \in NsSet(s) : \E i \in DOMAIN n.entities, j \in DOMAIN n.enums : n.entities[i].name = n.enums[j].name

BareNs(s) == { n \in NsSet(s) : n.name = "" }
BareTypeNames(s) == UNION { { n.entities[i].name : i \in DOMAIN n.entities } \cup { n.enums[i].name : i \in DOMAIN n.enums }
                            \cup { n.commons[i].name : i \in DOMAIN n.commons } : n \in BareNs(s) }
BareActionNames(s) == UNION { { n.actions[i].name : i \in DOMAIN n.actions } : n \in BareNs(s) }
Shadows(s) ==
  \E n \in NsSet(s) : n.name # "" /\
     \/ \E i \in DOMAIN n.entities : n.entities[i].name \in BareTypeNames(s)
     \/ \E i \in DOMAIN n.enums : n.enums[i].name \in BareTypeNames(s)
     \/ \E i \in DOMAIN n.commons : n.commons[i].name \in BareTypeNames(s)
     \/ \E i \in DOMAIN n.actions : n.actions[i].name \in BareActionNames(s)

\* ------------------------------------------------------------ common-type cycles
RECURSIVE TypeRefs(_)
TypeRefs(t) == CASE t.t = "ref" -> { [q |-> t.q, n |-> t.n] }
                 [] t.t = "set" -> TypeRefs(t.el)
                 [] t.t = "rec" -> UNION { TypeRefs(t.attrs[i].type) : i \in DOMAIN t.attrs }
                 [] OTHER -> {}
\* the common type a reference written in namespace ns may denote (for the dependency graph)
RefPath(s, ns, r) == IF r.q # "" THEN QN(r.q, r.n)
                     ELSE IF ns # "" /\ QN(ns, r.n) \in CommonQNs(s) THEN QN(ns, r.n) ELSE r.n
Deps(s, c) == { RefPath(s, c.ns, r) : r \in TypeRefs(c.type) } \cap CommonQNs(s)
RECURSIVE ReachC(_, _, _)
ReachC(s, frontier, seen) ==
  LET next == UNION { Deps(s, CommonOf(s, q)) : q \in frontier } \ seen IN
  IF next = {} THEN seen ELSE ReachC(s, next, seen \cup next)
CommonCycle(s) == \E c \in Commons(s) : c.qn \in ReachC(s, Deps(s, c), Deps(s, c))

\* ------------------------------------------------------------ references
Builtin(n) == CASE n = "String" -> OkV([t |-> "string"]) [] n = "Long" -> OkV([t |-> "long"])
                [] n \in {"Bool", "Boolean"} -> OkV([t |-> "bool"])
                [] n \in {"ipaddr", "decimal", "datetime", "duration"} -> OkV([t |-> "ext", name |-> n])
                [] OTHER -> Fail

EntityRef(s, ns, r) ==      \* -> [ok, v: qualified name]
  IF r.q # "" THEN (IF IsEntityType(s, QN(r.q, r.n)) THEN OkV(QN(r.q, r.n)) ELSE Fail)
  ELSE IF ns # "" /\ IsEntityType(s, QN(ns, r.n)) THEN OkV(QN(ns, r.n))
  ELSE IF IsEntityType(s, r.n) THEN OkV(r.n) ELSE Fail

RECURSIVE ResolveType(_, _, _)
ResolveAttrs(s, ns, attrs) ==
  LET rs == [i \in DOMAIN attrs |-> ResolveType(s, ns, attrs[i].type)] IN
  IF \E i \in DOMAIN rs : ~rs[i].ok THEN Fail
  ELSE OkV([t |-> "rec", attrs |-> [name \in { attrs[i].name : i \in DOMAIN attrs } |->
                LET i == CHOOSE k \in DOMAIN attrs : attrs[k].name = name IN
                [type |-> rs[i].v, opt |-> attrs[i].opt, annos |-> AnnoSet(attrs[i].annos)]]])
ResolveType(s, ns, t) ==
  CASE t.t \in {"string", "long", "bool"} -> OkV([t |-> t.t])
    [] t.t = "ext" -> IF t.name \in {"ipaddr", "decimal", "datetime", "duration"} THEN OkV([t |-> "ext", name |-> t.name])
                      ELSE Fail     \* the language has four extension types
    [] t.t = "set" -> (LET e == ResolveType(s, ns, t.el) IN IF e.ok THEN OkV([t |-> "set", el |-> e.v]) ELSE Fail)
    [] t.t = "rec" -> ResolveAttrs(s, ns, t.attrs)
    [] t.t = "entref" -> (LET e == EntityRef(s, ns, [q |-> t.q, n |-> t.n]) IN IF e.ok THEN OkV([t |-> "entity", name |-> e.v]) ELSE Fail)
    [] t.t = "ref" ->
         IF t.q # ""
         THEN IF t.q = "__cedar" THEN Builtin(t.n)
              ELSE IF QN(t.q, t.n) \in CommonQNs(s) THEN (LET c == CommonOf(s, QN(t.q, t.n)) IN ResolveType(s, c.ns, c.type))
              ELSE IF IsEntityType(s, QN(t.q, t.n)) THEN OkV([t |-> "entity", name |-> QN(t.q, t.n)])
              ELSE Fail
         ELSE IF ns # "" /\ QN(ns, t.n) \in CommonQNs(s) THEN (LET c == CommonOf(s, QN(ns, t.n)) IN ResolveType(s, c.ns, c.type))
         ELSE IF ns # "" /\ IsEntityType(s, QN(ns, t.n)) THEN OkV([t |-> "entity", name |-> QN(ns, t.n)])
         ELSE IF t.n \in CommonQNs(s) THEN (LET c == CommonOf(s, t.n) IN ResolveType(s, c.ns, c.type))
         ELSE IF IsEntityType(s, t.n) THEN OkV([t |-> "entity", name |-> t.n])
         ELSE Builtin(t.n)

EmptyRecT == [t |-> "rec", attrs |-> <<>>]

\* ------------------------------------------------------------ declarations resolved
ResEntity(s, ns, e) ==
  LET ps == [i \in DOMAIN e.parents |-> EntityRef(s, ns, e.parents[i])]
      shape == ResolveAttrs(s, ns, e.shape)
      tags == IF e.tags.t = "none" THEN OkV([t |-> "none"]) ELSE ResolveType(s, ns, e.tags)
  IN IF (\E i \in DOMAIN ps : ~ps[i].ok) \/ ~shape.ok \/ ~tags.ok THEN Fail
     ELSE OkV([annos |-> AnnoSet(e.annos), parents |-> { ps[i].v : i \in DOMAIN ps }, shape |-> shape.v, tags |-> tags.v])

ParentUid(ns, p) == IF p.q = "" THEN <<ActionType(ns), p.id>> ELSE <<p.q, p.id>>
ResAction(s, ns, a) ==
  LET parents == { ParentUid(ns, a.parents[i]) : i \in DOMAIN a.parents } IN
  IF a.applies.t = "none" THEN OkV([annos |-> AnnoSet(a.annos), parents |-> parents, applies |-> [t |-> "none"]])
  ELSE LET prs == [i \in DOMAIN a.applies.principals |-> EntityRef(s, ns, a.applies.principals[i])]
           rss == [i \in DOMAIN a.applies.resources |-> EntityRef(s, ns, a.applies.resources[i])]
           ctx == IF a.applies.context.t = "none" THEN OkV(EmptyRecT) ELSE ResolveType(s, ns, a.applies.context)
       IN IF (\E i \in DOMAIN prs : ~prs[i].ok) \/ (\E i \in DOMAIN rss : ~rss[i].ok) \/ ~ctx.ok \/ ctx.v.t # "rec" THEN Fail
          ELSE OkV([annos |-> AnnoSet(a.annos), parents |-> parents,
                    applies |-> [t |-> "some", principals |-> { prs[i].v : i \in DOMAIN prs },
                                 resources |-> { rss[i].v : i \in DOMAIN rss }, context |-> ctx.v]])

\* all (namespace name, declaration) pairs
EntityDecls(s) == UNION { { <<n.name, n.entities[i]>> : i \in DOMAIN n.entities } : n \in NsSet(s) }
EnumDecls(s) == UNION { { <<n.name, n.enums[i]>> : i \in DOMAIN n.enums } : n \in NsSet(s) }
ActionDecls(s) == UNION { { <<n.name, n.actions[i]>> : i \in DOMAIN n.actions } : n \in NsSet(s) }
ActionUids(s) == { <<ActionType(d[1]), d[2].name>> : d \in ActionDecls(s) }

RECURSIVE ReachA(_, _, _)
ReachA(par, frontier, seen) ==
  LET next == UNION { par[u] : u \in frontier \cap DOMAIN par } \ seen IN
  IF next = {} THEN seen ELSE ReachA(par, next, seen \cup next)

Resolve(s) ==
  IF DeclaredTwice(s) \/ Shadows(s) \/ CommonCycle(s) THEN Fail
  ELSE LET ents == [d \in EntityDecls(s) |-> ResEntity(s, d[1], d[2])]
           acts == [d \in ActionDecls(s) |-> ResAction(s, d[1], d[2])]
       IN IF (\E d \in DOMAIN ents : ~ents[d].ok) \/ (\E d \in DOMAIN acts : ~acts[d].ok) THEN Fail
          ELSE LET par == [u \in ActionUids(s) |->
                             acts[CHOOSE d \in ActionDecls(s) : <<ActionType(d[1]), d[2].name>> = u].v.parents]
               IN IF \E u \in DOMAIN par : ~(par[u] \subseteq ActionUids(s)) THEN Fail        \* undefined parent action
                  ELSE IF \E u \in DOMAIN par : u \in ReachA(par, par[u], par[u]) THEN Fail    \* cyclic action hierarchy
                  ELSE OkV([namespaces |-> { [name |-> n.name, annos |-> AnnoSet(n.annos)] : n \in { m \in NsSet(s) : m.name # "" } },
                            entities |-> [qn \in EntityQNs(s) |-> ents[CHOOSE d \in EntityDecls(s) : QN(d[1], d[2].name) = qn].v],
                            enums |-> [qn \in EnumQNs(s) |->
                                         LET d == CHOOSE x \in EnumDecls(s) : QN(x[1], x[2].name) = qn IN
                                         [annos |-> AnnoSet(d[2].annos), values |-> d[2].values]],
                            actions |-> [u \in ActionUids(s) |-> acts[CHOOSE d \in ActionDecls(s) : <<ActionType(d[1]), d[2].name>> = u].v]])

\* ------------------------------------------------------------ the resolved schema the real code returned (wire form)
RECURSIVE RTypeFromWire(_)
RTypeFromWire(w) ==
  CASE w.t = "set" -> [t |-> "set", el |-> RTypeFromWire(w.el)]
    [] w.t = "rec" -> [t |-> "rec", attrs |-> [name \in { w.attrs[i].name : i \in DOMAIN w.attrs } |->
                          LET i == CHOOSE k \in DOMAIN w.attrs : w.attrs[k].name = name IN
                          [type |-> RTypeFromWire(w.attrs[i].type), opt |-> w.attrs[i].opt, annos |-> AnnoSet(w.attrs[i].annos)]]]
    [] OTHER -> w
ResolvedFromWire(w) ==
  [namespaces |-> { [name |-> w.namespaces[i].name, annos |-> AnnoSet(w.namespaces[i].annos)] : i \in DOMAIN w.namespaces },
   entities |-> [qn \in { w.entities[i].name : i \in DOMAIN w.entities } |->
                   LET e == w.entities[CHOOSE i \in DOMAIN w.entities : w.entities[i].name = qn] IN
                   [annos |-> AnnoSet(e.annos), parents |-> Range(e.parents),
                    shape |-> RTypeFromWire([t |-> "rec", attrs |-> e.shape]), tags |-> RTypeFromWire(e.tags)]],
   enums |-> [qn \in { w.enums[i].name : i \in DOMAIN w.enums } |->
                LET e == w.enums[CHOOSE i \in DOMAIN w.enums : w.enums[i].name = qn] IN
                [annos |-> AnnoSet(e.annos), values |-> [k \in DOMAIN e.values |-> e.values[k].id], tyOk |-> \A k \in DOMAIN e.values : e.values[k].ty = qn]],
   actions |-> [u \in { <<w.actions[i].ty, w.actions[i].id>> : i \in DOMAIN w.actions } |->
                  LET a == w.actions[CHOOSE i \in DOMAIN w.actions : <<w.actions[i].ty, w.actions[i].id>> = u] IN
                  [annos |-> AnnoSet(a.annos), parents |-> { <<a.parents[i].ty, a.parents[i].id>> : i \in DOMAIN a.parents },
                   applies |-> IF a.applies.t = "none" THEN [t |-> "none"]
                               ELSE [t |-> "some", principals |-> Range(a.applies.principals), resources |-> Range(a.applies.resources),
                                     context |-> RTypeFromWire([t |-> "rec", attrs |-> a.applies.context])]]]]
\* the specification's result in the same shape (enumerated entities carry tyOk = TRUE)
SpecResolved(r) == [r EXCEPT !.enums = [qn \in DOMAIN r.enums |-> [annos |-> r.enums[qn].annos, values |-> r.enums[qn].values, tyOk |-> TRUE]]]
=============================================================================
