------------------------------ MODULE CedarEval ------------------------------
(***************************************************************************)
(* Meaning of Cedar expressions, transcribed from the Cedar language       *)
(* specification (not from internal/eval/evalers.go).                      *)
(*                                                                         *)
(* An environment is [p, a, r, c, store]: the four request values and the  *)
(* entity store, a function from entity-uid values to                      *)
(*   [parents : set of uid values, attrs : key -> value,                    *)
(*    tags : code-point sequence -> value]                                 *)
(* whose domain is the set of entities PRESENT in the store.               *)
(*                                                                         *)
(* Expression nodes are records tagged by `op`:                            *)
(*   val(v) var(name) and/or/eq/ne/lt/le/gt/ge/add/sub/mul/in/contains/    *)
(*   containsAll/containsAny/hasTag/getTag(l, r)  not/neg/isEmpty(a)        *)
(*   access/has(a, attr)  like(a, pat)  is(a, ty)  isIn(a, ty, e)           *)
(*   if(c, t, e)  ext(fn, args)  set(els)  rec(kv = <<[key, val]..>>)       *)
(* A pattern is a sequence whose elements are code points or -1 (wildcard). *)
(***************************************************************************)
EXTENDS CedarExt

\* ------------------------------------------------------------- hierarchy
\* a in b  <=>  a = b or b reachable from a through parent links of entities
\* present in the store (least fixed point)
ParentsOf(store, x) == IF x \in DOMAIN store THEN store[x].parents ELSE {}
RECURSIVE ReachFix(_, _)
ReachFix(store, S) ==
  LET T == S \cup UNION { ParentsOf(store, x) : x \in S }
  IN IF T = S THEN S ELSE ReachFix(store, T)
Reach(store, a) == ReachFix(store, {a})
EntIn(store, a, b) == b \in Reach(store, a)
EntInAny(store, a, bs) == Reach(store, a) \cap bs # {}

\* ------------------------------------------------------------------ like
\* wildcard matching on code points
RECURSIVE LikeFrom(_, _, _, _)
LikeFrom(pat, i, s, j) ==
  IF i > Len(pat) THEN j > Len(s)
  ELSE IF pat[i] = -1
       THEN LikeFrom(pat, i + 1, s, j) \/ (j <= Len(s) /\ LikeFrom(pat, i, s, j + 1))
       ELSE j <= Len(s) /\ s[j] = pat[i] /\ LikeFrom(pat, i + 1, s, j + 1)
Like(pat, s) == LikeFrom(pat, 1, s, 1)

\* ------------------------------------------------------------ extensions
TypeErr == Err("type")

ExtCall(fn, args) ==    \* args: sequence of VALUES, arity already checked
  LET a1 == args[1]
      a2 == IF Len(args) >= 2 THEN args[2] ELSE a1
      K1(k) == a1.k = k
      K2(k1, k2) == a1.k = k1 /\ a2.k = k2
  IN CASE fn = "decimal"  -> (IF K1("str") THEN ParseDecimal(a1.s) ELSE TypeErr)
       [] fn = "ip"       -> (IF K1("str") THEN ParseIP(a1.s) ELSE TypeErr)
       [] fn = "datetime" -> (IF K1("str") THEN ParseDatetime(a1.s) ELSE TypeErr)
       [] fn = "duration" -> (IF K1("str") THEN ParseDuration(a1.s) ELSE TypeErr)
       [] fn = "lessThan"           -> (IF K2("dec", "dec") THEN Ok(VBool(Lt(a1.n, a2.n))) ELSE TypeErr)
       [] fn = "lessThanOrEqual"    -> (IF K2("dec", "dec") THEN Ok(VBool(Le(a1.n, a2.n))) ELSE TypeErr)
       [] fn = "greaterThan"        -> (IF K2("dec", "dec") THEN Ok(VBool(Lt(a2.n, a1.n))) ELSE TypeErr)
       [] fn = "greaterThanOrEqual" -> (IF K2("dec", "dec") THEN Ok(VBool(Le(a2.n, a1.n))) ELSE TypeErr)
       [] fn = "isIpv4"      -> (IF K1("ip") THEN Ok(VBool(IpIsV4(a1))) ELSE TypeErr)
       [] fn = "isIpv6"      -> (IF K1("ip") THEN Ok(VBool(~IpIsV4(a1))) ELSE TypeErr)
       [] fn = "isLoopback"  -> (IF K1("ip") THEN Ok(VBool(IpIsLoopback(a1))) ELSE TypeErr)
       [] fn = "isMulticast" -> (IF K1("ip") THEN Ok(VBool(IpIsMulticast(a1))) ELSE TypeErr)
       [] fn = "isInRange"   -> (IF K2("ip", "ip") THEN Ok(VBool(IpInRange(a1, a2))) ELSE TypeErr)
       [] fn = "toDate" -> (IF K1("dt") THEN DtToDate(a1.n) ELSE TypeErr)
       [] fn = "toTime" -> (IF K1("dt") THEN DtToTime(a1.n) ELSE TypeErr)
       [] fn = "offset" -> (IF K2("dt", "dur") THEN Checked(Add(a1.n, a2.n), VDt) ELSE TypeErr)
       [] fn = "durationSince" -> (IF K2("dt", "dt") THEN Checked(Sub(a1.n, a2.n), VDur) ELSE TypeErr)
       [] fn = "toMilliseconds" -> (IF K1("dur") THEN Ok(VLong(a1.n)) ELSE TypeErr)
       [] fn = "toSeconds" -> (IF K1("dur") THEN Ok(VLong(DivTrunc(a1.n, 1000))) ELSE TypeErr)
       [] fn = "toMinutes" -> (IF K1("dur") THEN Ok(VLong(DivTrunc(a1.n, 60000))) ELSE TypeErr)
       [] fn = "toHours"   -> (IF K1("dur") THEN Ok(VLong(DivTrunc(a1.n, 3600000))) ELSE TypeErr)
       [] fn = "toDays"    -> (IF K1("dur") THEN Ok(VLong(DivTrunc(a1.n, 86400000))) ELSE TypeErr)

\* ------------------------------------------------------------- evaluation
VarOf(env, name) == CASE name = "principal" -> env.p [] name = "action" -> env.a
                      [] name = "resource" -> env.r [] OTHER -> env.c

OrdKinds == {"long", "dt", "dur"}

RECURSIVE Eval(_, _)
RECURSIVE EvalSeq(_, _, _)
\* evaluate a sequence of expressions left to right: Ok(<<values>>) or first error
EvalSeq(es, env, i) ==
  IF i > Len(es) THEN Ok(<<>>)
  ELSE LET r == Eval(es[i], env)
       IN IF ~r.ok THEN r
          ELSE LET rest == EvalSeq(es, env, i + 1)
               IN IF ~rest.ok THEN rest ELSE Ok(<<r.v>> \o rest.v)

Eval(e, env) ==
  LET op == e.op IN
  CASE op = "val" -> Ok(e.v)
    [] op = "var" -> Ok(VarOf(env, e.name))
    [] op = "and" ->
         LET l == Eval(e.l, env) IN
         IF ~l.ok THEN l ELSE IF l.v.k # "bool" THEN TypeErr
         ELSE IF ~l.v.b THEN Ok(VFalse)
         ELSE LET r == Eval(e.r, env) IN
              IF ~r.ok THEN r ELSE IF r.v.k # "bool" THEN TypeErr ELSE r
    [] op = "or" ->
         LET l == Eval(e.l, env) IN
         IF ~l.ok THEN l ELSE IF l.v.k # "bool" THEN TypeErr
         ELSE IF l.v.b THEN Ok(VTrue)
         ELSE LET r == Eval(e.r, env) IN
              IF ~r.ok THEN r ELSE IF r.v.k # "bool" THEN TypeErr ELSE r
    [] op = "not" ->
         LET a == Eval(e.a, env) IN
         IF ~a.ok THEN a ELSE IF a.v.k # "bool" THEN TypeErr ELSE Ok(VBool(~a.v.b))
    [] op = "if" ->
         LET c == Eval(e.c, env) IN
         IF ~c.ok THEN c ELSE IF c.v.k # "bool" THEN TypeErr
         ELSE IF c.v.b THEN Eval(e.t, env) ELSE Eval(e.e, env)
    [] op \in {"eq", "ne"} ->
         LET l == Eval(e.l, env) IN IF ~l.ok THEN l ELSE
         LET r == Eval(e.r, env) IN IF ~r.ok THEN r ELSE
         Ok(VBool((l.v = r.v) = (op = "eq")))
    [] op \in {"lt", "le", "gt", "ge"} ->
         LET l == Eval(e.l, env) IN IF ~l.ok THEN l ELSE
         LET r == Eval(e.r, env) IN IF ~r.ok THEN r ELSE
         IF l.v.k \notin OrdKinds \/ l.v.k # r.v.k THEN TypeErr
         ELSE LET c == Cmp(l.v.n, r.v.n) IN
              Ok(VBool(CASE op = "lt" -> c < 0 [] op = "le" -> c <= 0
                         [] op = "gt" -> c > 0 [] OTHER -> c >= 0))
    [] op \in {"add", "sub", "mul"} ->
         LET l == Eval(e.l, env) IN IF ~l.ok THEN l ELSE
         LET r == Eval(e.r, env) IN IF ~r.ok THEN r ELSE
         IF l.v.k # "long" \/ r.v.k # "long" THEN TypeErr
         ELSE LET x == CASE op = "add" -> Add(l.v.n, r.v.n)
                         [] op = "sub" -> Sub(l.v.n, r.v.n)
                         [] OTHER -> Mul(l.v.n, r.v.n)
              IN IF InI64(x) THEN Ok(VLong(x)) ELSE Err("overflow")
    [] op = "neg" ->
         LET a == Eval(e.a, env) IN
         IF ~a.ok THEN a ELSE IF a.v.k # "long" THEN TypeErr
         ELSE LET x == Neg(a.v.n) IN IF InI64(x) THEN Ok(VLong(x)) ELSE Err("overflow")
    [] op = "in" ->
         LET l == Eval(e.l, env) IN IF ~l.ok THEN l ELSE
         LET r == Eval(e.r, env) IN IF ~r.ok THEN r ELSE
         IF l.v.k # "ent" THEN TypeErr
         ELSE IF r.v.k = "ent" THEN Ok(VBool(EntIn(env.store, l.v, r.v)))
         ELSE IF r.v.k = "set" THEN
              (IF \E x \in r.v.els : x.k # "ent" THEN TypeErr
               ELSE Ok(VBool(EntInAny(env.store, l.v, r.v.els))))
         ELSE TypeErr
    [] op = "is" ->
         LET a == Eval(e.a, env) IN
         IF ~a.ok THEN a ELSE IF a.v.k # "ent" THEN TypeErr ELSE Ok(VBool(a.v.ty = e.ty))
    [] op = "isIn" ->    \* `a is T in x`  ==  `a is T && a in x`
         LET a == Eval(e.a, env) IN
         IF ~a.ok THEN a ELSE IF a.v.k # "ent" THEN TypeErr
         ELSE IF a.v.ty # e.ty THEN Ok(VFalse)
         ELSE LET r == Eval(e.e, env) IN IF ~r.ok THEN r ELSE
              IF r.v.k = "ent" THEN Ok(VBool(EntIn(env.store, a.v, r.v)))
              ELSE IF r.v.k = "set" THEN
                   (IF \E x \in r.v.els : x.k # "ent" THEN TypeErr
                    ELSE Ok(VBool(EntInAny(env.store, a.v, r.v.els))))
              ELSE TypeErr
    [] op = "has" ->
         LET a == Eval(e.a, env) IN IF ~a.ok THEN a ELSE
         IF a.v.k = "rec" THEN Ok(VBool(e.attr \in DOMAIN a.v.f))
         ELSE IF a.v.k = "ent" THEN
              Ok(VBool(a.v \in DOMAIN env.store /\ e.attr \in DOMAIN env.store[a.v].attrs))
         ELSE TypeErr
    [] op = "access" ->
         LET a == Eval(e.a, env) IN IF ~a.ok THEN a ELSE
         IF a.v.k = "rec" THEN
              (IF e.attr \in DOMAIN a.v.f THEN Ok(a.v.f[e.attr]) ELSE Err("attr"))
         ELSE IF a.v.k = "ent" THEN
              (IF a.v \notin DOMAIN env.store THEN Err("entity")
               ELSE IF e.attr \in DOMAIN env.store[a.v].attrs
                    THEN Ok(env.store[a.v].attrs[e.attr]) ELSE Err("attr"))
         ELSE TypeErr
    [] op = "hasTag" ->
         LET l == Eval(e.l, env) IN IF ~l.ok THEN l ELSE
         LET r == Eval(e.r, env) IN IF ~r.ok THEN r ELSE
         IF l.v.k # "ent" \/ r.v.k # "str" THEN TypeErr
         ELSE Ok(VBool(l.v \in DOMAIN env.store /\ r.v.s \in DOMAIN env.store[l.v].tags))
    [] op = "getTag" ->
         LET l == Eval(e.l, env) IN IF ~l.ok THEN l ELSE
         LET r == Eval(e.r, env) IN IF ~r.ok THEN r ELSE
         IF l.v.k # "ent" \/ r.v.k # "str" THEN TypeErr
         ELSE IF l.v \notin DOMAIN env.store THEN Err("entity")
         ELSE IF r.v.s \in DOMAIN env.store[l.v].tags THEN Ok(env.store[l.v].tags[r.v.s])
         ELSE Err("tag")
    [] op = "like" ->
         LET a == Eval(e.a, env) IN
         IF ~a.ok THEN a ELSE IF a.v.k # "str" THEN TypeErr ELSE Ok(VBool(Like(e.pat, a.v.s)))
    [] op = "contains" ->
         LET l == Eval(e.l, env) IN IF ~l.ok THEN l ELSE
         LET r == Eval(e.r, env) IN IF ~r.ok THEN r ELSE
         IF l.v.k # "set" THEN TypeErr ELSE Ok(VBool(r.v \in l.v.els))
    [] op \in {"containsAll", "containsAny"} ->
         LET l == Eval(e.l, env) IN IF ~l.ok THEN l ELSE
         LET r == Eval(e.r, env) IN IF ~r.ok THEN r ELSE
         IF l.v.k # "set" \/ r.v.k # "set" THEN TypeErr
         ELSE Ok(VBool(IF op = "containsAll" THEN r.v.els \subseteq l.v.els
                                              ELSE r.v.els \cap l.v.els # {}))
    [] op = "isEmpty" ->
         LET a == Eval(e.a, env) IN
         IF ~a.ok THEN a ELSE IF a.v.k # "set" THEN TypeErr ELSE Ok(VBool(a.v.els = {}))
    [] op = "set" ->
         LET r == EvalSeq(e.els, env, 1) IN
         IF ~r.ok THEN r ELSE Ok(VSet(SeqRange(r.v)))
    [] op = "rec" ->     \* keys are distinct (the grammar rejects duplicates)
         LET r == EvalSeq([i \in DOMAIN e.kv |-> e.kv[i].val], env, 1) IN
         IF ~r.ok THEN r
         ELSE Ok(VRec([key \in { e.kv[i].key : i \in DOMAIN e.kv } |->
                         r.v[CHOOSE i \in DOMAIN e.kv : e.kv[i].key = key]]))
    [] op = "ext" ->
         IF ExtArity(e.fn) < 0 THEN Err("unknownFunction")
         ELSE IF ExtArity(e.fn) # Len(e.args) THEN Err("arity")
         ELSE LET r == EvalSeq(e.args, env, 1) IN
              IF ~r.ok THEN r ELSE ExtCall(e.fn, r.v)
    [] op = "error" -> Err("partial")        \* residual error node (partial evaluation)

\* -------------------------------------------------------------- wire form
RECURSIVE ExprFromWire(_)
ExprFromWire(w) ==
  LET op == w.op IN
  CASE op = "val" -> [op |-> "val", v |-> FromWire(w.v)]
    [] op \in {"var", "error"} -> w
    [] op \in {"and", "or", "eq", "ne", "lt", "le", "gt", "ge", "add", "sub", "mul", "in",
               "contains", "containsAll", "containsAny", "hasTag", "getTag"} ->
         [op |-> op, l |-> ExprFromWire(w.l), r |-> ExprFromWire(w.r)]
    [] op \in {"not", "neg", "isEmpty"} -> [op |-> op, a |-> ExprFromWire(w.a)]
    [] op \in {"access", "has"} -> [op |-> op, a |-> ExprFromWire(w.a), attr |-> w.attr]
    [] op = "like" -> [op |-> op, a |-> ExprFromWire(w.a), pat |-> w.pat]
    [] op = "is" -> [op |-> op, a |-> ExprFromWire(w.a), ty |-> w.ty]
    [] op = "isIn" -> [op |-> op, a |-> ExprFromWire(w.a), ty |-> w.ty, e |-> ExprFromWire(w.e)]
    [] op = "if" -> [op |-> op, c |-> ExprFromWire(w.c), t |-> ExprFromWire(w.t), e |-> ExprFromWire(w.e)]
    [] op = "ext" -> [op |-> op, fn |-> w.fn, args |-> [i \in DOMAIN w.args |-> ExprFromWire(w.args[i])]]
    [] op = "set" -> [op |-> op, els |-> [i \in DOMAIN w.els |-> ExprFromWire(w.els[i])]]
    [] op = "rec" -> [op |-> op, kv |-> [i \in DOMAIN w.kv |->
                                         [key |-> w.kv[i].key, val |-> ExprFromWire(w.kv[i].val)]]]

\* entity store: wire list of [uid, parents, attrs, tags] -> function
StoreFromWire(ws) ==
  [u \in { WireUid(ws[i].uid) : i \in DOMAIN ws } |->
     LET w == ws[CHOOSE i \in DOMAIN ws : WireUid(ws[i].uid) = u]
     IN [parents |-> { WireUid(w.parents[j]) : j \in DOMAIN w.parents },
         attrs   |-> [key \in DOMAIN w.attrs |-> FromWire(w.attrs[key])],
         \* tags are looked up by COMPUTED strings, so their keys are code-point
         \* sequences; on the wire: a list of <<key, value>> pairs
         tags    |-> [key \in { w.tags[j][1] : j \in DOMAIN w.tags } |->
                        FromWire(w.tags[CHOOSE j \in DOMAIN w.tags : w.tags[j][1] = key][2])]]]

EnvFromWire(w) == [p |-> FromWire(w.p), a |-> FromWire(w.a), r |-> FromWire(w.r),
                   c |-> FromWire(w.c), store |-> StoreFromWire(w.store)]
=============================================================================
