------------------------------- MODULE Scanner -------------------------------
(***************************************************************************)
(* C18: the buffered rune reader of internal/parser/cedar_tokenize.go      *)
(* (scanner.next / nextToken / tokenText) as a state machine, with the     *)
(* io.Reader as the environment.                                           *)
(*                                                                         *)
(* One action per step of the code that another party can influence:       *)
(*   Fill     the `s.src.Read(s.srcBuf[i:bufLen])` inside next(): before   *)
(*            it the partial token text is spilled to tokBuf and the       *)
(*            unread bytes are moved to the front; the reader returns ANY  *)
(*            n in 0..min(cap, remaining) bytes, possibly together with    *)
(*            EOF, or fails at byte FailAt                                 *)
(*   Consume  the rest of next() (decode one rune, advance, line / column  *)
(*            bookkeeping) followed by the token logic of nextToken        *)
(* Deliberate deviation, named: the token grammar is reduced to "a token   *)
(* is a maximal run of non-blank characters (blank = space or LF), except  *)
(* that '(' is always a token of its own and that a string runs from one   *)
(* double quote to the next" -- words, adjacent tokens, tokens holding     *)
(* blanks and non-ASCII characters.  On documents over this alphabet the   *)
(* real tokenizer finds the same token boundaries (used by M2).  The       *)
(* refill, spill, sentinel and position logic -- what the chunking can     *)
(* influence -- is transcribed in full; token classification is a pure     *)
(* function of the rune stream and is specified by ScannerRef!LexPos.      *)
(*                                                                         *)
(* Properties: the emitted tokens (text, byte offset, line, column) are a  *)
(* prefix of RefTokens(Doc) in every state and equal to it at the end of   *)
(* every behaviour whose reader did not fail; a failing reader ends in an  *)
(* error; the buffer always mirrors the document.                          *)
(***************************************************************************)
EXTENDS Integers, Sequences, FiniteSets, TLC

CONSTANTS BufLen,      \* size of the source buffer (the code: 1024; >= 4)
          Docs,        \* set of documents (sequences of bytes, valid UTF-8)
          MaxZero      \* bound on consecutive zero-length reads

UTFMax == 4
Need(b) == IF b < 128 THEN 1 ELSE IF b < 224 THEN 2 ELSE IF b < 240 THEN 3 ELSE 4
IsBlank(b) == b = 32 \/ b = 10
IsPunct(b) == b = 40                 \* a one-character token that needs no blank around it
IsQuote(b) == b = 34                 \* a string token runs from a quote to the next quote, blanks included

\* ------------------------------------------------------------ reference
\* tokens of a whole document: maximal runs of non-blank characters with the byte
\* offset, line and column (in characters, 1-based) of their first character
RECURSIVE RefFrom(_, _, _, _, _, _, _)
RefFrom(d, i, line, col, cur, instr, acc) ==
  \* i: next byte (1-based); col: column of the character at i; cur: <<open word / string>> or <<>>
  IF i > Len(d) THEN acc \o cur
  ELSE LET w == Need(d[i])  bytes == SubSeq(d, i, i + w - 1)
           here == [text |-> bytes, off |-> i - 1, line |-> line, col |-> col]
           grown == <<[cur[1] EXCEPT !.text = @ \o bytes]>>
           line2 == IF d[i] = 10 THEN line + 1 ELSE line
           col2 == IF d[i] = 10 THEN 1 ELSE col + 1 IN
       IF instr THEN (IF IsQuote(d[i]) THEN RefFrom(d, i + 1, line, col + 1, <<>>, FALSE, acc \o grown)
                      ELSE RefFrom(d, i + w, line2, col2, grown, TRUE, acc))
       ELSE IF IsBlank(d[i]) THEN RefFrom(d, i + 1, line2, col2, <<>>, FALSE, acc \o cur)
       ELSE IF IsPunct(d[i]) THEN RefFrom(d, i + 1, line, col + 1, <<>>, FALSE, (acc \o cur) \o <<here>>)
       ELSE IF IsQuote(d[i]) THEN RefFrom(d, i + 1, line, col + 1, <<here>>, TRUE, acc \o cur)
       ELSE RefFrom(d, i + w, line, col + 1, IF cur = <<>> THEN <<here>> ELSE grown, FALSE, acc)
RefTokens(d) == RefFrom(d, 1, 1, 1, <<>>, FALSE, <<>>)

IsPrefix(a, b) == Len(a) <= Len(b) /\ SubSeq(b, 1, Len(a)) = a

\* ------------------------------------------------------------ state
VARIABLES doc, failAt,             \* the document; the byte position at which the reader fails (-1: never)
          rd, rdEOF, zeros,        \* reader: bytes delivered, EOF reported, consecutive zero reads
          buf, srcPos, srcEnd,     \* source buffer window (buf: sequence of length srcEnd)
          bufOffset, line, column, lastLineLen, lastCharLen,
          tokBuf, tokPos,          \* spilled head of the token text; start of the tail in buf (-1: no token)
          position,                \* position of the token being scanned
          pc,                      \* "bof" | "skip" | "scan" (in a word) | "str" (in a string) |
                                   \* "punct" (after '(' or a closing quote: the token ends at the next character) | "done" | "error"
          sawEOF,                  \* the last Read reported EOF (or failed) with bytes left to decode
          toks,
          reads                    \* history: the (n, eof, failed) of every Read so far (for replay; hidden by MC views)
vars == <<reads, doc, failAt, rd, rdEOF, zeros, buf, srcPos, srcEnd, bufOffset, line, column, lastLineLen, lastCharLen,
          tokBuf, tokPos, position, pc, sawEOF, toks>>

Init ==
  /\ doc \in Docs
  /\ failAt \in {-1} \cup 0..(Len(doc) - 1)
  /\ rd = 0 /\ rdEOF = FALSE /\ zeros = 0
  /\ buf = <<>> /\ srcPos = 0 /\ srcEnd = 0
  /\ bufOffset = 0 /\ line = 1 /\ column = 0 /\ lastLineLen = 0 /\ lastCharLen = 0
  /\ tokBuf = <<>> /\ tokPos = -1
  /\ position = [off |-> 0, line |-> 0, col |-> 0]
  /\ pc = "bof" /\ sawEOF = FALSE /\ toks = <<>> /\ reads = <<>>

Avail == srcEnd - srcPos                       \* unread bytes in the buffer
ByteAt(k) == IF k < Len(buf) THEN buf[k + 1] ELSE 128     \* srcBuf[k], 0-based; srcBuf[srcEnd] is the sentinel
FullRune == Avail >= 1 /\ Avail >= Need(ByteAt(srcPos))
\* next() must read more: the byte at srcPos is the sentinel or a lead byte, fewer than UTFMax
\* bytes are left and they do not hold a full rune
NeedFill == /\ (Avail = 0 \/ ByteAt(srcPos) >= 128)
            /\ srcPos + UTFMax > srcEnd /\ ~FullRune
            /\ ~sawEOF /\ ~(Avail = 0 /\ rdEOF)
Running == pc \in {"bof", "skip", "scan", "str", "punct"}
InToken == pc \in {"scan", "str", "punct"}

\* ------------------------------------------------------------ Fill
\* (spill the token text, move the unread bytes, Read)
Fill ==
  /\ Running /\ NeedFill
  /\ LET left == SubSeq(buf, srcPos + 1, srcEnd)
         cap == BufLen - Len(left)
         remaining == Len(doc) - rd
     IN \E n \in 0..(IF cap < remaining THEN cap ELSE remaining), eof \in BOOLEAN :
          LET fails == failAt >= 0 /\ rd + n >= failAt
              m == IF fails THEN failAt - rd ELSE n        \* a failing reader delivers up to the fault position
              atEnd == rd + m = Len(doc)
          IN /\ (eof => atEnd /\ ~fails)                     \* EOF only with / after the last byte
             /\ (m = 0 /\ ~eof /\ ~fails => zeros < MaxZero) \* bounded stuttering of the reader
             /\ (m = 0 /\ ~fails /\ atEnd => eof)            \* at the end a reader must report EOF eventually
             /\ zeros' = IF m = 0 /\ ~eof /\ ~fails THEN zeros + 1 ELSE 0
             /\ tokBuf' = IF tokPos >= 0 THEN tokBuf \o SubSeq(buf, tokPos + 1, srcPos) ELSE tokBuf
             /\ tokPos' = IF tokPos >= 0 THEN 0 ELSE tokPos
             /\ bufOffset' = bufOffset + srcPos
             /\ buf' = left \o SubSeq(doc, rd + 1, rd + m)
             /\ srcPos' = 0 /\ srcEnd' = Len(left) + m
             /\ rd' = rd + m /\ rdEOF' = (rdEOF \/ eof)
             /\ reads' = Append(reads, [n |-> m, eof |-> eof, fail |-> fails])
             /\ IF fails
                THEN pc' = "error" /\ sawEOF' = TRUE          \* s.error(err.Error()): the token loop stops
                ELSE /\ pc' = pc
                     /\ sawEOF' = (eof /\ Len(left) + m > 0)  \* EOF with bytes left: break, decode what is there
                     \* EOF with an empty buffer is handled by Consume (specialRuneEOF)
  /\ UNCHANGED <<doc, failAt, line, column, lastLineLen, lastCharLen, position, toks>>

\* ------------------------------------------------------------ Consume
\* the rune that next() returns now: -1 = EOF
AtEOF == Avail = 0 /\ rdEOF
CanConsume == AtEOF \/ FullRune \/ (Avail >= 1 /\ ByteAt(srcPos) < 128) \/ (sawEOF /\ Avail >= 1)

EmitTok(endPos) ==       \* tokenText(): spilled head + srcBuf[tokPos:tokEnd]
  Append(toks, [text |-> tokBuf \o SubSeq(buf, tokPos + 1, endPos), off |-> position.off,
                line |-> position.line, col |-> position.col])

Consume ==
  /\ Running /\ ~NeedFill /\ CanConsume
  /\ IF AtEOF
     THEN \* specialRuneEOF: column++ if the previous character was not EOF; the open token ends here
          /\ column' = IF lastCharLen > 0 THEN column + 1 ELSE column
          /\ lastCharLen' = 0
          /\ toks' = IF InToken THEN EmitTok(srcPos) ELSE toks
          /\ pc' = "done"
          /\ UNCHANGED <<srcPos, line, lastLineLen, tokBuf, tokPos, position, sawEOF>>
          /\ (pc = "str" => FALSE)       \* (documents end every string: "literal not terminated" is not modelled)
     ELSE IF ~FullRune
     THEN \* a partial rune before EOF: utf8.RuneError, "invalid UTF-8 encoding"
          /\ pc' = "error"
          /\ UNCHANGED <<srcPos, line, column, lastLineLen, lastCharLen, tokBuf, tokPos, position, toks, sawEOF>>
     ELSE LET b == ByteAt(srcPos)  w == Need(b)
              col1 == column + 1
              nl == b = 10
          IN /\ srcPos' = srcPos + w
             /\ lastCharLen' = w
             /\ line' = IF nl THEN line + 1 ELSE line
             /\ lastLineLen' = IF nl THEN col1 ELSE lastLineLen
             /\ column' = IF nl THEN 0 ELSE col1
             /\ sawEOF' = sawEOF
             \* token logic of nextToken: tokEnd = srcPos - lastCharLen (= the old srcPos) when b ends the open
             \* token; tokPos = srcPos - lastCharLen and the position when b starts one
             /\ LET closes == \/ pc = "punct"
                              \/ pc = "scan" /\ (IsBlank(b) \/ IsPunct(b) \/ IsQuote(b))
                    opens == pc # "str" /\ ~IsBlank(b) /\ (closes \/ ~InToken)
                IN /\ toks' = IF closes THEN EmitTok(srcPos) ELSE toks
                   /\ pc' = IF pc = "str" THEN (IF IsQuote(b) THEN "punct" ELSE "str")
                            ELSE IF IsBlank(b) THEN "skip" ELSE IF IsPunct(b) THEN "punct"
                            ELSE IF IsQuote(b) THEN "str" ELSE "scan"
                   /\ IF opens
                      THEN /\ tokBuf' = <<>> /\ tokPos' = srcPos
                           /\ position' = [off |-> bufOffset + srcPos,
                                           line |-> IF column' > 0 THEN line' ELSE line' - 1,
                                           col |-> IF column' > 0 THEN column' ELSE lastLineLen']
                      ELSE IF IsBlank(b) /\ pc # "str" THEN tokBuf' = <<>> /\ tokPos' = -1 /\ UNCHANGED position
                      ELSE UNCHANGED <<tokBuf, tokPos, position>>
  /\ UNCHANGED <<doc, failAt, rd, rdEOF, zeros, buf, srcEnd, bufOffset, reads>>

\* a reader that reported EOF with an empty buffer earlier: next() calls Read again and gets (0, EOF)
Next == Fill \/ Consume
Spec == Init /\ [][Next]_vars /\ WF_vars(Next)

\* ------------------------------------------------------------ properties
TypeOK == /\ 0 <= srcPos /\ srcPos <= srcEnd /\ srcEnd <= BufLen /\ Len(buf) = srcEnd
          /\ tokPos >= -1 /\ tokPos <= srcPos
Mirror == buf = SubSeq(doc, bufOffset + 1, bufOffset + srcEnd)          \* the buffer mirrors the document
Consumed == bufOffset + srcEnd = rd
PrefixOK == IsPrefix(toks, RefTokens(doc))                              \* P1, at every step
Final == pc = "done" => /\ failAt = -1
                        /\ toks = RefTokens(doc)                        \* P1
FailReported == (failAt >= 0 /\ ~Running) => pc = "error"               \* P2
NoStuck == Running => ENABLED Next
Terminates == <>(~Running)
View == <<doc, failAt, rd, rdEOF, zeros, buf, srcPos, srcEnd, bufOffset, line, column, lastLineLen, lastCharLen,
          tokBuf, tokPos, position, pc, sawEOF, toks>>
=============================================================================
