------------------------------- MODULE Syntax -------------------------------
(***************************************************************************)
(* C07 / C08: the Cedar policy grammar as a recursive-descent parser over  *)
(* token sequences (Parse), transcribed from the documented grammar, and a *)
(* renderer (Render) that derives the minimal parenthesisation from the    *)
(* grammar's own levels (not from the implementation's marshal table).     *)
(*                                                                         *)
(* Tokens:  [t |-> "id",  s |-> "principal"]   identifier (not reserved)   *)
(*          [t |-> "kw",  s |-> "if"]          reserved word               *)
(*          [t |-> "int", d |-> <<1, 2>>]      digits                      *)
(*          [t |-> "str", raw |-> <<cp..>>]    text between the quotes     *)
(*          [t |-> "op",  s |-> "=="]                                      *)
(* ASTs are the wire forms of CedarEval / CedarPolicy.  Entity ids and     *)
(* string literals are code-point sequences; entity types, attribute names *)
(* and record keys are atomic names, related to their token spelling by    *)
(* the tables PathTable / NameTable (TLC cannot look inside strings).      *)
(***************************************************************************)
EXTENDS CedarPolicy, TLC

CONSTANTS PathTable,   \* sequence of [name, parts]: "NS::T" <-> <<"NS", "T">>
          NameTable,   \* sequence of [name, cps]: attribute / key names that need a string literal
          IdTable,     \* sequence of [name, cps]: entity ids (atomic names in the model) and their characters
          WordTable,   \* sequence of [name, cps]: identifier-shaped words (used by the lexer only)
          ByCps        \* [on |-> FALSE], or [on |-> TRUE, names, nameKeys, words, wordKeys]: the tables in the direction
                       \* code points -> name as functions keyed by ToString(cps) (constant-time lookup for the long
                       \* tables of recorded traces; a linear scan of a sequence costs TLC microseconds per row)
NoFast == [on |-> FALSE]
Key(cps) == ToString(cps)

Reserved == {"true", "false", "if", "then", "else", "in", "like", "has", "is", "__cedar"}
Id(s)  == [t |-> IF s \in Reserved THEN "kw" ELSE "id", s |-> s]
Op(s)  == [t |-> "op", s |-> s]
IntT(d) == [t |-> "int", d |-> d]
StrT(raw) == [t |-> "str", raw |-> raw]
EOF == [t |-> "eof"]

\* ------------------------------------------------------------------ strings
\* Unescape(raw): the value of a string literal, or <<-1>> if an escape is malformed.
\* star = TRUE (patterns): \* is a literal star, a bare * is the wildcard -1
HexV(c) == IF c \in 48..57 THEN c - 48 ELSE IF c \in 65..70 THEN c - 55 ELSE IF c \in 97..102 THEN c - 87 ELSE -1
BadStr == <<-2>>
RECURSIVE UnescFrom(_, _, _)
UnescFrom(raw, i, star) ==
  IF i > Len(raw) THEN <<>>
  ELSE IF raw[i] # 92
       THEN LET rest == UnescFrom(raw, i + 1, star) IN
            IF rest = BadStr THEN BadStr ELSE <<(IF star /\ raw[i] = 42 THEN -1 ELSE raw[i])>> \o rest
       ELSE IF i + 1 > Len(raw) THEN BadStr
       ELSE LET c == raw[i + 1]
                simple == CASE c = 110 -> 10 [] c = 114 -> 13 [] c = 116 -> 9 [] c = 92 -> 92 [] c = 48 -> 0
                            [] c = 39 -> 39 [] c = 34 -> 34 [] (c = 42 /\ star) -> 42 [] OTHER -> -1
            IN IF simple >= 0
               THEN LET rest == UnescFrom(raw, i + 2, star) IN IF rest = BadStr THEN BadStr ELSE <<simple>> \o rest
               ELSE IF c = 120            \* \xHH, at most 7f
               THEN IF i + 3 > Len(raw) \/ HexV(raw[i + 2]) < 0 \/ HexV(raw[i + 3]) < 0 \/ HexV(raw[i + 2]) > 7 THEN BadStr
                    ELSE LET rest == UnescFrom(raw, i + 4, star) IN
                         IF rest = BadStr THEN BadStr ELSE <<HexV(raw[i + 2]) * 16 + HexV(raw[i + 3])>> \o rest
               ELSE IF c = 117            \* \u{H..} 1-6 hex digits, a Unicode scalar value
               THEN IF i + 2 > Len(raw) \/ raw[i + 2] # 123 THEN BadStr
                    ELSE LET RECURSIVE HexRun(_, _, _)
                             HexRun(j, n, acc) == IF j <= Len(raw) /\ HexV(raw[j]) >= 0 /\ n < 7
                                                  THEN HexRun(j + 1, n + 1, acc * 16 + HexV(raw[j])) ELSE <<j, n, acc>>
                             h == HexRun(i + 3, 0, 0)
                         IN IF h[2] < 1 \/ h[2] > 6 \/ h[1] > Len(raw) \/ raw[h[1]] # 125
                               \/ h[3] > 1114111 \/ h[3] \in 55296..57343 THEN BadStr
                            ELSE LET rest == UnescFrom(raw, h[1] + 1, star) IN
                                 IF rest = BadStr THEN BadStr ELSE <<h[3]>> \o rest
               ELSE BadStr
Unescape(raw) == UnescFrom(raw, 1, FALSE)
UnescapePattern(raw) == UnescFrom(raw, 1, TRUE)
\* adjacent wildcards mean the same as one
RECURSIVE NormPat(_)
NormPat(p) == IF Len(p) < 2 THEN p
              ELSE IF p[1] = -1 /\ p[2] = -1 THEN NormPat(Tail(p)) ELSE <<p[1]>> \o NormPat(Tail(p))

\* ------------------------------------------------------------------ names
\* In the ASTs of this module an entity type IS its sequence of path components
\* (<<"NS", "T">>), so the parser needs no table and any identifier can be a type.
\* PathTable relates components to the atomic type names of the evaluation universes
\* (TypeNameOf, used where parsed trees are evaluated).
PathName(parts) == parts
PathParts(ty) == ty
TypeNameOf(parts) == IF \E k \in DOMAIN PathTable : PathTable[k].parts = parts
                     THEN PathTable[CHOOSE k \in DOMAIN PathTable : PathTable[k].parts = parts].name ELSE "?"
TypePartsOf(name) == PathTable[CHOOSE k \in DOMAIN PathTable : PathTable[k].name = name].parts
NameOfCps(cps) == IF ByCps.on THEN (IF Key(cps) \in ByCps.nameKeys THEN ByCps.names[Key(cps)] ELSE "?") ELSE
                  IF \E k \in DOMAIN NameTable : NameTable[k].cps = cps
                  THEN NameTable[CHOOSE k \in DOMAIN NameTable : NameTable[k].cps = cps].name ELSE "?"
IdOfCps(cps) == IF ByCps.on THEN (IF Key(cps) \in ByCps.nameKeys THEN ByCps.names[Key(cps)] ELSE "?") ELSE
                IF \E k \in DOMAIN IdTable : IdTable[k].cps = cps
                THEN IdTable[CHOOSE k \in DOMAIN IdTable : IdTable[k].cps = cps].name
                ELSE IF \E k \in DOMAIN NameTable : NameTable[k].cps = cps       \* (any known string may be used as an id)
                THEN NameTable[CHOOSE k \in DOMAIN NameTable : NameTable[k].cps = cps].name ELSE "?"
CpsOfId(name) == IdTable[CHOOSE k \in DOMAIN IdTable : IdTable[k].name = name].cps
NeedsString(name) ==\E k \in DOMAIN NameTable : NameTable[k].name = name
CpsOfName(name) == NameTable[CHOOSE k \in DOMAIN NameTable : NameTable[k].name = name].cps

\* ------------------------------------------------------------------ parser
Fail == [ok |-> FALSE]
R(v, i) == [ok |-> TRUE, v |-> v, i |-> i]
Tk(ts, i) == IF i <= Len(ts) THEN ts[i] ELSE EOF
IsOp(tok, s) == tok.t = "op" /\ tok.s = s
IsKw(tok, s) == tok.t = "kw" /\ tok.s = s
IsIdS(tok, s) == tok.t = "id" /\ tok.s = s

V(v) == [op |-> "val", v |-> v]
ExtFunctions == {"ip", "decimal", "datetime", "duration"}
ExtMethods == ExtNames \ ExtFunctions
Vars == {"principal", "action", "resource", "context"}

\* Path ::= IDENT {'::' IDENT}  -- returns the parts and the index after the path;
\* stops before a '::' that is followed by a string (entity id)
RECURSIVE PathFrom(_, _, _)
PathFrom(ts, i, acc) ==
  IF IsOp(Tk(ts, i), "::") /\ Tk(ts, i + 1).t = "id" THEN PathFrom(ts, i + 2, Append(acc, Tk(ts, i + 1).s))
  ELSE R(acc, i)
ParsePath(ts, i) == IF Tk(ts, i).t = "id" THEN PathFrom(ts, i + 1, <<Tk(ts, i).s>>) ELSE Fail
\* Entity ::= Path '::' STR
ParseEntity(ts, i) ==
  LET p == ParsePath(ts, i) IN
  IF ~p.ok THEN Fail
  ELSE IF IsOp(Tk(ts, p.i), "::") /\ Tk(ts, p.i + 1).t = "str" /\ Unescape(Tk(ts, p.i + 1).raw) # BadStr
       THEN R(VEnt(PathName(p.v), IdOfCps(Unescape(Tk(ts, p.i + 1).raw))), p.i + 2)
       ELSE Fail

RECURSIVE PExpr(_, _), POr(_, _), POrRest(_, _, _), PAnd(_, _), PAndRest(_, _, _), PRel(_, _), PAdd(_, _),
          PAddRest(_, _, _), PMult(_, _), PMultRest(_, _, _), PUnary(_, _), PMember(_, _), PMemberRest(_, _, _),
          PPrimary(_, _), PExprList(_, _, _, _), PRecord(_, _, _)

PExpr(ts, i) ==
  IF IsKw(Tk(ts, i), "if")
  THEN LET c == PExpr(ts, i + 1) IN
       IF ~c.ok \/ ~IsKw(Tk(ts, c.i), "then") THEN Fail ELSE
       LET t == PExpr(ts, c.i + 1) IN
       IF ~t.ok \/ ~IsKw(Tk(ts, t.i), "else") THEN Fail ELSE
       LET e == PExpr(ts, t.i + 1) IN
       IF ~e.ok THEN Fail ELSE R([op |-> "if", c |-> c.v, t |-> t.v, e |-> e.v], e.i)
  ELSE POr(ts, i)

POr(ts, i) == LET l == PAnd(ts, i) IN IF ~l.ok THEN Fail ELSE POrRest(ts, l.i, l.v)
POrRest(ts, i, lhs) ==
  IF IsOp(Tk(ts, i), "||")
  THEN LET r == PAnd(ts, i + 1) IN IF ~r.ok THEN Fail ELSE POrRest(ts, r.i, [op |-> "or", l |-> lhs, r |-> r.v])
  ELSE R(lhs, i)
PAnd(ts, i) == LET l == PRel(ts, i) IN IF ~l.ok THEN Fail ELSE PAndRest(ts, l.i, l.v)
PAndRest(ts, i, lhs) ==
  IF IsOp(Tk(ts, i), "&&")
  THEN LET r == PRel(ts, i + 1) IN IF ~r.ok THEN Fail ELSE PAndRest(ts, r.i, [op |-> "and", l |-> lhs, r |-> r.v])
  ELSE R(lhs, i)

RelOpOf(tok) == IF tok.t = "op" THEN (CASE tok.s = "<" -> "lt" [] tok.s = "<=" -> "le" [] tok.s = ">" -> "gt"
                                          [] tok.s = ">=" -> "ge" [] tok.s = "!=" -> "ne" [] tok.s = "==" -> "eq" [] OTHER -> "")
                ELSE IF IsKw(tok, "in") THEN "in" ELSE ""

\* the chain `a has b.c.d` is sugar for  a has b && a.b has c && a.b.c has d
RECURSIVE HasChain(_, _, _, _)
HasChain(ts, i, acc, cur) ==
  IF IsOp(Tk(ts, i), ".")
  THEN IF Tk(ts, i + 1).t # "id" THEN Fail
       ELSE LET a == Tk(ts, i + 1).s IN
            HasChain(ts, i + 2, [op |-> "and", l |-> acc, r |-> [op |-> "has", a |-> cur, attr |-> a]],
                     [op |-> "access", a |-> cur, attr |-> a])
  ELSE R(acc, i)

PRel(ts, i) ==
  LET l == PAdd(ts, i) IN
  IF ~l.ok THEN Fail ELSE
  LET tok == Tk(ts, l.i) IN
  IF IsKw(tok, "has")
  THEN LET n == Tk(ts, l.i + 1) IN
       IF n.t = "id" THEN HasChain(ts, l.i + 2, [op |-> "has", a |-> l.v, attr |-> n.s], [op |-> "access", a |-> l.v, attr |-> n.s])
       ELSE IF n.t = "str" /\ Unescape(n.raw) # BadStr THEN R([op |-> "has", a |-> l.v, attr |-> NameOfCps(Unescape(n.raw))], l.i + 2)
       ELSE Fail
  ELSE IF IsKw(tok, "like")
  THEN LET n == Tk(ts, l.i + 1) IN
       IF n.t = "str" /\ UnescapePattern(n.raw) # BadStr
       THEN R([op |-> "like", a |-> l.v, pat |-> NormPat(UnescapePattern(n.raw))], l.i + 2) ELSE Fail
  ELSE IF IsKw(tok, "is")
  THEN LET p == ParsePath(ts, l.i + 1) IN
       IF ~p.ok THEN Fail
       ELSE IF IsKw(Tk(ts, p.i), "in")
            THEN LET r == PAdd(ts, p.i + 1) IN
                 IF ~r.ok THEN Fail ELSE R([op |-> "isIn", a |-> l.v, ty |-> PathName(p.v), e |-> r.v], r.i)
            ELSE R([op |-> "is", a |-> l.v, ty |-> PathName(p.v)], p.i)
  ELSE IF RelOpOf(tok) # ""
  THEN LET r == PAdd(ts, l.i + 1) IN
       IF ~r.ok THEN Fail ELSE R([op |-> RelOpOf(tok), l |-> l.v, r |-> r.v], r.i)
  ELSE l

PAdd(ts, i) == LET l == PMult(ts, i) IN IF ~l.ok THEN Fail ELSE PAddRest(ts, l.i, l.v)
PAddRest(ts, i, lhs) ==
  IF IsOp(Tk(ts, i), "+") \/ IsOp(Tk(ts, i), "-")
  THEN LET r == PMult(ts, i + 1) IN
       IF ~r.ok THEN Fail
       ELSE PAddRest(ts, r.i, [op |-> IF Tk(ts, i).s = "+" THEN "add" ELSE "sub", l |-> lhs, r |-> r.v])
  ELSE R(lhs, i)
PMult(ts, i) == LET l == PUnary(ts, i) IN IF ~l.ok THEN Fail ELSE PMultRest(ts, l.i, l.v)
PMultRest(ts, i, lhs) ==
  IF IsOp(Tk(ts, i), "*")
  THEN LET r == PUnary(ts, i + 1) IN IF ~r.ok THEN Fail ELSE PMultRest(ts, r.i, [op |-> "mul", l |-> lhs, r |-> r.v])
  ELSE R(lhs, i)

\* Unary ::= {'!' | '-'} Member ; a '-' directly before an integer literal belongs to the literal
\* when the literal is the whole member (no access follows): -1.foo is -(1.foo)
PUnary(ts, i) ==
  LET tok == Tk(ts, i) IN
  IF IsOp(tok, "!")
  THEN LET a == PUnary(ts, i + 1) IN IF ~a.ok THEN Fail ELSE R([op |-> "not", a |-> a.v], a.i)
  ELSE IF IsOp(tok, "-")
  THEN IF Tk(ts, i + 1).t = "int" /\ ~IsOp(Tk(ts, i + 2), ".") /\ ~IsOp(Tk(ts, i + 2), "[")
       THEN LET x == Mk(TRUE, DigitsMag(Tk(ts, i + 1).d)) IN IF InI64(x) THEN R(V(VLong(x)), i + 2) ELSE Fail
       ELSE LET a == PUnary(ts, i + 1) IN IF ~a.ok THEN Fail ELSE R([op |-> "neg", a |-> a.v], a.i)
  ELSE PMember(ts, i)

PMember(ts, i) == LET p == PPrimary(ts, i) IN IF ~p.ok THEN Fail ELSE PMemberRest(ts, p.i, p.v)
PMemberRest(ts, i, recv) ==
  IF IsOp(Tk(ts, i), ".") /\ Tk(ts, i + 1).t = "id"
  THEN LET name == Tk(ts, i + 1).s IN
       IF IsOp(Tk(ts, i + 2), "(")
       THEN LET args == PExprList(ts, i + 3, ")", <<>>) IN
            IF ~args.ok THEN Fail ELSE
            LET n == Len(args.v)
                node == CASE name \in {"contains", "containsAll", "containsAny", "hasTag", "getTag"} ->
                               (IF n = 1 THEN [op |-> name, l |-> recv, r |-> args.v[1]] ELSE Fail)
                          [] name = "isEmpty" -> (IF n = 0 THEN [op |-> "isEmpty", a |-> recv] ELSE Fail)
                          [] name \in ExtMethods -> [op |-> "ext", fn |-> name, args |-> <<recv>> \o args.v]
                          [] OTHER -> Fail
            IN IF node = Fail THEN Fail ELSE PMemberRest(ts, args.i, node)
       ELSE PMemberRest(ts, i + 2, [op |-> "access", a |-> recv, attr |-> name])
  ELSE IF IsOp(Tk(ts, i), "[") /\ Tk(ts, i + 1).t = "str" /\ IsOp(Tk(ts, i + 2), "]") /\ Unescape(Tk(ts, i + 1).raw) # BadStr
  THEN PMemberRest(ts, i + 3, [op |-> "access", a |-> recv, attr |-> NameOfCps(Unescape(Tk(ts, i + 1).raw))])
  ELSE IF IsOp(Tk(ts, i), ".") \/ IsOp(Tk(ts, i), "[") THEN Fail
  ELSE R(recv, i)

\* [Expr {',' Expr}] up to the closing token (a trailing comma is not in the grammar)
PExprList(ts, i, close, acc) ==
  IF IsOp(Tk(ts, i), close) THEN R(acc, i + 1)      \* (also reached after a trailing comma)
  ELSE LET e == PExpr(ts, i) IN
       IF ~e.ok THEN Fail
       ELSE IF IsOp(Tk(ts, e.i), ",") THEN PExprList(ts, e.i + 1, close, Append(acc, e.v))
       ELSE IF IsOp(Tk(ts, e.i), close) THEN R(Append(acc, e.v), e.i + 1)
       ELSE Fail

PRecord(ts, i, acc) ==
  IF IsOp(Tk(ts, i), "}") THEN R([op |-> "rec", kv |-> acc], i + 1)
  ELSE LET k == Tk(ts, i)
           key == IF k.t \in {"id"} THEN k.s
                  ELSE IF k.t = "str" /\ Unescape(k.raw) # BadStr THEN NameOfCps(Unescape(k.raw)) ELSE "?fail"
       IN IF key = "?fail" \/ ~IsOp(Tk(ts, i + 1), ":") \/ \E j \in DOMAIN acc : acc[j].key = key THEN Fail
          ELSE LET e == PExpr(ts, i + 2) IN
               IF ~e.ok THEN Fail
               ELSE IF IsOp(Tk(ts, e.i), ",") THEN PRecord(ts, e.i + 1, Append(acc, [key |-> key, val |-> e.v]))
               ELSE IF IsOp(Tk(ts, e.i), "}") THEN R([op |-> "rec", kv |-> Append(acc, [key |-> key, val |-> e.v])], e.i + 1)
               ELSE Fail

PPrimary(ts, i) ==
  LET tok == Tk(ts, i) IN
  CASE tok.t = "int" -> LET x == Mk(FALSE, DigitsMag(tok.d)) IN IF InI64(x) THEN R(V(VLong(x)), i + 1) ELSE Fail
    [] tok.t = "str" -> IF Unescape(tok.raw) = BadStr THEN Fail ELSE R(V(VStr(Unescape(tok.raw))), i + 1)
    [] IsKw(tok, "true") -> R(V(VTrue), i + 1)
    [] IsKw(tok, "false") -> R(V(VFalse), i + 1)
    [] tok.t = "id" ->
         IF IsOp(Tk(ts, i + 1), "::")
         THEN LET e == ParseEntity(ts, i) IN IF e.ok THEN R(V(e.v), e.i) ELSE
              \* a namespaced function name is not an extension function
              Fail
         ELSE IF IsOp(Tk(ts, i + 1), "(")
         THEN IF tok.s \notin ExtFunctions THEN Fail
              ELSE LET args == PExprList(ts, i + 2, ")", <<>>) IN
                   IF ~args.ok THEN Fail ELSE R([op |-> "ext", fn |-> tok.s, args |-> args.v], args.i)
         ELSE IF tok.s \in Vars THEN R([op |-> "var", name |-> tok.s], i + 1)
         ELSE Fail
    [] IsOp(tok, "(") -> LET e == PExpr(ts, i + 1) IN IF e.ok /\ IsOp(Tk(ts, e.i), ")") THEN R(e.v, e.i + 1) ELSE Fail
    [] IsOp(tok, "[") -> LET es == PExprList(ts, i + 1, "]", <<>>) IN IF es.ok THEN R([op |-> "set", els |-> es.v], es.i) ELSE Fail
    [] IsOp(tok, "{") -> PRecord(ts, i + 1, <<>>)
    [] OTHER -> Fail

\* ------------------------------------------------------------------ policies
RECURSIVE PEntList(_, _, _)
PEntList(ts, i, acc) ==
  IF IsOp(Tk(ts, i), "]") THEN R(acc, i + 1)
  ELSE LET e == ParseEntity(ts, i) IN
       IF ~e.ok THEN Fail
       ELSE IF IsOp(Tk(ts, e.i), ",") THEN PEntList(ts, e.i + 1, Append(acc, e.v))
       ELSE IF IsOp(Tk(ts, e.i), "]") THEN R(Append(acc, e.v), e.i + 1)
       ELSE Fail

PScope(ts, i, var) ==
  IF ~IsIdS(Tk(ts, i), var) THEN Fail
  ELSE LET tok == Tk(ts, i + 1) IN
       IF IsOp(tok, "==") THEN LET e == ParseEntity(ts, i + 2) IN IF e.ok THEN R(ScopeEq(e.v), e.i) ELSE Fail
       ELSE IF IsKw(tok, "in")
       THEN IF var = "action" /\ IsOp(Tk(ts, i + 2), "[")
            THEN LET es == PEntList(ts, i + 3, <<>>) IN IF es.ok THEN R(ScopeInSet(es.v), es.i) ELSE Fail
            ELSE LET e == ParseEntity(ts, i + 2) IN IF e.ok THEN R(ScopeIn(e.v), e.i) ELSE Fail
       ELSE IF IsKw(tok, "is") /\ var # "action"
       THEN LET p == ParsePath(ts, i + 2) IN
            IF ~p.ok THEN Fail
            ELSE IF IsKw(Tk(ts, p.i), "in")
                 THEN LET e == ParseEntity(ts, p.i + 1) IN IF e.ok THEN R(ScopeIsIn(PathName(p.v), e.v), e.i) ELSE Fail
                 ELSE R(ScopeIs(PathName(p.v)), p.i)
       ELSE R(ScopeAll, i + 1)

RECURSIVE PAnnos(_, _, _), PConds(_, _, _)
PAnnos(ts, i, acc) ==
  IF IsOp(Tk(ts, i), "@")
  THEN LET k == Tk(ts, i + 1) IN
       IF k.t \in {"id", "kw"} /\ IsOp(Tk(ts, i + 2), "(") /\ Tk(ts, i + 3).t = "str" /\ IsOp(Tk(ts, i + 4), ")")
          /\ Unescape(Tk(ts, i + 3).raw) # BadStr /\ ~\E j \in DOMAIN acc : acc[j].k = k.s
       THEN PAnnos(ts, i + 5, Append(acc, [k |-> k.s, v |-> Unescape(Tk(ts, i + 3).raw)]))
       ELSE Fail
  ELSE R(acc, i)
PConds(ts, i, acc) ==
  IF IsIdS(Tk(ts, i), "when") \/ IsIdS(Tk(ts, i), "unless")
  THEN IF ~IsOp(Tk(ts, i + 1), "{") THEN Fail
       ELSE LET e == PExpr(ts, i + 2) IN
            IF e.ok /\ IsOp(Tk(ts, e.i), "}") THEN PConds(ts, e.i + 1, Append(acc, [kind |-> Tk(ts, i).s, body |-> e.v])) ELSE Fail
  ELSE R(acc, i)

\* Policy ::= {Annotation} Effect '(' Principal ',' Action ',' Resource ')' {Condition} ';'
ParsePolicyAt(ts, i) ==
  LET an == PAnnos(ts, i, <<>>) IN
  IF ~an.ok THEN Fail ELSE
  LET eff == Tk(ts, an.i) IN
  IF ~(IsIdS(eff, "permit") \/ IsIdS(eff, "forbid")) \/ ~IsOp(Tk(ts, an.i + 1), "(") THEN Fail ELSE
  LET p == PScope(ts, an.i + 2, "principal") IN
  IF ~p.ok \/ ~IsOp(Tk(ts, p.i), ",") THEN Fail ELSE
  LET a == PScope(ts, p.i + 1, "action") IN
  IF ~a.ok \/ ~IsOp(Tk(ts, a.i), ",") THEN Fail ELSE
  LET r0 == PScope(ts, a.i + 1, "resource") IN
  IF ~r0.ok THEN Fail ELSE
  \* (the reference grammar's comma-separated lists allow one trailing comma)
  LET r == IF IsOp(Tk(ts, r0.i), ",") THEN [r0 EXCEPT !.i = r0.i + 1] ELSE r0 IN
  IF ~IsOp(Tk(ts, r.i), ")") THEN Fail ELSE
  LET cs == PConds(ts, r.i + 1, <<>>) IN
  IF ~cs.ok \/ ~IsOp(Tk(ts, cs.i), ";") THEN Fail
  ELSE R([effect |-> eff.s, annos |-> an.v, principal |-> p.v, action |-> a.v, resource |-> r.v, conds |-> cs.v], cs.i + 1)

ParsePolicy(ts) == LET r == ParsePolicyAt(ts, 1) IN IF r.ok /\ r.i = Len(ts) + 1 THEN [ok |-> TRUE, v |-> r.v] ELSE Fail
RECURSIVE ParseListFrom(_, _, _)
ParseListFrom(ts, i, acc) == IF i > Len(ts) THEN [ok |-> TRUE, v |-> acc]
                             ELSE LET r == ParsePolicyAt(ts, i) IN IF r.ok THEN ParseListFrom(ts, r.i, Append(acc, r.v)) ELSE Fail
ParsePolicyList(ts) == ParseListFrom(ts, 1, <<>>)

\* ------------------------------------------------------------------ lexer
\* Lex(s): the token sequence of a text given as code points, [ok, toks].  White space is
\* space / tab / LF / CR; comments run from // to the end of the line or from /* to */;
\* identifiers are [A-Za-z_][A-Za-z0-9_]* (their spelling as an atomic name comes from
\* WordTable); integers are digit runs; a string literal runs from " to the next
\* unescaped " on the same line and keeps its raw content; operators by longest match.
IsWs(c) == c \in {32, 9, 10, 13}
IsIdStart(c) == c \in 65..90 \/ c \in 97..122 \/ c = 95
IsIdCont(c) == IsIdStart(c) \/ IsDigit(c)
WordOf(cps) == IF ByCps.on THEN (IF Key(cps) \in ByCps.wordKeys THEN ByCps.words[Key(cps)] ELSE "?") ELSE
               IF \E k \in DOMAIN WordTable : WordTable[k].cps = cps
               THEN WordTable[CHOOSE k \in DOMAIN WordTable : WordTable[k].cps = cps].name ELSE "?"
RECURSIVE IdEnd(_, _), DigEnd(_, _), StrEnd(_, _), LineEnd(_, _), BlockEnd(_, _)
IdEnd(s, i) == IF i <= Len(s) /\ IsIdCont(s[i]) THEN IdEnd(s, i + 1) ELSE i          \* first index after the run
DigEnd(s, i) == IF i <= Len(s) /\ IsDigit(s[i]) THEN DigEnd(s, i + 1) ELSE i
StrEnd(s, i) == IF i > Len(s) \/ s[i] = 10 THEN 0                                    \* index of the closing quote, 0: none
                ELSE IF s[i] = 34 THEN i
                ELSE IF s[i] = 92 THEN (IF i + 1 > Len(s) THEN 0 ELSE StrEnd(s, i + 2))
                ELSE StrEnd(s, i + 1)
LineEnd(s, i) == IF i > Len(s) \/ s[i] = 10 THEN i ELSE LineEnd(s, i + 1)
BlockEnd(s, i) == IF i + 1 > Len(s) THEN 0                                           \* index after the closing */, 0: none
                  ELSE IF s[i] = 42 /\ s[i + 1] = 47 THEN i + 2 ELSE BlockEnd(s, i + 1)
OpName2(a, b) == CASE a = 58 /\ b = 58 -> "::" [] a = 61 /\ b = 61 -> "==" [] a = 33 /\ b = 61 -> "!="
                   [] a = 60 /\ b = 61 -> "<=" [] a = 62 /\ b = 61 -> ">=" [] a = 38 /\ b = 38 -> "&&"
                   [] a = 124 /\ b = 124 -> "||" [] OTHER -> ""
OpName1(c) == CASE c = 40 -> "(" [] c = 41 -> ")" [] c = 123 -> "{" [] c = 125 -> "}" [] c = 91 -> "[" [] c = 93 -> "]"
                [] c = 44 -> "," [] c = 59 -> ";" [] c = 46 -> "." [] c = 58 -> ":" [] c = 60 -> "<" [] c = 62 -> ">"
                [] c = 33 -> "!" [] c = 45 -> "-" [] c = 43 -> "+" [] c = 42 -> "*" [] c = 47 -> "/" [] c = 37 -> "%"
                [] c = 64 -> "@" [] c = 61 -> "=" [] c = 63 -> "?" [] OTHER -> ""
RECURSIVE LexFrom(_, _, _)
LexWord(s, i, j, acc) == LexFrom(s, j, Append(acc, Id(WordOf(SubSeq(s, i, j - 1)))))
LexInt(s, i, j, acc) == LexFrom(s, j, Append(acc, IntT([k \in 1..(j - i) |-> s[i + k - 1] - 48])))
LexStr(s, i, j, acc) == IF j = 0 THEN [ok |-> FALSE] ELSE LexFrom(s, j + 1, Append(acc, StrT(SubSeq(s, i + 1, j - 1))))
LexBlock(s, j, acc) == IF j = 0 THEN [ok |-> FALSE] ELSE LexFrom(s, j, acc)
LexFrom(s, i, acc) ==
  IF i > Len(s) THEN [ok |-> TRUE, toks |-> acc]
  ELSE IF IsWs(s[i]) THEN LexFrom(s, i + 1, acc)
  ELSE IF s[i] = 47 /\ i < Len(s) /\ s[i + 1] = 47 THEN LexFrom(s, LineEnd(s, i), acc)
  ELSE IF s[i] = 47 /\ i < Len(s) /\ s[i + 1] = 42 THEN LexBlock(s, BlockEnd(s, i + 2), acc)
  ELSE IF IsIdStart(s[i]) THEN LexWord(s, i, IdEnd(s, i), acc)
  ELSE IF IsDigit(s[i]) THEN LexInt(s, i, DigEnd(s, i), acc)
  ELSE IF s[i] = 34 THEN LexStr(s, i, StrEnd(s, i + 1), acc)
  ELSE IF i < Len(s) /\ OpName2(s[i], s[i + 1]) # "" THEN LexFrom(s, i + 2, Append(acc, Op(OpName2(s[i], s[i + 1]))))
  ELSE IF OpName1(s[i]) # "" THEN LexFrom(s, i + 1, Append(acc, Op(OpName1(s[i]))))
  ELSE [ok |-> FALSE]
Lex(s) == LexFrom(s, 1, <<>>)

\* Spell(ts): one spelling of a token sequence (tokens separated by one space); Lex(Spell(ts)) = ts
CpsOfWord(name) == WordTable[CHOOSE k \in DOMAIN WordTable : WordTable[k].name = name].cps
OpCps(s) == CASE s = "::" -> <<58, 58>> [] s = "==" -> <<61, 61>> [] s = "!=" -> <<33, 61>> [] s = "<=" -> <<60, 61>>
              [] s = ">=" -> <<62, 61>> [] s = "&&" -> <<38, 38>> [] s = "||" -> <<124, 124>>
              [] s = "(" -> <<40>> [] s = ")" -> <<41>> [] s = "{" -> <<123>> [] s = "}" -> <<125>> [] s = "[" -> <<91>>
              [] s = "]" -> <<93>> [] s = "," -> <<44>> [] s = ";" -> <<59>> [] s = "." -> <<46>> [] s = ":" -> <<58>>
              [] s = "<" -> <<60>> [] s = ">" -> <<62>> [] s = "!" -> <<33>> [] s = "-" -> <<45>> [] s = "+" -> <<43>>
              [] s = "*" -> <<42>> [] s = "/" -> <<47>> [] s = "%" -> <<37>> [] s = "@" -> <<64>> [] s = "=" -> <<61>>
              [] s = "?" -> <<63>>
Spell1(t) == CASE t.t \in {"id", "kw"} -> CpsOfWord(t.s)
               [] t.t = "int" -> [k \in DOMAIN t.d |-> t.d[k] + 48]
               [] t.t = "str" -> <<34>> \o t.raw \o <<34>>
               [] OTHER -> OpCps(t.s)
RECURSIVE Spell(_)
Spell(ts) == IF ts = <<>> THEN <<>> ELSE Spell1(Head(ts)) \o <<32>> \o Spell(Tail(ts))

\* ------------------------------------------------------------------ renderer
\* grammar level of a node: 0 Expr(if) 1 Or 2 And 3 Relation 4 Add 5 Mult 6 Unary 7 Member 8 Primary
Level(n) ==
  LET op == n.op IN
  CASE op = "if" -> 0 [] op = "or" -> 1 [] op = "and" -> 2
    [] op \in {"eq", "ne", "lt", "le", "gt", "ge", "in", "has", "like", "is", "isIn"} -> 3
    [] op \in {"add", "sub"} -> 4 [] op = "mul" -> 5 [] op \in {"not", "neg"} -> 6
    [] op \in {"access", "contains", "containsAll", "containsAny", "hasTag", "getTag", "isEmpty"} -> 7
    [] op = "ext" -> (IF n.fn \in ExtFunctions THEN 8 ELSE 7)
    [] op = "val" -> (IF n.v.k = "long" /\ n.v.n.neg THEN 6 ELSE 8)      \* a negative literal is '-' INT
    [] OTHER -> 8

\* digits of a magnitude (most significant first)
RECURSIVE MagDigits(_)
MagDigits(m) == IF m = <<>> THEN <<>> ELSE LET dm == MagDivSmall(m, 10) IN MagDigits(dm.q) \o <<dm.r>>
DigitsOf(m) == IF m = <<>> THEN <<0>> ELSE MagDigits(m)

\* spelling of a string value: every character is written raw unless it must be escaped
EscCp(c) == CASE c = 34 -> <<92, 34>> [] c = 92 -> <<92, 92>> [] c = 10 -> <<92, 110>> [] c = 13 -> <<92, 114>>
              [] c = 9 -> <<92, 116>> [] c = 0 -> <<92, 48>> [] OTHER -> <<c>>
RECURSIVE EscSeq(_, _)
EscSeq(s, pat) == IF s = <<>> THEN <<>>
                  ELSE (IF pat /\ s[1] = -1 THEN <<42>> ELSE IF pat /\ s[1] = 42 THEN <<92, 42>> ELSE EscCp(s[1])) \o EscSeq(Tail(s), pat)
StrTok(s) == StrT(EscSeq(s, FALSE))
PatTok(p) == StrT(EscSeq(p, TRUE))

RECURSIVE JoinPath(_)
JoinPath(parts) == IF Len(parts) = 1 THEN <<Id(parts[1])>> ELSE <<Id(parts[1]), Op("::")>> \o JoinPath(Tail(parts))
EntToks(e) == JoinPath(PathParts(e.ty)) \o <<Op("::"), StrTok(CpsOfId(e.id))>>
NameToks(name) == IF NeedsString(name) THEN <<StrTok(CpsOfName(name))>> ELSE <<Id(name)>>

RECURSIVE Rn(_, _, _), RnList(_, _), RnVal(_)
\* render n where the grammar requires level `need`; full: parenthesise every non-primary operand
Paren(toks) == <<Op("(")>> \o toks \o <<Op(")")>>
Rn(n, need, full) ==
  LET body ==
        LET op == n.op IN
        CASE op = "if" -> <<Id("if")>> \o Rn(n.c, 0, full) \o <<Id("then")>> \o Rn(n.t, 0, full) \o <<Id("else")>> \o Rn(n.e, 0, full)
          [] op = "or"  -> Rn(n.l, 1, full) \o <<Op("||")>> \o Rn(n.r, 2, full)
          [] op = "and" -> Rn(n.l, 2, full) \o <<Op("&&")>> \o Rn(n.r, 3, full)
          [] op \in {"eq", "ne", "lt", "le", "gt", "ge"} ->
               Rn(n.l, 4, full) \o <<Op(CASE op = "eq" -> "==" [] op = "ne" -> "!=" [] op = "lt" -> "<" [] op = "le" -> "<="
                                          [] op = "gt" -> ">" [] OTHER -> ">=")>> \o Rn(n.r, 4, full)
          [] op = "in" -> Rn(n.l, 4, full) \o <<Id("in")>> \o Rn(n.r, 4, full)
          [] op = "has" -> Rn(n.a, 4, full) \o <<Id("has")>> \o NameToks(n.attr)
          [] op = "like" -> Rn(n.a, 4, full) \o <<Id("like"), PatTok(n.pat)>>
          [] op = "is" -> Rn(n.a, 4, full) \o <<Id("is")>> \o JoinPath(PathParts(n.ty))
          [] op = "isIn" -> Rn(n.a, 4, full) \o <<Id("is")>> \o JoinPath(PathParts(n.ty)) \o <<Id("in")>> \o Rn(n.e, 4, full)
          [] op = "add" -> Rn(n.l, 4, full) \o <<Op("+")>> \o Rn(n.r, 5, full)
          [] op = "sub" -> Rn(n.l, 4, full) \o <<Op("-")>> \o Rn(n.r, 5, full)
          [] op = "mul" -> Rn(n.l, 5, full) \o <<Op("*")>> \o Rn(n.r, 6, full)
          [] op = "not" -> <<Op("!")>> \o Rn(n.a, 6, full)
          [] op = "neg" -> \* '-' before an integer literal would be read as part of the literal
               <<Op("-")>> \o (IF n.a.op = "val" /\ n.a.v.k = "long" /\ ~n.a.v.n.neg THEN Paren(Rn(n.a, 0, full)) ELSE Rn(n.a, 6, full))
          [] op = "access" -> Rn(n.a, 7, full) \o (IF NeedsString(n.attr) THEN <<Op("["), StrTok(CpsOfName(n.attr)), Op("]")>>
                                                   ELSE <<Op("."), Id(n.attr)>>)
          [] op \in {"contains", "containsAll", "containsAny", "hasTag", "getTag"} ->
               Rn(n.l, 7, full) \o <<Op("."), Id(op), Op("(")>> \o Rn(n.r, 0, FALSE) \o <<Op(")")>>
          [] op = "isEmpty" -> Rn(n.a, 7, full) \o <<Op("."), Id("isEmpty"), Op("("), Op(")")>>
          [] op = "ext" -> IF n.fn \in ExtFunctions THEN <<Id(n.fn), Op("(")>> \o RnList(n.args, 1) \o <<Op(")")>>
                           ELSE Rn(n.args[1], 7, full) \o <<Op("."), Id(n.fn), Op("(")>> \o RnList(n.args, 2) \o <<Op(")")>>
          [] op = "set" -> <<Op("[")>> \o RnList(n.els, 1) \o <<Op("]")>>
          [] op = "rec" -> <<Op("{")>> \o LET RECURSIVE KV(_)
                                              KV(i) == IF i > Len(n.kv) THEN <<>>
                                                       ELSE (IF i > 1 THEN <<Op(",")>> ELSE <<>>) \o NameToks(n.kv[i].key) \o <<Op(":")>>
                                                            \o Rn(n.kv[i].val, 0, FALSE) \o KV(i + 1)
                                          IN KV(1) \o <<Op("}")>>
          [] op = "var" -> <<Id(n.name)>>
          [] op = "val" -> RnVal(n.v)
  IN IF Level(n) < need \/ (full /\ Level(n) < 8 /\ need > 0) THEN Paren(body) ELSE body

RnList(es, from) == IF from > Len(es) THEN <<>>
                    ELSE Rn(es[from], 0, FALSE) \o (IF from < Len(es) THEN <<Op(",")>> ELSE <<>>) \o RnList(es, from + 1)

\* literals that the concrete syntax has: bool, long, string, entity
RnVal(v) == CASE v.k = "bool" -> <<Id(IF v.b THEN "true" ELSE "false")>>
              [] v.k = "long" -> (IF v.n.neg THEN <<Op("-")>> ELSE <<>>) \o <<IntT(DigitsOf(v.n.mag))>>
              [] v.k = "str" -> <<StrTok(v.s)>>
              [] v.k = "ent" -> EntToks(v)

RnScope(var, sc) ==
  CASE sc.t = "all" -> <<Id(var)>>
    [] sc.t = "eq" -> <<Id(var), Op("==")>> \o EntToks(sc.e)
    [] sc.t = "in" -> <<Id(var), Id("in")>> \o EntToks(sc.e)
    [] sc.t = "inSet" -> <<Id(var), Id("in"), Op("[")>>
                         \o LET RECURSIVE Es(_) Es(i) == IF i > Len(sc.es) THEN <<>>
                                                        ELSE (IF i > 1 THEN <<Op(",")>> ELSE <<>>) \o EntToks(sc.es[i]) \o Es(i + 1)
                            IN Es(1) \o <<Op("]")>>
    [] sc.t = "is" -> <<Id(var), Id("is")>> \o JoinPath(PathParts(sc.ty))
    [] sc.t = "isIn" -> <<Id(var), Id("is")>> \o JoinPath(PathParts(sc.ty)) \o <<Id("in")>> \o EntToks(sc.e)

RenderPolicy(p, full) ==
  LET RECURSIVE An(_), Cs(_)
      An(i) == IF i > Len(p.annos) THEN <<>>
               ELSE <<Op("@"), Id(p.annos[i].k), Op("("), StrTok(p.annos[i].v), Op(")")>> \o An(i + 1)
      Cs(i) == IF i > Len(p.conds) THEN <<>>
               ELSE <<Id(p.conds[i].kind), Op("{")>> \o Rn(p.conds[i].body, 0, full) \o <<Op("}")>> \o Cs(i + 1)
  IN An(1) \o <<Id(p.effect), Op("(")>> \o RnScope("principal", p.principal) \o <<Op(",")>> \o RnScope("action", p.action)
     \o <<Op(",")>> \o RnScope("resource", p.resource) \o <<Op(")")>> \o Cs(1) \o <<Op(";")>>
=============================================================================
