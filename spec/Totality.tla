------------------------------ MODULE Totality ------------------------------
(***************************************************************************)
(* C10: the input families for totality.  The statement itself is small -- *)
(* every decoder returns a value or an error, every accepted value can be  *)
(* encoded and authorized -- the work is in the families of inputs.        *)
(*                                                                         *)
(* Mutants(x): every single-position mutation of a JSON document (TJSON,   *)
(* see ValueJson): at EVERY tree position the subtree is replaced by null, *)
(* {}, [], "", 0, true; every array element and every object member is     *)
(* deleted; every object member is duplicated under another key of the     *)
(* format (an operator name, an escape word).  Outcome(o): what a run of   *)
(* the real code may report.                                               *)
(***************************************************************************)
EXTENDS Integers, Sequences, JsonKeys

JNull == [z |-> 0]
Repls == << JNull, [o |-> <<>>], [a |-> <<>>], [s |-> <<>>], [n |-> [neg |-> FALSE, mag |-> <<>>]], [b |-> TRUE] >>
AltKeys == << K_Value, K_Eq, K_Like, K_Is, K_Record, K_Set, K_If, K_Entity, K_Extn, K_lessThan, K_Var, K_entity, K_in >>

Flat(ss) == LET RECURSIVE F(_) F(i) == IF i > Len(ss) THEN <<>> ELSE ss[i] \o F(i + 1) IN F(1)
Without(s, i) == SubSeq(s, 1, i - 1) \o SubSeq(s, i + 1, Len(s))
With(s, i, v) == [s EXCEPT ![i] = v]

RECURSIVE Mutants(_)
Mutants(x) ==
  Repls
  \o (IF "a" \in DOMAIN x
      THEN Flat([i \in DOMAIN x.a |->
             <<[a |-> Without(x.a, i)]>>
             \o (LET ms == Mutants(x.a[i]) IN [k \in DOMAIN ms |-> [a |-> With(x.a, i, ms[k])]])])
      ELSE <<>>)
  \o (IF "o" \in DOMAIN x
      THEN Flat([i \in DOMAIN x.o |->
             <<[o |-> Without(x.o, i)]>>
             \o [k \in DOMAIN AltKeys |-> [o |-> Append(x.o, [k |-> AltKeys[k], v |-> x.o[i].v])]]
             \o [k \in 1..2 |-> [o |-> With(x.o, i, [k |-> AltKeys[k], v |-> x.o[i].v])]]
             \o (LET ms == Mutants(x.o[i].v) IN [k \in DOMAIN ms |-> [o |-> With(x.o, i, [k |-> x.o[i].k, v |-> ms[k]])]])])
      ELSE <<>>)

\* the only outcomes a decoder / encoder / authorizer run may have
Total(outcome) == outcome \in {"value", "error"}
=============================================================================
