------------------------------ MODULE ValueJson ------------------------------
(***************************************************************************)
(* C13 / C09: the JSON format of Cedar values, read by the specification.  *)
(*                                                                         *)
(* JSON documents arrive in a tagged form (TJSON) that TLC can inspect:    *)
(*   [s |-> <<code points>>]   string        [n |-> Num64]   integer       *)
(*   [b |-> BOOLEAN]           bool          [z |-> 0]       null          *)
(*   [f |-> 0]                 a number that is not an integer             *)
(*   [a |-> <<items>>]         array                                       *)
(*   [o |-> << [k |-> <<code points>>, v |-> item] .. >>]  object, members *)
(*                                                         in document order *)
(* FromValueJ(x): the value a document denotes under the documented value  *)
(* format: booleans, integers (64-bit), strings, arrays = sets, objects =  *)
(* records, except the escapes {"__entity": {"type", "id"}} and            *)
(* {"__extn": {"fn", "arg"}} (fn one of ip / decimal / datetime /          *)
(* duration, arg in the type's literal syntax).                            *)
(* Names (entity types, ids, record keys) are atomic in the model and are  *)
(* related to their characters by the trace's spelling tables (Syntax).    *)
(***************************************************************************)
EXTENDS TextForms, JsonKeys

JIsS(x) == "s" \in DOMAIN x
JIsN(x) == "n" \in DOMAIN x
JIsB(x) == "b" \in DOMAIN x
JIsA(x) == "a" \in DOMAIN x
JIsO(x) == "o" \in DOMAIN x
Missing == [missing |-> TRUE]
JGet(x, key) == IF \E i \in DOMAIN x.o : x.o[i].k = key
                THEN x.o[CHOOSE i \in DOMAIN x.o : x.o[i].k = key /\ \A j \in DOMAIN x.o : x.o[j].k = key => j <= i].v   \* last one wins
                ELSE Missing
JKeys(x) == { x.o[i].k : i \in DOMAIN x.o }

\* entity types arrive as the characters of "NS::T"; the model's type names are atomic
TypeOfCps(cps) == NameOfCps(cps)

EntityFromJ(e) ==       \* {"type": s, "id": s}
  IF JIsO(e) /\ JGet(e, K_type) # Missing /\ JGet(e, K_id) # Missing /\ JIsS(JGet(e, K_type)) /\ JIsS(JGet(e, K_id))
  THEN Ok(VEnt(TypeOfCps(JGet(e, K_type).s), IdOfCps(JGet(e, K_id).s)))
  ELSE PFail

ExtnFromJ(e) ==         \* {"fn": s, "arg": s}
  IF JIsO(e) /\ JGet(e, K_fn) # Missing /\ JGet(e, K_arg) # Missing /\ JIsS(JGet(e, K_fn)) /\ JIsS(JGet(e, K_arg))
  THEN LET fn == JGet(e, K_fn).s  arg == JGet(e, K_arg).s IN
       IF fn = K_ip THEN SpecRead("ip", arg) ELSE IF fn = K_decimal THEN SpecRead("decimal", arg)
       ELSE IF fn = K_datetime THEN SpecRead("datetime", arg) ELSE IF fn = K_duration THEN SpecRead("duration", arg)
       ELSE PFail
  ELSE PFail

\* Deviation of the code, named: an escape whose payload does not have the escape's shape is read as a record
\* (the decoder falls back), and an __entity payload may omit type / id (read as empty).  The escape applies when the
\* member is an object whose fn / arg (type / id) members, where present, are strings -- and, for __entity, when
\* top-level "type" / "id" siblings are strings too (the decoder's probe struct).
StrOrMissing(x) == x = Missing \/ JIsS(x)
ExtnShape(x) == LET e == JGet(x, K_Extn) IN e # Missing /\ JIsO(e) /\ StrOrMissing(JGet(e, K_fn)) /\ StrOrMissing(JGet(e, K_arg))
EntityShape(x) == LET e == JGet(x, K_Entity) IN
                  /\ e # Missing /\ JIsO(e) /\ StrOrMissing(JGet(e, K_type)) /\ StrOrMissing(JGet(e, K_id))
                  /\ StrOrMissing(JGet(x, K_type)) /\ StrOrMissing(JGet(x, K_id))
EntityLoose(e) == Ok(VEnt(TypeOfCps(IF JGet(e, K_type) = Missing THEN <<>> ELSE JGet(e, K_type).s),
                          IdOfCps(IF JGet(e, K_id) = Missing THEN <<>> ELSE JGet(e, K_id).s)))
RECURSIVE FromValueJ(_)
FromValueJ(x) ==
  IF JIsB(x) THEN Ok(VBool(x.b))
  ELSE IF JIsN(x) THEN (IF InI64(x.n) THEN Ok(VLong(x.n)) ELSE PFail)
  ELSE IF JIsS(x) THEN Ok(VStr(x.s))
  ELSE IF JIsA(x)
  THEN LET rs == [i \in DOMAIN x.a |-> FromValueJ(x.a[i])] IN
       IF \A i \in DOMAIN rs : rs[i].ok THEN Ok(VSet({ rs[i].v : i \in DOMAIN rs })) ELSE PFail
  ELSE IF JIsO(x)
  THEN IF ExtnShape(x) THEN ExtnFromJ(JGet(x, K_Extn))
       ELSE IF EntityShape(x) THEN EntityLoose(JGet(x, K_Entity))
       ELSE LET ks == JKeys(x)
                rs == [k \in ks |-> FromValueJ(JGet(x, k))] IN
            IF \A k \in ks : rs[k].ok THEN Ok(VRec([n \in { NameOfCps(k) : k \in ks } |->
                                                      rs[CHOOSE k \in ks : NameOfCps(k) = n].v]))
            ELSE PFail
  ELSE PFail

\* an entity reference where the format allows both spellings: {"type", "id"} or {"__entity": {"type", "id"}}
EntRefFromJ(e) == IF JIsO(e) /\ JGet(e, K_Entity) # Missing THEN EntityFromJ(JGet(e, K_Entity)) ELSE EntityFromJ(e)

\* model form of an entity: [uid, parents (set), attrs (name -> value), tags (code points -> value)]
RecordFromJ(x) ==       \* an object of values, keys kept as code points
  IF x = Missing THEN Ok(<<>>)
  ELSE IF ~JIsO(x) THEN PFail
  ELSE LET ks == JKeys(x)  rs == [k \in ks |-> FromValueJ(JGet(x, k))] IN
       IF \A k \in ks : rs[k].ok THEN Ok([k \in ks |-> rs[k].v]) ELSE PFail
EntityFromDoc(x) ==
  IF ~JIsO(x) \/ JGet(x, K_uid) = Missing THEN PFail
  ELSE LET uid == EntRefFromJ(JGet(x, K_uid))
           ps == JGet(x, K_parents)
           prs == IF ps = Missing THEN <<>> ELSE IF JIsA(ps) THEN [i \in DOMAIN ps.a |-> EntRefFromJ(ps.a[i])] ELSE <<PFail>>
           attrs == RecordFromJ(JGet(x, K_attrs))
           tags == RecordFromJ(JGet(x, K_tags))
       IN IF ~uid.ok \/ ~attrs.ok \/ ~tags.ok \/ \E i \in DOMAIN prs : ~prs[i].ok THEN PFail
          ELSE Ok([uid |-> uid.v, parents |-> { prs[i].v : i \in DOMAIN prs },
                   attrs |-> [n \in { NameOfCps(k) : k \in DOMAIN attrs.v } |->
                                attrs.v[CHOOSE k \in DOMAIN attrs.v : NameOfCps(k) = n]],
                   tags |-> tags.v])
EntityFromWire(w) ==
  [uid |-> w.uid, parents |-> { w.parents[i] : i \in DOMAIN w.parents },
   attrs |-> [k \in DOMAIN w.attrs |-> FromWire(w.attrs[k])],
   tags |-> [key \in { w.tags[j][1] : j \in DOMAIN w.tags } |->
               FromWire(w.tags[CHOOSE j \in DOMAIN w.tags : w.tags[j][1] = key][2])]]
EntitiesFromDoc(x) ==
  IF ~JIsA(x) THEN PFail
  ELSE LET rs == [i \in DOMAIN x.a |-> EntityFromDoc(x.a[i])] IN
       IF \A i \in DOMAIN rs : rs[i].ok THEN Ok({ rs[i].v : i \in DOMAIN rs }) ELSE PFail
RequestFromDoc(x) ==
  IF ~JIsO(x) \/ JGet(x, K_principal) = Missing \/ JGet(x, K_action) = Missing \/ JGet(x, K_resource) = Missing THEN PFail
  ELSE LET p == EntRefFromJ(JGet(x, K_principal))  a == EntRefFromJ(JGet(x, K_action))  r == EntRefFromJ(JGet(x, K_resource))
           c == IF JGet(x, K_context) = Missing THEN Ok(EmptyRec) ELSE FromValueJ(JGet(x, K_context)) IN
       IF p.ok /\ a.ok /\ r.ok /\ c.ok /\ c.v.k = "rec" THEN Ok([p |-> p.v, a |-> a.v, r |-> r.v, c |-> c.v]) ELSE PFail
\* ---------------------------------------------------------------- decision and diagnostic
\* {"decision": "allow" | "deny", "diagnostic": {"reasons"?: [{"policy", "position"}], "errors"?: [{"policy", "position", "message"}]}}
\* position = {"filename", "offset", "line", "column"}; a member that is absent is the empty list.  Strings stay code
\* points and numbers stay limb numbers: the datum is given in the same form.
PosFromDoc(x) ==
  IF ~JIsO(x) \/ JGet(x, K_filename) = Missing \/ JGet(x, K_offset) = Missing \/ JGet(x, K_line) = Missing \/ JGet(x, K_column) = Missing
     \/ ~JIsS(JGet(x, K_filename)) \/ ~JIsN(JGet(x, K_offset)) \/ ~JIsN(JGet(x, K_line)) \/ ~JIsN(JGet(x, K_column)) THEN PFail
  ELSE Ok([file |-> JGet(x, K_filename).s, off |-> JGet(x, K_offset).n, line |-> JGet(x, K_line).n, col |-> JGet(x, K_column).n])
DiagItemFromDoc(x, withMsg) ==
  IF ~JIsO(x) \/ JGet(x, K_policy) = Missing \/ ~JIsS(JGet(x, K_policy)) \/ JGet(x, K_position) = Missing THEN PFail
  ELSE LET pos == PosFromDoc(JGet(x, K_position)) IN
       IF ~pos.ok THEN PFail
       ELSE IF ~withMsg THEN Ok([id |-> JGet(x, K_policy).s, pos |-> pos.v])
       ELSE IF JGet(x, K_message) = Missing \/ ~JIsS(JGet(x, K_message)) THEN PFail
       ELSE Ok([id |-> JGet(x, K_policy).s, pos |-> pos.v, msg |-> JGet(x, K_message).s])
DiagListFromDoc(x, withMsg) ==
  IF x = Missing THEN Ok(<<>>)
  ELSE IF ~JIsA(x) THEN PFail
  ELSE LET rs == [i \in DOMAIN x.a |-> DiagItemFromDoc(x.a[i], withMsg)] IN
       IF \A i \in DOMAIN rs : rs[i].ok THEN Ok([i \in DOMAIN rs |-> rs[i].v]) ELSE PFail
DecisionDiagFromDoc(x) ==
  IF ~JIsO(x) \/ JGet(x, K_decision) = Missing \/ ~JIsS(JGet(x, K_decision)) \/ JGet(x, K_decision).s \notin {K_allow, K_deny}
     \/ JGet(x, K_diagnostic) = Missing \/ ~JIsO(JGet(x, K_diagnostic)) THEN PFail
  ELSE LET d == JGet(x, K_diagnostic)
           rs == DiagListFromDoc(JGet(d, K_reasons), FALSE)
           es == DiagListFromDoc(JGet(d, K_errors), TRUE) IN
       IF ~rs.ok \/ ~es.ok THEN PFail
       ELSE Ok([decision |-> IF JGet(x, K_decision).s = K_allow THEN "allow" ELSE "deny", reasons |-> rs.v, errors |-> es.v])
=============================================================================
