------------------------------ MODULE ValueJson ------------------------------
(***************************************************************************)
(* C13 / C09: the JSON format of Cedar values, read by the specification.  *)
(*                                                                         *)
(* JSON documents arrive in a tagged form (TJSON) that TLC can inspect:    *)
(*   [s |-> <<code points>>]   string        [n |-> Num64]   integer       *)
(*   [b |-> BOOLEAN]           bool          [z |-> 0]       null          *)
(*   [f |-> 0]                 a number that is not an integer             *)
(*   [a |-> <<items>>]         array                                       *)
(*   [o |-> << [k |-> <<code points>>, v |-> item] .. >>]  object, members *)
(*                                                         in document order *)
(* FromValueJ(x): the value a document denotes under the documented value  *)
(* format: booleans, integers (64-bit), strings, arrays = sets, objects =  *)
(* records, except the escapes {"__entity": {"type", "id"}} and            *)
(* {"__extn": {"fn", "arg"}} (fn one of ip / decimal / datetime /          *)
(* duration, arg in the type's literal syntax).                            *)
(* Names (entity types, ids, record keys) are atomic in the model and are  *)
(* related to their characters by the trace's spelling tables (Syntax).    *)
(***************************************************************************)
EXTENDS TextForms, JsonKeys

JIsS(x) == "s" \in DOMAIN x
JIsN(x) == "n" \in DOMAIN x
JIsB(x) == "b" \in DOMAIN x
JIsA(x) == "a" \in DOMAIN x
JIsO(x) == "o" \in DOMAIN x
Missing == [missing |-> TRUE]
JGet(x, key) == IF \E i \in DOMAIN x.o : x.o[i].k = key
                THEN x.o[CHOOSE i \in DOMAIN x.o : x.o[i].k = key /\ \A j \in DOMAIN x.o : x.o[j].k = key => j <= i].v   \* last one wins
                ELSE Missing
JKeys(x) == { x.o[i].k : i \in DOMAIN x.o }

\* entity types arrive as the characters of "NS::T"; the model's type names are atomic
TypeOfCps(cps) == NameOfCps(cps)

EntityFromJ(e) ==       \* {"type": s, "id": s}
  IF JIsO(e) /\ JGet(e, K_type) # Missing /\ JGet(e, K_id) # Missing /\ JIsS(JGet(e, K_type)) /\ JIsS(JGet(e, K_id))
  THEN Ok(VEnt(TypeOfCps(JGet(e, K_type).s), IdOfCps(JGet(e, K_id).s)))
  ELSE PFail

ExtnFromJ(e) ==         \* {"fn": s, "arg": s}
  IF JIsO(e) /\ JGet(e, K_fn) # Missing /\ JGet(e, K_arg) # Missing /\ JIsS(JGet(e, K_fn)) /\ JIsS(JGet(e, K_arg))
  THEN LET fn == JGet(e, K_fn).s  arg == JGet(e, K_arg).s IN
       IF fn = K_ip THEN SpecRead("ip", arg) ELSE IF fn = K_decimal THEN SpecRead("decimal", arg)
       ELSE IF fn = K_datetime THEN SpecRead("datetime", arg) ELSE IF fn = K_duration THEN SpecRead("duration", arg)
       ELSE PFail
  ELSE PFail

RECURSIVE FromValueJ(_)
FromValueJ(x) ==
  IF JIsB(x) THEN Ok(VBool(x.b))
  ELSE IF JIsN(x) THEN (IF InI64(x.n) THEN Ok(VLong(x.n)) ELSE PFail)
  ELSE IF JIsS(x) THEN Ok(VStr(x.s))
  ELSE IF JIsA(x)
  THEN LET rs == [i \in DOMAIN x.a |-> FromValueJ(x.a[i])] IN
       IF \A i \in DOMAIN rs : rs[i].ok THEN Ok(VSet({ rs[i].v : i \in DOMAIN rs })) ELSE PFail
  ELSE IF JIsO(x)
  THEN IF JGet(x, K_Extn) # Missing THEN ExtnFromJ(JGet(x, K_Extn))
       ELSE IF JGet(x, K_Entity) # Missing THEN EntityFromJ(JGet(x, K_Entity))
       ELSE LET ks == JKeys(x)
                rs == [k \in ks |-> FromValueJ(JGet(x, k))] IN
            IF \A k \in ks : rs[k].ok THEN Ok(VRec([n \in { NameOfCps(k) : k \in ks } |->
                                                      rs[CHOOSE k \in ks : NameOfCps(k) = n].v]))
            ELSE PFail
  ELSE PFail
=============================================================================
