----------------------------- MODULE Concurrent -----------------------------
(***************************************************************************)
(* C19: concurrent read-only use of shared policies, entities and values.  *)
(* Processes g perform read-only operations on a shared state S.  Every    *)
(* operation is atomic in the model and has UNCHANGED S; an operation is   *)
(* enabled only with the result F(op, S) of the SEQUENTIAL specification   *)
(* (the authorizer of Authz.tla for authorizations; for encoders and       *)
(* accessors, the value observed when the operation runs alone).  Because  *)
(* no operation changes S, every interleaving of the processes is          *)
(* equivalent to any other: a trace is explained iff every recorded        *)
(* call/return is explained by F and every snapshot of S equals the first. *)
(* Data-race freedom itself is a property of the Go memory model that this *)
(* specification cannot observe; it is decided by the race detector         *)
(* instrumenting the same runs.                                            *)
(***************************************************************************)
EXTENDS Authz

VARIABLES S,         \* snapshot (digest) of the shared inputs
          done       \* per process: number of operations completed
Init(snap) == S = snap /\ done = <<>>

\* a completed call of process g with sequence number n and result res, F being its sequential result
CallReturn(g, n, res, F) ==
  /\ res = F
  /\ n = (IF g \in DOMAIN done THEN done[g] ELSE 0) + 1          \* per-process program order
  /\ done' = [p \in DOMAIN done \cup {g} |-> IF p = g THEN n ELSE done[p]]
  /\ UNCHANGED S
Snapshot(g, n, snap) == CallReturn(g, n, snap, S)
=============================================================================
