-------------------------------- MODULE Batch --------------------------------
(***************************************************************************)
(* C05: batch authorization.                                               *)
(*                                                                         *)
(* Abstract definition.  A template is a partial environment (Partial.tla) *)
(* whose unknowns are named variables; vars is a sequence of               *)
(* [key, values] pairs.  The batch authorizer must invoke the callback     *)
(* once per element of the Cartesian product of the value lists (as a      *)
(* multiset: duplicate list elements give duplicate callbacks), with the   *)
(* fully substituted request, the substitution used, and the decision and  *)
(* reason set of the ordinary authorizer for that request.  If the         *)
(* callback fails at its k-th invocation, or the context is cancelled      *)
(* during it, exactly k callbacks have happened and that error is          *)
(* returned.  An empty value list means no callback and no error; an       *)
(* unbound or unused variable is an error before any callback.             *)
(*                                                                         *)
(* Algorithm-shaped state machine (variables sorted by list length, one    *)
(* recursion level per variable, state saved on entry and restored on      *)
(* normal exit, context checked on every entry, the callback error         *)
(* propagated): MC_Batch shows that its callback log satisfies the         *)
(* abstract definition for every fault plan.                               *)
(***************************************************************************)
EXTENDS Partial, Authz, SequencesExt

\* ---------------------------------------------------------------- abstract definition
TemplateNames(t) == (IF IsUnk(t.p) THEN {t.p.name} ELSE {}) \cup (IF IsUnk(t.a) THEN {t.a.name} ELSE {})
                    \cup (IF IsUnk(t.r) THEN {t.r.name} ELSE {}) \cup UnkNames(t.c)
VarKeys(vars) == { vars[i].key : i \in DOMAIN vars }
ListOf(vars, key) == vars[CHOOSE i \in DOMAIN vars : vars[i].key = key].values

PreError(t, vars) == TemplateNames(t) # VarKeys(vars)                 \* unbound or unused variable
NoWork(t, vars) == \E i \in DOMAIN vars : vars[i].values = <<>>

\* every choice of one index per variable
VarChoices(vars) == { ch \in [VarKeys(vars) -> 1..20] : \A k \in VarKeys(vars) : ch[k] \in DOMAIN ListOf(vars, k) }
ValuesOf(vars, ch) == [k \in VarKeys(vars) |-> ListOf(vars, k)[ch[k]]]

\* the callback the specification expects for one choice
CallOf(ps, t, vars, ch) ==
  LET vals == ValuesOf(vars, ch)
      env  == CompleteEnv(t, vals)
      r    == AuthzResult(ps, env)
  IN [values |-> vals, request |-> [p |-> env.p, a |-> env.a, r |-> env.r, c |-> env.c],
      decision |-> r.decision, reasons |-> r.reasons]

\* multiset of expected callbacks, as a function call -> multiplicity
ExpectedBag(ps, t, vars) ==
  LET calls == { CallOf(ps, t, vars, ch) : ch \in VarChoices(vars) }
  IN [c \in calls |-> Cardinality({ ch \in VarChoices(vars) : CallOf(ps, t, vars, ch) = c })]
Total(vars) == Cardinality(VarChoices(vars))

CountIn(s, x) == Cardinality({ i \in DOMAIN s : s[i] = x })
\* the observed log (a sequence of calls) is a sub-multiset of / equals the expected multiset
LogSubBag(log, bag) == \A i \in DOMAIN log : log[i] \in DOMAIN bag /\ CountIn(log, log[i]) <= bag[log[i]]
LogEqBag(log, bag) == LogSubBag(log, bag) /\ \A c \in DOMAIN bag : CountIn(log, c) = bag[c]

\* fault plan: [kind |-> "none" | "fail" | "cancel" | "precancel", at |-> k]; ret: "nil" | "cb" | "ctx" | "other"
\* "precancel": the context is already cancelled when Authorize is called -- no callback, the context's error
\* (also when a value list is empty and there is nothing to enumerate)
Acceptable(ps, t, vars, fault, log, ret) ==
  IF PreError(t, vars) THEN log = <<>> /\ ret = "other"
  ELSE IF fault.kind = "precancel" THEN log = <<>> /\ ret = "ctx"
  ELSE IF NoWork(t, vars) THEN log = <<>> /\ ret = "nil"
  ELSE LET bag == ExpectedBag(ps, t, vars)  n == Total(vars) IN
       IF fault.kind = "none" \/ fault.at > n THEN LogEqBag(log, bag) /\ ret = "nil"
       ELSE /\ Len(log) = fault.at /\ LogSubBag(log, bag)
            /\ ret = (IF fault.kind = "fail" THEN "cb" ELSE "ctx")
=============================================================================
