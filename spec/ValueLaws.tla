------------------------------ MODULE ValueLaws ------------------------------
(***************************************************************************)
(* C11.  In the model a Cedar set IS a TLA+ set and a record IS a function, *)
(* so the algebraic laws hold by construction; this module states what the *)
(* implementation must therefore observe, and the immutability history.    *)
(*                                                                         *)
(* Laws (SetObs / RecObs): a set built from a sequence contains exactly    *)
(* the distinct members of the sequence whatever the order and the         *)
(* duplicates; length, membership, equality, containsAll, containsAny      *)
(* follow; a record equals another iff same keys with equal values.        *)
(*                                                                         *)
(* Immutability (the state machine): a value is built from a caller-owned  *)
(* input (slice or map); accessors hand out copies (Slice(), Map()).       *)
(* Mutating the input after construction, or an output of an accessor,     *)
(* never changes what the value is: every Observe sees the value as built. *)
(***************************************************************************)
EXTENDS CedarValues, Sequences

\* ---------------------------------------------------------------- laws
\* U: sequence of values (model form); a, b: sequences of indices into U
Members(U, a) == { U[a[i]] : i \in DOMAIN a }
SetObs(U, a, b) ==
  LET A == Members(U, a)  B == Members(U, b) IN
  [lenA |-> Cardinality(A), lenB |-> Cardinality(B),
   containsA |-> [i \in DOMAIN U |-> IF U[i] \in A THEN 1 ELSE 0],
   eq |-> A = B, containsAll |-> B \subseteq A, containsAny |-> A \cap B # {}]
\* records: sequences of [key, idx] assignments with distinct keys
RecOf(U, r) == [key \in { r[i].key : i \in DOMAIN r } |-> U[r[CHOOSE i \in DOMAIN r : r[i].key = key].idx]]
RecObs(U, r1, r2) == [eq |-> RecOf(U, r1) = RecOf(U, r2), len1 |-> Cardinality(DOMAIN RecOf(U, r1))]

\* ---------------------------------------------------------------- immutability history
\* the value under test is a set built from `input` (a sequence of small integers standing for
\* distinct Cedar values) or a record built from a map; `val` is what it is in the model
VARIABLES input,      \* the caller's slice / map contents (mutable by the caller)
          val,        \* the value as built: the set of members (fixed at construction)
          built, outs, \* accessor outputs handed out so far (each a sequence, mutable by the caller)
          hist
hvars == <<input, val, built, outs, hist>>

Elems == 1..3
HInit == input \in UNION { [1..n -> Elems] : n \in 0..2 } /\ val = {} /\ built = FALSE /\ outs = <<>> /\ hist = <<>>
Log(e) == hist' = Append(hist, e)
Construct == /\ ~built /\ built' = TRUE /\ val' = { input[i] : i \in DOMAIN input }
             /\ Log([a |-> "construct", input |-> input]) /\ UNCHANGED <<input, outs>>
MutateInput(i, v) == /\ built /\ i \in DOMAIN input /\ input' = [input EXCEPT ![i] = v]
                     /\ Log([a |-> "mutate_input", i |-> i, v |-> v]) /\ UNCHANGED <<val, built, outs>>
\* the caller adds an element to its slice / a key to its map (matters for an empty input that was not copied)
GrowInput(v) == /\ built /\ Len(input) < 3 /\ input' = Append(input, v)
                /\ Log([a |-> "grow_input", v |-> v]) /\ UNCHANGED <<val, built, outs>>
TakeOutput == /\ built /\ Len(outs) < 2
              /\ outs' = Append(outs, val)          \* a copy: the members, in some order
              /\ Log([a |-> "take_output"]) /\ UNCHANGED <<input, val, built>>
MutateOutput(k, v) == /\ k \in DOMAIN outs
                      /\ Log([a |-> "mutate_output", k |-> k, v |-> v]) /\ UNCHANGED <<input, val, built, outs>>
Observe == /\ built /\ Log([a |-> "observe", members |-> val]) /\ UNCHANGED <<input, val, built, outs>>
HNext == \/ Construct \/ TakeOutput \/ Observe
         \/ \E i \in 1..2, v \in Elems : MutateInput(i, v)
         \/ \E v \in {1} : GrowInput(v)
         \/ \E k \in 1..2, v \in Elems : MutateOutput(k, v)
\* once built, the value never changes
Immutable == [][built => val' = val]_hvars
=============================================================================
