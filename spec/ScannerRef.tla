----------------------------- MODULE ScannerRef -----------------------------
(***************************************************************************)
(* C18: the reference tokenization of a whole policy document with source  *)
(* positions.  LexPos(s) over the document's code points: every token with *)
(* its class, the index range of its text, and the byte offset (UTF-8),    *)
(* line (1-based) and column (1-based, in characters) of its first         *)
(* character.  Blanks are space, tab, CR, LF; comments run from // to the  *)
(* end of the line or from /* to the next */; identifiers are              *)
(* [A-Za-z_][A-Za-z0-9_]*; integers are digit runs; a string runs from a   *)
(* double quote to the next unescaped double quote on the same line;       *)
(* operators by longest match.  PolicyStarts: the tokens at which a policy *)
(* begins (the first token and every token after a ';').                   *)
(***************************************************************************)
EXTENDS Integers, Sequences

W(c) == IF c < 128 THEN 1 ELSE IF c < 2048 THEN 2 ELSE IF c < 65536 THEN 3 ELSE 4
IsWsP(c) == c \in {32, 9, 10, 13}
IsDigitP(c) == c \in 48..57
IsIdStartP(c) == c \in 65..90 \/ c \in 97..122 \/ c = 95
IsIdContP(c) == IsIdStartP(c) \/ IsDigitP(c)

RECURSIVE IdEndP(_, _), DigEndP(_, _), StrEndP(_, _), LineEndP(_, _), BlockEndP(_, _)
IdEndP(s, i) == IF i <= Len(s) /\ IsIdContP(s[i]) THEN IdEndP(s, i + 1) ELSE i       \* first index after the run
DigEndP(s, i) == IF i <= Len(s) /\ IsDigitP(s[i]) THEN DigEndP(s, i + 1) ELSE i
StrEndP(s, i) == IF i > Len(s) \/ s[i] = 10 THEN 0                                   \* index of the closing quote, 0: none
                 ELSE IF s[i] = 34 THEN i
                 ELSE IF s[i] = 92 THEN (IF i + 1 > Len(s) THEN 0 ELSE StrEndP(s, i + 2))
                 ELSE StrEndP(s, i + 1)
LineEndP(s, i) == IF i > Len(s) \/ s[i] = 10 THEN i ELSE LineEndP(s, i + 1)
BlockEndP(s, i) == IF i + 1 > Len(s) THEN 0                                          \* index after the closing */, 0: none
                   ELSE IF s[i] = 42 /\ s[i + 1] = 47 THEN i + 2 ELSE BlockEndP(s, i + 1)

\* two-character operators; one-character operators of the tokenizer
Op2(a, b) == <<a, b>> \in {<<58, 58>>, <<61, 61>>, <<33, 61>>, <<60, 61>>, <<62, 61>>, <<38, 38>>, <<124, 124>>}
Op1(c) == c \in {64, 46, 44, 59, 40, 41, 123, 125, 91, 93, 43, 45, 42, 58, 33, 60, 62}

\* position after the characters s[i .. j-1], starting from <<off, line, col>>
RECURSIVE AdvP(_, _, _, _)
AdvP(s, i, j, p) == IF i >= j THEN p
                    ELSE AdvP(s, i + 1, j, IF s[i] = 10 THEN <<p[1] + 1, p[2] + 1, 1>> ELSE <<p[1] + W(s[i]), p[2], p[3] + 1>>)
Ascii(p, n) == <<p[1] + n, p[2], p[3] + n>>          \* n ASCII characters, none of them LF

Tok(t, a, b, p) == [t |-> t, a |-> a, b |-> b, off |-> p[1], line |-> p[2], col |-> p[3]]

RECURSIVE LexP(_, _, _, _)
LexP(s, i, p, acc) ==
  IF i > Len(s) THEN [ok |-> TRUE, toks |-> acc]
  ELSE LET c == s[i] IN
       IF IsWsP(c) THEN LexP(s, i + 1, AdvP(s, i, i + 1, p), acc)
       ELSE IF c = 47 /\ i < Len(s) /\ s[i + 1] = 47
       THEN LET j == LineEndP(s, i) IN LexP(s, j, AdvP(s, i, j, p), acc)
       ELSE IF c = 47 /\ i < Len(s) /\ s[i + 1] = 42
       THEN LET j == BlockEndP(s, i + 2) IN IF j = 0 THEN [ok |-> FALSE] ELSE LexP(s, j, AdvP(s, i, j, p), acc)
       ELSE IF IsIdStartP(c)
       THEN LET j == IdEndP(s, i) IN LexP(s, j, Ascii(p, j - i), Append(acc, Tok("id", i, j - 1, p)))
       ELSE IF IsDigitP(c)
       THEN LET j == DigEndP(s, i) IN LexP(s, j, Ascii(p, j - i), Append(acc, Tok("int", i, j - 1, p)))
       ELSE IF c = 34
       THEN LET j == StrEndP(s, i + 1) IN
            IF j = 0 THEN [ok |-> FALSE] ELSE LexP(s, j + 1, AdvP(s, i, j + 1, p), Append(acc, Tok("str", i, j, p)))
       ELSE IF i < Len(s) /\ Op2(c, s[i + 1]) THEN LexP(s, i + 2, Ascii(p, 2), Append(acc, Tok("op", i, i + 1, p)))
       ELSE IF Op1(c) THEN LexP(s, i + 1, Ascii(p, 1), Append(acc, Tok("op", i, i, p)))
       ELSE [ok |-> FALSE]
LexPos(s) == LexP(s, 1, <<0, 1, 1>>, <<>>)

IsSemi(s, t) == t.t = "op" /\ t.a = t.b /\ s[t.a] = 59
\* indices (into the token sequence) of the first token of every policy
PolicyStarts(s, toks) == { k \in DOMAIN toks : k = 1 \/ IsSemi(s, toks[k - 1]) }
=============================================================================
