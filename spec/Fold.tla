-------------------------------- MODULE Fold --------------------------------
(***************************************************************************)
(* C04: constant folding, as the implementation's design states it         *)
(* (internal/eval/fold.go): a node is replaced by a value node iff all its *)
(* children folded to value nodes AND evaluating it without request or     *)
(* entity store succeeds; nodes whose meaning depends on the entity store  *)
(* (in, is..in, hasTag, getTag, attribute access / has on an entity) are   *)
(* never folded; a failing constant sub-expression is left in place (so    *)
(* that the failure still happens at evaluation time).  Only conditions    *)
(* are folded; the scope is not.                                           *)
(*                                                                         *)
(* The theorem (FoldSound, checked in MC_Fold): for every expression and   *)
(* environment, the folded expression evaluates to the same value or fails *)
(* iff the original does.                                                  *)
(***************************************************************************)
EXTENDS CedarPolicy

IsVal(e) == e.op = "val"
ValNode(v) == [op |-> "val", v |-> v]
\* evaluation with no request and an empty store (only used on closed constant nodes)
EmptyEnv == [p |-> VEnt("", ""), a |-> VEnt("", ""), r |-> VEnt("", ""), c |-> EmptyRec, store |-> <<>>]

NeverFold == {"in", "isIn", "hasTag", "getTag", "var", "val", "error"}

RECURSIVE Fold(_)
TryFold(node, kids) ==      \* node rebuilt from folded children; kids: its (folded) children
  IF node.op \in NeverFold \/ \E i \in DOMAIN kids : ~IsVal(kids[i]) THEN node
  ELSE IF node.op \in {"access", "has"} /\ kids[1].v.k = "ent" THEN node
  ELSE LET r == Eval(node, EmptyEnv) IN IF r.ok THEN ValNode(r.v) ELSE node

Fold(e) ==
  LET op == e.op IN
  CASE op \in {"val", "var", "error"} -> e
    [] op \in {"and", "or", "eq", "ne", "lt", "le", "gt", "ge", "add", "sub", "mul", "in",
               "contains", "containsAll", "containsAny", "hasTag", "getTag"} ->
         LET l == Fold(e.l) r == Fold(e.r) IN TryFold([op |-> op, l |-> l, r |-> r], <<l, r>>)
    [] op \in {"not", "neg", "isEmpty"} ->
         LET a == Fold(e.a) IN TryFold([op |-> op, a |-> a], <<a>>)
    [] op \in {"access", "has"} ->
         LET a == Fold(e.a) IN TryFold([op |-> op, a |-> a, attr |-> e.attr], <<a>>)
    [] op = "like" -> LET a == Fold(e.a) IN TryFold([op |-> op, a |-> a, pat |-> e.pat], <<a>>)
    [] op = "is" -> LET a == Fold(e.a) IN TryFold([op |-> op, a |-> a, ty |-> e.ty], <<a>>)
    [] op = "isIn" -> [op |-> op, a |-> Fold(e.a), ty |-> e.ty, e |-> Fold(e.e)]
    [] op = "if" ->
         LET c == Fold(e.c) t == Fold(e.t) f == Fold(e.e)
         IN TryFold([op |-> op, c |-> c, t |-> t, e |-> f], <<c, t, f>>)
    [] op = "ext" ->
         LET args == [i \in DOMAIN e.args |-> Fold(e.args[i])]
         IN TryFold([op |-> op, fn |-> e.fn, args |-> args], args)
    [] op = "set" ->
         LET els == [i \in DOMAIN e.els |-> Fold(e.els[i])]
         IN TryFold([op |-> op, els |-> els], els)
    [] op = "rec" ->
         LET kv == [i \in DOMAIN e.kv |-> [key |-> e.kv[i].key, val |-> Fold(e.kv[i].val)]]
         IN TryFold([op |-> op, kv |-> kv], [i \in DOMAIN kv |-> kv[i].val])

FoldPolicy(p) == [p EXCEPT !.conds = [i \in DOMAIN p.conds |-> [kind |-> p.conds[i].kind, body |-> Fold(p.conds[i].body)]]]

FoldSound(e, env) == Same(Eval(Fold(e), env), Eval(e, env))
=============================================================================
