------------------------------- MODULE Num64 -------------------------------
(***************************************************************************)
(* Exact signed integer arithmetic on numbers that do not fit TLC's 32-bit *)
(* integers.  A number is [neg |-> BOOLEAN, mag |-> limbs] where limbs is a *)
(* little-endian sequence of base-10^4 digits without trailing zero limbs  *)
(* (zero is [neg |-> FALSE, mag |-> <<>>]).  Cedar longs, decimals,        *)
(* datetimes and durations are 64-bit; every property about them is about  *)
(* behaviour AT the 64-bit limits, so arithmetic here is exact and the     *)
(* range test InI64 is separate.                                           *)
(***************************************************************************)
EXTENDS Integers, Sequences

Base == 10000

RECURSIVE MagNorm(_)
MagNorm(m) == IF m = <<>> THEN <<>>
              ELSE IF m[Len(m)] = 0 THEN MagNorm(SubSeq(m, 1, Len(m) - 1))
              ELSE m

Limb(m, i) == IF i <= Len(m) THEN m[i] ELSE 0

RECURSIVE MagCmpFrom(_, _, _)
MagCmpFrom(a, b, i) ==
  IF i = 0 THEN 0
  ELSE IF a[i] < b[i] THEN -1
  ELSE IF a[i] > b[i] THEN 1
  ELSE MagCmpFrom(a, b, i - 1)

MagCmp(a, b) == IF Len(a) < Len(b) THEN -1
                ELSE IF Len(a) > Len(b) THEN 1
                ELSE MagCmpFrom(a, b, Len(a))

RECURSIVE MagAddFrom(_, _, _, _)
MagAddFrom(a, b, i, carry) ==
  IF i > Len(a) /\ i > Len(b)
  THEN (IF carry = 0 THEN <<>> ELSE <<carry>>)
  ELSE LET s == Limb(a, i) + Limb(b, i) + carry
       IN <<s % Base>> \o MagAddFrom(a, b, i + 1, s \div Base)

MagAdd(a, b) == MagAddFrom(a, b, 1, 0)

RECURSIVE MagSubFrom(_, _, _, _)
MagSubFrom(a, b, i, borrow) ==     \* requires a >= b
  IF i > Len(a) THEN <<>>
  ELSE LET d == a[i] - Limb(b, i) - borrow
       IN IF d < 0 THEN <<d + Base>> \o MagSubFrom(a, b, i + 1, 1)
                   ELSE <<d>> \o MagSubFrom(a, b, i + 1, 0)

MagSub(a, b) == MagNorm(MagSubFrom(a, b, 1, 0))

RECURSIVE MagMulLimbFrom(_, _, _, _)
MagMulLimbFrom(a, k, i, carry) ==  \* 0 <= k < Base
  IF i > Len(a) THEN (IF carry = 0 THEN <<>> ELSE <<carry>>)
  ELSE LET p == a[i] * k + carry
       IN <<p % Base>> \o MagMulLimbFrom(a, k, i + 1, p \div Base)

MagMulLimb(a, k) == MagNorm(MagMulLimbFrom(a, k, 1, 0))

MagShift(m, n) == IF m = <<>> THEN <<>> ELSE [i \in 1..n |-> 0] \o m

RECURSIVE MagMulFrom(_, _, _)
MagMulFrom(a, b, j) ==
  IF j > Len(b) THEN <<>>
  ELSE MagAdd(MagShift(MagMulLimb(a, b[j]), j - 1), MagMulFrom(a, b, j + 1))

MagMul(a, b) == MagNorm(MagMulFrom(a, b, 1))

\* division of a magnitude by a native divisor 1 <= d <= 200000
RECURSIVE MagDivFrom(_, _, _, _)
MagDivFrom(a, d, i, r) ==
  IF i = 0 THEN [q |-> <<>>, r |-> r]
  ELSE LET cur  == r * Base + a[i]
           rest == MagDivFrom(a, d, i - 1, cur % d)
       IN [q |-> rest.q \o <<cur \div d>>, r |-> rest.r]

MagDivSmall(a, d) == LET x == MagDivFrom(a, d, Len(a), 0)
                     IN [q |-> MagNorm(x.q), r |-> x.r]

\* division by d with either d <= 200000 or d = Base * d2, d2 <= 200000
\* (86 400 000 = 10^4 * 8640, 3 600 000 = 10^4 * 360); r is a native integer
MagDivMod(a, d) ==
  IF d <= 200000 THEN MagDivSmall(a, d)
  ELSE LET lo == Limb(a, 1)
           hi == IF Len(a) <= 1 THEN <<>> ELSE SubSeq(a, 2, Len(a))
           x  == MagDivSmall(hi, d \div Base)
       IN [q |-> x.q, r |-> x.r * Base + lo]

RECURSIVE NatMag(_)
NatMag(n) == IF n = 0 THEN <<>> ELSE <<n % Base>> \o NatMag(n \div Base)

\* ---------------------------------------------------------------- signed
Mk(neg, mag) == LET m == MagNorm(mag) IN [neg |-> (neg /\ m # <<>>), mag |-> m]
Zero == [neg |-> FALSE, mag |-> <<>>]
FromInt(n) == IF n < 0 THEN Mk(TRUE, NatMag(0 - n)) ELSE Mk(FALSE, NatMag(n))
One == FromInt(1)

IsZero(x) == x.mag = <<>>
Neg(x) == Mk(~x.neg, x.mag)
Abs(x) == Mk(FALSE, x.mag)

Add(x, y) ==
  IF x.neg = y.neg THEN Mk(x.neg, MagAdd(x.mag, y.mag))
  ELSE LET c == MagCmp(x.mag, y.mag)
       IN IF c = 0 THEN Zero
          ELSE IF c > 0 THEN Mk(x.neg, MagSub(x.mag, y.mag))
          ELSE Mk(y.neg, MagSub(y.mag, x.mag))

Sub(x, y) == Add(x, Neg(y))
Mul(x, y) == Mk(x.neg # y.neg, MagMul(x.mag, y.mag))

Cmp(x, y) == IF x.neg /\ ~y.neg THEN -1
             ELSE IF ~x.neg /\ y.neg THEN 1
             ELSE IF x.neg THEN MagCmp(y.mag, x.mag)
             ELSE MagCmp(x.mag, y.mag)

Lt(x, y) == Cmp(x, y) < 0
Le(x, y) == Cmp(x, y) <= 0

\* truncating (toward zero) and flooring division by a native constant d > 0
\* (d as accepted by MagDivMod)
DivTrunc(x, d) == Mk(x.neg, MagDivMod(x.mag, d).q)
RemTrunc(x, d) == LET r == MagDivMod(x.mag, d).r IN IF x.neg THEN FromInt(0 - r) ELSE FromInt(r)
DivFloor(x, d) == LET dm == MagDivMod(x.mag, d)
                  IN IF x.neg /\ dm.r # 0 THEN Mk(TRUE, MagAdd(dm.q, <<1>>))
                     ELSE Mk(x.neg, dm.q)
ModFloor(x, d) == LET r == MagDivMod(x.mag, d).r     \* native integer 0..d-1
                  IN IF x.neg /\ r # 0 THEN d - r ELSE r

\* most-significant-first sequence of decimal digit values -> magnitude
RECURSIVE DigitsMagFrom(_, _, _)
DigitsMagFrom(ds, i, acc) ==
  IF i > Len(ds) THEN acc
  ELSE DigitsMagFrom(ds, i + 1, MagAdd(MagMulLimb(acc, 10), NatMag(ds[i])))
DigitsMag(ds) == MagNorm(DigitsMagFrom(ds, 1, <<>>))

\* 10^k as a magnitude, k >= 0
RECURSIVE Pow10Mag(_)
Pow10Mag(k) == IF k = 0 THEN <<1>>
               ELSE IF k >= 4 THEN <<0>> \o Pow10Mag(k - 4)
               ELSE MagMulLimb(Pow10Mag(k - 1), 10)

\* ---------------------------------------------------------------- 64-bit range
MaxI64 == [neg |-> FALSE, mag |-> <<5807, 5477, 368, 3372, 922>>]  \*  9223372036854775807
MinI64 == [neg |-> TRUE,  mag |-> <<5808, 5477, 368, 3372, 922>>]  \* -9223372036854775808
InI64(x) == Le(MinI64, x) /\ Le(x, MaxI64)

IsNum(x) == /\ DOMAIN x = {"neg", "mag"}
            /\ x.neg \in BOOLEAN
            /\ \A i \in DOMAIN x.mag : x.mag[i] \in 0..(Base - 1)
            /\ (x.mag # <<>> => x.mag[Len(x.mag)] # 0)
            /\ (x.mag = <<>> => ~x.neg)

\* ---------------------------------------------------------------- self-tests
\* (cross-checks against native TLC arithmetic where both apply; these are
\* ASSUMEs so every TLC run that loads the module re-checks them)
TestInts == {-100003, -65536, -10001, -10000, -9999, -4097, -17, -1, 0, 1, 2, 7, 9999, 10000,
             10001, 19999, 20000, 46340, 46341, 99999, 100000}
ASSUME \A a \in TestInts, b \in TestInts :
         /\ (Abs(FromInt(a)).mag = <<>>) = (a = 0)
         /\ (a + b \in -2000000..2000000 => Add(FromInt(a), FromInt(b)) = FromInt(a + b))
         /\ Sub(FromInt(a), FromInt(b)) = FromInt(a - b)
         /\ ((a \in -46340..46340 /\ b \in -46340..46340) => Mul(FromInt(a), FromInt(b)) = FromInt(a * b))
         /\ Cmp(FromInt(a), FromInt(b)) = (IF a < b THEN -1 ELSE IF a > b THEN 1 ELSE 0)
ASSUME \A a \in TestInts, d \in {1, 7, 1000, 8640, 60000, 200000} :
         /\ DivFloor(FromInt(a), d) = FromInt(a \div d)
         /\ ModFloor(FromInt(a), d) = a % d
         /\ Add(Mul(DivTrunc(FromInt(a), d), FromInt(d)), RemTrunc(FromInt(a), d)) = FromInt(a)
         /\ Le(Abs(RemTrunc(FromInt(a), d)), FromInt(d - 1))
ASSUME LET big == Mk(FALSE, <<1234, 5678, 9012, 3456>>) IN   \* 3456901256781234
         /\ DivTrunc(big, 86400000) = Mk(FALSE, DigitsMag(<<4,0,0,1,0,4,3,1>>))   \* 40010431
         /\ RemTrunc(big, 86400000) = FromInt(18381234)
         /\ DivFloor(Neg(big), 86400000) = Mk(TRUE, DigitsMag(<<4,0,0,1,0,4,3,2>>))
         /\ ModFloor(Neg(big), 86400000) = 86400000 - 18381234
         /\ DivTrunc(big, 3600000) = Mk(FALSE, DigitsMag(<<9,6,0,2,5,0,3,4,9>>))
         /\ RemTrunc(big, 3600000) = FromInt(381234)
ASSUME /\ Add(MaxI64, One) = Neg(MinI64)
       /\ InI64(MaxI64) /\ InI64(MinI64) /\ ~InI64(Add(MaxI64, One)) /\ ~InI64(Sub(MinI64, One))
       /\ Mul(Mk(FALSE, DigitsMag(<<1,5,3,0,9,2,0,2,3>>)),
              Mk(FALSE, DigitsMag(<<6,0,2,4,7,2,4,1,2,0,9>>))) = MaxI64
       /\ MaxI64.mag = DigitsMag(<<9,2,2,3,3,7,2,0,3,6,8,5,4,7,7,5,8,0,7>>)
       /\ Pow10Mag(0) = <<1>> /\ Pow10Mag(3) = <<1000>> /\ Pow10Mag(4) = <<0, 1>> /\ Pow10Mag(9) = <<0, 0, 10>>
       /\ (-7) \div 2 = -4 /\ (-7) % 2 = 1    \* TLC's \div and % are flooring
=============================================================================
