------------------------------- MODULE HierVec -------------------------------
(***************************************************************************)
(* C03: what every form of `in` must answer on a parent graph.            *)
(* A configuration is (n, par, present, sets): nodes 1..n, par[x] the     *)
(* parents of x, present the set of nodes in the store, sets a sequence of *)
(* target sets.  Node i is the entity T1::"n<i>" if i is odd, T2::"n<i>"   *)
(* otherwise.  Vec is the sequence of answers, in this order:              *)
(*   1. a in b                         for a, b in 1..n        (operator)  *)
(*   2. a in [sets[k]]                 for a, k                (operator)  *)
(*   3. a is T in b, T the type of a / the other type   for a, b           *)
(*   4. scope `principal in b`, request principal a     for a, b           *)
(*   5. scope `action in [sets[k]]`, request action a   for a, k           *)
(*   6. scope `resource is T in b`, T right / wrong, request resource a    *)
(* All of them are defined by reflexive-transitive reachability through    *)
(* the parent links of present entities.                                   *)
(***************************************************************************)
EXTENDS Integers, Sequences, FiniteSets

RECURSIVE HReachFix(_, _, _)
HReachFix(p, pr, S) == LET T == S \cup UNION { p[x] : x \in S \cap pr } IN IF T = S THEN S ELSE HReachFix(p, pr, T)
HReach(p, pr, a) == HReachFix(p, pr, {a})

B(b) == IF b THEN 1 ELSE 0

Vec(n, par, present, sets) ==
  LET R == [a \in 1..n |-> HReach(par, present, a)]
      pairs == [i \in 1..(n * n) |-> B(((i - 1) % n) + 1 \in R[((i - 1) \div n) + 1])]
      m == Len(sets)
      insets == [i \in 1..(n * m) |-> B(R[((i - 1) \div m) + 1] \cap sets[((i - 1) % m) + 1] # {})]
      isin == [i \in 1..(2 * n * n) |->
                 LET j == (i - 1) \div 2  a == (j \div n) + 1  b == (j % n) + 1
                 IN IF i % 2 = 1 THEN B(b \in R[a]) ELSE 0]
  IN pairs \o insets \o isin \o pairs \o insets \o isin
=============================================================================
