------------------------------ MODULE Trace_Hier ------------------------------
(***************************************************************************)
(* Trace validation of recorded hierarchy queries (C03, M3 and             *)
(* confirmation).  An event is a store configuration and the vector of     *)
(* answers the real code gave (operator through x/exp/eval.Eval, scope     *)
(* forms through cedar.Authorize); the specification's vector is HierVec.  *)
(* A query that did not return within the watchdog's deadline is recorded  *)
(* as obs = <<-1>> (non-termination).                                      *)
(***************************************************************************)
EXTENDS HierVec, Json, IOUtils, TLC

Trace == ndJsonDeserialize("trace.ndjson")

VARIABLES l, bad
vars == <<l, bad>>

SeqSet(s) == { s[i] : i \in DOMAIN s }
Expected(ev) == Vec(ev.n, [x \in 1..ev.n |-> SeqSet(ev.par[x])], SeqSet(ev.present),
                    [k \in DOMAIN ev.sets |-> SeqSet(ev.sets[k])])

Init == l = 1 /\ bad = <<>>
Next == /\ l <= Len(Trace)
        /\ LET exp == Expected(Trace[l]) IN
           bad' = IF Trace[l].obs = exp THEN bad
                  ELSE Append(bad, [event |-> l, exp |-> exp,
                                    idx |-> IF Len(Trace[l].obs) # Len(exp) THEN <<>>
                                            ELSE { i \in DOMAIN exp : exp[i] # Trace[l].obs[i] }])
        /\ l' = l + 1
Done == l = Len(Trace) + 1
WriteOut ==
  Done => Serialize(ToJson([events |-> Len(Trace), bad |-> bad]) \o "\n", "out.json",
                    [format |-> "TXT", charset |-> "UTF-8",
                     openOptions |-> <<"WRITE", "CREATE", "TRUNCATE_EXISTING">>]).exitValue = 0
=============================================================================
