------------------------------ MODULE Trace_Hier ------------------------------
(***************************************************************************)
(* Trace validation of recorded hierarchy queries (C03, M3 and             *)
(* confirmation).  An event is a store configuration and the vector of     *)
(* answers the real code gave (operator through x/exp/eval.Eval, scope     *)
(* forms through cedar.Authorize); the specification's vector is HierVec.  *)
(* A query that did not return within the watchdog's deadline is recorded  *)
(* as obs = <<-1>> (non-termination).                                      *)
(***************************************************************************)
EXTENDS HierVec, Json, IOUtils, TLC

Trace == ndJsonDeserialize("trace.ndjson")

\* every unexplained event is recorded; only the first 100 with details (the state would otherwise grow
\* quadratically when most of a trace is unexplained)
Note(b, x) == IF Len(b) < 100 THEN Append(b, x) ELSE Append(b, [event |-> x.event])

VARIABLES l, bad
vars == <<l, bad>>

SeqSet(s) == { s[i] : i \in DOMAIN s }
Expected(ev) == Vec(ev.n, [x \in 1..ev.n |-> SeqSet(ev.par[x])], SeqSet(ev.present),
                    [k \in DOMAIN ev.sets |-> SeqSet(ev.sets[k])])

Init == l = 1 /\ bad = <<>>
Next == /\ l <= Len(Trace)
        \* (bound by a quantifier, not by LET: TLC would re-evaluate a LET definition at every use)
        /\ \E exp \in {Expected(Trace[l])} :
           \* obs = <<-3>>: the harness skipped the case after earlier non-terminating ones (not judged)
           bad' = IF Trace[l].obs = exp \/ Trace[l].obs = <<-3>> THEN bad
                  ELSE Note(bad, [event |-> l,
                                    idx |-> IF Len(Trace[l].obs) # Len(exp) THEN <<>>
                                            ELSE { i \in DOMAIN exp : exp[i] # Trace[l].obs[i] }])
        /\ l' = l + 1
Done == l = Len(Trace) + 1
WriteOut ==
  Done => Serialize(ToJson([events |-> Len(Trace), bad |-> bad]) \o "\n", "out.json",
                    [format |-> "TXT", charset |-> "UTF-8",
                     openOptions |-> <<"WRITE", "CREATE", "TRUNCATE_EXISTING">>]).exitValue = 0
=============================================================================
