----------------------------- MODULE Trace_Determ -----------------------------
(***************************************************************************)
(* Trace validation for C14.  An event is one input and the observations of *)
(* R repetitions of the same operation on it (every repetition on freshly   *)
(* built objects): obs = <<[h, s], ...>>, h a digest of the observable      *)
(* (decision + reason set + error set with messages, or the encoded bytes). *)
(* Each repetition is one Determinism!Observe step on input `l`; a          *)
(* repetition whose observation differs from the first one of that input is *)
(* unexplained.                                                             *)
(***************************************************************************)
EXTENDS Determinism, Integers, Json, IOUtils

Trace == ndJsonDeserialize("trace.ndjson")

\* every unexplained event is recorded; only the first 100 with details
Note(b, x) == IF Len(b) < 100 THEN Append(b, x) ELSE Append(b, [event |-> x.event])

VARIABLES l, k, bad
tvars == <<first, l, k, bad>>

Ev == Trace[l]
TraceInit == Init /\ l = 1 /\ k = 1 /\ bad = <<>>

Step == /\ k <= Len(Ev.obs)
        /\ Observe(l, Ev.obs[k].h)
        /\ k' = k + 1 /\ UNCHANGED <<l, bad>>
NextEvent == /\ k > Len(Ev.obs)
             /\ l' = l + 1 /\ k' = 1 /\ UNCHANGED <<first, bad>>
Unexplained == /\ k <= Len(Ev.obs)
               /\ ~ENABLED Step
               /\ bad' = Note(bad, [event |-> l, rep |-> k, firstobs |-> Ev.obs[1], obs |-> Ev.obs[k]])
               /\ l' = l + 1 /\ k' = 1 /\ UNCHANGED first
TraceNext == l <= Len(Trace) /\ (Step \/ NextEvent \/ Unexplained)

Done == l = Len(Trace) + 1
WriteOut ==
  Done => Serialize(ToJson([events |-> Len(Trace), bad |-> bad]) \o "\n", "out.json",
                    [format |-> "TXT", charset |-> "UTF-8",
                     openOptions |-> <<"WRITE", "CREATE", "TRUNCATE_EXISTING">>]).exitValue = 0
=============================================================================
