----------------------------- MODULE Trace_Total -----------------------------
(***************************************************************************)
(* Validation of recorded decoder / encoder / authorizer runs on damaged   *)
(* and truncated inputs (C10): every stage of every run ends in a value or *)
(* an error (Totality!Total) -- never a panic, a crash or a deadline.      *)
(***************************************************************************)
EXTENDS Totality, Json, IOUtils, TLC

Trace == ndJsonDeserialize("trace.ndjson")
Note(b, x) == IF Len(b) < 100 THEN Append(b, x) ELSE Append(b, [event |-> x.event])

VARIABLES l, bad
vars == <<l, bad>>

Why(ev) ==
  LET rs == ev.obs.runs
      ks == { k \in DOMAIN rs : \E s \in DOMAIN rs[k].stages : ~Total(rs[k].stages[s].outcome) }
  IN IF ks = {} THEN <<>> ELSE <<[run |-> CHOOSE k \in ks : \A j \in ks : k <= j]>>

Init == l = 1 /\ bad = <<>>
Next == /\ l <= Len(Trace)
        /\ \E w \in {Why(Trace[l])} :
             bad' = IF w = <<>> THEN bad ELSE Note(bad, [event |-> l, why |-> w])
        /\ l' = l + 1
Done == l = Len(Trace) + 1
WriteOut ==
  Done => Serialize(ToJson([events |-> Len(Trace), bad |-> bad]) \o "\n", "out.json",
                    [format |-> "TXT", charset |-> "UTF-8",
                     openOptions |-> <<"WRITE", "CREATE", "TRUNCATE_EXISTING">>]).exitValue = 0
=============================================================================
