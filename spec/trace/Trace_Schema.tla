---------------------------- MODULE Trace_Schema ----------------------------
(***************************************************************************)
(* Validation of recorded schema runs (C16, C17).  Event "schema": a       *)
(* schema AST (wire form) and what the real code made of it -- its         *)
(* resolution, the round trips through Cedar schema text and through JSON  *)
(* (parse result, resolution of the parsed schema, whether a second        *)
(* rendering repeats the bytes), the conversions text -> JSON and JSON ->  *)
(* text, and (probes) validator runs over policies, entities and requests  *)
(* derived from the resolved schema, all inside an isolated worker whose   *)
(* death, panic or deadline is the observation.                            *)
(*   Focus = "total" (C16): every run returned -- no panic, crash, hang.   *)
(*   Focus = "codec" (C17): the real resolution equals SchemaModel!Resolve *)
(*   (the resolved schema, or failure); every round trip parses, resolves  *)
(*   to the same resolved schema and renders the same bytes again; the two *)
(*   conversions commute with resolution.                                  *)
(***************************************************************************)
EXTENDS SchemaModel, Json, IOUtils

CONSTANT Focus
Trace == ndJsonDeserialize("trace.ndjson")
Note(b, x) == IF Len(b) < 100 THEN Append(b, x) ELSE Append(b, [event |-> x.event])

VARIABLES l, bad
vars == <<l, bad>>

R(res) == IF res.ok THEN OkV(ResolvedFromWire(res.v)) ELSE Fail
Expected(s) == LET r == Resolve(s) IN IF r.ok THEN OkV(SpecResolved(r.v)) ELSE Fail

Via(name, v, exp) ==
  IF ~v.ok THEN <<name \o ": the code's own rendering does not " \o (IF v.stage = "parse" THEN "parse" ELSE "marshal")>>
  ELSE (IF R(v.r) = exp THEN <<>> ELSE <<name \o ": resolves differently after the round trip">>)
       \o (IF v.again THEN <<>> ELSE <<name \o ": second rendering differs">>)
Cross(name, v, exp) ==
  IF ~v.ok THEN (IF v.stage = "n/a" THEN <<>> ELSE <<name \o ": conversion fails at " \o v.stage>>)
  ELSE IF R(v.r) = exp THEN <<>> ELSE <<name \o ": resolves differently">>

NoTextForm(s) == \E n \in NsSet(s) : \E i \in DOMAIN n.actions :
                   n.actions[i].applies.t = "some" /\ (n.actions[i].applies.principals = <<>> \/ n.actions[i].applies.resources = <<>>)

Why(ev) ==
  LET o == ev.obs IN
  IF "r0" \notin DOMAIN o
  THEN <<IF "crash" \in DOMAIN o THEN "crash" ELSE IF "timeout" \in DOMAIN o THEN "timeout" ELSE "panic">>
  ELSE IF Focus = "total"
  THEN (IF "probes" \in DOMAIN o /\ \E i \in DOMAIN o.probes : o.probes[i].outcome \notin {"accept", "reject", "done"}
        THEN <<"validator: " \o o.probes[CHOOSE i \in DOMAIN o.probes : o.probes[i].outcome \notin {"accept", "reject", "done"}].what>>
        ELSE <<>>)
  ELSE LET exp == Expected(ev.schema) IN
       (IF R(o.r0) = exp THEN <<>> ELSE <<"resolution differs from the specification">>)
       \* the codec clauses quantify over schemas: an AST that does not resolve is not one, and an appliesTo with an
       \* empty principal or resource list has no text form (the schema grammar requires non-empty lists)
       \o (IF ~exp.ok THEN <<>>
           ELSE Via("json", o.json, exp)
                \o (IF NoTextForm(ev.schema) THEN <<>>
                    ELSE Via("text", o.text, exp) \o Cross("text -> JSON", o.t2j, exp) \o Cross("JSON -> text", o.j2t, exp)))

Init == l = 1 /\ bad = <<>>
Next == /\ l <= Len(Trace)
        /\ \E w \in {Why(Trace[l])} :
             bad' = IF w = <<>> THEN bad ELSE Note(bad, [event |-> l, why |-> w, specok |-> Resolve(Trace[l].schema).ok])
        /\ l' = l + 1
Done == l = Len(Trace) + 1
WriteOut ==
  Done => Serialize(ToJson([events |-> Len(Trace), bad |-> bad]) \o "\n", "out.json",
                    [format |-> "TXT", charset |-> "UTF-8",
                     openOptions |-> <<"WRITE", "CREATE", "TRUNCATE_EXISTING">>]).exitValue = 0
=============================================================================
