------------------------------ MODULE Trace_Fold ------------------------------
(***************************************************************************)
(* Trace validation of recorded policy compilations (C04, M3 and           *)
(* confirmation).  An event carries a policy, environments and what the    *)
(* real code observed: the outcome per environment of the COMPILED (folded)*)
(* policy through cedar.Authorize, the outcome of direct evaluation of the *)
(* unfolded tree, and whether the visible AST / text / JSON stayed the     *)
(* same.  All outcomes must be the specification's Outcome of the ORIGINAL *)
(* policy.                                                                 *)
(***************************************************************************)
EXTENDS Fold, Json, IOUtils, TLC

Trace == ndJsonDeserialize("trace.ndjson")

\* every unexplained event is recorded; only the first 100 with details (the state would otherwise grow
\* quadratically when most of a trace is unexplained)
Note(b, x) == IF Len(b) < 100 THEN Append(b, x) ELSE Append(b, [event |-> x.event])

VARIABLES l, bad
vars == <<l, bad>>

Expected(ev) == LET p == PolicyFromWire(ev.policy) IN
                [k \in DOMAIN ev.envs |-> Outcome(p, EnvFromWire(ev.envs[k]))]

Agrees(obs, exp) == /\ Len(obs) = Len(exp)
                    /\ \A k \in DOMAIN exp : obs[k] = "n/a" \/ obs[k] = exp[k]

EventOk(ev) ==
  /\ "snap" \in DOMAIN ev.obs          \* (a panic is recorded as [ok |-> FALSE, panic |-> ..])
  /\ ev.obs.snap = "same"
  /\ LET exp == Expected(ev) IN Agrees(ev.obs.folded, exp) /\ Agrees(ev.obs.direct, exp)

Init == l = 1 /\ bad = <<>>
Next == /\ l <= Len(Trace)
        /\ bad' = IF EventOk(Trace[l]) THEN bad ELSE Note(bad, [event |-> l, exp |-> Expected(Trace[l])])
        /\ l' = l + 1
Done == l = Len(Trace) + 1
WriteOut ==
  Done => Serialize(ToJson([events |-> Len(Trace), bad |-> bad]) \o "\n", "out.json",
                    [format |-> "TXT", charset |-> "UTF-8",
                     openOptions |-> <<"WRITE", "CREATE", "TRUNCATE_EXISTING">>]).exitValue = 0
=============================================================================
