---------------------------- MODULE Trace_Marshal ----------------------------
(***************************************************************************)
(* Validation of recorded renderings (C08).  Event "marshal": a policy     *)
(* (obs.subject: built from an AST, decoded from JSON or parsed from text) *)
(* with the code points of its MarshalCedar text and what the real parser  *)
(* made of that text (obs.reparsed, obs.list), whether a second rendering  *)
(* reproduced the bytes (obs.retext).  Event "marshalset": policies with   *)
(* ids (rank = position of the id in byte order), what came back from      *)
(* PolicySet.MarshalCedar -> NewPolicySetFromBytes and from PolicyList.    *)
(* The specification decides with Marshal!SamePolicy, and reads every text *)
(* itself (Syntax!Lex + ParsePolicy) when the event has path-typed         *)
(* entities (parts).  Spelling tables (words, names) come from the events. *)
(***************************************************************************)
EXTENDS Marshal, SyntaxTables, TraceTables, SequencesExt, Json, IOUtils, TLC

CONSTANT EnvStride
Trace == ndJsonDeserialize("trace.ndjson")

\* TrWords, TrNames (module TraceTables): the union of the events' obs.words / obs.names tables,
\* written next to the trace by the checker (building it here from the trace took TLC a second per event)

UEnvWs == SetToSeq(EnvUW)
UEnvs == LET ks == SelectSeq([i \in DOMAIN UEnvWs |-> i], LAMBDA i : i % EnvStride = 0)
         IN [j \in DOMAIN ks |-> EnvFromWire(UEnvWs[ks[j]])]
EnvsOf(ev) == IF "envs" \in DOMAIN ev THEN [k \in DOMAIN ev.envs |-> EnvFromWire(ev.envs[k])]
              ELSE IF ev.envset = "S" THEN SyntaxEnvs ELSE UEnvs

Note(b, x) == IF Len(b) < 100 THEN Append(b, x) ELSE Append(b, [event |-> x.event])

VARIABLES l, bad
vars == <<l, bad>>

\* why a returned policy is not the subject ("" if it is)
Differs(subj, res, envs) ==
  IF ~res.ok THEN "rejected"
  ELSE LET q == PolicyFromWire(res.v) IN
       IF ~SameHead(subj, q) THEN "head"
       ELSE IF ~SameConds(subj, q, envs) THEN "meaning" ELSE ""
Label(what, d) == IF d = "" THEN <<>> ELSE <<what \o d>>
Single(r) == IF r.ok /\ Len(r.policies) = 1 THEN [ok |-> TRUE, v |-> r.policies[1]] ELSE [ok |-> FALSE]

MarshalWhy(ev) ==
  LET o == ev.obs IN
  IF "skip" \in DOMAIN o THEN <<>>
  ELSE IF "text" \notin DOMAIN o THEN <<"no text (panic)">>
  ELSE LET subj == PolicyFromWire(o.subject)
           envs == EnvsOf(ev)
       IN (IF o.utf8 THEN <<>> ELSE <<"text is not UTF-8">>)
          \o Label("reparsed: ", Differs(subj, IF o.reparsed.ok THEN [ok |-> TRUE, v |-> o.reparsed.policy] ELSE [ok |-> FALSE], envs))
          \o Label("list: ", Differs(subj, Single(o.list), envs))
          \o (IF ev.parts THEN Label("specification reading: ", Differs(subj, ReadPolicy(o.text), envs)) ELSE <<>>)
          \o (IF o.retext = "differs" THEN <<"second rendering differs">> ELSE <<>>)
          \* "built programmatically": the public builder API (package ast) applied to the subject's own structure
          \* must build the subject
          \o (IF "builder" \in DOMAIN o /\ o.builder = "differs" THEN <<"the builder API builds a different tree">> ELSE <<>>)

ByRank(items) == SortSeq(items, LAMBDA x, y : x.rank < y.rank)
SeqWhy(what, subjects, res, envs) ==
  IF ~res.ok THEN <<what \o ": rejected">>
  ELSE IF Len(res.v) # Len(subjects) THEN <<what \o ": number of policies">>
  ELSE LET ks == { k \in DOMAIN subjects :
                     Differs(PolicyFromWire(subjects[k].policy), [ok |-> TRUE, v |-> res.v[k]], envs) # "" }
       IN IF ks = {} THEN <<>> ELSE <<what \o ": policy differs or is out of order">>
Got(r) == IF r.ok THEN [ok |-> TRUE, v |-> r.policies] ELSE [ok |-> FALSE]
SetWhy(ev) ==
  LET o == ev.obs IN
  IF "set" \notin DOMAIN o THEN <<"no result (panic)">>
  ELSE LET envs == EnvsOf(ev)  sorted == ByRank(ev.items) IN
       SeqWhy("set", sorted, Got(o.set), envs)
       \o (IF o.set.ok /\ o.set.count # Len(ev.items) THEN <<"set: count">> ELSE <<>>)
       \o SeqWhy("list", ev.items, Got(o.list), envs)
       \o (IF ev.parts THEN SeqWhy("specification reading of the set text", sorted, ReadPolicyList(o.settext), envs)
                            \o SeqWhy("specification reading of the list text", ev.items, ReadPolicyList(o.listtext), envs)
           ELSE <<>>)

Why(ev) == IF ev.op = "marshalset" THEN SetWhy(ev) ELSE MarshalWhy(ev)

Init == l = 1 /\ bad = <<>>
Next == /\ l <= Len(Trace)
        /\ \E w \in {Why(Trace[l])} :
             bad' = IF w = <<>> THEN bad ELSE Note(bad, [event |-> l, why |-> w])
        /\ l' = l + 1
Done == l = Len(Trace) + 1
WriteOut ==
  Done => Serialize(ToJson([events |-> Len(Trace), bad |-> bad]) \o "\n", "out.json",
                    [format |-> "TXT", charset |-> "UTF-8",
                     openOptions |-> <<"WRITE", "CREATE", "TRUNCATE_EXISTING">>]).exitValue = 0
=============================================================================
