----------------------------- MODULE Trace_Eval -----------------------------
(***************************************************************************)
(* Trace validation of recorded evaluations (C01, M3).                     *)
(* Every line of trace.ndjson is one event recorded from the real code:    *)
(*   [op |-> "eval", env |-> <env>, exprs |-> <<e1..en>>, obs |-> <<o1..on>>]*)
(* The trace spec consumes every event (it never blocks), evaluates each   *)
(* expression with the specification's evaluator and collects every event  *)
(* whose observation (value-or-failure, and the one-policy authorization   *)
(* outcome `az`) differs.  When the trace is consumed the verdict is       *)
(* written to out.json; the orchestrator requires that file.               *)
(***************************************************************************)
EXTENDS CedarPolicy, Json, IOUtils, TLC

Trace == ndJsonDeserialize("trace.ndjson")

\* every unexplained event is recorded; only the first 100 with details (the state would otherwise grow
\* quadratically when most of a trace is unexplained)
Note(b, x) == IF Len(b) < 100 THEN Append(b, x) ELSE Append(b, [event |-> x.event])

VARIABLES l, bad
vars == <<l, bad>>

ObsFromWire(o) ==
  IF "panic" \in DOMAIN o THEN [ok |-> FALSE, panic |-> TRUE]
  ELSE IF o.ok THEN [ok |-> TRUE, v |-> FromWire(o.v)] ELSE [ok |-> FALSE]

AzOf(r) == IF ~r.ok \/ r.v.k # "bool" THEN "error" ELSE IF r.v.b THEN "allow" ELSE "deny"

\* the expressions of event ev whose observation is not what the specification
\* defines, with the expected observation
\* (env and the results are bound by set comprehensions, not by LET: TLC re-evaluates a LET
\* definition at every use, and EnvFromWire / Eval are the expensive parts)
BadOf(ev) ==
  UNION { UNION { { [idx |-> i, exp |-> r] : r \in { x \in {Eval(ExprFromWire(ev.exprs[i]), env)} :
                                                   ~(/\ Obs(x) = ObsFromWire(ev.obs[i])
                                                     /\ (ev.obs[i].az = "n/a" \/ ev.obs[i].az = AzOf(x))) } }
                  : i \in DOMAIN ev.exprs }
          : env \in {EnvFromWire(ev.env)} }

Init == l = 1 /\ bad = <<>>

Next == /\ l <= Len(Trace)
        /\ LET b == BadOf(Trace[l])
           IN bad' = IF b = {} THEN bad ELSE Note(bad, [event |-> l, items |-> b])
        /\ l' = l + 1

Done == l = Len(Trace) + 1

WriteOut ==
  Done => Serialize(ToJson([events |-> Len(Trace), bad |-> bad]) \o "\n", "out.json",
                    [format |-> "TXT", charset |-> "UTF-8",
                     openOptions |-> <<"WRITE", "CREATE", "TRUNCATE_EXISTING">>]).exitValue = 0
=============================================================================
