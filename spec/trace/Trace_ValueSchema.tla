-------------------------- MODULE Trace_ValueSchema --------------------------
(***************************************************************************)
(* Validation of recorded schema-guided entity decoding (C13, "schema-     *)
(* guided coercion of implicit forms").  Event "vjsonschema": a schema     *)
(* (wire form), an entity that conforms to it, and per spelling of the     *)
(* entity's JSON document -- the encoder's own (explicit escapes) and the  *)
(* implicit one (a bare {"type", "id"} object where the schema declares an *)
(* entity, a bare string where it declares an extension type, at every     *)
(* depth of sets and records, in attributes and tags) -- what              *)
(* Entity.UnmarshalJSONWithSchema and EntityMap.UnmarshalJSONWithSchema    *)
(* returned.  The specification resolves the schema itself (SchemaModel),  *)
(* reads each document itself (ValueJson) and coerces by the declared      *)
(* types (Coerce): both readings must be the entity, and so must every     *)
(* result of the real decoders.                                            *)
(***************************************************************************)
EXTENDS ValueJson, SyntaxTables, TraceTables, SequencesExt, Json, IOUtils, TLC

SM == INSTANCE SchemaModel
Trace == ndJsonDeserialize("trace.ndjson")
Note(b, x) == IF Len(b) < 100 THEN Append(b, x) ELSE Append(b, [event |-> x.event])

VARIABLES l, bad
vars == <<l, bad>>

ExtKind(n) == CASE n = "ipaddr" -> "ip" [] OTHER -> n
RECURSIVE Coerce(_, _)
Coerce(v, t) ==
  CASE t.t = "entity" ->
         IF v.k = "rec" /\ {"type", "id"} \subseteq DOMAIN v.f /\ v.f["type"].k = "str" /\ v.f["id"].k = "str"
         THEN VEnt(TypeOfCps(v.f["type"].s), IdOfCps(v.f["id"].s)) ELSE v
    [] t.t = "ext" -> IF v.k = "str" /\ SpecRead(ExtKind(t.name), v.s).ok THEN SpecRead(ExtKind(t.name), v.s).v ELSE v
    [] t.t = "set" -> IF v.k = "set" THEN VSet({ Coerce(x, t.el) : x \in v.els }) ELSE v
    [] t.t = "rec" -> IF v.k = "rec" THEN VRec([a \in DOMAIN v.f |-> IF a \in DOMAIN t.attrs THEN Coerce(v.f[a], t.attrs[a].type) ELSE v.f[a]]) ELSE v
    [] OTHER -> v

CoerceEntity(rs, e) ==
  IF e.uid.ty \in DOMAIN rs.entities
  THEN LET d == rs.entities[e.uid.ty] IN
       [e EXCEPT !.attrs = Coerce(VRec(e.attrs), d.shape).f,
                 !.tags = IF d.tags.t = "none" THEN e.tags ELSE [k \in DOMAIN e.tags |-> Coerce(e.tags[k], d.tags)]]
  ELSE e

Why(ev) ==
  LET o == ev.obs IN
  IF "spell" \notin DOMAIN o THEN <<"panic">>
  ELSE LET r == SM!Resolve(ev.schema) IN
       IF ~r.ok THEN <<"the schema of the event does not resolve (harness)">>
       ELSE LET d == EntityFromWire(ev.datum)
                badSpec == { i \in DOMAIN o.spell : LET x == EntityFromDoc(o.spell[i].doc) IN ~x.ok \/ CoerceEntity(r.v, x.v) # d }
                badReal == { i \in DOMAIN o.spell : \E j \in DOMAIN o.spell[i].backs :
                               ~(o.spell[i].backs[j].ok /\ EntityFromWire(o.spell[i].backs[j].v) = d) }
            IN (IF badSpec = {} THEN <<>> ELSE <<"the spelling is not the entity per the specification (harness): " \o o.spell[CHOOSE i \in badSpec : TRUE].name>>)
               \o (IF badReal = {} THEN <<>> ELSE <<"schema-guided decoding of the " \o o.spell[CHOOSE i \in badReal : TRUE].name \o " spelling">>)
               \* the byte-level respelling of a document is the same document
               \o (IF "escdiffers" \in DOMAIN o /\ o.escdiffers # <<>>
                   THEN <<"schema-guided decoding of the \\u-escaped bytes of the " \o o.escdiffers[1] \o " spelling differs from the plain bytes">> ELSE <<>>)

Init == l = 1 /\ bad = <<>>
Next == /\ l <= Len(Trace)
        /\ \E w \in {Why(Trace[l])} :
             bad' = IF w = <<>> THEN bad ELSE Note(bad, [event |-> l, why |-> w])
        /\ l' = l + 1
Done == l = Len(Trace) + 1
WriteOut ==
  Done => Serialize(ToJson([events |-> Len(Trace), bad |-> bad]) \o "\n", "out.json",
                    [format |-> "TXT", charset |-> "UTF-8",
                     openOptions |-> <<"WRITE", "CREATE", "TRUNCATE_EXISTING">>]).exitValue = 0
=============================================================================
