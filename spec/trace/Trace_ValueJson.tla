--------------------------- MODULE Trace_ValueJson ---------------------------
(***************************************************************************)
(* Validation of recorded JSON round trips of values, entities, entity     *)
(* maps and requests (C13).  Event "vjson": the datum (wire form), the     *)
(* document the real encoder wrote (TJSON), what the real decoder read     *)
(* back, whether a second encoding repeats the bytes, and alternative      *)
(* spellings of the same document (explicit / implicit entity references   *)
(* where the format allows both, the three spellings of an extension value *)
(* for a typed decoder) with what the real decoder made of each.  The      *)
(* specification reads every document ITSELF (ValueJson) and demands the   *)
(* datum; it demands the datum from the real decoder for the encoding and  *)
(* for every spelling.                                                     *)
(***************************************************************************)
EXTENDS ValueJson, SyntaxTables, TraceTables, SequencesExt, Json, IOUtils, TLC

Trace == ndJsonDeserialize("trace.ndjson")

Note(b, x) == IF Len(b) < 100 THEN Append(b, x) ELSE Append(b, [event |-> x.event])

VARIABLES l, bad
vars == <<l, bad>>

Datum(kind, w) ==
  CASE kind = "value" -> FromWire(w)
    [] kind = "entity" -> EntityFromWire(w)
    [] kind = "entities" -> { EntityFromWire(w[i]) : i \in DOMAIN w }
    [] kind = "request" -> [p |-> w.p, a |-> w.a, r |-> w.r, c |-> FromWire(w.c)]
SpecRead2(kind, doc) ==
  CASE kind = "value" -> FromValueJ(doc)
    [] kind = "entity" -> EntityFromDoc(doc)
    [] kind = "entities" -> EntitiesFromDoc(doc)
    [] kind = "request" -> RequestFromDoc(doc)

\* event "djson": a decision with its diagnostic (reasons and errors with positions and messages)
DiagWhy(ev) ==
  LET o == ev.obs IN
  IF "json" \notin DOMAIN o THEN <<"panic">>
  ELSE (IF DecisionDiagFromDoc(o.json) = Ok(ev.datum) THEN <<>> ELSE <<"specification reading of the encoding">>)
       \o (IF o.back.ok /\ o.back.v = ev.datum THEN <<>> ELSE <<"decoded">>)
       \o (IF o.rejson = "same" THEN <<>> ELSE <<"second encoding differs">>)

Why(ev) ==
  LET o == ev.obs IN
  IF ev.op = "djson" THEN DiagWhy(ev)
  ELSE IF "json" \notin DOMAIN o THEN <<"panic">>
  ELSE LET d == Datum(ev.kind, ev.datum) IN
       (IF Obs(SpecRead2(ev.kind, o.json)) = Ok(d) THEN <<>> ELSE <<"specification reading of the encoding">>)
       \o (IF o.back.ok /\ Datum(ev.kind, o.back.v) = d THEN <<>> ELSE <<"decoded">>)
       \o (IF "equal" \in DOMAIN o /\ ~o.equal THEN <<"decoded object is not Equal to the original for the library itself">> ELSE <<>>)
       \o (IF o.rejson = "same" THEN <<>> ELSE <<"second encoding differs">>)
       \o (IF \E i \in DOMAIN o.spell : Obs(SpecRead2(ev.kind, o.spell[i].doc)) # Ok(d)
           THEN <<"respelling is not the same datum per the specification (harness)">> ELSE <<>>)
       \o (IF \E i \in DOMAIN o.spell : ~(o.spell[i].back.ok /\ Datum(ev.kind, o.spell[i].back.v) = d)
           THEN <<"spelling " \o o.spell[CHOOSE i \in DOMAIN o.spell : ~(o.spell[i].back.ok /\ Datum(ev.kind, o.spell[i].back.v) = d)].name>>
           ELSE <<>>)
       \* a byte-level respelling (every string \u-escaped, white space between tokens) is the same document: the
       \* decoder must answer as it does for the plain bytes
       \o (IF "escdiffers" \in DOMAIN o /\ o.escdiffers # <<>>
           THEN <<"the \\u-escaped spelling of the same document decodes differently: " \o o.escdiffers[1]>> ELSE <<>>)
       \o (IF \E i \in DOMAIN o.typed : ~(o.typed[i].back.ok /\ FromWire(o.typed[i].back.v) = d)
           THEN <<"typed decoder: " \o o.typed[CHOOSE i \in DOMAIN o.typed : ~(o.typed[i].back.ok /\ FromWire(o.typed[i].back.v) = d)].name>>
           ELSE <<>>)

Init == l = 1 /\ bad = <<>>
Next == /\ l <= Len(Trace)
        /\ \E w \in {Why(Trace[l])} :
             bad' = IF w = <<>> THEN bad ELSE Note(bad, [event |-> l, why |-> w])
        /\ l' = l + 1
Done == l = Len(Trace) + 1
WriteOut ==
  Done => Serialize(ToJson([events |-> Len(Trace), bad |-> bad]) \o "\n", "out.json",
                    [format |-> "TXT", charset |-> "UTF-8",
                     openOptions |-> <<"WRITE", "CREATE", "TRUNCATE_EXISTING">>]).exitValue = 0
=============================================================================
