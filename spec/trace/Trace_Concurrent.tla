--------------------------- MODULE Trace_Concurrent ---------------------------
(***************************************************************************)
(* Trace validation for C19.  Line 1 describes the shared state (policies, *)
(* requests, sequential baseline, snapshot digest); every other line is a  *)
(* completed call recorded by one goroutine (g, its own sequence number,   *)
(* kind, argument, observation) or a snapshot.  Authorizations are judged  *)
(* by the Authz specification itself, the other read-only operations by    *)
(* the sequential baseline, snapshots by equality with the first one.      *)
(***************************************************************************)
EXTENDS Concurrent, Integers, Json, IOUtils, TLC

Trace == ndJsonDeserialize("trace.ndjson")
Hdr == Trace[1]
Note(b, x) == IF Len(b) < 100 THEN Append(b, x) ELSE Append(b, [event |-> x.event])

VARIABLES l, bad
tvars == <<S, done, l, bad>>

Policies == PolicySetFromWire(Hdr.policies)
Requests == [i \in DOMAIN Hdr.requests |-> EnvFromWire(Hdr.requests[i])]
AzFromWire(a) == [decision |-> a.decision, reasons |-> SeqRange(a.reasons), errors |-> SeqRange(a.errors)]

\* the sequential result of a recorded call
F(ev) == IF ev.kind \in {"authorize", "isauthorized"}
         THEN AuthzResult(Policies, Requests[(ev.arg % Len(Requests)) + 1])
         ELSE Hdr.baseline[ev.kind \o "/" \o ToString(ev.arg)]
Res(ev) == IF "panic" \in DOMAIN ev.obs THEN [panic |-> TRUE]
           ELSE IF ev.kind \in {"authorize", "isauthorized"} THEN AzFromWire(ev.obs) ELSE ev.obs

TraceInit == Init(Hdr.snapshot) /\ l = 2 /\ bad = <<>>
Ev == Trace[l]
Explained == /\ IF Ev.kind = "snapshot" THEN Snapshot(Ev.g, Ev.seq, Ev.obs.d) ELSE CallReturn(Ev.g, Ev.seq, Res(Ev), F(Ev))
             /\ l' = l + 1 /\ UNCHANGED bad
Unexplained == /\ ~ENABLED Explained
               /\ bad' = Note(bad, [event |-> l, g |-> Ev.g, seq |-> Ev.seq, kind |-> Ev.kind, arg |-> Ev.arg])
               /\ l' = l + 1
               /\ done' = [p \in DOMAIN done \cup {Ev.g} |-> IF p = Ev.g THEN Ev.seq ELSE done[p]] /\ UNCHANGED S
TraceNext == l <= Len(Trace) /\ (Explained \/ Unexplained)

Done == l = Len(Trace) + 1
WriteOut ==
  Done => Serialize(ToJson([events |-> Len(Trace), bad |-> bad]) \o "\n", "out.json",
                    [format |-> "TXT", charset |-> "UTF-8",
                     openOptions |-> <<"WRITE", "CREATE", "TRUNCATE_EXISTING">>]).exitValue = 0
=============================================================================
