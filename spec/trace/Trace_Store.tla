----------------------------- MODULE Trace_Store -----------------------------
(***************************************************************************)
(* Trace validation of recorded container histories (C20, M3 and           *)
(* confirmation).  Every trace line is one history recorded from real      *)
(* PolicySet / PolicyMap objects:                                          *)
(*   [op |-> "store", steps |-> <<step..>>, obs |-> [rets, projs]]          *)
(* Each step must be an enabled action of PolicyStore (re-used unchanged)  *)
(* whose predicted return value and resulting projection are the recorded  *)
(* ones.  A step that no action explains is recorded with its position and *)
(* validation moves on to the next history, so every unexplained history   *)
(* of the trace is reported.                                               *)
(***************************************************************************)
EXTENDS PolicyStore, Json, IOUtils, TLC

Trace == ndJsonDeserialize("trace.ndjson")

\* every unexplained event is recorded; only the first 100 with details (the state would otherwise grow
\* quadratically when most of a trace is unexplained)
Note(b, x) == IF Len(b) < 100 THEN Append(b, x) ELSE Append(b, [event |-> x.event])

VARIABLES l,      \* history being validated
          k,      \* next step of that history
          bad
tvars == <<sets, copy, hist, l, k, bad>>

Ev == Trace[l]
St == Ev.steps[k]

\* the PolicyStore action a recorded step claims to be
ActionOf(st) ==
  CASE st.op = "new"           -> New(st.h)
    [] st.op = "load"          -> LoadDoc(st.h, st.doc, st.file)
    [] st.op = "add"           -> PAdd(st.h, st.id, st.pol)
    [] st.op = "remove"        -> PRemove(st.h, st.id)
    [] st.op = "get"           -> Get(st.h, st.id)
    [] st.op = "mapcopy"       -> MapCopy(st.h)
    [] st.op = "mapput"        -> MapPut(st.id, st.pol)
    [] st.op = "mapdelete"     -> MapDelete(st.id)
    [] st.op = "marshalcedar"  -> MarshalCedar(st.h)
    [] st.op = "jsonroundtrip" -> JsonRoundTrip(st.h, st.h2)
    [] st.op = "badjson"       -> BadJson(st.h)

\* recorded projection -> the model's projection (id lists that denote sets become sets)
AzFromWire(a) == [decision |-> a.decision, reasons |-> SeqRange(a.reasons), errors |-> SeqRange(a.errors)]
SetProjFromWire(w) == [live |-> w.live, entries |-> w.entries, az |-> [q \in DOMAIN w.az |-> AzFromWire(w.az[q])]]
ProjFromWire(w) == [sets |-> [h \in Handles |-> IF "inconsistent" \in DOMAIN w.sets[h] THEN w.sets[h] ELSE SetProjFromWire(w.sets[h])],
                    copy |-> w.copy]

\* values of possibly different kinds are compared through their JSON text
SameVal(a, b) == ToJson(a) = ToJson(b)

StepMatches ==
  /\ k <= Len(Ev.steps)
  /\ ActionOf(St)
  /\ SameVal(hist'[Len(hist')].step.ret, Ev.obs.rets[k])
  /\ hist'[Len(hist')].proj = ProjFromWire(Ev.obs.projs[k])
  /\ k' = k + 1 /\ UNCHANGED <<l, bad>>

Reset(nextBad) == /\ sets' = [h \in Handles |-> None] /\ copy' = None /\ hist' = <<>>
                  /\ l' = l + 1 /\ k' = 1 /\ bad' = nextBad

\* the history is fully explained: next history
HistoryDone == k > Len(Ev.steps) /\ Reset(bad)

\* no action explains the recorded step: report it and move on
StepUnexplained ==
  /\ k <= Len(Ev.steps)
  /\ ~ENABLED StepMatches
  /\ Reset(Note(bad, [event |-> l, step |-> k]))

TraceInit == /\ sets = [h \in Handles |-> None] /\ copy = None /\ hist = <<>>
             /\ l = 1 /\ k = 1 /\ bad = <<>>

TraceNext == l <= Len(Trace) /\ (StepMatches \/ HistoryDone \/ StepUnexplained)

Done == l = Len(Trace) + 1
WriteOut ==
  Done => Serialize(ToJson([events |-> Len(Trace), bad |-> bad]) \o "\n", "out.json",
                    [format |-> "TXT", charset |-> "UTF-8",
                     openOptions |-> <<"WRITE", "CREATE", "TRUNCATE_EXISTING">>]).exitValue = 0
=============================================================================
