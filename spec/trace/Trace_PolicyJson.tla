-------------------------- MODULE Trace_PolicyJson --------------------------
(***************************************************************************)
(* Validation of recorded JSON round trips of policies (C09).  Event       *)
(* "pjson": the subject policy (built from an AST, reparsed from its text  *)
(* or decoded from its JSON), the JSON document the real encoder wrote for *)
(* it (TJSON), the policy the real decoder read back, the policy after the *)
(* detour JSON -> text -> JSON, and the outcomes of all of them under the  *)
(* event's environments.  The specification                                 *)
(*   - reads the recorded document ITSELF (PolicyJson!FromEst) and demands *)
(*     the subject's AST (SameAst), so an encoder and a decoder that are   *)
(*     wrong in the same way are still caught;                             *)
(*   - demands SameAst for what the real decoder returned, and for the     *)
(*     detour through text the policy that the text alone denotes;         *)
(*   - demands the same outcome for every encoding under every environment *)
(*     and, where the environments are in the specification's universe,    *)
(*     the outcome CedarPolicy!Outcome defines.                            *)
(* Event "pjsonset": policy ids and policies survive PolicySet JSON.       *)
(* (Whether a second encoding repeats the bytes is recorded but not judged: *)
(* the statement does not ask for it, and a set literal whose members      *)
(* collide around 2^64 is written in a different order after a decode --   *)
(* the recorded finding of C13.)                                           *)
(***************************************************************************)
EXTENDS PolicyJson, SyntaxTables, TraceTables, SequencesExt, Json, IOUtils, TLC

Trace == ndJsonDeserialize("trace.ndjson")

Note(b, x) == IF Len(b) < 100 THEN Append(b, x) ELSE Append(b, [event |-> x.event])

VARIABLES l, bad, judged, litNoted
vars == <<l, bad, judged, litNoted>>

BackWhy(what, subj, r) ==
  IF ~r.ok THEN <<what \o ": rejected">>
  ELSE IF ~SameAst(PolicyFromWire(r.policy), subj) THEN <<what \o ": AST differs">> ELSE <<>>

AzWhy(ev, subj) ==
  LET az == ev.obs.az IN
  (IF \E v \in DOMAIN az : az[v] # az[1] THEN <<"encodings authorize differently">> ELSE <<>>)
  \o (IF "envs" \in DOMAIN ev /\ Len(az) >= 1
      THEN (IF \E k \in DOMAIN ev.envs : az[1][k] \notin {"n/a", Outcome(subj, EnvFromWire(ev.envs[k]))}
            THEN <<"outcome differs from the specification">> ELSE <<>>)
      ELSE <<>>)

\* the recorded document in other spellings of the format (explicit scope entities, split pattern literals,
\* member order, explicit empty members, escapes and white space, value <-> constructor-call forms): the
\* specification reads every respelled document itself; where it reads the subject's policy, the real decoder must
\* too.  "strict" respellings are the ones the format defines as the same document -- if the specification reads
\* something else from one of those, the harness (not the code) is wrong and says so.
AltsWhy(alts, subj, az1) ==
  LET Judge(a) ==
        LET s == FromEst(a.json) IN
        IF ~s.ok \/ ~SameAst(s.v, subj)
        THEN (IF a.strict THEN <<"harness: respelling " \o a.how \o " is not the same document for the specification">> ELSE <<>>)
        ELSE <<"+">> \o BackWhy("respelled (" \o a.how \o ")", subj, a.back)     \* "+": one respelling judged
             \o (IF a.back.ok /\ a.az # az1 THEN <<"respelled (" \o a.how \o "): authorizes differently">> ELSE <<>>)
      RECURSIVE AllAlts(_)
      AllAlts(i) == IF i > Len(alts) THEN <<>> ELSE Judge(alts[i]) \o AllAlts(i + 1)
  IN AllAlts(1)
PJsonWhy(ev) ==
  LET o == ev.obs IN
  IF "skip" \in DOMAIN o THEN <<>>
  ELSE IF "subject" \notin DOMAIN o THEN <<"panic">>
  ELSE LET subj == PolicyFromWire(o.subject)
           spec == FromEst(o.json)
       IN (IF ~spec.ok THEN <<"specification reading: not a policy document">>
           ELSE IF ~SameAst(spec.v, subj) THEN <<"specification reading: AST differs">> ELSE <<>>)
          \o BackWhy("decoded", subj, o.back)
          \* identical only under the comparison form: a decimal / ipaddr literal node came back as a constructor call
          \o (IF o.back.ok /\ SameAst(PolicyFromWire(o.back.policy), subj) /\ ~SameAstStrict(PolicyFromWire(o.back.policy), subj)
              THEN <<"*lit">> ELSE <<>>)
          \o (IF "cross" \in DOMAIN o
              THEN BackWhy("JSON -> text -> JSON", IF o.cross.ok THEN PolicyFromWire(o.cross.base) ELSE subj, o.cross) ELSE <<>>)
          \o (IF "az" \in DOMAIN o THEN AzWhy(ev, subj) ELSE <<>>)
          \o (IF "alts" \in DOMAIN o /\ spec.ok /\ SameAst(spec.v, subj) /\ o.back.ok THEN AltsWhy(o.alts, subj, o.az[1]) ELSE <<>>)

SetWhy(ev) ==
  LET o == ev.obs IN
  IF "back" \notin DOMAIN o THEN <<"panic">>
  ELSE IF ~o.back.ok THEN <<"set: rejected">>
  ELSE LET ids == { o.subjects[i].id : i \in DOMAIN o.subjects }
           got == { o.back.items[i].id : i \in DOMAIN o.back.items } IN
       IF ids # got \/ Len(o.back.items) # Cardinality(ids) THEN <<"set: ids differ">>
       ELSE IF \E i \in DOMAIN o.back.items :
                 LET s == o.subjects[CHOOSE k \in DOMAIN o.subjects : o.subjects[k].id = o.back.items[i].id /\
                                         \A m \in DOMAIN o.subjects : o.subjects[m].id = o.subjects[k].id => m <= k] IN
                 ~SameAst(PolicyFromWire(o.back.items[i].policy), PolicyFromWire(s.policy))
       THEN <<"set: policy differs under its id">>
       ELSE <<>>

Why(ev) == IF ev.op = "pjsonset" THEN SetWhy(ev) ELSE PJsonWhy(ev)
SpecSaw(ev) == IF ev.op = "pjson" /\ "json" \in DOMAIN ev.obs /\ "subject" \in DOMAIN ev.obs
               THEN LET r == FromEst(ev.obs.json) IN IF r.ok THEN [ok |-> TRUE] ELSE [ok |-> FALSE] ELSE [ok |-> FALSE]

Init == l = 1 /\ bad = <<>> /\ judged = 0 /\ litNoted = FALSE
Next == /\ l <= Len(Trace)
        /\ \E raw \in {Why(Trace[l])} :
             LET w0 == SelectSeq(raw, LAMBDA x : x # "+")
                 hasLit == \E i \in DOMAIN w0 : w0[i] = "*lit"
                 \* the literal-node deviation is reported once per trace (nearly every policy with a decimal shows it)
                 w == SelectSeq(w0, LAMBDA x : x # "*lit")
                      \o (IF hasLit /\ ~litNoted
                          THEN <<"decoded: decimal / ipaddr literal nodes came back as constructor calls (the same policy under the comparison form only)">>
                          ELSE <<>>) IN
             /\ bad' = IF w = <<>> THEN bad ELSE Note(bad, [event |-> l, why |-> w])
             /\ judged' = judged + Len(raw) - Len(w0)
             /\ litNoted' = (litNoted \/ hasLit)
        /\ l' = l + 1
Done == l = Len(Trace) + 1
WriteOut ==
  Done => Serialize(ToJson([events |-> Len(Trace), bad |-> bad, respellings_judged |-> judged]) \o "\n", "out.json",
                    [format |-> "TXT", charset |-> "UTF-8",
                     openOptions |-> <<"WRITE", "CREATE", "TRUNCATE_EXISTING">>]).exitValue = 0
=============================================================================
