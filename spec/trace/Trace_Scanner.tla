---------------------------- MODULE Trace_Scanner ----------------------------
(***************************************************************************)
(* Validation of recorded tokenizer / streaming-decoder runs (C18).        *)
(* Event "scan": a document (code points), reader schedules, and what the  *)
(* real code did: the tokens of the whole byte slice (class, text, byte    *)
(* offset, line, column), the positions of the policies, per schedule      *)
(* whether tokenizer and streaming decoder fed by that reader gave the     *)
(* same result as the whole slice, and the positions that authorization    *)
(* diagnostics report.  The specification computes the reference           *)
(* tokenization with positions itself (ScannerRef!LexPos) and judges:      *)
(*   - tokens = reference tokens (valid documents)                         *)
(*   - policy positions = positions of the first token of every policy     *)
(*   - every schedule without a fault: same as the whole slice             *)
(*   - every schedule with a reader fault: an error, never a result        *)
(*   - diagnostic positions = policy positions                             *)
(***************************************************************************)
EXTENDS ScannerRef, SequencesExt, FiniteSetsExt, Json, IOUtils, TLC

Trace == ndJsonDeserialize("trace.ndjson")

Note(b, x) == IF Len(b) < 100 THEN Append(b, x) ELSE Append(b, [event |-> x.event])

VARIABLES l, bad
vars == <<l, bad>>

SamePos(p, t) == p.off = t.off /\ p.line = t.line /\ p.col = t.col
TokOK(doc, got, t) == got.t = t.t /\ got.text = SubSeq(doc, t.a, t.b) /\ SamePos(got, t)

FirstBadTok(doc, got, ref) ==
  LET n == IF Len(got) < Len(ref) THEN Len(got) ELSE Len(ref)
      ks == { k \in 1..n : ~TokOK(doc, got[k], ref[k]) }
  IN IF ks # {} THEN Min(ks) ELSE IF Len(got) # Len(ref) THEN n + 1 ELSE 0

RunsWhy(o) ==
  LET ks == { i \in DOMAIN o.runs :
                IF o.runs[i].same THEN FALSE
                ELSE IF o.runs[i].fault THEN o.runs[i].tokOk \/ o.runs[i].decOk ELSE TRUE }
  IN IF ks = {} THEN <<>> ELSE <<[what |-> "schedule", idx |-> Min(ks)]>>

ValidWhy(ev) ==
  LET o == ev.obs  doc == ev.doc  ref == LexPos(doc) IN
  IF ~ref.ok THEN <<[what |-> "reference rejects the document"]>>
  ELSE LET starts == SetToSortSeq(PolicyStarts(doc, ref.toks), <)
           tokWhy == IF ~o.slice.ok THEN <<[what |-> "tokenizer rejects"]>>
                     ELSE LET k == FirstBadTok(doc, o.slice.toks, ref.toks) IN
                          IF k = 0 THEN <<>>
                          ELSE <<[what |-> "token", idx |-> k,
                                  exp |-> IF k <= Len(ref.toks) THEN ref.toks[k] ELSE [t |-> "none"]]>>
           polWhy == IF ~o.pols.ok THEN <<[what |-> "parser rejects"]>>
                     ELSE IF o.pols.n # Len(starts) THEN <<[what |-> "policy count", exp |-> Len(starts)]>>
                     ELSE LET ks == { k \in DOMAIN starts : ~SamePos(o.pols.pos[k], ref.toks[starts[k]]) } IN
                          IF ks = {} THEN <<>>
                          ELSE <<[what |-> "policy position", idx |-> Min(ks), exp |-> ref.toks[starts[Min(ks)]]]>>
           diagWhy == LET ks == { k \in DOMAIN o.diag :
                                    \/ o.diag[k].idx + 1 > Len(starts)
                                    \/ ~SamePos(o.diag[k].pos, ref.toks[starts[o.diag[k].idx + 1]])
                                    \/ o.diag[k].pos.file # "doc.cedar" } IN
                      IF ks = {} THEN <<>> ELSE <<[what |-> "diagnostic position", idx |-> o.diag[Min(ks)].idx]>>
       IN tokWhy \o polWhy \o diagWhy

Why(ev) ==
  IF "runs" \notin DOMAIN ev.obs THEN <<[what |-> "panic"]>>
  ELSE (IF ev.valid THEN ValidWhy(ev) ELSE <<>>) \o RunsWhy(ev.obs)

Init == l = 1 /\ bad = <<>>
Next == /\ l <= Len(Trace)
        /\ \E w \in {Why(Trace[l])} :
             bad' = IF w = <<>> THEN bad ELSE Note(bad, [event |-> l, why |-> w])
        /\ l' = l + 1
Done == l = Len(Trace) + 1
WriteOut ==
  Done => Serialize(ToJson([events |-> Len(Trace), bad |-> bad]) \o "\n", "out.json",
                    [format |-> "TXT", charset |-> "UTF-8",
                     openOptions |-> <<"WRITE", "CREATE", "TRUNCATE_EXISTING">>]).exitValue = 0
=============================================================================
