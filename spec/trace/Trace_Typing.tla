---------------------------- MODULE Trace_Typing ----------------------------
(***************************************************************************)
(* Validation of recorded validator verdicts (C15).  table.ndjson holds    *)
(* the schema and the conforming environments of the universe (MC_Typing). *)
(* Event "typing": a batch of policies with the real validator's verdict   *)
(* in strict and in permissive mode.  For every policy that the validator  *)
(* ACCEPTED, the specification evaluates the policy (CedarEval) under      *)
(* every conforming environment and demands Typing!Sound: no error of a    *)
(* forbidden class.  Event "typingenvs": the real Validator.Request /      *)
(* Entities verdicts for the environments -- every one must conform        *)
(* (otherwise the universe has drifted from the code's notion of           *)
(* conformance and nothing may be concluded).                              *)
(***************************************************************************)
EXTENDS Typing, Json, IOUtils

Table == ndJsonDeserialize("table.ndjson")[1]
Trace == ndJsonDeserialize("trace.ndjson")
Envs == [k \in DOMAIN Table.envs |-> EnvFromWire(Table.envs[k])]
Note(b, x) == IF Len(b) < 100 THEN Append(b, x) ELSE Append(b, [event |-> x.event])

VARIABLES l, bad
vars == <<l, bad>>

Accepted(o) == (IF o.strict = "accept" THEN {"strict"} ELSE {}) \cup (IF o.permissive = "accept" THEN {"permissive"} ELSE {})
Items(ev) ==
  IF ev.op = "typingenvs"
  THEN LET ks == { k \in DOMAIN ev.obs.conform : ~ev.obs.conform[k] } IN
       IF ks = {} THEN <<>> ELSE <<[drift |-> TRUE, env |-> CHOOSE k \in ks : TRUE]>>
  ELSE LET bads == { i \in DOMAIN ev.policies :
                       LET o == ev.obs.verdicts[i] IN
                       \/ o.strict \notin {"accept", "reject"} \/ o.permissive \notin {"accept", "reject"}
                       \/ (Accepted(o) # {} /\ ~Sound(PolicyFromWire(ev.policies[i]), Envs)) }
       IN [k \in 1..Cardinality(bads) |->
             LET i == CHOOSE x \in bads : Cardinality({ y \in bads : y < x }) = k - 1
                 p == PolicyFromWire(ev.policies[i])
                 ws == Witnesses(p, Envs)
             IN IF ws = {} THEN [idx |-> i, panic |-> TRUE]
                ELSE LET w == CHOOSE x \in ws : \A y \in ws : x <= y IN
                     [idx |-> i, modes |-> Accepted(ev.obs.verdicts[i]), env |-> w, cls |-> PolicyErrClass(p, Envs[w]), n |-> Cardinality(ws)]]

Init == l = 1 /\ bad = <<>>
Next == /\ l <= Len(Trace)
        /\ \E w \in {Items(Trace[l])} :
             bad' = IF w = <<>> THEN bad ELSE Note(bad, [event |-> l, items |-> w])
        /\ l' = l + 1
Done == l = Len(Trace) + 1
WriteOut ==
  Done => Serialize(ToJson([events |-> Len(Trace), bad |-> bad]) \o "\n", "out.json",
                    [format |-> "TXT", charset |-> "UTF-8",
                     openOptions |-> <<"WRITE", "CREATE", "TRUNCATE_EXISTING">>]).exitValue = 0
=============================================================================
