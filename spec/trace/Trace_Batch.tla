----------------------------- MODULE Trace_Batch -----------------------------
(***************************************************************************)
(* Validation of recorded batch authorizations (C05, M3 and confirmation). *)
(* An event carries the policies, the request template, the variable       *)
(* lists, the fault plan and what happened: the callback log (substitution,*)
(* request, decision, reasons of every Result, in callback order) and the  *)
(* class of the returned error.  Accepted iff Batch!Acceptable: the log is *)
(* the expected multiset (or, under a fault at k, k entries of it) and the *)
(* error is the right one.  Callback ORDER is free.  `cross` records       *)
(* whether cedar.Authorize on Result.Request agreed with the Result.       *)
(***************************************************************************)
EXTENDS Batch, Json, IOUtils, TLC

Trace == ndJsonDeserialize("trace.ndjson")

\* every unexplained event is recorded; only the first 100 with details (the state would otherwise grow
\* quadratically when most of a trace is unexplained)
Note(b, x) == IF Len(b) < 100 THEN Append(b, x) ELSE Append(b, [event |-> x.event])

VARIABLES l, bad
vars == <<l, bad>>

CallFromWire(w) == [values |-> [key \in DOMAIN w.values |-> FromWire(w.values[key])],
                    request |-> [p |-> FromWire(w.request.p), a |-> FromWire(w.request.a), r |-> FromWire(w.request.r), c |-> FromWire(w.request.c)],
                    decision |-> w.decision, reasons |-> SeqRange(w.reasons)]
VarsFromWire(ws) == [i \in DOMAIN ws |-> [key |-> ws[i].key, values |-> [j \in DOMAIN ws[i].values |-> FromWire(ws[i].values[j])]]]

EventOk(ev) ==
  /\ "calls" \in DOMAIN ev.obs
  /\ \A i \in DOMAIN ev.obs.calls : ev.obs.calls[i].cross
  /\ Acceptable(PolicySetFromWire(ev.policies), EnvFromWire(ev.template), VarsFromWire(ev.vars), ev.fault,
                [i \in DOMAIN ev.obs.calls |-> CallFromWire(ev.obs.calls[i])], ev.obs.ret)

Init == l = 1 /\ bad = <<>>
Next == /\ l <= Len(Trace)
        /\ bad' = IF EventOk(Trace[l]) THEN bad ELSE Note(bad, [event |-> l])
        /\ l' = l + 1
Done == l = Len(Trace) + 1
WriteOut ==
  Done => Serialize(ToJson([events |-> Len(Trace), bad |-> bad]) \o "\n", "out.json",
                    [format |-> "TXT", charset |-> "UTF-8",
                     openOptions |-> <<"WRITE", "CREATE", "TRUNCATE_EXISTING">>]).exitValue = 0
=============================================================================
