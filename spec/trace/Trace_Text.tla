----------------------------- MODULE Trace_Text -----------------------------
(***************************************************************************)
(* Validation of recorded text forms (C12).  Event "textform": a value v   *)
(* with the code points of String() and MarshalCedar() as the real code    *)
(* printed them and what the real parsers made of them.  The specification *)
(* reads both texts ITSELF (TextForms!SpecRead: the documented literal     *)
(* syntax; TextForms!ReadValue: lexer + expression grammar + evaluator), so *)
(* a printer and a parser that are wrong in the same way are still caught. *)
(***************************************************************************)
EXTENDS TextForms, SyntaxTables, TraceTables, Json, IOUtils, TLC

Trace == ndJsonDeserialize("trace.ndjson")

Note(b, x) == IF Len(b) < 100 THEN Append(b, x) ELSE Append(b, [event |-> x.event])

VARIABLES l, bad
vars == <<l, bad>>

IsV(r, v) == r.ok /\ FromWire(r.v) = v

Why(ev) ==
  LET o == ev.obs  v == FromWire(ev.v)  kind == KindOfValue(v) IN
  IF "cedar" \notin DOMAIN o THEN <<"panic">>
  ELSE (IF kind # "none"
        THEN (IF SpecRead(kind, o.str) = Ok(v) THEN <<>> ELSE <<"print">>)
             \o (IF IsV(o.reparsed, v) THEN <<>> ELSE <<"parse">>)
        ELSE IF v.k = "ent"
        THEN (IF ReadUID(o.str) = Ok(v) THEN <<>> ELSE <<"print">>)
             \o (IF IsV(o.reparsed, v) THEN <<>> ELSE <<"parse">>)
        ELSE <<>>)
       \o (IF Obs(ReadValue(o.cedar)) = Ok(v) THEN <<>> ELSE <<"cedar">>)
       \o (IF IsV(o.evalback, v) THEN <<>> ELSE <<"evalback">>)

SpecSaw(ev) ==
  LET o == ev.obs  v == FromWire(ev.v)  kind == KindOfValue(v) IN
  IF "cedar" \notin DOMAIN o THEN [ok |-> FALSE]
  ELSE [str |-> IF kind # "none" THEN Obs(SpecRead(kind, o.str)) ELSE IF v.k = "ent" THEN Obs(ReadUID(o.str)) ELSE [ok |-> FALSE],
        cedar |-> Obs(ReadValue(o.cedar))]

Init == l = 1 /\ bad = <<>>
Next == /\ l <= Len(Trace)
        /\ \E w \in {Why(Trace[l])} :
             bad' = IF w = <<>> THEN bad ELSE Note(bad, [event |-> l, why |-> w, exp |-> SpecSaw(Trace[l])])
        /\ l' = l + 1
Done == l = Len(Trace) + 1
WriteOut ==
  Done => Serialize(ToJson([events |-> Len(Trace), bad |-> bad]) \o "\n", "out.json",
                    [format |-> "TXT", charset |-> "UTF-8",
                     openOptions |-> <<"WRITE", "CREATE", "TRUNCATE_EXISTING">>]).exitValue = 0
=============================================================================
