----------------------------- MODULE Trace_Parse -----------------------------
(***************************************************************************)
(* Validation of recorded parses (C07, confirmation and M3).  An event is  *)
(* a token sequence (laid out as text by the harness) and what the real    *)
(* parser made of it: obs.list (PolicyList.UnmarshalCedar) and obs.single  *)
(* (Policy.UnmarshalCedar), each [ok, policies].  The specification's      *)
(* parser (Syntax!ParsePolicyList) decides: same acceptance, same ASTs --  *)
(* also for obs.padded, the same text behind leading white space.          *)
(***************************************************************************)
EXTENDS Syntax, SyntaxTables, Json, IOUtils, TLC

Trace == ndJsonDeserialize("trace.ndjson")

\* every unexplained event is recorded; only the first 100 with details (the state would otherwise grow
\* quadratically when most of a trace is unexplained)
Note(b, x) == IF Len(b) < 100 THEN Append(b, x) ELSE Append(b, [event |-> x.event])

VARIABLES l, bad
vars == <<l, bad>>

Expected(ev) == ParsePolicyList(ev.tokens)
Agrees(res, exp) == /\ res.ok = exp.ok
                    /\ (exp.ok => /\ Len(res.policies) = Len(exp.v)
                                  /\ \A k \in DOMAIN exp.v : PolicyFromWire(res.policies[k]) = PolicyFromWire(exp.v[k]))
EventOk(ev) ==
  LET exp == Expected(ev) IN
  /\ "list" \in DOMAIN ev.obs
  /\ Agrees(ev.obs.list, exp)
  /\ ((~exp.ok \/ Len(exp.v) = 1) => Agrees(ev.obs.single, exp))
  \* leading white space and comments are not tokens: the same token sequence behind n bytes of padding (n chosen by
  \* the harness so that a multi-byte character is cut at a multiple of the tokenizer's read buffer) is the same list
  /\ ("padded" \in DOMAIN ev.obs => \A i \in DOMAIN ev.obs.padded : Agrees(ev.obs.padded[i], exp))

Init == l = 1 /\ bad = <<>>
Next == /\ l <= Len(Trace)
        /\ bad' = IF EventOk(Trace[l]) THEN bad ELSE Note(bad, [event |-> l, exp |-> Expected(Trace[l])])
        /\ l' = l + 1
Done == l = Len(Trace) + 1
WriteOut ==
  Done => Serialize(ToJson([events |-> Len(Trace), bad |-> bad]) \o "\n", "out.json",
                    [format |-> "TXT", charset |-> "UTF-8",
                     openOptions |-> <<"WRITE", "CREATE", "TRUNCATE_EXISTING">>]).exitValue = 0
=============================================================================
