---------------------------- MODULE Trace_Partial ----------------------------
(***************************************************************************)
(* Validation of recorded partial evaluations (C06).  An event is a policy, *)
(* a partial environment and what x/exp/eval.PartialPolicy answered:        *)
(*   obs = [keep |-> BOOLEAN, residual |-> <policy>]                        *)
(* TLC evaluates the original and the residual under every completion of    *)
(* the unknowns (Partial!Unsound); the implementation only supplies the     *)
(* residual, so no assumption about its shape is made.                      *)
(***************************************************************************)
EXTENDS Partial, Json, IOUtils, TLC

Trace == ndJsonDeserialize("trace.ndjson")

\* every unexplained event is recorded; only the first 100 with details (the state would otherwise grow
\* quadratically when most of a trace is unexplained)
Note(b, x) == IF Len(b) < 100 THEN Append(b, x) ELSE Append(b, [event |-> x.event])

VARIABLES l, bad, nsat
vars == <<l, bad, nsat>>

\* Event "batchignore": batch.Authorize over a request template with ignored parts and no variables, together with
\* completions of the ignored parts.  The consequence of the statement at the level of the authorizer: whenever a
\* permit policy is satisfied under a completion (evaluated HERE, by the specification), the batch answer under
\* "ignore" is either allow with that policy among the reasons, or a denial by forbid policies (a forbid policy whose
\* scope names an ignored part is widened too, so denials are possible); it is never a denial without reasons, never
\* an allow that omits the policy, and exactly one result is delivered.
IgnoreBad(ev) ==
  IF "ok" \notin DOMAIN ev.obs \/ ~ev.obs.ok THEN {"panic or error"}
  ELSE IF Len(ev.obs.results) # 1 THEN {"not exactly one result"}
  ELSE LET ps == [i \in DOMAIN ev.policies |-> [id |-> ev.policies[i].id, p |-> PolicyFromWire(ev.policies[i].policy)]]
           res == ev.obs.results[1]
           reasons == { res.reasons[i] : i \in DOMAIN res.reasons }
           forbidIds == { ps[i].id : i \in { k \in DOMAIN ps : ps[k].p.effect = "forbid" } }
           permitIds == { ps[i].id : i \in { k \in DOMAIN ps : ps[k].p.effect = "permit" } }
       IN (IF res.decision = "allow" /\ ~(reasons \subseteq permitIds /\ reasons # {}) THEN {"allow without permit reasons"} ELSE {})
          \cup (IF res.decision = "deny" /\ ~(reasons \subseteq forbidIds) THEN {"deny with permit reasons"} ELSE {})
          \cup { k \in DOMAIN ev.completions :
                   LET env == EnvFromWire(ev.completions[k])
                       sat == { ps[i].id : i \in { j \in DOMAIN ps : ps[j].p.effect = "permit" /\ Outcome(ps[j].p, env) = "sat" } }
                   IN sat # {} /\ ~( (res.decision = "allow" /\ sat \subseteq reasons)
                                     \/ (res.decision = "deny" /\ reasons # {}) ) }

\* non-vacuity counter: completions under which some permit policy is satisfied
IgnoreSat(ev) ==
  IF "op" \in DOMAIN ev /\ ev.op = "batchignore"
  THEN Cardinality({ k \in DOMAIN ev.completions :
                      \E i \in DOMAIN ev.policies :
                        LET p == PolicyFromWire(ev.policies[i].policy) IN
                        p.effect = "permit" /\ Outcome(p, EnvFromWire(ev.completions[k])) = "sat" })
  ELSE 0

BadOf(ev) ==
  IF "op" \in DOMAIN ev /\ ev.op = "batchignore" THEN IgnoreBad(ev)
  ELSE IF "keep" \notin DOMAIN ev.obs THEN {"panic"}
  ELSE LET p == PolicyFromWire(ev.policy)
           pe == EnvFromWire(ev.penv)
           res == IF ev.obs.keep THEN PolicyFromWire(ev.obs.residual) ELSE p
       IN Unsound(p, pe, ev.obs.keep, res)

Init == l = 1 /\ bad = <<>> /\ nsat = 0
Next == /\ l <= Len(Trace)
        /\ LET b == BadOf(Trace[l]) IN
           bad' = IF b = {} THEN bad ELSE Note(bad, [event |-> l, n |-> Cardinality(b), witness |-> CHOOSE c \in b : TRUE])
        /\ nsat' = nsat + IgnoreSat(Trace[l])
        /\ l' = l + 1
Done == l = Len(Trace) + 1
WriteOut ==
  Done => Serialize(ToJson([events |-> Len(Trace), bad |-> bad, ignore_completions_with_satisfied_permit |-> nsat]) \o "\n", "out.json",
                    [format |-> "TXT", charset |-> "UTF-8",
                     openOptions |-> <<"WRITE", "CREATE", "TRUNCATE_EXISTING">>]).exitValue = 0
=============================================================================
