---------------------------- MODULE Trace_Partial ----------------------------
(***************************************************************************)
(* Validation of recorded partial evaluations (C06).  An event is a policy, *)
(* a partial environment and what x/exp/eval.PartialPolicy answered:        *)
(*   obs = [keep |-> BOOLEAN, residual |-> <policy>]                        *)
(* TLC evaluates the original and the residual under every completion of    *)
(* the unknowns (Partial!Unsound); the implementation only supplies the     *)
(* residual, so no assumption about its shape is made.                      *)
(***************************************************************************)
EXTENDS Partial, Json, IOUtils, TLC

Trace == ndJsonDeserialize("trace.ndjson")

\* every unexplained event is recorded; only the first 100 with details (the state would otherwise grow
\* quadratically when most of a trace is unexplained)
Note(b, x) == IF Len(b) < 100 THEN Append(b, x) ELSE Append(b, [event |-> x.event])

VARIABLES l, bad
vars == <<l, bad>>

BadOf(ev) ==
  IF "keep" \notin DOMAIN ev.obs THEN {"panic"}
  ELSE LET p == PolicyFromWire(ev.policy)
           pe == EnvFromWire(ev.penv)
           res == IF ev.obs.keep THEN PolicyFromWire(ev.obs.residual) ELSE p
       IN Unsound(p, pe, ev.obs.keep, res)

Init == l = 1 /\ bad = <<>>
Next == /\ l <= Len(Trace)
        /\ LET b == BadOf(Trace[l]) IN
           bad' = IF b = {} THEN bad ELSE Note(bad, [event |-> l, n |-> Cardinality(b), witness |-> CHOOSE c \in b : TRUE])
        /\ l' = l + 1
Done == l = Len(Trace) + 1
WriteOut ==
  Done => Serialize(ToJson([events |-> Len(Trace), bad |-> bad]) \o "\n", "out.json",
                    [format |-> "TXT", charset |-> "UTF-8",
                     openOptions |-> <<"WRITE", "CREATE", "TRUNCATE_EXISTING">>]).exitValue = 0
=============================================================================
