----------------------------- MODULE TraceTables -----------------------------
(* Spelling tables of a recorded trace: sequences of [name, cps], and the same in the
   direction code points -> name as functions keyed by ToString(cps) (TrByCps).  This file
   is the empty default; for every validated trace the checker (tools/props2.py
   trace_tables) generates the module from the union of the events' obs.words and obs.names. *)
TrWords == <<>>
TrNames == <<>>
TrByCps == [on |-> FALSE]
=============================================================================
