----------------------------- MODULE TraceTables -----------------------------
(* Spelling tables of a recorded trace: sequences of [name, cps].  This file is the
   empty default; for every validated trace the checker (tools/props.py trace_tables)
   generates the module from the union of the events' obs.words and obs.names. *)
TrWords == <<>>
TrNames == <<>>
=============================================================================
