----------------------------- MODULE Trace_Authz -----------------------------
(***************************************************************************)
(* Trace validation of recorded authorizations (C02, C14, M3).  An event:  *)
(*   [op |-> "authz", policies |-> <<[id, policy]..>>, env |-> <env>,       *)
(*    obs |-> [A |-> r, B |-> r, C |-> r, pos |-> "ok" | "n/a" | "bad: .."]] *)
(* where r = [st, decision, reasons, errors] as reported by the real       *)
(* authorizer (st = "skip" when that way was not applicable)               *)
(* through a PolicySet (A), an order-fixing PolicyIterator (B) and a parsed *)
(* document (C).  Every one of them must be the abstract AuthzResult of the *)
(* policies; `pos` must not report a wrong source position.                 *)
(***************************************************************************)
EXTENDS Authz, Json, IOUtils, TLC

Trace == ndJsonDeserialize("trace.ndjson")

\* every unexplained event is recorded; only the first 100 with details (the state would otherwise grow
\* quadratically when most of a trace is unexplained)
Note(b, x) == IF Len(b) < 100 THEN Append(b, x) ELSE Append(b, [event |-> x.event])

VARIABLES l, bad
vars == <<l, bad>>

ResFromWire(r) == [decision |-> r.decision, reasons |-> SeqRange(r.reasons), errors |-> SeqRange(r.errors)]

Expected(ev) == AuthzResult(PolicySetFromWire(ev.policies), EnvFromWire(ev.env))

WayOk(o, exp) == o.st = "skip" \/ (o.st = "ok" /\ ResFromWire(o) = exp)

EventOk(ev) ==
  LET exp == Expected(ev) IN
  /\ "A" \in DOMAIN ev.obs      \* (a panic is recorded as [ok |-> FALSE, panic |-> ..])
  /\ WayOk(ev.obs.A, exp) /\ WayOk(ev.obs.B, exp) /\ WayOk(ev.obs.C, exp)
  /\ ev.obs.pos \in {"ok", "n/a"}

Init == l = 1 /\ bad = <<>>

Next == /\ l <= Len(Trace)
        /\ bad' = IF EventOk(Trace[l]) THEN bad
                  ELSE Note(bad, [event |-> l, exp |-> Expected(Trace[l])])
        /\ l' = l + 1

Done == l = Len(Trace) + 1

WriteOut ==
  Done => Serialize(ToJson([events |-> Len(Trace), bad |-> bad]) \o "\n", "out.json",
                    [format |-> "TXT", charset |-> "UTF-8",
                     openOptions |-> <<"WRITE", "CREATE", "TRUNCATE_EXISTING">>]).exitValue = 0
=============================================================================
