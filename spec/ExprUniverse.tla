---------------------------- MODULE ExprUniverse ----------------------------
(***************************************************************************)
(* Bounded universe of expressions (wire form) used by the equivalence     *)
(* properties (C04 folding, C06 partial evaluation, C08/C09 codecs):       *)
(*   Depth1 : every operator applied to typed operand tuples drawn from    *)
(*            constant / non-constant / erroring atoms of every kind, plus *)
(*            every operand position filled with an erroring and with a    *)
(*            wrong-kind operand;                                          *)
(*   Depth2 : every (parent operator, operand position, child) with the    *)
(*            child a representative Depth1 expression of every operator   *)
(*            and the other operands atoms.                                *)
(* Atoms are chosen so that, over Universe!EnvUW, every comparison and     *)
(* every entity-dependent operator takes both truth values and constant    *)
(* sub-expressions occur inside non-constant ones and vice versa.          *)
(***************************************************************************)
EXTENDS CedarPolicy, Universe

V(v) == [op |-> "val", v |-> v]
Var(n) == [op |-> "var", name |-> n]
Bin(op, a, b) == [op |-> op, l |-> a, r |-> b]
Un(op, a) == [op |-> op, a |-> a]
Ext(fn, args) == [op |-> "ext", fn |-> fn, args |-> args]
Str(s) == V(VStr(s))
Acc(a, k) == [op |-> "access", a |-> a, attr |-> k]
Has(a, k) == [op |-> "has", a |-> a, attr |-> k]
If(c, t, e) == [op |-> "if", c |-> c, t |-> t, e |-> e]
SetE(els) == [op |-> "set", els |-> els]
RecE(kv) == [op |-> "rec", kv |-> kv]
WSet(s) == [k |-> "set", els |-> s]
Flat(ss) == LET RECURSIVE FlatFrom(_) FlatFrom(i) == IF i > Len(ss) THEN <<>> ELSE ss[i] \o FlatFrom(i + 1) IN FlatFrom(1)

T == V(VTrue)   F == V(VFalse)
L1 == V(VInt(1))   L2 == V(VInt(2))   MaxL == V(VLong(MaxI64))
SA == Str(<<97>>)   SB == Str(<<98>>)
UA == V(U("a"))   GG == V(G("g"))   AV == V(A("view"))
PVar == Var("principal")   AVar == Var("action")   RVar == Var("resource")   CVar == Var("context")
ErrE == Bin("add", L1, SA)
OvfE == Bin("add", MaxL, L1)
BadExt == Ext("decimal", <<Str(<<120>>)>>)
NC  == Bin("eq", PVar, UA)                       \* non-constant bool
NCH == Has(CVar, "k")                            \* non-constant bool (context shape)
CK  == Acc(CVar, "k")                            \* long / string / missing, by context
CS  == Acc(CVar, "s")

Bools == <<T, F, NC, NCH>>
Longs == <<L1, MaxL, CK>>
Strs  == <<SA, CS>>
Ents  == <<UA, GG, PVar, RVar>>
Sets  == <<V(WSet(<<VInt(1), VInt(2)>>)), SetE(<<L1, CK>>), V(WSet(<<U("a"), G("g")>>)), SetE(<<>>)>>
Recs  == <<V(VRec([a |-> VInt(1)])), CVar, RecE(<<[key |-> "a", val |-> L1], [key |-> "b", val |-> PVar]>>)>>
Decs  == <<V(VDec(FromInt(15000))), Ext("decimal", <<Str(<<49, 46, 53>>)>>)>>
Ips   == <<Ext("ip", <<Str(<<49, 48, 46, 49, 46, 50, 46, 51>>)>>), Ext("ip", <<Str(<<49, 48, 46, 48, 46, 48, 46, 48, 47, 56>>)>>)>>
Dts   == <<V(VDt(FromInt(-1))), Ext("datetime", <<Str(<<49, 57, 55, 48, 45, 48, 49, 45, 48, 50>>)>>)>>
Durs  == <<V(VDur(FromInt(1))), Ext("duration", <<Str(<<49, 104>>)>>)>>
Errs  == <<ErrE, OvfE, BadExt>>
L1OfEach == <<T, L1, SA, UA, Sets[1], Recs[1], Decs[1]>>

\* all pairs of two sequences as 2-tuples
Pairs(xs, ys) == Flat([i \in DOMAIN xs |-> [j \in DOMAIN ys |-> <<xs[i], ys[j]>>]])
\* operand tuples for a binary operator: typed pairs, then each position erroring / ill-kinded
BinTuples(xs, ys) ==
  Pairs(xs, ys)
  \o [i \in DOMAIN Errs |-> <<Errs[i], ys[1]>>] \o [i \in DOMAIN Errs |-> <<xs[1], Errs[i]>>]
  \o [i \in DOMAIN L1OfEach |-> <<L1OfEach[i], ys[1]>>] \o [i \in DOMAIN L1OfEach |-> <<xs[1], L1OfEach[i]>>]
BinExprs(op, xs, ys) == LET ts == BinTuples(xs, ys) IN [i \in DOMAIN ts |-> Bin(op, ts[i][1], ts[i][2])]
UnTuples(xs) == xs \o Errs \o L1OfEach
UnExprs(op, xs) == LET ts == UnTuples(xs) IN [i \in DOMAIN ts |-> Un(op, ts[i])]
ExtBin(fn, xs, ys) == LET ts == BinTuples(xs, ys) IN [i \in DOMAIN ts |-> Ext(fn, <<ts[i][1], ts[i][2]>>)]
ExtUn(fn, xs) == LET ts == UnTuples(xs) IN [i \in DOMAIN ts |-> Ext(fn, <<ts[i]>>)]

\* (Recs[2] is the whole context; CtxB[2] and {n: 2} are literal records it / context.r may equal)
Anys == <<T, L1, SA, UA, PVar, CK, Sets[1], Recs[2], V(CtxB[2]), V(VRec([k |-> VInt(1), s |-> VStr(<<97>>)]))>>
WholeRecordCmp == << Bin("eq", CVar, V(VRec([k |-> VInt(1), s |-> VStr(<<97>>), e |-> U("a")]))),
                     Bin("eq", Acc(CVar, "r"), V(VRec([n |-> VInt(2)]))),
                     Bin("ne", CVar, V(VRec([k |-> VInt(1), s |-> VStr(<<97>>)]))),
                     Bin("contains", SetE(<<CVar>>), V(VRec([k |-> VInt(1), s |-> VStr(<<97>>), e |-> U("a")]))),
                     Bin("contains", Acc(CVar, "ss"), L1), Bin("containsAll", Acc(CVar, "ss"), Sets[1]),
                     Un("isEmpty", Acc(CVar, "ss")), Has(Acc(CVar, "r"), "n"), Has(CVar, "s"),
                     \* a collection that holds a record (two levels down)
                     Bin("contains", Acc(CVar, "ss"), V(VRec([n |-> VInt(1)]))),
                     Bin("eq", Acc(CVar, "ss"), V([k |-> "set", els |-> <<VRec([n |-> VInt(1)])>>])),
                     \* short-circuit operators whose non-constant operand is not a boolean, under a parent
                     \* that accepts any value (dropping the operator would turn a failure into a value)
                     Bin("eq", Bin("and", T, CK), L1), Bin("eq", Bin("or", F, CK), L1), Bin("ne", Bin("and", T, PVar), UA),
                     Has(RecE(<<[key |-> "a", val |-> Bin("and", T, CK)]>>), "a"),
                     Bin("contains", SetE(<<Bin("or", F, CK)>>), L1),
                     Bin("eq", If(T, CK, L1), L1), Bin("eq", Bin("and", CK, T), T), Bin("eq", Bin("or", CK, F), T) >>
Pats == << <<97, -1>>, <<-1>>, <<98>> >>
AttrNames == <<"n", "k", "a", "zz">>

\* Depth-1 expressions by operator (a sequence of sequences)
ByOp == <<
  \* (CK = context.k: a non-constant operand that is a bool, a long or missing depending on the context)
  BinExprs("and", Bools \o <<CK>>, Bools \o <<CK>>), BinExprs("or", Bools \o <<CK>>, Bools \o <<CK>>), UnExprs("not", Bools \o <<CK>>),
  BinExprs("eq", Anys, Anys), BinExprs("ne", Anys, <<L1, UA, CK>>),
  BinExprs("lt", Longs, Longs), BinExprs("le", Longs, Longs), BinExprs("gt", Longs \o Dts, Longs \o Dts),
  BinExprs("ge", Durs \o Longs, Durs),
  BinExprs("add", Longs, Longs), BinExprs("sub", Longs, Longs), BinExprs("mul", Longs, Longs), UnExprs("neg", Longs),
  BinExprs("in", Ents, Ents \o <<Sets[3], SetE(<<GG, RVar>>)>>),
  BinExprs("contains", Sets, <<L1, UA, CK>>), BinExprs("containsAll", Sets, Sets), BinExprs("containsAny", Sets, Sets),
  UnExprs("isEmpty", Sets),
  BinExprs("hasTag", Ents, <<Str(<<116, 49>>), CS>>), BinExprs("getTag", Ents, <<Str(<<116, 49>>), CS>>),
  Flat([k \in DOMAIN AttrNames |-> LET ts == UnTuples(Ents \o Recs) IN [i \in DOMAIN ts |-> Has(ts[i], AttrNames[k])]]),
  Flat([k \in DOMAIN AttrNames |-> LET ts == UnTuples(Ents \o Recs) IN [i \in DOMAIN ts |-> Acc(ts[i], AttrNames[k])]]),
  Flat([p \in DOMAIN Pats |-> LET ts == UnTuples(Strs) IN [i \in DOMAIN ts |-> [op |-> "like", a |-> ts[i], pat |-> Pats[p]]]]),
  Flat([t \in 1..2 |-> LET ts == UnTuples(Ents) IN [i \in DOMAIN ts |-> [op |-> "is", a |-> ts[i], ty |-> <<"U", "G">>[t]]]]),
  LET ts == BinTuples(Ents, Ents \o <<Sets[3]>>) IN
     [i \in DOMAIN ts |-> [op |-> "isIn", a |-> ts[i][1], ty |-> "U", e |-> ts[i][2]]]
     \o [i \in DOMAIN ts |-> [op |-> "isIn", a |-> ts[i][1], ty |-> "G", e |-> ts[i][2]]],
  LET cs == Bools \o Errs \o <<L1, CK>>  bs == <<L1, NC, ErrE, SA>> IN
     Flat([c \in DOMAIN cs |-> Flat([t \in DOMAIN bs |-> [e \in DOMAIN bs |-> If(cs[c], bs[t], bs[e])]])]),
  LET es == <<L1, CK, ErrE, UA, PVar>> IN
     Flat([i \in DOMAIN es |-> [j \in DOMAIN es |-> SetE(<<es[i], es[j]>>)]]) \o <<SetE(<<>>), SetE(<<L1, L1, L2>>)>>,
  LET es == <<L1, CK, ErrE, PVar>> IN
     Flat([i \in DOMAIN es |-> [j \in DOMAIN es |-> RecE(<<[key |-> "a", val |-> es[i]], [key |-> "b", val |-> es[j]]>>)]]) \o <<RecE(<<>>)>>,
  ExtBin("lessThan", Decs, Decs), ExtBin("greaterThanOrEqual", Decs, Decs),
  ExtUn("isIpv4", Ips), ExtUn("isLoopback", Ips), ExtBin("isInRange", Ips, Ips),
  ExtUn("toDate", Dts), ExtUn("toTime", Dts), ExtBin("offset", Dts, Durs), ExtBin("durationSince", Dts, Dts),
  ExtUn("toDays", Durs), ExtUn("toMilliseconds", Durs),
  ExtUn("decimal", <<Str(<<49, 46, 53>>), Str(<<120>>), CS>>), ExtUn("ip", <<Str(<<58, 58, 49>>), CS>>),
  ExtUn("datetime", <<Str(<<50, 48, 50, 52, 45, 48, 50, 45, 50, 57>>), CS>>), ExtUn("duration", <<Str(<<49, 100>>), CS>>),
  << Ext("decimal", <<>>), Ext("lessThan", <<Decs[1]>>), Ext("nosuch", <<L1>>), Ext("isIpv4", <<Ips[1], Ips[1]>>) >>,
  << T, F, L1, SA, UA, PVar, AVar, RVar, CVar, Sets[1], Recs[1], Decs[1] >>,
  WholeRecordCmp
>>

Depth1 == Flat(ByOp)
\* representative Depth-1 expressions of every operator: the first, a middle and the last one
Reps == Flat([o \in DOMAIN ByOp |-> LET s == ByOp[o] IN
               IF Len(s) <= 3 THEN s ELSE <<s[1], s[(Len(s) \div 2) + 1], s[Len(s)]>>])

\* Depth-2: every parent form with a Depth-1 representative in each operand position
BinParents == <<"and", "or", "eq", "ne", "lt", "le", "gt", "ge", "add", "sub", "mul", "in", "contains", "containsAll",
                "containsAny", "hasTag", "getTag">>
OtherOperand(op) ==
  CASE op \in {"and", "or"} -> T [] op \in {"eq", "ne"} -> L1 [] op \in {"lt", "le", "gt", "ge", "add", "sub", "mul"} -> L1
    [] op = "in" -> GG [] op \in {"contains"} -> L1 [] op \in {"containsAll", "containsAny"} -> Sets[1]
    [] op \in {"hasTag", "getTag"} -> Str(<<116, 49>>)
LeftOperand(op) ==
  CASE op \in {"and", "or"} -> T [] op \in {"eq", "ne"} -> L1 [] op \in {"lt", "le", "gt", "ge", "add", "sub", "mul"} -> L1
    [] op = "in" -> UA [] op \in {"contains", "containsAll", "containsAny"} -> Sets[1]
    [] op \in {"hasTag", "getTag"} -> UA
Depth2 ==
  Flat([o \in DOMAIN BinParents |->
          [i \in DOMAIN Reps |-> Bin(BinParents[o], Reps[i], OtherOperand(BinParents[o]))]
          \o [i \in DOMAIN Reps |-> Bin(BinParents[o], LeftOperand(BinParents[o]), Reps[i])]])
  \o Flat(<<
    [i \in DOMAIN Reps |-> Un("not", Reps[i])], [i \in DOMAIN Reps |-> Un("neg", Reps[i])],
    [i \in DOMAIN Reps |-> Un("isEmpty", Reps[i])],
    [i \in DOMAIN Reps |-> Has(Reps[i], "a")], [i \in DOMAIN Reps |-> Acc(Reps[i], "a")],
    [i \in DOMAIN Reps |-> [op |-> "like", a |-> Reps[i], pat |-> Pats[1]]],
    [i \in DOMAIN Reps |-> [op |-> "is", a |-> Reps[i], ty |-> "U"]],
    [i \in DOMAIN Reps |-> [op |-> "isIn", a |-> Reps[i], ty |-> "U", e |-> GG]],
    [i \in DOMAIN Reps |-> [op |-> "isIn", a |-> UA, ty |-> "U", e |-> Reps[i]]],
    [i \in DOMAIN Reps |-> If(Reps[i], L1, L2)], [i \in DOMAIN Reps |-> If(T, Reps[i], ErrE)],
    [i \in DOMAIN Reps |-> If(F, ErrE, Reps[i])], [i \in DOMAIN Reps |-> If(NC, Reps[i], L1)],
    [i \in DOMAIN Reps |-> SetE(<<L1, Reps[i]>>)],
    [i \in DOMAIN Reps |-> RecE(<<[key |-> "a", val |-> Reps[i]], [key |-> "b", val |-> L1]>>)],
    [i \in DOMAIN Reps |-> Ext("lessThan", <<Reps[i], Decs[1]>>)], [i \in DOMAIN Reps |-> Ext("isInRange", <<Ips[1], Reps[i]>>)],
    [i \in DOMAIN Reps |-> Ext("decimal", <<Reps[i]>>)], [i \in DOMAIN Reps |-> Ext("toDate", <<Reps[i]>>)] >>)
=============================================================================
