----------------------------- MODULE PolicyStore -----------------------------
(***************************************************************************)
(* C20: policy containers as an id-keyed map.                              *)
(*                                                                         *)
(* State: two PolicySet handles (each "none" before it is created, else a  *)
(* function id -> entry) and one PolicyMap copy obtained from Map().  An   *)
(* entry is [pol, file]: which of the four semantically distinct policies  *)
(* it is and the file name its Position carries ("" unless it was loaded   *)
(* from a document).  Every action of the public API is one action here    *)
(* and yields the return value the map model predicts:                     *)
(*   New, Load(doc) [NewPolicySetFromBytes: ids policy0.. in document      *)
(*   order, the file name in every position], Add [was absent], Remove     *)
(*   [was present], Get, MapCopy [independent copy], MapPut / MapDelete on *)
(*   the copy, MarshalCedar [policies in lexicographic id order],          *)
(*   JsonRoundTrip(h, h2) [MarshalJSON of h, UnmarshalJSON into h2:        *)
(*   replaces h2's contents, ids preserved], BadJson [UnmarshalJSON of an  *)
(*   undecodable document: error, contents kept].                         *)
(* After every step the projection of the whole state is compared, and     *)
(* cedar.Authorize of every live set for two probe requests must be the    *)
(* specification's AuthzResult of the current contents.                    *)
(***************************************************************************)
EXTENDS Authz, Universe, SequencesExt

CONSTANTS FullSecond      \* TRUE: the second handle gets every operation; FALSE: a reduced set

When(e) == [kind |-> "when", body |-> e]
VV(v) == [op |-> "val", v |-> v]
Anno(n) == <<[k |-> "pid", v |-> <<48 + n>>]>>
PolW(n) ==
  LET base == [effect |-> "permit", annos |-> Anno(n), principal |-> ScopeAll, action |-> ScopeAll,
               resource |-> ScopeAll, conds |-> <<>>]
  IN CASE n = 1 -> base
       [] n = 2 -> [base EXCEPT !.effect = "forbid", !.resource = ScopeIs("G")]
       [] n = 3 -> [base EXCEPT !.principal = ScopeEq(U("a"))]
       [] OTHER -> [base EXCEPT !.conds = <<When([op |-> "add", l |-> VV(VInt(1)), r |-> VV(VStr(<<97>>))])>>]
NPol == 4
Pol(n) == PolicyFromWire(PolW(n))

\* probe requests: principal U::a on a group resource / principal U::b on a user resource (stores of Universe)
ProbeW == << [p |-> U("a"), a |-> A("view"), r |-> G("g"), c |-> EmptyRec, store |-> S1W],
             [p |-> U("b"), a |-> A("view"), r |-> U("b"), c |-> EmptyRec, store |-> S1W] >>
Probes == [i \in DOMAIN ProbeW |-> EnvFromWire(ProbeW[i])]

\* documents: sequences of policy numbers
Docs == << <<>>, <<3>>, <<1, 2, 4>>, <<1, 3, 3, 2, 4, 1, 1, 3, 4, 2, 3, 1>> >>
FileOf(d) == <<"f0.cedar", "f1.cedar", "f3.cedar", "f12.cedar">>[d]
LoadId(i) == <<"policy0", "policy1", "policy2", "policy3", "policy4", "policy5", "policy6", "policy7", "policy8",
               "policy9", "policy10", "policy11">>[i]
\* every id that can occur, in the lexicographic (byte) order MarshalCedar must use
\* (TLC cannot order strings, so the order is spelled out; "", "A", "p", "z" only occur in recorded traces)
IdOrder == <<"", "A", "a", "b", "p", "policy0", "policy1", "policy10", "policy11", "policy2", "policy3", "policy4",
             "policy5", "policy6", "policy7", "policy8", "policy9", "z">>
UserIds == IF FullSecond THEN {"a", "b", "policy1"} ELSE {"a", "policy1"}    \* ids used by Add / Remove / Get / MapPut / MapDelete

Handles == {1, 2}
None == [none |-> TRUE]       \* (a function, so that TLC can compare it with the id -> entry maps)

VARIABLES sets,     \* [Handles -> None or (id -> entry)]
          copy,     \* None or (id -> entry): the PolicyMap returned by Map()
          hist      \* history of [op, args.., ret] (a history variable: hidden by the VIEW)
vars == <<sets, copy, hist>>
View == <<sets, copy>>

Entry(p, f) == [pol |-> p, file |-> f]
Live(h) == sets[h] # None
Put(m, id, e) == [i \in DOMAIN m \cup {id} |-> IF i = id THEN e ELSE m[i]]
Del(m, id) == [i \in DOMAIN m \ {id} |-> m[i]]
InOrder(m) == SelectSeq(IdOrder, LAMBDA i : i \in DOMAIN m)

\* what cedar.Authorize must say for a set's current contents
AuthzOf(m, env) ==
  LET r == ResultOf(DOMAIN m, [i \in DOMAIN m |-> Pol(m[i].pol).effect], [i \in DOMAIN m |-> Outcome(Pol(m[i].pol), env)])
  IN [decision |-> r.decision, reasons |-> r.reasons, errors |-> r.errors]

\* projection compared with the real objects after every step
ProjMap(m) == IF m = None THEN <<>> ELSE [k \in DOMAIN InOrder(m) |-> [id |-> InOrder(m)[k], pol |-> m[InOrder(m)[k]].pol, file |-> m[InOrder(m)[k]].file]]
Proj(s, c) == [sets |-> [h \in Handles |-> [live |-> s[h] # None, entries |-> ProjMap(s[h]),
                                            az |-> IF s[h] = None THEN <<>> ELSE [q \in DOMAIN Probes |-> AuthzOf(s[h], Probes[q])]]],
               copy |-> [live |-> c # None, entries |-> ProjMap(c)]]

Step(rec, s2, c2) == /\ sets' = s2 /\ copy' = c2
                     /\ hist' = Append(hist, [step |-> rec, proj |-> Proj(s2, c2)])

Init == sets = [h \in Handles |-> None] /\ copy = None /\ hist = <<>>

New(h) == /\ ~Live(h)
          /\ Step([op |-> "new", h |-> h, ret |-> "ok"], [sets EXCEPT ![h] = <<>>], copy)

\* NewPolicySetFromBytes(file, document of the policies doc[1..n]) into handle h
LoadDoc(h, doc, file) ==
  Step([op |-> "load", h |-> h, doc |-> doc, file |-> file, ret |-> Len(doc)],
       [sets EXCEPT ![h] = [i \in { LoadId(k) : k \in DOMAIN doc } |->
                              Entry(doc[CHOOSE k \in DOMAIN doc : LoadId(k) = i], file)]],
       copy)
Load(h, d) == LoadDoc(h, Docs[d], FileOf(d))

PAdd(h, id, p) == /\ Live(h)
                 /\ Step([op |-> "add", h |-> h, id |-> id, pol |-> p, ret |-> id \notin DOMAIN sets[h]],
                         [sets EXCEPT ![h] = Put(sets[h], id, Entry(p, ""))], copy)

PRemove(h, id) == /\ Live(h)
                 /\ Step([op |-> "remove", h |-> h, id |-> id, ret |-> id \in DOMAIN sets[h]],
                         [sets EXCEPT ![h] = Del(sets[h], id)], copy)

Get(h, id) == /\ Live(h)
              /\ Step([op |-> "get", h |-> h, id |-> id, ret |-> IF id \in DOMAIN sets[h] THEN sets[h][id].pol ELSE 0], sets, copy)

MapCopy(h) == /\ Live(h)
              /\ Step([op |-> "mapcopy", h |-> h, ret |-> Cardinality(DOMAIN sets[h])], sets, sets[h])

MapPut(id, p) == /\ copy # None
                 /\ Step([op |-> "mapput", id |-> id, pol |-> p, ret |-> "ok"], sets, Put(copy, id, Entry(p, "")))

MapDelete(id) == /\ copy # None
                 /\ Step([op |-> "mapdelete", id |-> id, ret |-> "ok"], sets, Del(copy, id))

MarshalCedar(h) == /\ Live(h)
                   /\ Step([op |-> "marshalcedar", h |-> h, ret |-> [k \in DOMAIN InOrder(sets[h]) |-> sets[h][InOrder(sets[h])[k]].pol]],
                           sets, copy)

\* MarshalJSON(h) then UnmarshalJSON into h2 (created if needed): contents REPLACED, ids kept, no positions
JsonRoundTrip(h, h2) == /\ Live(h)
                        /\ Step([op |-> "jsonroundtrip", h |-> h, h2 |-> h2, ret |-> Cardinality(DOMAIN sets[h])],
                                [sets EXCEPT ![h2] = [i \in DOMAIN sets[h] |-> Entry(sets[h][i].pol, "")]], copy)

\* UnmarshalJSON of a document that cannot be decoded (valid entries and one null entry): an error, and the receiver
\* keeps what it held
BadJson(h) == /\ Live(h)
              /\ Step([op |-> "badjson", h |-> h, ret |-> "error"], sets, copy)

SecondOps(h) == h = 1 \/ FullSecond

Next ==
  \/ \E h \in Handles : New(h)
  \/ \E h \in Handles, d \in DOMAIN Docs : (h = 1 \/ FullSecond \/ d = 3) /\ Load(h, d)
  \/ \E h \in Handles, id \in UserIds, p \in 1..NPol : (h = 1 \/ FullSecond \/ (id = "a" /\ p <= 2)) /\ PAdd(h, id, p)
  \/ \E h \in Handles, id \in UserIds : (h = 1 \/ FullSecond \/ id = "a") /\ PRemove(h, id)
  \/ \E h \in Handles, id \in UserIds : SecondOps(h) /\ Get(h, id)
  \/ \E h \in Handles : SecondOps(h) /\ MapCopy(h)
  \/ \E id \in UserIds, p \in 1..NPol : (FullSecond \/ p <= 2) /\ MapPut(id, p)
  \/ \E id \in UserIds : MapDelete(id)
  \/ \E h \in Handles : SecondOps(h) /\ MarshalCedar(h)
  \/ \E h \in Handles, h2 \in Handles : JsonRoundTrip(h, h2)
  \/ \E h \in Handles : SecondOps(h) /\ BadJson(h)

\* state constraints that keep the exhaustive graph small: the second set and the map copy are
\* never live together, and the 12-policy document is only loaded while nothing else is live
OneAux == ~(Live(2) /\ copy # None)
SmallBig == \A h \in Handles : (Live(h) /\ Cardinality(DOMAIN sets[h]) > 6) => (\A g \in Handles \ {h} : ~Live(g)) /\ copy = None
MaxHist(n) == Len(hist) <= n

\* ------------------------------------------------------------------ M1: refinement invariants
TypeOK == /\ \A h \in Handles : sets[h] = None \/ DOMAIN sets[h] \subseteq SeqRange(IdOrder)
          /\ (copy = None \/ DOMAIN copy \subseteq SeqRange(IdOrder))
\* authorization depends only on the contents: two sets with equal (id -> policy) contents agree
ContentsDecide == \A h1, h2 \in Handles :
  (Live(h1) /\ Live(h2) /\ DOMAIN sets[h1] = DOMAIN sets[h2] /\ \A i \in DOMAIN sets[h1] : sets[h1][i].pol = sets[h2][i].pol)
     => \A q \in DOMAIN Probes : AuthzOf(sets[h1], Probes[q]) = AuthzOf(sets[h2], Probes[q])
\* a removed / absent policy never influences the result
AbsentIrrelevant == \A h \in Handles : Live(h) =>
  \A q \in DOMAIN Probes : LET r == AuthzOf(sets[h], Probes[q]) IN r.reasons \cup r.errors \subseteq DOMAIN sets[h]
\* operations on one handle or on the copy never change another handle
Isolation == [][\A h \in Handles :
                  (hist' # hist /\ "h" \in DOMAIN hist'[Len(hist')].step /\ hist'[Len(hist')].step.h # h
                   /\ ~("h2" \in DOMAIN hist'[Len(hist')].step /\ hist'[Len(hist')].step.h2 = h))
                  => sets'[h] = sets[h]]_vars
CopyIsolation == [][(hist' # hist /\ hist'[Len(hist')].step.op \in {"mapput", "mapdelete"}) => sets' = sets]_vars
=============================================================================
