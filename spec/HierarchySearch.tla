--------------------------- MODULE HierarchySearch ---------------------------
(***************************************************************************)
(* C03: the iterative ancestor search of the implementation               *)
(* (entityInOne / entityInSet in internal/eval/evalers.go), one action per *)
(* loop iteration, with its pruning rules made explicit:                   *)
(*   - a parent that is not in the store is never expanded,                *)
(*   - a parent without parents is never expanded,                         *)
(*   - the start entity is never re-expanded,                              *)
(*   - an entity already scheduled ("known") is not scheduled again;       *)
(* the parents of the current candidate are pushed in ANY order (Go map    *)
(* iteration) and the last pushed is popped.                               *)
(*                                                                         *)
(* The abstract meaning is reflexive-transitive reachability through the   *)
(* parent links of PRESENT entities (Reach).  Correct: when the search     *)
(* stops its answer is the abstract one -- for every graph, every presence *)
(* set, every push order.  Termination: `known` grows with every push and  *)
(* todo shrinks otherwise.                                                 *)
(***************************************************************************)
EXTENDS Integers, Sequences, FiniteSets, TLC

CONSTANT N                    \* nodes 1..N

Nodes == 1..N

VARIABLES par,       \* par[x] : set of parents of x (meaningful only if x is present)
          present,   \* set of entities in the store
          src, tgts, \* the query  src in tgts  (tgts a set; a singleton for `in` with one entity)
          cand, todo, known, res, pc
vars == <<par, present, src, tgts, cand, todo, known, res, pc>>

\* abstract meaning
RECURSIVE ReachFix(_, _, _)
ReachFix(p, pr, S) == LET T == S \cup UNION { p[x] : x \in S \cap pr } IN IF T = S THEN S ELSE ReachFix(p, pr, T)
Reach(p, pr, a) == ReachFix(p, pr, {a})
InAbs == Reach(par, present, src) \cap tgts # {}

Perms(S) == { f \in [1..Cardinality(S) -> S] : \A i, j \in 1..Cardinality(S) : i # j => f[i] # f[j] }

\* The queried entity is node 1; the other nodes are interchangeable, so for N >= 4
\* target sets are taken up to renaming of 2..N.  The parents of an absent entity
\* are never read, so they are fixed to {} (83 521 instead of 2^20 stores for N = 4).
TgtSets == IF N <= 3 THEN SUBSET Nodes
           ELSE { {}, {1}, {2}, {1, 2}, {2, 3}, {1, 2, 3}, Nodes \ {1}, Nodes }

Init == /\ present \in SUBSET Nodes
        /\ par \in [Nodes -> SUBSET Nodes]
        /\ \A x \in Nodes \ present : par[x] = {}
        /\ src = 1
        /\ tgts \in TgtSets
        /\ cand = src /\ todo = <<>> /\ known = {}
        /\ res = FALSE
        /\ pc = "start"

\* `if entity == parent { return true }`  /  `if parents.Contains(entity) { return true }`
Start == /\ pc = "start"
         /\ IF src \in tgts THEN res' = TRUE /\ pc' = "done" ELSE res' = FALSE /\ pc' = "visit"
         /\ UNCHANGED <<par, present, src, tgts, cand, todo, known>>

\* one iteration of the `for` loop
Visit ==
  /\ pc = "visit"
  /\ IF cand \in present /\ par[cand] \cap tgts # {}
     THEN res' = TRUE /\ pc' = "done" /\ UNCHANGED <<cand, todo, known>>
     ELSE LET new == IF cand \in present
                     THEN { k \in par[cand] : k \in present /\ par[k] # {} /\ k # src /\ k \notin known }
                     ELSE {}
          IN \E order \in Perms(new) :
               LET td == todo \o order IN
               /\ known' = known \cup new
               /\ IF td = <<>>
                  THEN res' = FALSE /\ pc' = "done" /\ UNCHANGED <<cand, todo>>
                  ELSE /\ cand' = td[Len(td)] /\ todo' = SubSeq(td, 1, Len(td) - 1)
                       /\ UNCHANGED <<res, pc>>
  /\ UNCHANGED <<par, present, src, tgts>>

Next == Start \/ Visit
Spec == Init /\ [][Next]_vars /\ WF_vars(Next)

Correct == pc = "done" => res = InAbs

\* structural invariants of the search
TypeOK == /\ known \subseteq Nodes /\ cand \in Nodes
          /\ \A i \in DOMAIN todo : todo[i] \in known
          /\ src \notin known
\* everything scheduled is reachable, present and not yet proven to lead to the target
Sound == \A k \in known : k \in Reach(par, present, src) /\ k \in present
\* known grows or todo shrinks: the loop terminates
Progress == [][pc = "visit" /\ pc' = "visit" =>
                 \/ Cardinality(known') > Cardinality(known)
                 \/ (known' = known /\ Len(todo') < Len(todo))]_vars
Terminates == <>(pc = "done")
=============================================================================
