// Package cwf is the wire form shared by the TLA+ specification (TLC's Json
// module) and the Go harness: values, expressions, policies, entity stores.
// It is the only place where model data and cedar-go data are converted into
// each other and is part of the trusted base (self-tested by `cedarconf selftest`).
package cwf

import (
	"bytes"
	"encoding/json"
	"fmt"
	"math/big"
	"net/netip"
	"reflect"
	"sort"
	"strings"
	"unicode/utf8"
	"unsafe"

	"github.com/cedar-policy/cedar-go/types"
	"github.com/cedar-policy/cedar-go/x/exp/ast"
)

// J is generic JSON: map[string]any, []any, string, bool, json.Number / float64 / int.
type J = any
type Obj = map[string]any

// ---------------------------------------------------------------- JSON helpers

func Parse(b []byte) (J, error) {
	dec := json.NewDecoder(bytes.NewReader(b))
	dec.UseNumber()
	var v any
	if err := dec.Decode(&v); err != nil {
		return nil, err
	}
	return v, nil
}

func MustParse(b []byte) J {
	v, err := Parse(b)
	if err != nil {
		panic(fmt.Sprintf("cwf: bad json: %v: %.200s", err, b))
	}
	return v
}

// Canon renders canonical JSON: object keys sorted, the "els" array of a set
// value sorted (sets are unordered), no dedup (a duplicate is a real difference).
// Empty objects and empty arrays are both rendered as [] (TLC cannot tell them apart).
func Canon(j J) string {
	var sb strings.Builder
	canon(&sb, j)
	return sb.String()
}

func canon(sb *strings.Builder, j J) {
	switch t := j.(type) {
	case nil:
		sb.WriteString("null")
	case bool:
		if t {
			sb.WriteString("true")
		} else {
			sb.WriteString("false")
		}
	case string:
		b, _ := json.Marshal(t)
		sb.Write(b)
	case json.Number:
		sb.WriteString(t.String())
	case float64:
		sb.WriteString(fmt.Sprintf("%d", int64(t)))
	case int:
		sb.WriteString(fmt.Sprintf("%d", t))
	case int64:
		sb.WriteString(fmt.Sprintf("%d", t))
	case []any:
		sb.WriteByte('[')
		for i, e := range t {
			if i > 0 {
				sb.WriteByte(',')
			}
			canon(sb, e)
		}
		sb.WriteByte(']')
	case Obj:
		if len(t) == 0 {
			sb.WriteString("[]")
			return
		}
		keys := make([]string, 0, len(t))
		for k := range t {
			keys = append(keys, k)
		}
		sort.Strings(keys)
		isSet := t["k"] == "set"
		sb.WriteByte('{')
		for i, k := range keys {
			if i > 0 {
				sb.WriteByte(',')
			}
			kb, _ := json.Marshal(k)
			sb.Write(kb)
			sb.WriteByte(':')
			if isSet && k == "els" {
				els, _ := t[k].([]any)
				strs := make([]string, len(els))
				for i, e := range els {
					strs[i] = Canon(e)
				}
				sort.Strings(strs)
				sb.WriteByte('[')
				sb.WriteString(strings.Join(strs, ","))
				sb.WriteByte(']')
			} else {
				canon(sb, t[k])
			}
		}
		sb.WriteByte('}')
	default:
		panic(fmt.Sprintf("cwf.Canon: unexpected %T", j))
	}
}

func Equal(a, b J) bool { return Canon(a) == Canon(b) }

func asObj(j J) (Obj, error) {
	switch t := j.(type) {
	case Obj:
		return t, nil
	case []any:
		if len(t) == 0 {
			return Obj{}, nil
		}
	}
	return nil, fmt.Errorf("cwf: expected object, got %T", j)
}

func asArr(j J) ([]any, error) {
	switch t := j.(type) {
	case []any:
		return t, nil
	case Obj:
		if len(t) == 0 {
			return nil, nil
		}
	case nil:
		return nil, nil
	}
	return nil, fmt.Errorf("cwf: expected array, got %T", j)
}

func asInt(j J) (int, error) {
	switch t := j.(type) {
	case json.Number:
		i, err := t.Int64()
		return int(i), err
	case float64:
		return int(t), nil
	case int:
		return t, nil
	}
	return 0, fmt.Errorf("cwf: expected int, got %T", j)
}

// AsInt reads a small (native) integer.
func AsInt(j J) (int, error) { return asInt(j) }

func asStr(j J) (string, error) {
	if s, ok := j.(string); ok {
		return s, nil
	}
	return "", fmt.Errorf("cwf: expected string, got %T", j)
}

// ---------------------------------------------------------------- names
// Entity types, ids, record keys, annotation keys are atomic strings in the
// model (TLC strings cannot be inspected and must be ASCII).  Real names are
// mapped injectively: characters outside [A-Za-z0-9 _:.-] become ~{hex}.

func NameToWire(s string) string {
	plain := utf8.ValidString(s)
	if plain {
		for _, r := range s {
			if !plainNameRune(r) {
				plain = false
				break
			}
		}
	}
	if plain {
		return s
	}
	var sb strings.Builder
	for i := 0; i < len(s); {
		r, size := utf8.DecodeRuneInString(s[i:])
		if r == utf8.RuneError && size == 1 { // invalid byte
			fmt.Fprintf(&sb, "~<%x>", s[i])
		} else if plainNameRune(r) {
			sb.WriteRune(r)
		} else {
			fmt.Fprintf(&sb, "~{%x}", r)
		}
		i += size
	}
	return sb.String()
}

func plainNameRune(r rune) bool {
	return r >= 'a' && r <= 'z' || r >= 'A' && r <= 'Z' || r >= '0' && r <= '9' ||
		r == ' ' || r == '_' || r == ':' || r == '.' || r == '-'
}

func NameFromWire(s string) (string, error) {
	if !strings.Contains(s, "~") {
		return s, nil
	}
	var sb strings.Builder
	for i := 0; i < len(s); {
		if s[i] != '~' {
			sb.WriteByte(s[i])
			i++
			continue
		}
		if i+1 >= len(s) {
			return "", fmt.Errorf("cwf: bad name escape in %q", s)
		}
		open, close := s[i+1], byte('}')
		if open == '<' {
			close = '>'
		} else if open != '{' {
			return "", fmt.Errorf("cwf: bad name escape in %q", s)
		}
		end := strings.IndexByte(s[i:], close)
		if end < 0 {
			return "", fmt.Errorf("cwf: bad name escape in %q", s)
		}
		var n int64
		if _, err := fmt.Sscanf(s[i+2:i+end], "%x", &n); err != nil {
			return "", fmt.Errorf("cwf: bad name escape in %q", s)
		}
		if open == '<' {
			sb.WriteByte(byte(n))
		} else {
			sb.WriteRune(rune(n))
		}
		i += end + 1
	}
	return sb.String(), nil
}

// ---------------------------------------------------------------- numbers

var big10k = big.NewInt(10000)

func I64ToJ(n int64) J {
	b := big.NewInt(n)
	neg := b.Sign() < 0
	b.Abs(b)
	mag := []any{}
	for b.Sign() > 0 {
		var r big.Int
		b.DivMod(b, big10k, &r)
		mag = append(mag, int(r.Int64()))
	}
	return Obj{"neg": neg, "mag": mag}
}

func JToBig(j J) (*big.Int, error) {
	o, err := asObj(j)
	if err != nil {
		return nil, err
	}
	neg, _ := o["neg"].(bool)
	mag, err := asArr(o["mag"])
	if err != nil {
		return nil, err
	}
	res := new(big.Int)
	for i := len(mag) - 1; i >= 0; i-- {
		l, err := asInt(mag[i])
		if err != nil {
			return nil, err
		}
		res.Mul(res, big10k)
		res.Add(res, big.NewInt(int64(l)))
	}
	if neg {
		res.Neg(res)
	}
	return res, nil
}

func JToI64(j J) (int64, error) {
	b, err := JToBig(j)
	if err != nil {
		return 0, err
	}
	if !b.IsInt64() {
		return 0, fmt.Errorf("cwf: %v does not fit int64", b)
	}
	return b.Int64(), nil
}

// ---------------------------------------------------------------- strings

func StrToJ(s string) J {
	out := []any{}
	for _, r := range s { // invalid bytes become U+FFFD
		out = append(out, int(r))
	}
	return out
}

func JToStr(j J) (string, error) {
	if s, ok := j.(string); ok { // plain ASCII spelling is accepted too
		return s, nil
	}
	arr, err := asArr(j)
	if err != nil {
		return "", err
	}
	var sb strings.Builder
	for _, c := range arr {
		i, err := asInt(c)
		if err != nil {
			return "", err
		}
		sb.WriteRune(rune(i))
	}
	return sb.String(), nil
}

// ---------------------------------------------------------------- values

// how x/exp/eval.Variable(name) and batch.Ignore() are represented (checked by selftest)
const VariableEntityType = "__cedar::variable"
const IgnoreEntityType = "__cedar::ignore"

func DecimalRaw(d types.Decimal) int64 { return *(*int64)(unsafe.Pointer(&d)) }

func DecimalFromRaw(n int64) types.Decimal {
	var d types.Decimal
	*(*int64)(unsafe.Pointer(&d)) = n
	return d
}

func init() {
	var d types.Decimal
	if unsafe.Sizeof(d) != 8 {
		panic("cwf: types.Decimal layout changed")
	}
	x, err := types.NewDecimal(12345, -4)
	if err == nil && DecimalRaw(x) != 12345 {
		panic("cwf: types.Decimal layout changed")
	}
}

// TypeName reads an entity type: an atomic name ("NS::T") or, in the syntax universes,
// the sequence of its path components (["NS", "T"]).
func TypeName(j J) (string, error) {
	if s, ok := j.(string); ok {
		return s, nil
	}
	arr, err := asArr(j)
	if err != nil {
		return "", err
	}
	parts := make([]string, len(arr))
	for i, p := range arr {
		if parts[i], err = asStr(p); err != nil {
			return "", err
		}
	}
	return strings.Join(parts, "::"), nil
}

// SplitTypes rewrites every "ty" name in a wire tree into its path components.
func SplitTypes(j J) J {
	switch t := j.(type) {
	case Obj:
		out := Obj{}
		for k, v := range t {
			if s, ok := v.(string); ok && k == "ty" {
				parts := []any{}
				for _, p := range strings.Split(s, "::") {
					parts = append(parts, p)
				}
				out[k] = parts
			} else {
				out[k] = SplitTypes(v)
			}
		}
		return out
	case []any:
		out := make([]any, len(t))
		for i, v := range t {
			out[i] = SplitTypes(v)
		}
		return out
	}
	return j
}

func UIDToJ(e types.EntityUID) J {
	return Obj{"k": "ent", "ty": NameToWire(string(e.Type)), "id": NameToWire(string(e.ID))}
}

func JToUID(j J) (types.EntityUID, error) {
	o, err := asObj(j)
	if err != nil {
		return types.EntityUID{}, err
	}
	tyS, err := TypeName(o["ty"])
	if err != nil {
		return types.EntityUID{}, err
	}
	ty, err := NameFromWire(tyS)
	if err != nil {
		return types.EntityUID{}, err
	}
	var id string
	if s, ok := o["id"].(string); ok {
		if id, err = NameFromWire(s); err != nil {
			return types.EntityUID{}, err
		}
	} else if id, err = JToStr(o["id"]); err != nil {
		return types.EntityUID{}, err
	}
	return types.NewEntityUID(types.EntityType(ty), types.String(id)), nil
}

func ValueToJ(v types.Value) J {
	switch t := v.(type) {
	case nil:
		return Obj{"k": "nil"}
	case types.Boolean:
		return Obj{"k": "bool", "b": bool(t)}
	case types.Long:
		return Obj{"k": "long", "n": I64ToJ(int64(t))}
	case types.String:
		return Obj{"k": "str", "s": StrToJ(string(t))}
	case types.EntityUID:
		if t.Type == VariableEntityType {
			return Obj{"k": "unknown", "name": string(t.ID)}
		} else if t.Type == IgnoreEntityType {
			return Obj{"k": "ignore"}
		}
		return UIDToJ(t)
	case types.Set:
		els := []any{}
		for e := range t.All() {
			els = append(els, ValueToJ(e))
		}
		return Obj{"k": "set", "els": els}
	case types.Record:
		f := Obj{}
		for k, e := range t.All() {
			f[NameToWire(string(k))] = ValueToJ(e)
		}
		return Obj{"k": "rec", "f": f}
	case types.Decimal:
		return Obj{"k": "dec", "n": I64ToJ(DecimalRaw(t))}
	case types.Datetime:
		return Obj{"k": "dt", "n": I64ToJ(t.Milliseconds())}
	case types.Duration:
		return Obj{"k": "dur", "n": I64ToJ(t.ToMilliseconds())}
	case types.IPAddr:
		p := netip.Prefix(t)
		a := []any{}
		for _, b := range p.Addr().AsSlice() {
			a = append(a, int(b))
		}
		o := Obj{"k": "ip", "a": a, "p": p.Bits()}
		if z := p.Addr().Zone(); z != "" {
			o["zone"] = z
		}
		return o
	}
	return Obj{"k": "unknown", "go": fmt.Sprintf("%T", v)}
}

func JToValue(j J) (types.Value, error) {
	o, err := asObj(j)
	if err != nil {
		return nil, err
	}
	k, _ := o["k"].(string)
	num := func() (int64, error) { return JToI64(o["n"]) }
	switch k {
	case "bool":
		b, _ := o["b"].(bool)
		return types.Boolean(b), nil
	case "long":
		n, err := num()
		return types.Long(n), err
	case "str":
		s, err := JToStr(o["s"])
		return types.String(s), err
	case "ent":
		return JToUID(o)
	case "unknown": // a named unknown of partial evaluation / batch authorization
		name, _ := o["name"].(string)
		return types.NewEntityUID(VariableEntityType, types.String(name)), nil
	case "ignore":
		return types.NewEntityUID(IgnoreEntityType, ""), nil
	case "set":
		arr, err := asArr(o["els"])
		if err != nil {
			return nil, err
		}
		vals := make([]types.Value, 0, len(arr))
		for _, e := range arr {
			v, err := JToValue(e)
			if err != nil {
				return nil, err
			}
			vals = append(vals, v)
		}
		return types.NewSet(vals...), nil
	case "rec":
		f, err := asObj(o["f"])
		if err != nil {
			return nil, err
		}
		m := types.RecordMap{}
		for kk, e := range f {
			v, err := JToValue(e)
			if err != nil {
				return nil, err
			}
			name, err := NameFromWire(kk)
			if err != nil {
				return nil, err
			}
			m[types.String(name)] = v
		}
		return types.NewRecord(m), nil
	case "dec":
		n, err := num()
		return DecimalFromRaw(n), err
	case "dt":
		n, err := num()
		return types.NewDatetimeFromMillis(n), err
	case "dur":
		n, err := num()
		return types.NewDurationFromMillis(n), err
	case "ip":
		arr, err := asArr(o["a"])
		if err != nil {
			return nil, err
		}
		bs := make([]byte, len(arr))
		for i, e := range arr {
			n, err := asInt(e)
			if err != nil {
				return nil, err
			}
			bs[i] = byte(n)
		}
		addr, ok := netip.AddrFromSlice(bs)
		if !ok {
			return nil, fmt.Errorf("cwf: bad ip bytes %v", bs)
		}
		p, err := asInt(o["p"])
		if err != nil {
			return nil, err
		}
		return types.IPAddr(netip.PrefixFrom(addr, p)), nil
	}
	return nil, fmt.Errorf("cwf: unknown value kind %q", k)
}

// ---------------------------------------------------------------- patterns

// PatternToJ reads the unexported components by reflection: wildcard = -1.
// Adjacent wildcards are collapsed (they mean the same).
func PatternToJ(p types.Pattern) J {
	out := []any{}
	comps := reflect.ValueOf(p).Field(0)
	for i := 0; i < comps.Len(); i++ {
		c := comps.Index(i)
		if c.Field(0).Bool() {
			if n := len(out); n == 0 || out[n-1] != -1 {
				out = append(out, -1)
			}
		}
		for _, r := range c.Field(1).String() {
			out = append(out, int(r))
		}
	}
	return out
}

func JToPattern(j J) (types.Pattern, error) {
	arr, err := asArr(j)
	if err != nil {
		return types.Pattern{}, err
	}
	var comps []any
	var lit strings.Builder
	flush := func() {
		if lit.Len() > 0 {
			comps = append(comps, lit.String())
			lit.Reset()
		}
	}
	for _, e := range arr {
		n, err := asInt(e)
		if err != nil {
			return types.Pattern{}, err
		}
		if n == -1 {
			flush()
			comps = append(comps, types.Wildcard{})
		} else {
			lit.WriteRune(rune(n))
		}
	}
	flush()
	return types.NewPattern(comps...), nil
}

// ---------------------------------------------------------------- expressions

var binOps = map[string]func(ast.BinaryNode) ast.IsNode{
	"and":         func(b ast.BinaryNode) ast.IsNode { return ast.NodeTypeAnd{BinaryNode: b} },
	"or":          func(b ast.BinaryNode) ast.IsNode { return ast.NodeTypeOr{BinaryNode: b} },
	"eq":          func(b ast.BinaryNode) ast.IsNode { return ast.NodeTypeEquals{BinaryNode: b} },
	"ne":          func(b ast.BinaryNode) ast.IsNode { return ast.NodeTypeNotEquals{BinaryNode: b} },
	"lt":          func(b ast.BinaryNode) ast.IsNode { return ast.NodeTypeLessThan{BinaryNode: b} },
	"le":          func(b ast.BinaryNode) ast.IsNode { return ast.NodeTypeLessThanOrEqual{BinaryNode: b} },
	"gt":          func(b ast.BinaryNode) ast.IsNode { return ast.NodeTypeGreaterThan{BinaryNode: b} },
	"ge":          func(b ast.BinaryNode) ast.IsNode { return ast.NodeTypeGreaterThanOrEqual{BinaryNode: b} },
	"add":         func(b ast.BinaryNode) ast.IsNode { return ast.NodeTypeAdd{BinaryNode: b} },
	"sub":         func(b ast.BinaryNode) ast.IsNode { return ast.NodeTypeSub{BinaryNode: b} },
	"mul":         func(b ast.BinaryNode) ast.IsNode { return ast.NodeTypeMult{BinaryNode: b} },
	"in":          func(b ast.BinaryNode) ast.IsNode { return ast.NodeTypeIn{BinaryNode: b} },
	"contains":    func(b ast.BinaryNode) ast.IsNode { return ast.NodeTypeContains{BinaryNode: b} },
	"containsAll": func(b ast.BinaryNode) ast.IsNode { return ast.NodeTypeContainsAll{BinaryNode: b} },
	"containsAny": func(b ast.BinaryNode) ast.IsNode { return ast.NodeTypeContainsAny{BinaryNode: b} },
	"hasTag":      func(b ast.BinaryNode) ast.IsNode { return ast.NodeTypeHasTag{BinaryNode: b} },
	"getTag":      func(b ast.BinaryNode) ast.IsNode { return ast.NodeTypeGetTag{BinaryNode: b} },
}

var unOps = map[string]func(ast.UnaryNode) ast.IsNode{
	"not":     func(u ast.UnaryNode) ast.IsNode { return ast.NodeTypeNot{UnaryNode: u} },
	"neg":     func(u ast.UnaryNode) ast.IsNode { return ast.NodeTypeNegate{UnaryNode: u} },
	"isEmpty": func(u ast.UnaryNode) ast.IsNode { return ast.NodeTypeIsEmpty{UnaryNode: u} },
}

func JToNode(j J) (ast.IsNode, error) {
	o, err := asObj(j)
	if err != nil {
		return nil, err
	}
	op, _ := o["op"].(string)
	sub := func(key string) (ast.IsNode, error) { return JToNode(o[key]) }
	if mk, ok := binOps[op]; ok {
		l, err := sub("l")
		if err != nil {
			return nil, err
		}
		r, err := sub("r")
		if err != nil {
			return nil, err
		}
		return mk(ast.BinaryNode{Left: l, Right: r}), nil
	}
	if mk, ok := unOps[op]; ok {
		a, err := sub("a")
		if err != nil {
			return nil, err
		}
		return mk(ast.UnaryNode{Arg: a}), nil
	}
	switch op {
	case "val":
		v, err := JToValue(o["v"])
		if err != nil {
			return nil, err
		}
		return ast.NodeValue{Value: v}, nil
	case "var":
		name, _ := o["name"].(string)
		return ast.NodeTypeVariable{Name: types.String(name)}, nil
	case "access", "has":
		a, err := sub("a")
		if err != nil {
			return nil, err
		}
		attrW, _ := o["attr"].(string)
		attr, err := NameFromWire(attrW)
		if err != nil {
			return nil, err
		}
		s := ast.StrOpNode{Arg: a, Value: types.String(attr)}
		if op == "access" {
			return ast.NodeTypeAccess{StrOpNode: s}, nil
		}
		return ast.NodeTypeHas{StrOpNode: s}, nil
	case "like":
		a, err := sub("a")
		if err != nil {
			return nil, err
		}
		p, err := JToPattern(o["pat"])
		if err != nil {
			return nil, err
		}
		return ast.NodeTypeLike{Arg: a, Value: p}, nil
	case "is", "isIn":
		a, err := sub("a")
		if err != nil {
			return nil, err
		}
		tyW, _ := TypeName(o["ty"])
		ty, err := NameFromWire(tyW)
		if err != nil {
			return nil, err
		}
		is := ast.NodeTypeIs{Left: a, EntityType: types.EntityType(ty)}
		if op == "is" {
			return is, nil
		}
		e, err := sub("e")
		if err != nil {
			return nil, err
		}
		return ast.NodeTypeIsIn{NodeTypeIs: is, Entity: e}, nil
	case "if":
		c, err := sub("c")
		if err != nil {
			return nil, err
		}
		t, err := sub("t")
		if err != nil {
			return nil, err
		}
		e, err := sub("e")
		if err != nil {
			return nil, err
		}
		return ast.NodeTypeIfThenElse{If: c, Then: t, Else: e}, nil
	case "ext":
		fn, _ := o["fn"].(string)
		arr, err := asArr(o["args"])
		if err != nil {
			return nil, err
		}
		args := make([]ast.IsNode, len(arr))
		for i, a := range arr {
			if args[i], err = JToNode(a); err != nil {
				return nil, err
			}
		}
		return ast.NodeTypeExtensionCall{Name: types.Path(fn), Args: args}, nil
	case "set":
		arr, err := asArr(o["els"])
		if err != nil {
			return nil, err
		}
		els := make([]ast.IsNode, len(arr))
		for i, a := range arr {
			if els[i], err = JToNode(a); err != nil {
				return nil, err
			}
		}
		return ast.NodeTypeSet{Elements: els}, nil
	case "rec":
		arr, err := asArr(o["kv"])
		if err != nil {
			return nil, err
		}
		els := make([]ast.RecordElementNode, len(arr))
		for i, a := range arr {
			p, err := asObj(a)
			if err != nil {
				return nil, err
			}
			keyW, _ := p["key"].(string)
			key, err := NameFromWire(keyW)
			if err != nil {
				return nil, err
			}
			v, err := JToNode(p["val"])
			if err != nil {
				return nil, err
			}
			els[i] = ast.RecordElementNode{Key: types.String(key), Value: v}
		}
		return ast.NodeTypeRecord{Elements: els}, nil
	}
	return nil, fmt.Errorf("cwf: unknown expression op %q", op)
}

const PartialErrorName = "__cedar::partialError"

func NodeToJ(n ast.IsNode) J {
	bin := func(op string, b ast.BinaryNode) J {
		return Obj{"op": op, "l": NodeToJ(b.Left), "r": NodeToJ(b.Right)}
	}
	un := func(op string, u ast.UnaryNode) J { return Obj{"op": op, "a": NodeToJ(u.Arg)} }
	switch t := n.(type) {
	case nil:
		return Obj{"op": "nil"}
	case ast.NodeValue:
		return Obj{"op": "val", "v": ValueToJ(t.Value)}
	case ast.NodeTypeVariable:
		return Obj{"op": "var", "name": string(t.Name)}
	case ast.NodeTypeAnd:
		return bin("and", t.BinaryNode)
	case ast.NodeTypeOr:
		return bin("or", t.BinaryNode)
	case ast.NodeTypeEquals:
		return bin("eq", t.BinaryNode)
	case ast.NodeTypeNotEquals:
		return bin("ne", t.BinaryNode)
	case ast.NodeTypeLessThan:
		return bin("lt", t.BinaryNode)
	case ast.NodeTypeLessThanOrEqual:
		return bin("le", t.BinaryNode)
	case ast.NodeTypeGreaterThan:
		return bin("gt", t.BinaryNode)
	case ast.NodeTypeGreaterThanOrEqual:
		return bin("ge", t.BinaryNode)
	case ast.NodeTypeAdd:
		return bin("add", t.BinaryNode)
	case ast.NodeTypeSub:
		return bin("sub", t.BinaryNode)
	case ast.NodeTypeMult:
		return bin("mul", t.BinaryNode)
	case ast.NodeTypeIn:
		return bin("in", t.BinaryNode)
	case ast.NodeTypeContains:
		return bin("contains", t.BinaryNode)
	case ast.NodeTypeContainsAll:
		return bin("containsAll", t.BinaryNode)
	case ast.NodeTypeContainsAny:
		return bin("containsAny", t.BinaryNode)
	case ast.NodeTypeHasTag:
		return bin("hasTag", t.BinaryNode)
	case ast.NodeTypeGetTag:
		return bin("getTag", t.BinaryNode)
	case ast.NodeTypeNot:
		return un("not", t.UnaryNode)
	case ast.NodeTypeNegate:
		return un("neg", t.UnaryNode)
	case ast.NodeTypeIsEmpty:
		return un("isEmpty", t.UnaryNode)
	case ast.NodeTypeAccess:
		return Obj{"op": "access", "a": NodeToJ(t.Arg), "attr": NameToWire(string(t.Value))}
	case ast.NodeTypeHas:
		return Obj{"op": "has", "a": NodeToJ(t.Arg), "attr": NameToWire(string(t.Value))}
	case ast.NodeTypeLike:
		return Obj{"op": "like", "a": NodeToJ(t.Arg), "pat": PatternToJ(t.Value)}
	case ast.NodeTypeIs:
		return Obj{"op": "is", "a": NodeToJ(t.Left), "ty": NameToWire(string(t.EntityType))}
	case ast.NodeTypeIsIn:
		return Obj{"op": "isIn", "a": NodeToJ(t.Left), "ty": NameToWire(string(t.EntityType)), "e": NodeToJ(t.Entity)}
	case ast.NodeTypeIfThenElse:
		return Obj{"op": "if", "c": NodeToJ(t.If), "t": NodeToJ(t.Then), "e": NodeToJ(t.Else)}
	case ast.NodeTypeExtensionCall:
		if string(t.Name) == PartialErrorName {
			return Obj{"op": "error"}
		}
		args := []any{}
		for _, a := range t.Args {
			args = append(args, NodeToJ(a))
		}
		return Obj{"op": "ext", "fn": NameToWire(string(t.Name)), "args": args}
	case ast.NodeTypeSet:
		els := []any{}
		for _, a := range t.Elements {
			els = append(els, NodeToJ(a))
		}
		return Obj{"op": "set", "els": els}
	case ast.NodeTypeRecord:
		kv := []any{}
		for _, e := range t.Elements {
			kv = append(kv, Obj{"key": NameToWire(string(e.Key)), "val": NodeToJ(e.Value)})
		}
		return Obj{"op": "rec", "kv": kv}
	}
	return Obj{"op": "unknown", "go": fmt.Sprintf("%T", n)}
}

// ---------------------------------------------------------------- policies

func scopeToJ(s ast.IsScopeNode) J {
	switch t := s.(type) {
	case ast.ScopeTypeAll:
		return Obj{"t": "all"}
	case ast.ScopeTypeEq:
		return Obj{"t": "eq", "e": UIDToJ(t.Entity)}
	case ast.ScopeTypeIn:
		return Obj{"t": "in", "e": UIDToJ(t.Entity)}
	case ast.ScopeTypeInSet:
		es := []any{}
		for _, e := range t.Entities {
			es = append(es, UIDToJ(e))
		}
		return Obj{"t": "inSet", "es": es}
	case ast.ScopeTypeIs:
		return Obj{"t": "is", "ty": NameToWire(string(t.Type))}
	case ast.ScopeTypeIsIn:
		return Obj{"t": "isIn", "ty": NameToWire(string(t.Type)), "e": UIDToJ(t.Entity)}
	}
	return Obj{"t": "unknown", "go": fmt.Sprintf("%T", s)}
}

func jToScope(j J) (any, error) {
	o, err := asObj(j)
	if err != nil {
		return nil, err
	}
	t, _ := o["t"].(string)
	ty := func() (types.EntityType, error) {
		s, _ := TypeName(o["ty"])
		n, err := NameFromWire(s)
		return types.EntityType(n), err
	}
	switch t {
	case "all":
		return ast.ScopeTypeAll{}, nil
	case "eq":
		e, err := JToUID(o["e"])
		return ast.ScopeTypeEq{Entity: e}, err
	case "in":
		e, err := JToUID(o["e"])
		return ast.ScopeTypeIn{Entity: e}, err
	case "inSet":
		arr, err := asArr(o["es"])
		if err != nil {
			return nil, err
		}
		es := make([]types.EntityUID, len(arr))
		for i, a := range arr {
			if es[i], err = JToUID(a); err != nil {
				return nil, err
			}
		}
		return ast.ScopeTypeInSet{Entities: es}, nil
	case "is":
		n, err := ty()
		return ast.ScopeTypeIs{Type: n}, err
	case "isIn":
		n, err := ty()
		if err != nil {
			return nil, err
		}
		e, err := JToUID(o["e"])
		return ast.ScopeTypeIsIn{Type: n, Entity: e}, err
	}
	return nil, fmt.Errorf("cwf: unknown scope %q", t)
}

func PolicyToJ(p *ast.Policy) J {
	eff := "forbid"
	if p.Effect == ast.EffectPermit {
		eff = "permit"
	}
	annos := []any{}
	for _, a := range p.Annotations {
		annos = append(annos, Obj{"k": NameToWire(string(a.Key)), "v": StrToJ(string(a.Value))})
	}
	conds := []any{}
	for _, c := range p.Conditions {
		kind := "unless"
		if c.Condition == ast.ConditionWhen {
			kind = "when"
		}
		conds = append(conds, Obj{"kind": kind, "body": NodeToJ(c.Body)})
	}
	return Obj{"effect": eff, "annos": annos, "principal": scopeToJ(p.Principal),
		"action": scopeToJ(p.Action), "resource": scopeToJ(p.Resource), "conds": conds}
}

func JToPolicy(j J) (*ast.Policy, error) {
	o, err := asObj(j)
	if err != nil {
		return nil, err
	}
	p := &ast.Policy{}
	switch o["effect"] {
	case "permit":
		p.Effect = ast.EffectPermit
	case "forbid":
		p.Effect = ast.EffectForbid
	default:
		return nil, fmt.Errorf("cwf: bad effect %v", o["effect"])
	}
	annos, err := asArr(o["annos"])
	if err != nil {
		return nil, err
	}
	for _, a := range annos {
		ao, err := asObj(a)
		if err != nil {
			return nil, err
		}
		kW, _ := ao["k"].(string)
		k, err := NameFromWire(kW)
		if err != nil {
			return nil, err
		}
		v, err := JToStr(ao["v"])
		if err != nil {
			return nil, err
		}
		p.Annotations = append(p.Annotations, ast.AnnotationType{Key: types.Ident(k), Value: types.String(v)})
	}
	sc, err := jToScope(o["principal"])
	if err != nil {
		return nil, err
	}
	var ok bool
	if p.Principal, ok = sc.(ast.IsPrincipalScopeNode); !ok {
		return nil, fmt.Errorf("cwf: scope %T not allowed for principal", sc)
	}
	if sc, err = jToScope(o["action"]); err != nil {
		return nil, err
	}
	if p.Action, ok = sc.(ast.IsActionScopeNode); !ok {
		return nil, fmt.Errorf("cwf: scope %T not allowed for action", sc)
	}
	if sc, err = jToScope(o["resource"]); err != nil {
		return nil, err
	}
	if p.Resource, ok = sc.(ast.IsResourceScopeNode); !ok {
		return nil, fmt.Errorf("cwf: scope %T not allowed for resource", sc)
	}
	conds, err := asArr(o["conds"])
	if err != nil {
		return nil, err
	}
	for _, c := range conds {
		co, err := asObj(c)
		if err != nil {
			return nil, err
		}
		body, err := JToNode(co["body"])
		if err != nil {
			return nil, err
		}
		kind := ast.Condition(ast.ConditionUnless)
		if co["kind"] == "when" {
			kind = ast.ConditionWhen
		}
		p.Conditions = append(p.Conditions, ast.ConditionType{Condition: kind, Body: body})
	}
	return p, nil
}

// ---------------------------------------------------------------- stores, requests

func recToJ(r types.Record) J {
	f := Obj{}
	for k, e := range r.All() {
		f[NameToWire(string(k))] = ValueToJ(e)
	}
	return f
}

func tagsToJ(r types.Record) J {
	keys := []string{}
	for k := range r.Keys() {
		keys = append(keys, string(k))
	}
	sort.Strings(keys)
	out := []any{}
	for _, k := range keys {
		v, _ := r.Get(types.String(k))
		out = append(out, []any{StrToJ(k), ValueToJ(v)})
	}
	return out
}

func StoreToJ(m types.EntityMap) J {
	uids := make([]types.EntityUID, 0, len(m))
	for u := range m {
		uids = append(uids, u)
	}
	sort.Slice(uids, func(i, j int) bool {
		if uids[i].Type != uids[j].Type {
			return uids[i].Type < uids[j].Type
		}
		return uids[i].ID < uids[j].ID
	})
	out := []any{}
	for _, u := range uids {
		e := m[u]
		ps := []any{}
		for p := range e.Parents.All() {
			ps = append(ps, UIDToJ(p))
		}
		sort.Slice(ps, func(i, j int) bool { return Canon(ps[i]) < Canon(ps[j]) })
		out = append(out, Obj{"uid": UIDToJ(u), "parents": ps, "attrs": recToJ(e.Attributes), "tags": tagsToJ(e.Tags)})
	}
	return out
}

func JToStore(j J) (types.EntityMap, error) {
	arr, err := asArr(j)
	if err != nil {
		return nil, err
	}
	m := types.EntityMap{}
	for _, a := range arr {
		o, err := asObj(a)
		if err != nil {
			return nil, err
		}
		uid, err := JToUID(o["uid"])
		if err != nil {
			return nil, err
		}
		parr, err := asArr(o["parents"])
		if err != nil {
			return nil, err
		}
		ps := make([]types.EntityUID, len(parr))
		for i, p := range parr {
			if ps[i], err = JToUID(p); err != nil {
				return nil, err
			}
		}
		attrs, err := JToValue(Obj{"k": "rec", "f": o["attrs"]})
		if err != nil {
			return nil, err
		}
		tarr, err := asArr(o["tags"])
		if err != nil {
			return nil, err
		}
		tm := types.RecordMap{}
		for _, t := range tarr {
			pair, err := asArr(t)
			if err != nil || len(pair) != 2 {
				return nil, fmt.Errorf("cwf: bad tag pair")
			}
			k, err := JToStr(pair[0])
			if err != nil {
				return nil, err
			}
			v, err := JToValue(pair[1])
			if err != nil {
				return nil, err
			}
			tm[types.String(k)] = v
		}
		m[uid] = types.Entity{UID: uid, Parents: types.NewEntityUIDSet(ps...), Attributes: attrs.(types.Record), Tags: types.NewRecord(tm)}
	}
	return m, nil
}

// Env: {"p","a","r","c","store"}
type Env struct {
	P, A, R, C types.Value
	Store      types.EntityMap
}

func JToEnv(j J) (Env, error) {
	o, err := asObj(j)
	if err != nil {
		return Env{}, err
	}
	var e Env
	if e.P, err = JToValue(o["p"]); err != nil {
		return e, err
	}
	if e.A, err = JToValue(o["a"]); err != nil {
		return e, err
	}
	if e.R, err = JToValue(o["r"]); err != nil {
		return e, err
	}
	if e.C, err = JToValue(o["c"]); err != nil {
		return e, err
	}
	if e.Store, err = JToStore(o["store"]); err != nil {
		return e, err
	}
	return e, nil
}

func EnvToJ(e Env) J {
	return Obj{"p": ValueToJ(e.P), "a": ValueToJ(e.A), "r": ValueToJ(e.R), "c": ValueToJ(e.C), "store": StoreToJ(e.Store)}
}

// Request converts an Env whose parts are three entities and a record.
func (e Env) Request() (types.Request, bool) {
	p, ok1 := e.P.(types.EntityUID)
	a, ok2 := e.A.(types.EntityUID)
	r, ok3 := e.R.(types.EntityUID)
	c, ok4 := e.C.(types.Record)
	return types.Request{Principal: p, Action: a, Resource: r, Context: c}, ok1 && ok2 && ok3 && ok4
}

// Result of an evaluation in wire form.
func ResultToJ(v types.Value, err error) J {
	if err != nil {
		return Obj{"ok": false}
	}
	return Obj{"ok": true, "v": ValueToJ(v)}
}

// ObsEqual compares two evaluation results on the observable the properties
// name: value or failure (error class and message are ignored).
func ObsEqual(a, b J) bool {
	ao, _ := asObj(a)
	bo, _ := asObj(b)
	aok, _ := ao["ok"].(bool)
	bok, _ := bo["ok"].(bool)
	if aok != bok {
		return false
	}
	if !aok {
		_, ap := ao["panic"]
		_, bp := bo["panic"]
		return ap == bp
	}
	return Equal(ao["v"], bo["v"])
}
