package cwf

import (
	"fmt"
	"sort"
	"strings"

	"github.com/cedar-policy/cedar-go/types"
	"github.com/cedar-policy/cedar-go/x/exp/schema/ast"
	"github.com/cedar-policy/cedar-go/x/exp/schema/resolved"
)

// ---------------------------------------------------------------- schema wire form (SWF)
//
//	Schema:    {"ns": [Namespace]}            the empty namespace has name ""
//	Namespace: {"name", "annos": [{k, v}], "entities": [..], "enums": [..], "actions": [..], "commons": [..]}
//	Entity:    {"name", "annos", "parents": [Ref], "shape": [Attr], "tags": Type | {"t": "none"}}
//	Enum:      {"name", "annos", "values": [code points]}
//	Action:    {"name", "annos", "parents": [{"q": action type ("" = this namespace), "id": name}],
//	            "applies": {"t": "none"} | {"t": "some", "principals": [Ref], "resources": [Ref], "context": Type | {"t": "none"}}}
//	Common:    {"name", "annos", "type": Type}
//	Type:      {"t": "string" | "long" | "bool"} | {"t": "ext", "name"} | {"t": "set", "el": Type} | {"t": "rec", "attrs": [Attr]}
//	           | {"t": "entref", "q", "n"} | {"t": "ref", "q", "n"}
//	Attr:      {"name", "type", "opt", "annos"}
//	Ref:       {"q": qualifier ("" = unqualified), "n": base name}
//
// names are wire names (NameToWire); annotation values and enum values are code points.

func splitQual(s string) (string, string) {
	if i := strings.LastIndex(s, "::"); i >= 0 {
		return s[:i], s[i+2:]
	}
	return "", s
}

func joinQual(q, n string) string {
	if q == "" {
		return n
	}
	return q + "::" + n
}

func annosToJ(a map[types.Ident]types.String) []any {
	keys := make([]string, 0, len(a))
	for k := range a {
		keys = append(keys, string(k))
	}
	sort.Strings(keys)
	out := []any{}
	for _, k := range keys {
		out = append(out, Obj{"k": NameToWire(k), "v": StrToJ(string(a[types.Ident(k)]))})
	}
	return out
}

func jToAnnos(j J) (ast.Annotations, error) {
	arr, _ := j.([]any)
	if len(arr) == 0 {
		return nil, nil
	}
	out := ast.Annotations{}
	for _, a := range arr {
		o, err := asObj(a)
		if err != nil {
			return nil, err
		}
		k, err := nameOf(o["k"])
		if err != nil {
			return nil, err
		}
		v, err := JToStr(o["v"])
		if err != nil {
			return nil, err
		}
		out[types.Ident(k)] = types.String(v)
	}
	return out, nil
}

func nameOf(j J) (string, error) {
	s, err := asStr(j)
	if err != nil {
		return "", err
	}
	return NameFromWire(s)
}

func refToJ(s string) J {
	q, n := splitQual(s)
	return Obj{"q": NameToWire(q), "n": NameToWire(n)}
}

func jToRef(j J) (string, error) {
	o, err := asObj(j)
	if err != nil {
		return "", err
	}
	q, err := nameOf(o["q"])
	if err != nil {
		return "", err
	}
	n, err := nameOf(o["n"])
	if err != nil {
		return "", err
	}
	return joinQual(q, n), nil
}

func SchemaTypeToJ(t ast.IsType) J {
	switch t := t.(type) {
	case nil:
		return Obj{"t": "none"}
	case ast.StringType:
		return Obj{"t": "string"}
	case ast.LongType:
		return Obj{"t": "long"}
	case ast.BoolType:
		return Obj{"t": "bool"}
	case ast.ExtensionType:
		return Obj{"t": "ext", "name": NameToWire(string(t))}
	case ast.SetType:
		return Obj{"t": "set", "el": SchemaTypeToJ(t.Element)}
	case ast.RecordType:
		return Obj{"t": "rec", "attrs": attrsToJ(t)}
	case ast.EntityTypeRef:
		r := refToJ(string(t)).(Obj)
		return Obj{"t": "entref", "q": r["q"], "n": r["n"]}
	case ast.TypeRef:
		r := refToJ(string(t)).(Obj)
		return Obj{"t": "ref", "q": r["q"], "n": r["n"]}
	}
	return Obj{"t": "unknown", "go": fmt.Sprintf("%T", t)}
}

func attrsToJ(r ast.RecordType) []any {
	keys := make([]string, 0, len(r))
	for k := range r {
		keys = append(keys, string(k))
	}
	sort.Strings(keys)
	out := []any{}
	for _, k := range keys {
		a := r[types.String(k)]
		out = append(out, Obj{"name": NameToWire(k), "type": SchemaTypeToJ(a.Type), "opt": a.Optional, "annos": annosToJ(a.Annotations)})
	}
	return out
}

func JToSchemaType(j J) (ast.IsType, error) {
	o, err := asObj(j)
	if err != nil {
		return nil, err
	}
	switch o["t"] {
	case "none":
		return nil, nil
	case "string":
		return ast.StringType{}, nil
	case "long":
		return ast.LongType{}, nil
	case "bool":
		return ast.BoolType{}, nil
	case "ext":
		n, err := nameOf(o["name"])
		return ast.ExtensionType(n), err
	case "set":
		el, err := JToSchemaType(o["el"])
		return ast.SetType{Element: el}, err
	case "rec":
		return jToAttrs(o["attrs"])
	case "entref":
		s, err := jToRef(o)
		return ast.EntityTypeRef(s), err
	case "ref":
		s, err := jToRef(o)
		return ast.TypeRef(s), err
	}
	return nil, fmt.Errorf("cwf: unknown schema type %v", o["t"])
}

func jToAttrs(j J) (ast.RecordType, error) {
	arr, _ := j.([]any)
	out := ast.RecordType{}
	for _, a := range arr {
		o, err := asObj(a)
		if err != nil {
			return nil, err
		}
		n, err := nameOf(o["name"])
		if err != nil {
			return nil, err
		}
		t, err := JToSchemaType(o["type"])
		if err != nil {
			return nil, err
		}
		an, err := jToAnnos(o["annos"])
		if err != nil {
			return nil, err
		}
		opt, _ := o["opt"].(bool)
		out[types.String(n)] = ast.Attribute{Type: t, Optional: opt, Annotations: an}
	}
	return out, nil
}

type nsDecls struct {
	annos    ast.Annotations
	entities ast.Entities
	enums    ast.Enums
	actions  ast.Actions
	commons  ast.CommonTypes
}

// JToSchema builds the schema AST from the wire form
func JToSchema(j J) (*ast.Schema, error) {
	o, err := asObj(j)
	if err != nil {
		return nil, err
	}
	s := &ast.Schema{}
	nss, _ := o["ns"].([]any)
	for _, nj := range nss {
		no, err := asObj(nj)
		if err != nil {
			return nil, err
		}
		name, err := nameOf(no["name"])
		if err != nil {
			return nil, err
		}
		d := nsDecls{}
		if d.annos, err = jToAnnos(no["annos"]); err != nil {
			return nil, err
		}
		for _, ej := range arrOf(no["entities"]) {
			eo, _ := ej.(Obj)
			en, err := nameOf(eo["name"])
			if err != nil {
				return nil, err
			}
			var e ast.Entity
			if e.Annotations, err = jToAnnos(eo["annos"]); err != nil {
				return nil, err
			}
			for _, pj := range arrOf(eo["parents"]) {
				r, err := jToRef(pj)
				if err != nil {
					return nil, err
				}
				e.ParentTypes = append(e.ParentTypes, ast.EntityTypeRef(r))
			}
			if sh := arrOf(eo["shape"]); len(sh) > 0 {
				if e.Shape, err = jToAttrs(eo["shape"]); err != nil {
					return nil, err
				}
			}
			if e.Tags, err = JToSchemaType(eo["tags"]); err != nil {
				return nil, err
			}
			if d.entities == nil {
				d.entities = ast.Entities{}
			}
			d.entities[types.Ident(en)] = e
		}
		for _, ej := range arrOf(no["enums"]) {
			eo, _ := ej.(Obj)
			en, err := nameOf(eo["name"])
			if err != nil {
				return nil, err
			}
			var e ast.Enum
			if e.Annotations, err = jToAnnos(eo["annos"]); err != nil {
				return nil, err
			}
			for _, vj := range arrOf(eo["values"]) {
				v, err := JToStr(vj)
				if err != nil {
					return nil, err
				}
				e.Values = append(e.Values, types.String(v))
			}
			if d.enums == nil {
				d.enums = ast.Enums{}
			}
			d.enums[types.Ident(en)] = e
		}
		for _, aj := range arrOf(no["actions"]) {
			ao, _ := aj.(Obj)
			an, err := nameOf(ao["name"])
			if err != nil {
				return nil, err
			}
			var a ast.Action
			if a.Annotations, err = jToAnnos(ao["annos"]); err != nil {
				return nil, err
			}
			for _, pj := range arrOf(ao["parents"]) {
				po, _ := pj.(Obj)
				q, err := nameOf(po["q"])
				if err != nil {
					return nil, err
				}
				id, err := nameOf(po["id"])
				if err != nil {
					return nil, err
				}
				a.Parents = append(a.Parents, ast.ParentRef{Type: ast.EntityTypeRef(q), ID: types.String(id)})
			}
			if ap, _ := ao["applies"].(Obj); ap != nil && ap["t"] == "some" {
				at := &ast.AppliesTo{}
				for _, pj := range arrOf(ap["principals"]) {
					r, err := jToRef(pj)
					if err != nil {
						return nil, err
					}
					at.Principals = append(at.Principals, ast.EntityTypeRef(r))
				}
				for _, pj := range arrOf(ap["resources"]) {
					r, err := jToRef(pj)
					if err != nil {
						return nil, err
					}
					at.Resources = append(at.Resources, ast.EntityTypeRef(r))
				}
				if at.Context, err = JToSchemaType(ap["context"]); err != nil {
					return nil, err
				}
				a.AppliesTo = at
			}
			if d.actions == nil {
				d.actions = ast.Actions{}
			}
			d.actions[types.String(an)] = a
		}
		for _, cj := range arrOf(no["commons"]) {
			co, _ := cj.(Obj)
			cn, err := nameOf(co["name"])
			if err != nil {
				return nil, err
			}
			var c ast.CommonType
			if c.Annotations, err = jToAnnos(co["annos"]); err != nil {
				return nil, err
			}
			if c.Type, err = JToSchemaType(co["type"]); err != nil {
				return nil, err
			}
			if d.commons == nil {
				d.commons = ast.CommonTypes{}
			}
			d.commons[types.Ident(cn)] = c
		}
		if name == "" {
			s.Entities, s.Enums, s.Actions, s.CommonTypes = d.entities, d.enums, d.actions, d.commons
		} else {
			if s.Namespaces == nil {
				s.Namespaces = ast.Namespaces{}
			}
			s.Namespaces[types.Path(name)] = ast.Namespace{Annotations: d.annos, Entities: d.entities, Enums: d.enums, Actions: d.actions, CommonTypes: d.commons}
		}
	}
	return s, nil
}

func arrOf(j J) []any {
	a, _ := j.([]any)
	return a
}

// ---------------------------------------------------------------- resolved schema (RWF)
//
//	{"namespaces": [{"name", "annos"}],
//	 "entities": [{"name", "annos", "parents": [names], "shape": [RAttr], "tags": RType | {"t": "none"}}],
//	 "enums": [{"name", "annos", "values": [code points]}],
//	 "actions": [{"ty", "id", "annos", "parents": [{"ty", "id"}], "applies": {"t": "none"} | {"t": "some", "principals", "resources", "context": [RAttr]}}]}
//	RType: {"t": "string" | "long" | "bool"} | {"t": "ext", "name"} | {"t": "set", "el"} | {"t": "rec", "attrs": [RAttr]} | {"t": "entity", "name"}

func resolvedTypeToJ(t resolved.IsType) J {
	switch t := t.(type) {
	case nil:
		return Obj{"t": "none"}
	case resolved.StringType:
		return Obj{"t": "string"}
	case resolved.LongType:
		return Obj{"t": "long"}
	case resolved.BoolType:
		return Obj{"t": "bool"}
	case resolved.ExtensionType:
		return Obj{"t": "ext", "name": NameToWire(string(t))}
	case resolved.SetType:
		return Obj{"t": "set", "el": resolvedTypeToJ(t.Element)}
	case resolved.RecordType:
		return Obj{"t": "rec", "attrs": resolvedAttrsToJ(t)}
	case resolved.EntityType:
		return Obj{"t": "entity", "name": NameToWire(string(t))}
	}
	return Obj{"t": "unknown", "go": fmt.Sprintf("%T", t)}
}

func resolvedAttrsToJ(r resolved.RecordType) []any {
	keys := make([]string, 0, len(r))
	for k := range r {
		keys = append(keys, string(k))
	}
	sort.Strings(keys)
	out := []any{}
	for _, k := range keys {
		a := r[types.String(k)]
		out = append(out, Obj{"name": NameToWire(k), "type": resolvedTypeToJ(a.Type), "opt": a.Optional, "annos": annosToJ(a.Annotations)})
	}
	return out
}

// ResolvedToJ renders a resolved schema canonically (every list sorted by name)
func ResolvedToJ(s *resolved.Schema) J {
	out := Obj{}
	var names []string
	nss := []any{}
	for n := range s.Namespaces {
		names = append(names, string(n))
	}
	sort.Strings(names)
	for _, n := range names {
		nss = append(nss, Obj{"name": NameToWire(n), "annos": annosToJ(s.Namespaces[types.Path(n)].Annotations)})
	}
	out["namespaces"] = nss
	names = nil
	for n := range s.Entities {
		names = append(names, string(n))
	}
	sort.Strings(names)
	ents := []any{}
	for _, n := range names {
		e := s.Entities[types.EntityType(n)]
		ps := []any{}
		for _, p := range e.ParentTypes {
			ps = append(ps, NameToWire(string(p)))
		}
		ents = append(ents, Obj{"name": NameToWire(n), "annos": annosToJ(e.Annotations), "parents": ps,
			"shape": resolvedAttrsToJ(e.Shape), "tags": resolvedTypeToJ(e.Tags)})
	}
	out["entities"] = ents
	names = nil
	for n := range s.Enums {
		names = append(names, string(n))
	}
	sort.Strings(names)
	enums := []any{}
	for _, n := range names {
		e := s.Enums[types.EntityType(n)]
		vs := []any{}
		for _, v := range e.Values {
			vs = append(vs, Obj{"ty": NameToWire(string(v.Type)), "id": StrToJ(string(v.ID))})
		}
		enums = append(enums, Obj{"name": NameToWire(n), "annos": annosToJ(e.Annotations), "values": vs})
	}
	out["enums"] = enums
	var uids []types.EntityUID
	for u := range s.Actions {
		uids = append(uids, u)
	}
	sort.Slice(uids, func(i, j int) bool { return uids[i].String() < uids[j].String() })
	acts := []any{}
	for _, u := range uids {
		a := s.Actions[u]
		ps := []any{}
		var pu []types.EntityUID
		for p := range a.Entity.Parents.All() {
			pu = append(pu, p)
		}
		sort.Slice(pu, func(i, j int) bool { return pu[i].String() < pu[j].String() })
		for _, p := range pu {
			ps = append(ps, Obj{"ty": NameToWire(string(p.Type)), "id": NameToWire(string(p.ID))})
		}
		ap := Obj{"t": "none"}
		if a.AppliesTo != nil {
			prs, rs := []any{}, []any{}
			for _, p := range a.AppliesTo.Principals {
				prs = append(prs, NameToWire(string(p)))
			}
			for _, r := range a.AppliesTo.Resources {
				rs = append(rs, NameToWire(string(r)))
			}
			ap = Obj{"t": "some", "principals": prs, "resources": rs, "context": resolvedAttrsToJ(a.AppliesTo.Context)}
		}
		acts = append(acts, Obj{"ty": NameToWire(string(u.Type)), "id": NameToWire(string(u.ID)), "uidOk": a.Entity.UID == u,
			"annos": annosToJ(a.Annotations), "parents": ps, "applies": ap})
	}
	out["actions"] = acts
	return out
}

// SchemaToJ renders a schema AST in the wire form (what a parser returned)
func SchemaToJ(s *ast.Schema) J {
	nss := []any{}
	add := func(name string, annos ast.Annotations, ents ast.Entities, enums ast.Enums, acts ast.Actions, commons ast.CommonTypes) {
		n := Obj{"name": NameToWire(name), "annos": annosToJ(annos)}
		var keys []string
		es := []any{}
		for k := range ents {
			keys = append(keys, string(k))
		}
		sort.Strings(keys)
		for _, k := range keys {
			e := ents[types.Ident(k)]
			ps := []any{}
			for _, p := range e.ParentTypes {
				ps = append(ps, refToJ(string(p)))
			}
			es = append(es, Obj{"name": NameToWire(k), "annos": annosToJ(e.Annotations), "parents": ps, "shape": attrsToJ(e.Shape), "tags": SchemaTypeToJ(e.Tags)})
		}
		n["entities"] = es
		keys = nil
		ens := []any{}
		for k := range enums {
			keys = append(keys, string(k))
		}
		sort.Strings(keys)
		for _, k := range keys {
			e := enums[types.Ident(k)]
			vs := []any{}
			for _, v := range e.Values {
				vs = append(vs, StrToJ(string(v)))
			}
			ens = append(ens, Obj{"name": NameToWire(k), "annos": annosToJ(e.Annotations), "values": vs})
		}
		n["enums"] = ens
		keys = nil
		as := []any{}
		for k := range acts {
			keys = append(keys, string(k))
		}
		sort.Strings(keys)
		for _, k := range keys {
			a := acts[types.String(k)]
			ps := []any{}
			for _, p := range a.Parents {
				ps = append(ps, Obj{"q": NameToWire(string(p.Type)), "id": NameToWire(string(p.ID))})
			}
			ap := Obj{"t": "none"}
			if a.AppliesTo != nil {
				prs, rs := []any{}, []any{}
				for _, p := range a.AppliesTo.Principals {
					prs = append(prs, refToJ(string(p)))
				}
				for _, r := range a.AppliesTo.Resources {
					rs = append(rs, refToJ(string(r)))
				}
				ap = Obj{"t": "some", "principals": prs, "resources": rs, "context": SchemaTypeToJ(a.AppliesTo.Context)}
			}
			as = append(as, Obj{"name": NameToWire(k), "annos": annosToJ(a.Annotations), "parents": ps, "applies": ap})
		}
		n["actions"] = as
		keys = nil
		cs := []any{}
		for k := range commons {
			keys = append(keys, string(k))
		}
		sort.Strings(keys)
		for _, k := range keys {
			c := commons[types.Ident(k)]
			cs = append(cs, Obj{"name": NameToWire(k), "annos": annosToJ(c.Annotations), "type": SchemaTypeToJ(c.Type)})
		}
		n["commons"] = cs
		nss = append(nss, n)
	}
	if len(s.Entities)+len(s.Enums)+len(s.Actions)+len(s.CommonTypes) > 0 {
		add("", nil, s.Entities, s.Enums, s.Actions, s.CommonTypes)
	}
	var names []string
	for n := range s.Namespaces {
		names = append(names, string(n))
	}
	sort.Strings(names)
	for _, name := range names {
		ns := s.Namespaces[types.Path(name)]
		add(name, ns.Annotations, ns.Entities, ns.Enums, ns.Actions, ns.CommonTypes)
	}
	return Obj{"ns": nss}
}
