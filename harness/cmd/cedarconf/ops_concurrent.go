package main

import (
	"context"
	"crypto/sha256"
	"encoding/json"
	"flag"
	"fmt"
	"math/rand"
	"os"
	"reflect"
	"runtime"
	"sort"
	"strings"
	"sync"

	cedar "github.com/cedar-policy/cedar-go"
	pubast "github.com/cedar-policy/cedar-go/ast"
	"github.com/cedar-policy/cedar-go/types"
	"github.com/cedar-policy/cedar-go/x/exp/ast"
	"github.com/cedar-policy/cedar-go/x/exp/batch"
	"github.com/cedar-policy/cedar-go/x/exp/eval"
	"github.com/cedar-policy/cedar-go/x/exp/schema"
	"github.com/cedar-policy/cedar-go/x/exp/schema/resolved"
	"github.com/cedar-policy/cedar-go/x/exp/schema/validate"

	"verifharness/cwf"
)

// `cedarconf concurrent -seed S -goroutines G -ops N -out trace.ndjson` (built with -race):
// G goroutines share ONE policy set, entity map, request list and value list and perform N
// random read-only operations each.  Every call and return is recorded per goroutine with
// its own sequence number (the operations do not interfere, so no cross-thread clock is
// needed).  The first trace line describes the shared state: the policies, the store and
// the requests in wire form (so that TLC can compute what every authorization must
// return), the sequential baseline digest of every other operation, and the deep snapshot
// digest of all shared inputs; snapshot events are taken before, after and -- in a
// sequential pass -- around every kind of operation.
type shared struct {
	set    *cedar.PolicySet
	ids    []cedar.PolicyID
	store  types.EntityMap
	reqs   []types.Request
	vals   []types.Value
	breq   batch.Request
	ibreqs []batch.Request // request templates with an ignored part
	asts   []*ast.Policy   // the policies as x/exp/ast trees (shared by the "partial" and "validate" operations)
	schema *schema.Schema
	rs     *resolved.Schema
	polsJ  []any
	storeJ J
	reqsJ  []any
}

// policies with several conditions, the earlier ones on parts that the batch templates ignore and the later ones
// kept: the shapes in which partial evaluation rewrites some conditions of a policy and keeps others
var craftedPolicies = []string{
	`permit(principal, action, resource) when { context.n == 1 } when { resource == principal || principal has n };`,
	`permit(principal, action, resource) when { principal in resource } unless { context has opt } when { action == action };`,
	`forbid(principal, action, resource) when { context.n == 2 } when { resource has opt };`,
	`permit(principal, action, resource) when { principal has n && principal.n == 1 } when { context has n } when { [resource, principal].contains(resource) };`,
	`permit(principal, action, resource) unless { resource has b && resource.b } when { context has s && context.s like "a*" } unless { principal == resource };`,
}

const sharedSchema = `entity U in [G] { n?: Long, s?: String, b?: Bool, opt?: Long } tags String;
entity G in [G] { n?: Long, b?: Bool };
type Ctx = { n?: Long, s?: String, opt?: Long };
action view, edit appliesTo { principal: [U, G], resource: [U, G], context: Ctx };`

func buildShared(seed int64) *shared {
	g := newGen(seed, 3)
	s := &shared{set: cedar.NewPolicySet(), store: g.store()}
	s.storeJ = cwf.StoreToJ(s.store)
	for k := 0; k < 10; k++ {
		var p *ast.Policy
		for {
			p = g.policy(3)
			if guard(func() string { (*pubast.Policy)(p).MarshalCedar(); return "" }) != "panic" {
				break
			}
		}
		id := cedar.PolicyID(fmt.Sprintf("p%d", k))
		s.polsJ = append(s.polsJ, Obj{"id": string(id), "policy": cwf.PolicyToJ(p)})
		s.set.Add(id, cedar.NewPolicyFromAST((*pubast.Policy)(p)))
		s.ids = append(s.ids, id)
	}
	for k, text := range craftedPolicies {
		var p cedar.Policy
		if err := p.UnmarshalCedar([]byte(text)); err != nil {
			panic(harnessError{err})
		}
		id := cedar.PolicyID(fmt.Sprintf("c%d", k))
		s.polsJ = append(s.polsJ, Obj{"id": string(id), "policy": cwf.PolicyToJ((*ast.Policy)(p.AST()))})
		s.set.Add(id, &p)
		s.ids = append(s.ids, id)
	}
	for _, id := range s.ids {
		s.asts = append(s.asts, (*ast.Policy)(s.set.Get(id).AST()))
	}
	s.schema = &schema.Schema{}
	if err := s.schema.UnmarshalCedar([]byte(sharedSchema)); err != nil {
		panic(harnessError{err})
	}
	s.rs = must(s.schema.Resolve())
	for k := 0; k < 6; k++ {
		env := g.env()
		env.Store = s.store
		req, _ := env.Request()
		s.reqs = append(s.reqs, req)
		s.reqsJ = append(s.reqsJ, Obj{"p": cwf.ValueToJ(env.P), "a": cwf.ValueToJ(env.A), "r": cwf.ValueToJ(env.R), "c": cwf.ValueToJ(env.C), "store": s.storeJ})
	}
	for k := 0; k < 8; k++ {
		s.vals = append(s.vals, g.value(pick(g, []kind{kSet, kRec, kSet, kStr, kEnt}), 2))
	}
	s.breq = batch.Request{Principal: batch.Variable("x"), Action: s.reqs[0].Action, Resource: s.reqs[0].Resource,
		Context:   types.NewRecord(types.RecordMap{"k": batch.Variable("y"), "n": types.Long(1)}),
		Variables: batch.Variables{"x": []types.Value{g.uid(), g.uid(), g.uid()}, "y": []types.Value{types.Long(1), types.Long(2)}}}
	vars := batch.Variables{"x": []types.Value{g.uid(), g.uid()}, "y": []types.Value{types.Long(1), types.Long(2)}}
	ctx := types.NewRecord(types.RecordMap{"n": batch.Variable("y"), "s": types.String("ab")})
	r0 := s.reqs[0]
	s.ibreqs = []batch.Request{
		{Principal: batch.Variable("x"), Action: r0.Action, Resource: r0.Resource, Context: batch.Ignore(), Variables: vars},
		{Principal: batch.Ignore(), Action: r0.Action, Resource: batch.Variable("x"), Context: ctx, Variables: vars},
		{Principal: r0.Principal, Action: batch.Ignore(), Resource: batch.Ignore(), Context: ctx, Variables: vars},
		{Principal: r0.Principal, Action: r0.Action, Resource: r0.Resource, Context: batch.Ignore()},
		{Principal: batch.Variable("x"), Action: r0.Action, Resource: batch.Ignore(),
			Context: types.NewRecord(types.RecordMap{"n": batch.Ignore(), "s": types.String("ab")}), Variables: vars},
	}
	return s
}

type opCall struct {
	Kind string
	Arg  int
}

var concKinds = []string{"authorize", "isauthorized", "batch", "set_marshalcedar", "set_marshaljson", "policy_marshalcedar",
	"policy_marshaljson", "get_all_map", "value_ops", "entities_json", "policy_accessors", "batch_ignore", "partial", "validate",
	"schema_ops"}

func digest(parts ...string) string {
	sum := sha256.Sum256([]byte(strings.Join(parts, "\x1f")))
	return fmt.Sprintf("%x", sum[:10])
}

// perform executes one read-only operation on the shared state and returns its observation
func (s *shared) perform(c opCall) (obs J) {
	defer func() {
		if r := recover(); r != nil {
			obs = Obj{"panic": fmt.Sprint(r)}
		}
	}()
	switch c.Kind {
	case "authorize", "isauthorized":
		req := s.reqs[c.Arg%len(s.reqs)]
		var dec cedar.Decision
		var diag cedar.Diagnostic
		if c.Kind == "authorize" {
			dec, diag = cedar.Authorize(s.set, s.store, req)
		} else {
			dec, diag = s.set.IsAuthorized(s.store, req)
		}
		r := diagToJ(dec, diag, func(x string) string { return x })
		delete(r, "st")
		return r
	case "batch":
		var keys []string
		err := batch.Authorize(context.Background(), s.set, s.store, s.breq, func(r batch.Result) error {
			rs := []string{}
			for _, x := range r.Diagnostic.Reasons {
				rs = append(rs, string(x.PolicyID))
			}
			sort.Strings(rs)
			keys = append(keys, fmt.Sprintf("%v|%v|%v|%v", r.Request.Principal, r.Request.Context, r.Decision, rs))
			return nil
		})
		sort.Strings(keys)
		return Obj{"d": digest(fmt.Sprint(err), strings.Join(keys, "\n"))}
	case "batch_ignore":
		var keys []string
		err := batch.Authorize(context.Background(), s.set, s.store, s.ibreqs[c.Arg%len(s.ibreqs)], func(r batch.Result) error {
			rs := []string{}
			for _, x := range r.Diagnostic.Reasons {
				rs = append(rs, string(x.PolicyID))
			}
			sort.Strings(rs)
			keys = append(keys, fmt.Sprintf("%v|%v|%v|%v|%v", r.Request.Principal, r.Request.Resource, r.Request.Context, r.Decision, rs))
			return nil
		})
		sort.Strings(keys)
		return Obj{"d": digest(fmt.Sprint(err), strings.Join(keys, "\n"))}
	case "partial":
		// the policy trees themselves (not copies) under environments with unknown and ignored parts
		p := s.asts[c.Arg%len(s.asts)]
		r0 := s.reqs[(c.Arg/len(s.asts))%len(s.reqs)]
		env := eval.Env{Entities: s.store, Principal: r0.Principal, Action: r0.Action, Resource: r0.Resource, Context: r0.Context}
		switch (c.Arg / 7) % 5 {
		case 0:
			env.Context = batch.Ignore()
		case 1:
			env.Principal = batch.Ignore()
		case 2:
			env.Principal, env.Context = eval.Variable("x"), batch.Ignore()
		case 3:
			env.Resource = eval.Variable("x")
		default:
			env.Context = types.NewRecord(types.RecordMap{"n": batch.Ignore(), "s": eval.Variable("y")})
		}
		res, keep := eval.PartialPolicy(env, p)
		if !keep || res == nil {
			return Obj{"d": digest(fmt.Sprint(keep, res == nil))}
		}
		return Obj{"d": digest("kept", cwf.Canon(cwf.PolicyToJ((*ast.Policy)(res))))}
	case "validate":
		opt := validate.WithStrict()
		if c.Arg%2 == 1 {
			opt = validate.WithPermissive()
		}
		v := validate.New(s.rs, opt)
		k := (c.Arg / 2) % (len(s.asts) + 2)
		switch {
		case k < len(s.asts):
			return Obj{"d": digest(errLines(v.Policy(string(s.ids[k]), s.asts[k])))}
		case k == len(s.asts):
			// the first finding in map order is reported: accept / reject is the result
			return Obj{"d": digest(fmt.Sprint(v.Entities(s.store) == nil))}
		default:
			return Obj{"d": digest(fmt.Sprint(v.Request(s.reqs[c.Arg%len(s.reqs)]) == nil))}
		}
	case "schema_ops":
		switch c.Arg % 3 {
		case 0:
			b, err := s.schema.MarshalCedar()
			return Obj{"d": digest(string(b), fmt.Sprint(err))}
		case 1:
			b, err := s.schema.MarshalJSON()
			return Obj{"d": digest(string(b), fmt.Sprint(err))}
		default:
			r, err := s.schema.Resolve()
			return Obj{"d": digest(deepDigest(r), fmt.Sprint(err))}
		}
	case "set_marshalcedar":
		return Obj{"d": digest(string(s.set.MarshalCedar()))}
	case "set_marshaljson":
		b, err := s.set.MarshalJSON()
		return Obj{"d": digest(string(b), fmt.Sprint(err))}
	case "policy_marshalcedar":
		return Obj{"d": digest(string(s.set.Get(s.ids[c.Arg%len(s.ids)]).MarshalCedar()))}
	case "policy_marshaljson":
		b, err := s.set.Get(s.ids[c.Arg%len(s.ids)]).MarshalJSON()
		return Obj{"d": digest(string(b), fmt.Sprint(err))}
	case "get_all_map":
		var ks []string
		for id, p := range s.set.All() {
			ks = append(ks, string(id)+"="+string(p.MarshalCedar()))
		}
		sort.Strings(ks)
		m := s.set.Map()
		return Obj{"d": digest(strings.Join(ks, "\n"), fmt.Sprint(len(m)), fmt.Sprint(s.set.Get("nope") == nil))}
	case "value_ops":
		v := s.vals[c.Arg%len(s.vals)]
		w := s.vals[(c.Arg/len(s.vals))%len(s.vals)]
		parts := []string{string(v.MarshalCedar()), v.String(), fmt.Sprint(v.Equal(w)), fmt.Sprint(w.Equal(v))}
		if b, err := json.Marshal(v); err == nil {
			parts = append(parts, string(b))
		}
		switch t := v.(type) {
		case types.Set:
			parts = append(parts, fmt.Sprint(t.Len(), t.Contains(w), len(t.Slice())))
		case types.Record:
			_, ok := t.Get("n")
			parts = append(parts, fmt.Sprint(t.Len(), ok, len(t.Map())))
		}
		return Obj{"d": digest(parts...)}
	case "entities_json":
		b, err := s.store.MarshalJSON()
		return Obj{"d": digest(string(b), fmt.Sprint(err))}
	case "policy_accessors":
		p := s.set.Get(s.ids[c.Arg%len(s.ids)])
		return Obj{"d": digest(fmt.Sprint(p.Effect(), p.Position(), p.Annotations()), cwf.Canon(cwf.PolicyToJ((*ast.Policy)(p.AST()))))}
	}
	panic(harnessError{fmt.Errorf("concurrent: unknown kind %s", c.Kind)})
}

// errLines: the findings of a validation as a sorted list -- their order follows map iteration (a call run alone
// returns them in either order), their set is the result
func errLines(err error) string {
	if err == nil {
		return "ok"
	}
	ls := strings.Split(err.Error(), "\n")
	sort.Strings(ls)
	return strings.Join(ls, "\n")
}

// deep structural snapshot of every shared input: reflection walk over exported and
// unexported fields, map contents in sorted order
func deepDigest(vs ...any) string {
	h := sha256.New()
	seen := map[uintptr]bool{}
	var walk func(v reflect.Value, depth int)
	walk = func(v reflect.Value, depth int) {
		if depth > 60 {
			return
		}
		switch v.Kind() {
		case reflect.Ptr:
			if v.IsNil() {
				h.Write([]byte("nil"))
				return
			}
			if seen[v.Pointer()] {
				h.Write([]byte("cycle"))
				return
			}
			seen[v.Pointer()] = true
			walk(v.Elem(), depth+1)
		case reflect.Interface:
			if v.IsNil() {
				h.Write([]byte("nil"))
				return
			}
			fmt.Fprintf(h, "<%s>", v.Elem().Type())
			walk(v.Elem(), depth+1)
		case reflect.Struct:
			for i := 0; i < v.NumField(); i++ {
				fmt.Fprintf(h, ".%s", v.Type().Field(i).Name)
				walk(v.Field(i), depth+1)
			}
		case reflect.Slice, reflect.Array:
			fmt.Fprintf(h, "[%d", v.Len())
			for i := 0; i < v.Len(); i++ {
				walk(v.Index(i), depth+1)
			}
		case reflect.Map:
			type kv struct {
				k string
				v reflect.Value
			}
			var items []kv
			it := v.MapRange()
			for it.Next() {
				items = append(items, kv{fmt.Sprintf("%#v", keyRepr(it.Key())), it.Value()})
			}
			sort.Slice(items, func(i, j int) bool { return items[i].k < items[j].k })
			fmt.Fprintf(h, "{%d", len(items))
			for _, e := range items {
				h.Write([]byte(e.k))
				walk(e.v, depth+1)
			}
		case reflect.String:
			fmt.Fprintf(h, "%q", v.String())
		case reflect.Bool:
			fmt.Fprintf(h, "%v", v.Bool())
		case reflect.Int, reflect.Int8, reflect.Int16, reflect.Int32, reflect.Int64:
			fmt.Fprintf(h, "%d", v.Int())
		case reflect.Uint, reflect.Uint8, reflect.Uint16, reflect.Uint32, reflect.Uint64, reflect.Uintptr:
			fmt.Fprintf(h, "%d", v.Uint())
		case reflect.Func:
			h.Write([]byte("func"))
		default:
			fmt.Fprintf(h, "?%s", v.Kind())
		}
	}
	for _, x := range vs {
		walk(reflect.ValueOf(x), 0)
	}
	return fmt.Sprintf("%x", h.Sum(nil)[:10])
}

func keyRepr(k reflect.Value) string {
	switch k.Kind() {
	case reflect.String:
		return k.String()
	case reflect.Uint64, reflect.Uint, reflect.Uint32:
		return fmt.Sprintf("%020d", k.Uint())
	case reflect.Struct:
		var sb strings.Builder
		for i := 0; i < k.NumField(); i++ {
			sb.WriteString(keyRepr(k.Field(i)))
			sb.WriteByte('|')
		}
		return sb.String()
	}
	return fmt.Sprint(k)
}

func (s *shared) snapshot() string {
	return deepDigest(s.set, s.store, s.reqs, s.vals, s.breq, s.ibreqs, s.schema, s.rs)
}

func cmdConcurrent(args []string) {
	fs := flag.NewFlagSet("concurrent", flag.ExitOnError)
	seed := fs.Int64("seed", 1, "seed")
	ng := fs.Int("goroutines", 8, "goroutines")
	nops := fs.Int("ops", 200, "operations per goroutine")
	out := fs.String("out", "", "trace ndjson")
	_ = fs.Parse(args)
	s := buildShared(*seed)
	f, err := os.Create(*out)
	if err != nil {
		fail(2, "%v", err)
	}
	defer f.Close()
	write := func(o Obj) { f.Write(marshal(o)); f.Write([]byte("\n")) }

	// sequential baseline of every operation the goroutines may perform, with a snapshot around each kind
	snap0 := s.snapshot()
	baseline := Obj{}
	var seqEvents []Obj
	for _, kind := range concKinds {
		for arg := 0; arg < 64; arg++ {
			o := s.perform(opCall{kind, arg})
			baseline[fmt.Sprintf("%s/%d", kind, arg)] = o
		}
		seqEvents = append(seqEvents, Obj{"op": "conc", "g": 0, "seq": len(seqEvents) + 1, "kind": "snapshot", "arg": 0, "after": kind, "obs": Obj{"d": s.snapshot()}})
	}
	write(Obj{"op": "shared", "policies": s.polsJ, "requests": s.reqsJ, "baseline": baseline, "snapshot": snap0,
		"goroutines": *ng, "ops": *nops})
	for _, e := range seqEvents {
		write(e)
	}
	// concurrent phase
	runtime.GOMAXPROCS(runtime.NumCPU())
	logs := make([][]Obj, *ng)
	var wg sync.WaitGroup
	start := make(chan struct{})
	for g := 0; g < *ng; g++ {
		wg.Add(1)
		go func(g int) {
			defer wg.Done()
			r := rand.New(rand.NewSource(*seed*1000 + int64(g)))
			<-start
			for i := 0; i < *nops; i++ {
				c := opCall{concKinds[r.Intn(len(concKinds))], r.Intn(64)}
				if r.Intn(4) == 0 {
					runtime.Gosched()
				}
				o := s.perform(c)
				logs[g] = append(logs[g], Obj{"op": "conc", "g": g + 1, "seq": i + 1, "kind": c.Kind, "arg": c.Arg, "obs": o})
			}
		}(g)
	}
	close(start)
	wg.Wait()
	n := 0
	for g := range logs {
		for _, e := range logs[g] {
			write(e)
			n++
		}
	}
	write(Obj{"op": "conc", "g": 0, "seq": len(seqEvents) + 1, "kind": "snapshot", "arg": 0, "after": "concurrent phase", "obs": Obj{"d": s.snapshot()}})
	fmt.Printf("concurrent: %d goroutines, %d events\n", *ng, n)
}

func init() {
	extraCmds["concurrent"] = cmdConcurrent
}
