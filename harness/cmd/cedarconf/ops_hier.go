package main

import (
	"fmt"
	"math/rand"
	"sync/atomic"
	"time"

	cedar "github.com/cedar-policy/cedar-go"
	pubast "github.com/cedar-policy/cedar-go/ast"
	"github.com/cedar-policy/cedar-go/types"
	"github.com/cedar-policy/cedar-go/x/exp/ast"
	"github.com/cedar-policy/cedar-go/x/exp/eval"
)

// op "hier": {n, par: [[parents of 1]..], present: [..], sets: [[..]..]} -> vector of
// 0/1 answers in the order documented in spec/HierVec.tla; [-1] if the queries do
// not return within the deadline (non-termination).
func hierUID(i int) types.EntityUID {
	t := "T2"
	if i%2 == 1 {
		t = "T1"
	}
	return types.NewEntityUID(types.EntityType(t), types.String(fmt.Sprintf("n%d", i)))
}

func otherType(i int) types.EntityType {
	if i%2 == 1 {
		return "T2"
	}
	return "T1"
}

func intList(j J) []int {
	arr, _ := j.([]any)
	out := make([]int, len(arr))
	for i, x := range arr {
		out[i] = must(asIntJ(x))
	}
	return out
}

func b01(b bool) any {
	if b {
		return 1
	}
	return 0
}

func opHier(c Obj) J {
	n := must(asIntJ(c["n"]))
	parArr, _ := c["par"].([]any)
	store := types.EntityMap{}
	for _, p := range intList(c["present"]) {
		var ps []types.EntityUID
		if p-1 < len(parArr) {
			for _, q := range intList(parArr[p-1]) {
				ps = append(ps, hierUID(q))
			}
		}
		store[hierUID(p)] = types.Entity{UID: hierUID(p), Parents: types.NewEntityUIDSet(ps...)}
	}
	var sets [][]types.EntityUID
	if sarr, ok := c["sets"].([]any); ok {
		for _, s := range sarr {
			var us []types.EntityUID
			for _, q := range intList(s) {
				us = append(us, hierUID(q))
			}
			sets = append(sets, us)
		}
	}
	// A query that does not terminate cannot be stopped and keeps a core busy: after a few
	// of them the remaining cases of this process are skipped ([-3], not judged) so that
	// the run ends and the non-terminating ones are reported.
	if hierHangs.Load() >= 3 {
		return []any{-3}
	}
	done := make(chan []any, 1)
	go func() {
		defer func() {
			if r := recover(); r != nil {
				done <- []any{-2}
			}
		}()
		done <- hierVector(n, store, sets)
	}()
	select {
	case v := <-done:
		return v
	case <-time.After(10 * time.Second):
		hierHangs.Add(1)
		return []any{-1}
	}
}

var hierHangs atomic.Int32

func evalBool(node ast.IsNode, store types.EntityMap) bool {
	v, err := eval.Eval(node, eval.Env{Entities: store, Principal: hierUID(1), Action: hierUID(1), Resource: hierUID(1), Context: types.Record{}})
	if err != nil {
		panic(err)
	}
	return bool(v.(types.Boolean))
}

func allowed(p *ast.Policy, store types.EntityMap, req types.Request) bool {
	ps := cedar.NewPolicySet()
	ps.Add("p", cedar.NewPolicyFromAST((*pubast.Policy)(p)))
	dec, diag := cedar.Authorize(ps, store, req)
	if len(diag.Errors) > 0 {
		panic(diag.Errors[0].Message)
	}
	return dec == cedar.Allow
}

func hierVector(n int, store types.EntityMap, sets [][]types.EntityUID) []any {
	var out []any
	v := func(u types.EntityUID) ast.IsNode { return ast.NodeValue{Value: u} }
	setVal := func(us []types.EntityUID) ast.IsNode {
		vals := make([]types.Value, len(us))
		for i, u := range us {
			vals[i] = u
		}
		return ast.NodeValue{Value: types.NewSet(vals...)}
	}
	for a := 1; a <= n; a++ {
		for b := 1; b <= n; b++ {
			out = append(out, b01(evalBool(ast.NodeTypeIn{BinaryNode: ast.BinaryNode{Left: v(hierUID(a)), Right: v(hierUID(b))}}, store)))
		}
	}
	for a := 1; a <= n; a++ {
		for k, s := range sets {
			var rhs ast.IsNode = setVal(s)
			if k%2 == 1 { // alternate between a set value and a set literal of entity nodes
				els := make([]ast.IsNode, len(s))
				for i, u := range s {
					els[i] = v(u)
				}
				rhs = ast.NodeTypeSet{Elements: els}
			}
			out = append(out, b01(evalBool(ast.NodeTypeIn{BinaryNode: ast.BinaryNode{Left: v(hierUID(a)), Right: rhs}}, store)))
		}
	}
	for a := 1; a <= n; a++ {
		for b := 1; b <= n; b++ {
			for _, ty := range []types.EntityType{hierUID(a).Type, otherType(a)} {
				out = append(out, b01(evalBool(ast.NodeTypeIsIn{NodeTypeIs: ast.NodeTypeIs{Left: v(hierUID(a)), EntityType: ty}, Entity: v(hierUID(b))}, store)))
			}
		}
	}
	all := func() *ast.Policy {
		return &ast.Policy{Effect: ast.EffectPermit, Principal: ast.ScopeTypeAll{}, Action: ast.ScopeTypeAll{}, Resource: ast.ScopeTypeAll{}}
	}
	other := types.NewEntityUID("X", "other")
	for a := 1; a <= n; a++ {
		for b := 1; b <= n; b++ {
			p := all()
			p.Principal = ast.ScopeTypeIn{Entity: hierUID(b)}
			out = append(out, b01(allowed(p, store, types.Request{Principal: hierUID(a), Action: other, Resource: other})))
		}
	}
	for a := 1; a <= n; a++ {
		for _, s := range sets {
			p := all()
			p.Action = ast.ScopeTypeInSet{Entities: s}
			out = append(out, b01(allowed(p, store, types.Request{Principal: other, Action: hierUID(a), Resource: other})))
		}
	}
	for a := 1; a <= n; a++ {
		for b := 1; b <= n; b++ {
			for _, ty := range []types.EntityType{hierUID(a).Type, otherType(a)} {
				p := all()
				p.Resource = ast.ScopeTypeIsIn{Type: ty, Entity: hierUID(b)}
				out = append(out, b01(allowed(p, store, types.Request{Principal: other, Action: other, Resource: hierUID(a)})))
			}
		}
	}
	return out
}

func cmpHier(c Obj, obs, exp J) []int {
	o, _ := obs.([]any)
	e, _ := exp.([]any)
	if len(o) == 1 && fmt.Sprint(o[0]) == "-3" {
		return nil // skipped after earlier non-terminating cases: not judged
	}
	if len(o) != len(e) {
		return []int{-1}
	}
	var bad []int
	for i := range o {
		if fmt.Sprint(o[i]) != fmt.Sprint(e[i]) {
			bad = append(bad, i)
		}
	}
	return bad
}

// driver "hier": random graphs with 5..10 nodes: dense, sparse, long chains with absent
// intermediates, long cycles; 12 random target sets each
func driveHier(seed int64, n int, params map[string]string) []Obj {
	r := rand.New(rand.NewSource(seed))
	out := make([]Obj, 0, n)
	for i := 0; i < n; i++ {
		nn := 5 + r.Intn(6)
		shape := r.Intn(5)
		par := make([][]any, nn)
		for x := 1; x <= nn; x++ {
			par[x-1] = []any{}
			switch shape {
			case 0: // sparse
				for y := 1; y <= nn; y++ {
					if r.Intn(nn) == 0 {
						par[x-1] = append(par[x-1], y)
					}
				}
			case 1: // dense
				for y := 1; y <= nn; y++ {
					if r.Intn(2) == 0 {
						par[x-1] = append(par[x-1], y)
					}
				}
			case 2: // chain x -> x+1 plus noise
				if x < nn {
					par[x-1] = append(par[x-1], x+1)
				}
				if r.Intn(4) == 0 {
					par[x-1] = append(par[x-1], 1+r.Intn(nn))
				}
			case 3: // one long cycle plus chords
				par[x-1] = append(par[x-1], x%nn+1)
				if r.Intn(3) == 0 {
					par[x-1] = append(par[x-1], 1+r.Intn(nn))
				}
			default: // layered diamonds
				for y := x + 1; y <= nn && y <= x+3; y++ {
					if r.Intn(3) != 0 {
						par[x-1] = append(par[x-1], y)
					}
				}
			}
		}
		present := []any{}
		for x := 1; x <= nn; x++ {
			if r.Intn(6) != 0 {
				present = append(present, x)
			}
		}
		sets := []any{}
		for k := 0; k < 12; k++ {
			s := []any{}
			for y := 1; y <= nn; y++ {
				if r.Intn(4) == 0 {
					s = append(s, y)
				}
			}
			sets = append(sets, s)
		}
		pj := make([]any, nn)
		for k := range par {
			pj[k] = par[k]
		}
		out = append(out, Obj{"op": "hier", "n": nn, "par": pj, "present": present, "sets": sets})
	}
	return out
}

func init() {
	register("hier", opHier, cmpHier)
	drivers["hier"] = driveHier
}
