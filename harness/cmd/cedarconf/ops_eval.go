package main

import (
	"fmt"

	cedar "github.com/cedar-policy/cedar-go"
	"github.com/cedar-policy/cedar-go/types"
	"github.com/cedar-policy/cedar-go/x/exp/ast"
	"github.com/cedar-policy/cedar-go/x/exp/eval"

	pubast "github.com/cedar-policy/cedar-go/ast"

	"verifharness/cwf"
)

// op "eval": {env, exprs: [..]} -> [{ok, v, az}..].  az, present when the
// environment is a well-formed request, is what cedar.Authorize says for
// `permit(principal,action,resource) when { expr };` -- "allow" (true), "deny"
// (false), "error" (failure or non-bool).
func opEval(c Obj) J {
	env := must(cwf.JToEnv(c["env"]))
	exprs, _ := c["exprs"].([]any)
	out := make([]any, len(exprs))
	for i, e := range exprs {
		out[i] = evalOne(must(cwf.JToNode(e)), env)
	}
	return out
}

func evalOne(node ast.IsNode, env cwf.Env) (obs J) {
	defer func() {
		if r := recover(); r != nil {
			obs = Obj{"ok": false, "panic": fmt.Sprint(r), "az": "n/a"}
		}
	}()
	v, err := eval.Eval(node, eval.Env{Entities: env.Store, Principal: env.P, Action: env.A, Resource: env.R, Context: env.C})
	o := cwf.ResultToJ(v, err).(Obj)
	if req, ok := env.Request(); ok {
		o["az"] = authzOne(node, env.Store, req)
	} else {
		o["az"] = "n/a"
	}
	return o
}

func authzOne(node ast.IsNode, store types.EntityMap, req types.Request) string {
	pol := &ast.Policy{Effect: ast.EffectPermit, Principal: ast.ScopeTypeAll{}, Action: ast.ScopeTypeAll{},
		Resource: ast.ScopeTypeAll{}, Conditions: []ast.ConditionType{{Condition: ast.ConditionWhen, Body: node}}}
	ps := cedar.NewPolicySet()
	ps.Add("p", cedar.NewPolicyFromAST((*pubast.Policy)(pol)))
	dec, diag := cedar.Authorize(ps, store, req)
	switch {
	case len(diag.Errors) == 1 && dec == cedar.Deny && len(diag.Reasons) == 0:
		return "error"
	case len(diag.Errors) == 0 && dec == cedar.Allow && len(diag.Reasons) == 1:
		return "allow"
	case len(diag.Errors) == 0 && dec == cedar.Deny && len(diag.Reasons) == 0:
		return "deny"
	}
	return "inconsistent"
}

// expected az derived from the expected evaluation result
func azOf(exp J) string {
	o, _ := exp.(Obj)
	if ok, _ := o["ok"].(bool); !ok {
		return "error"
	}
	v, _ := o["v"].(Obj)
	if v["k"] != "bool" {
		return "error"
	}
	if b, _ := v["b"].(bool); b {
		return "allow"
	}
	return "deny"
}

func cmpEval(c Obj, obs, exp J) []int {
	os, _ := obs.([]any)
	es, _ := exp.([]any)
	if len(os) != len(es) {
		return []int{-1}
	}
	var bad []int
	for i := range os {
		az, _ := os[i].(Obj)["az"].(string)
		if !cwf.ObsEqual(os[i], es[i]) || (az != "n/a" && az != azOf(es[i])) {
			bad = append(bad, i)
		}
	}
	return bad
}

func init() {
	register("eval", opEval, cmpEval)
}
