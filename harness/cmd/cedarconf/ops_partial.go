package main

import (
	"github.com/cedar-policy/cedar-go/x/exp/ast"
	"github.com/cedar-policy/cedar-go/x/exp/eval"

	"verifharness/cwf"
)

// op "partial": {policy, penv} -> {keep, residual}: what x/exp/eval.PartialPolicy answers for
// the policy under the partial environment (unknown / ignore markers in the request parts
// or nested in the context)
func opPartial(c Obj) J {
	p := must(cwf.JToPolicy(c["policy"]))
	before := cwf.Canon(cwf.PolicyToJ(p))
	env := must(cwf.JToEnv(c["penv"]))
	res, keep := eval.PartialPolicy(eval.Env{Entities: env.Store, Principal: env.P, Action: env.A, Resource: env.R, Context: env.C}, p)
	out := Obj{"keep": keep}
	if keep {
		if res == nil {
			out["residual"] = Obj{"nil": true}
		} else {
			out["residual"] = cwf.PolicyToJ((*ast.Policy)(res))
		}
	}
	if cwf.Canon(cwf.PolicyToJ(p)) != before {
		out["mutated_input"] = true
	}
	return out
}

func init() {
	register("partial", opPartial, func(c Obj, obs, exp J) []int { return nil })
	drivers["partial"] = drivePartial
}

// driver "partial": random policies under random partial environments
func drivePartial(seed int64, n int, params map[string]string) []Obj {
	g := newGen(seed, 4)
	out := make([]Obj, 0, n)
	unk := func(name string) J { return Obj{"k": "unknown", "name": name} }
	for i := 0; i < n; i++ {
		p := g.policy(4)
		env := cwf.EnvToJ(g.env()).(Obj)
		switch g.r.Intn(8) {
		case 0:
			env["p"] = unk("x")
		case 1:
			env["a"] = unk("x")
		case 2:
			env["r"] = unk("x")
		case 3:
			env["c"] = unk("x")
		case 4, 5: // an unknown nested in the context
			cobj := env["c"].(Obj)["f"].(Obj)
			cobj[pick(g, attrNames)] = unk("x")
			if g.r.Intn(2) == 0 {
				cobj["r"] = Obj{"k": "rec", "f": Obj{"n": unk("y")}}
			}
		case 6:
			env["p"] = Obj{"k": "ignore"}
		default:
			env["c"] = Obj{"k": "ignore"}
		}
		out = append(out, Obj{"op": "partial", "policy": cwf.PolicyToJ(p), "penv": env})
	}
	return out
}
