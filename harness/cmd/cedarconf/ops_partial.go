package main

import (
	"context"
	"fmt"
	"sort"

	cedar "github.com/cedar-policy/cedar-go"
	pubast "github.com/cedar-policy/cedar-go/ast"
	"github.com/cedar-policy/cedar-go/types"
	"github.com/cedar-policy/cedar-go/x/exp/ast"
	"github.com/cedar-policy/cedar-go/x/exp/batch"
	"github.com/cedar-policy/cedar-go/x/exp/eval"

	"verifharness/cwf"
)

// op "partial": {policy, penv} -> {keep, residual}: what x/exp/eval.PartialPolicy answers for
// the policy under the partial environment (unknown / ignore markers in the request parts
// or nested in the context)
func opPartial(c Obj) J {
	p := must(cwf.JToPolicy(c["policy"]))
	before := cwf.Canon(cwf.PolicyToJ(p))
	env := must(cwf.JToEnv(c["penv"]))
	res, keep := eval.PartialPolicy(eval.Env{Entities: env.Store, Principal: env.P, Action: env.A, Resource: env.R, Context: env.C}, p)
	out := Obj{"keep": keep}
	if keep {
		if res == nil {
			out["residual"] = Obj{"nil": true}
		} else {
			out["residual"] = cwf.PolicyToJ((*ast.Policy)(res))
		}
	}
	if cwf.Canon(cwf.PolicyToJ(p)) != before {
		out["mutated_input"] = true
	}
	return out
}

func init() {
	register("partial", opPartial, func(c Obj, obs, exp J) []int { return nil })
	drivers["partial"] = drivePartial
}

// driver "partial": random policies under random partial environments
func drivePartial(seed int64, n int, params map[string]string) []Obj {
	g := newGen(seed, 4)
	out := make([]Obj, 0, n)
	unk := func(name string) J { return Obj{"k": "unknown", "name": name} }
	for i := 0; i < n; i++ {
		p := g.policy(4)
		env := cwf.EnvToJ(g.env()).(Obj)
		switch g.r.Intn(8) {
		case 0:
			env["p"] = unk("x")
		case 1:
			env["a"] = unk("x")
		case 2:
			env["r"] = unk("x")
		case 3:
			env["c"] = unk("x")
		case 4, 5: // an unknown nested in the context
			cobj := env["c"].(Obj)["f"].(Obj)
			cobj[pick(g, attrNames)] = unk("x")
			if g.r.Intn(2) == 0 {
				cobj["r"] = Obj{"k": "rec", "f": Obj{"n": unk("y")}}
			}
		case 6:
			env["p"] = Obj{"k": "ignore"}
		default:
			env["c"] = Obj{"k": "ignore"}
		}
		out = append(out, Obj{"op": "partial", "policy": cwf.PolicyToJ(p), "penv": env})
	}
	return out
}

// op "batchignore": {policies: [{id, policy}], template: env with ignored parts (no variables), completions: [env]}
// -> {ok, results: [{decision, reasons}]}: what batch.Authorize answers for the template.  The completions are the
// template with concrete values in place of the ignored parts; the specification (not the harness) evaluates the
// policies under them.
func opBatchIgnore(c Obj) J {
	tmpl := must(cwf.JToEnv(c["template"]))
	set := cedar.NewPolicySet()
	pols, _ := c["policies"].([]any)
	for _, pj := range pols {
		o := pj.(Obj)
		id, _ := o["id"].(string)
		set.Add(cedar.PolicyID(id), cedar.NewPolicyFromAST((*pubast.Policy)(must(cwf.JToPolicy(o["policy"])))))
	}
	req := batch.Request{Principal: tmpl.P, Action: tmpl.A, Resource: tmpl.R, Context: tmpl.C}
	// at most one variable with one value: still one result, but the policies go through the partial passes that
	// run while a variable is unbound
	if arr, ok := c["vars"].([]any); ok && len(arr) > 0 {
		req.Variables = batch.Variables{}
		for _, e := range arr {
			o := e.(Obj)
			key, _ := o["key"].(string)
			var vals []types.Value
			for _, v := range o["values"].([]any) {
				vals = append(vals, must(cwf.JToValue(v)))
			}
			req.Variables[types.String(key)] = vals
		}
	}
	results := []any{}
	err := batch.Authorize(context.Background(), set, tmpl.Store, req, func(r batch.Result) error {
		reasons := []string{}
		for _, x := range r.Diagnostic.Reasons {
			reasons = append(reasons, string(x.PolicyID))
		}
		sort.Strings(reasons)
		dec := "deny"
		if r.Decision == cedar.Allow {
			dec = "allow"
		}
		results = append(results, Obj{"decision": dec, "reasons": strs(reasons)})
		return nil
	})
	if err != nil {
		return Obj{"ok": false, "err": ascii(err.Error()), "results": results}
	}
	return Obj{"ok": true, "results": results}
}

// driver "batchignore": random policy sets (several conditions per policy) and environments; one or two request parts
// ignored; completions from the store's entities, fresh uids and random contexts
func driveBatchIgnore(seed int64, n int, params map[string]string) []Obj {
	g := newGen(seed, 3)
	out := make([]Obj, 0, n)
	for i := 0; i < n; i++ {
		pols := []any{}
		for k := 0; k < 2+g.r.Intn(4); k++ {
			p := g.policy(3)
			for len(p.Conditions) < 1+g.r.Intn(3) {
				p.Conditions = append(p.Conditions, ast.ConditionType{Condition: ast.ConditionWhen, Body: g.expr(kBool, 1+g.r.Intn(3))})
			}
			pols = append(pols, Obj{"id": fmt.Sprintf("p%d", k), "policy": cwf.PolicyToJ(p)})
		}
		base := g.env()
		// permits that the environment the template is cut from satisfies: one condition per request part, so that
		// whichever part is ignored some condition refers to it and the others must still hold
		if uid, ok := base.P.(types.EntityUID); ok {
			likely := &ast.Policy{Effect: ast.EffectPermit, Principal: ast.ScopeTypeAll{}, Action: ast.ScopeTypeAll{}, Resource: ast.ScopeTypeAll{}}
			if g.r.Intn(2) == 0 {
				likely.Principal = ast.ScopeTypeEq{Entity: uid}
			}
			add := func(n ast.Node) {
				likely.Conditions = append(likely.Conditions, ast.ConditionType{Condition: ast.ConditionWhen, Body: n.AsIsNode()})
			}
			add(ast.Principal().Equal(ast.Value(uid)))
			add(ast.Action().Equal(ast.Value(base.A)))
			add(ast.Resource().Equal(ast.Value(base.R)).Or(ast.Context().Has("zz")))
			add(ast.Context().Equal(ast.Value(base.C)))
			// `is .. in` whose operands sit in different request parts (true when the resource is the principal)
			isin := &ast.Policy{Effect: ast.EffectPermit, Principal: ast.ScopeTypeAll{}, Action: ast.ScopeTypeAll{}, Resource: ast.ScopeTypeAll{},
				Conditions: []ast.ConditionType{{Condition: ast.ConditionWhen, Body: ast.Principal().IsIn(uid.Type, ast.Resource()).AsIsNode()}}}
			pols = append(pols, Obj{"id": "isin", "policy": cwf.PolicyToJ(isin)})
			g.r.Shuffle(len(likely.Conditions), func(a, b int) {
				likely.Conditions[a], likely.Conditions[b] = likely.Conditions[b], likely.Conditions[a]
			})
			pols = append(pols, Obj{"id": "likely", "policy": cwf.PolicyToJ(likely)})
		}
		env := cwf.EnvToJ(base).(Obj)
		parts := []string{"p", "a", "r", "c"}
		ign := map[string]bool{parts[g.r.Intn(4)]: true}
		if g.r.Intn(3) == 0 {
			ign[parts[g.r.Intn(4)]] = true
		}
		tmpl := Obj{"store": env["store"]}
		for _, k := range parts {
			if ign[k] {
				tmpl[k] = Obj{"k": "ignore"}
			} else {
				tmpl[k] = env[k]
			}
		}
		// one of the parts that are not ignored may be a variable with a single value
		vars := []any{}
		if g.r.Intn(2) == 0 {
			for _, k := range []string{"p", "r"} {
				if !ign[k] {
					vars = append(vars, Obj{"key": "x", "values": []any{env[k]}})
					tmpl[k] = Obj{"k": "unknown", "name": "x"}
					break
				}
			}
		}
		comps := []any{}
		for k := 0; k < 8; k++ {
			other := cwf.EnvToJ(g.env()).(Obj)
			comp := Obj{"store": env["store"]}
			for _, part := range parts {
				switch {
				case !ign[part]:
					comp[part] = env[part]
				case k == 0:
					comp[part] = env[part] // the environment the template was cut from
				case k == 1 && (part == "r" || part == "p"):
					if part == "r" {
						comp[part] = env["p"] // the resource is the principal
					} else {
						comp[part] = env["r"]
					}
				default:
					comp[part] = other[part]
				}
			}
			comps = append(comps, comp)
		}
		out = append(out, Obj{"op": "batchignore", "policies": pols, "template": tmpl, "completions": comps, "vars": vars})
	}
	return out
}

func init() {
	register("batchignore", opBatchIgnore, func(c Obj, obs, exp J) []int { return nil })
	drivers["batchignore"] = driveBatchIgnore
}
