package main

import (
	"bytes"
	"encoding/json"
	"fmt"
	"sort"

	cedar "github.com/cedar-policy/cedar-go"
	"github.com/cedar-policy/cedar-go/types"
	"github.com/cedar-policy/cedar-go/x/exp/ast"
	"github.com/cedar-policy/cedar-go/x/exp/eval"

	"verifharness/cwf"
)

// C11.  The universe announced by {op: "valuetable", universe: [values]} is referred to by
// 1-based index in "setlaws" / "reclaws" cases.  Values are REBUILT from the wire form for
// every use (sets by NewSet in wire order), so insertion order is what the case says.
var valueUniverse []any

func uvalue(i int) types.Value { return must(cwf.JToValue(valueUniverse[i-1])) }

func bit(b bool) any {
	if b {
		return 1
	}
	return 0
}

func evalBin(mk func(ast.BinaryNode) ast.IsNode, l, r types.Value) any {
	v, err := eval.Eval(mk(ast.BinaryNode{Left: ast.NodeValue{Value: l}, Right: ast.NodeValue{Value: r}}), eval.Env{Entities: types.EntityMap{}})
	if err != nil {
		return "error"
	}
	return bool(v.(types.Boolean))
}

// op "valuetable": equality matrix of the universe; reflexivity, symmetry through Equal in both
// argument orders; text and JSON forms of every value decode to an equal value
func opValueTable(c Obj) J {
	n := len(valueUniverse)
	eq := make([]any, n)
	for i := 1; i <= n; i++ {
		row := make([]any, n)
		for j := 1; j <= n; j++ {
			row[j-1] = uvalue(i).Equal(uvalue(j))
		}
		eq[i-1] = row
	}
	forms := []any{}
	for i := 1; i <= n; i++ {
		v := uvalue(i)
		ok := "ok"
		b, err := json.Marshal(v)
		var back types.Value
		if err != nil || types.UnmarshalJSON(b, &back) != nil || !back.Equal(v) || !v.Equal(back) {
			ok = "json form does not decode to an equal value"
		}
		// Cedar text form: parsed as the right-hand side of a condition and evaluated
		var p cedar.Policy
		txt := "permit(principal, action, resource) when { " + string(v.MarshalCedar()) + " == " + string(uvalue(i).MarshalCedar()) + " };"
		if err := p.UnmarshalCedar([]byte(txt)); err != nil {
			ok = "text form does not parse: " + err.Error()
		} else {
			body := p.AST().Conditions[0].Body
			r, err := eval.Eval(body, eval.Env{Entities: types.EntityMap{}})
			if err != nil || r != types.True {
				ok = "text form does not evaluate to an equal value"
			}
			if bn, isEq := body.(ast.NodeTypeEquals); isEq {
				lv, err := eval.Eval(bn.Left, eval.Env{Entities: types.EntityMap{}})
				if err != nil || !lv.Equal(v) {
					ok = "text form evaluates to a different value"
				}
			}
		}
		forms = append(forms, ok)
	}
	return Obj{"eq": eq, "forms": forms}
}

func buildSet(idx []int) types.Set {
	vs := make([]types.Value, len(idx))
	for i, k := range idx {
		vs[i] = uvalue(k)
	}
	return types.NewSet(vs...)
}

// op "setlaws": {a: [idx], b: [idx]} -> observations of the sets built from the two sequences
func opSetLaws(c Obj) J {
	a, b := intList(c["a"]), intList(c["b"])
	A, B := buildSet(a), buildSet(b)
	n := len(valueUniverse)
	contains := make([]any, n)
	for i := 1; i <= n; i++ {
		contains[i-1] = bit(A.Contains(uvalue(i)))
	}
	// every way of asking the same question must give the same answer; disagreements are reported
	var issues []string
	eq := A.Equal(B)
	if B.Equal(A) != eq {
		issues = append(issues, "Equal is not symmetric")
	}
	if !A.Equal(A) || !A.Equal(buildSet(a)) {
		issues = append(issues, "Equal is not reflexive")
	}
	if x := evalBin(func(b ast.BinaryNode) ast.IsNode { return ast.NodeTypeEquals{BinaryNode: b} }, A, B); x != eq {
		issues = append(issues, fmt.Sprintf("== through the evaluator says %v", x))
	}
	if x := types.NewSet(A, B).Len(); (x == 1) != eq {
		issues = append(issues, fmt.Sprintf("a set of the two sets has %d members", x))
	}
	if eq && !bytes.Equal(A.MarshalCedar(), B.MarshalCedar()) {
		// (not required by the statement: equal sets may render differently) -- recorded only
		_ = eq
	}
	if len(A.Slice()) != A.Len() {
		issues = append(issues, "Slice() and Len() disagree")
	}
	cnt := 0
	for v := range A.All() {
		cnt++
		if !A.Contains(v) {
			issues = append(issues, "All() yields a value Contains() denies")
		}
	}
	if cnt != A.Len() {
		issues = append(issues, "All() and Len() disagree")
	}
	all := evalBin(func(b ast.BinaryNode) ast.IsNode { return ast.NodeTypeContainsAll{BinaryNode: b} }, A, B)
	anyv := evalBin(func(b ast.BinaryNode) ast.IsNode { return ast.NodeTypeContainsAny{BinaryNode: b} }, A, B)
	for _, k := range b {
		if x := evalBin(func(b ast.BinaryNode) ast.IsNode { return ast.NodeTypeContains{BinaryNode: b} }, A, uvalue(k)); x != A.Contains(uvalue(k)) {
			issues = append(issues, "contains through the evaluator disagrees with Contains")
		}
	}
	out := Obj{"lenA": A.Len(), "lenB": B.Len(), "containsA": contains, "eq": eq, "containsAll": all, "containsAny": anyv}
	if len(issues) > 0 {
		out["issues"] = issues
	}
	return out
}

func buildRec(j J) types.Record {
	arr, _ := j.([]any)
	m := types.RecordMap{}
	for _, e := range arr {
		o := e.(Obj)
		m[types.String(o["key"].(string))] = uvalue(must(asIntJ(o["idx"])))
	}
	return types.NewRecord(m)
}

func opRecLaws(c Obj) J {
	r1, r2 := buildRec(c["r1"]), buildRec(c["r2"])
	eq := r1.Equal(r2)
	out := Obj{"eq": eq, "len1": r1.Len()}
	var issues []string
	if r2.Equal(r1) != eq {
		issues = append(issues, "Equal is not symmetric")
	}
	if !r1.Equal(buildRec(c["r1"])) {
		issues = append(issues, "Equal is not reflexive")
	}
	if x := evalBin(func(b ast.BinaryNode) ast.IsNode { return ast.NodeTypeEquals{BinaryNode: b} }, r1, r2); x != eq {
		issues = append(issues, fmt.Sprintf("== through the evaluator says %v", x))
	}
	if x := types.NewSet(r1, r2).Len(); (x == 1) != eq {
		issues = append(issues, fmt.Sprintf("a set of the two records has %d members", x))
	}
	if len(issues) > 0 {
		out["issues"] = issues
	}
	return out
}

func cmpLaws(c Obj, obs, exp J) []int {
	o, ok := obs.(Obj)
	if !ok || o["issues"] != nil || o["panic"] != nil {
		return []int{0}
	}
	e, _ := exp.(Obj)
	for k, v := range e {
		if cwf.Canon(cwf.MustParse(marshal(o[k]))) != cwf.Canon(v) {
			return []int{0}
		}
	}
	return nil
}

func cmpValueTable(c Obj, obs, exp J) []int {
	o, ok := obs.(Obj)
	if !ok {
		return []int{0}
	}
	e, _ := exp.(Obj)
	if cwf.Canon(cwf.MustParse(marshal(o["eq"]))) != cwf.Canon(e["eq"]) {
		return []int{0}
	}
	for _, f := range o["forms"].([]any) {
		if f != "ok" {
			return []int{1}
		}
	}
	return nil
}

// op "valuehist": {steps: [{a: construct|mutate_input|take_output|mutate_output|observe, ...}]}
// replayed on a Set, a Record and an EntityUIDSet built from the same caller-owned input
func opValueHist(c Obj) J {
	steps, _ := c["steps"].([]any)
	var in []types.Value
	var inMap types.RecordMap
	var inUIDs []types.EntityUID
	var set types.Set
	var rec types.Record
	var uset types.EntityUIDSet
	var outs [][]types.Value
	var outMaps []types.RecordMap
	var outUIDs [][]types.EntityUID
	uid := func(n int) types.EntityUID { return types.NewEntityUID("T", types.String(fmt.Sprint(n))) }
	var built []int
	obs := []any{}
	for _, st := range steps {
		s := st.(Obj)
		switch s["a"] {
		case "construct":
			built = intList(s["input"])
			in = nil
			inMap = types.RecordMap{}
			inUIDs = nil
			for i, v := range built {
				in = append(in, types.Long(v))
				inMap[types.String(fmt.Sprintf("k%d", i+1))] = types.Long(v)
				inUIDs = append(inUIDs, uid(v))
			}
			set, rec, uset = types.NewSet(in...), types.NewRecord(inMap), types.NewEntityUIDSet(inUIDs...)
		case "mutate_input":
			i, v := must(asIntJ(s["i"])), must(asIntJ(s["v"]))
			in[i-1] = types.Long(v)
			inMap[types.String(fmt.Sprintf("k%d", i))] = types.Long(v)
			inMap["extra"] = types.Long(v)
			inUIDs[i-1] = uid(v)
		case "grow_input":
			v := must(asIntJ(s["v"]))
			in = append(in, types.Long(v+50))
			inMap[types.String(fmt.Sprintf("g%d", len(inMap)))] = types.Long(v)
			inUIDs = append(inUIDs, uid(v+50))
		case "take_output":
			outs = append(outs, set.Slice())
			outMaps = append(outMaps, rec.Map())
			outUIDs = append(outUIDs, uset.Slice())
		case "mutate_output":
			k, v := must(asIntJ(s["k"])), must(asIntJ(s["v"]))
			if k <= len(outs) {
				for i := range outs[k-1] {
					outs[k-1][i] = types.Long(v + 100)
				}
				for key := range outMaps[k-1] {
					outMaps[k-1][key] = types.Long(v + 100)
				}
				outMaps[k-1]["added"] = types.Long(v)
				for i := range outUIDs[k-1] {
					outUIDs[k-1][i] = uid(v + 100)
				}
			}
		case "observe":
			var sm, um []int
			for v := range set.All() {
				sm = append(sm, int(v.(types.Long)))
			}
			for u := range uset.All() {
				var n int
				fmt.Sscan(string(u.ID), &n)
				um = append(um, n)
			}
			sort.Ints(sm)
			sort.Ints(um)
			rm := []any{}
			for i := range built {
				v, ok := rec.Get(types.String(fmt.Sprintf("k%d", i+1)))
				if !ok {
					rm = append(rm, "missing")
				} else {
					rm = append(rm, int(v.(types.Long)))
				}
			}
			obs = append(obs, Obj{"set": sm, "uidset": um, "rec": rm, "reclen": rec.Len(), "built": built})
		}
	}
	return obs
}

// expected from the history itself: every observe sees the members as built
func cmpValueHist(c Obj, obs, exp J) []int {
	arr, _ := obs.([]any)
	steps, _ := c["steps"].([]any)
	k := 0
	for _, st := range steps {
		s := st.(Obj)
		if s["a"] != "observe" {
			continue
		}
		if k >= len(arr) {
			return []int{k}
		}
		o := arr[k].(Obj)
		members := intList(s["members"])
		sort.Ints(members)
		if fmt.Sprint(o["set"]) != fmt.Sprint(members) || fmt.Sprint(o["uidset"]) != fmt.Sprint(members) {
			return []int{k}
		}
		built, _ := o["built"].([]int)
		if fmt.Sprint(o["rec"]) != fmt.Sprint(built) || fmt.Sprint(o["reclen"]) != fmt.Sprint(len(built)) {
			return []int{k}
		}
		k++
	}
	return nil
}

func init() {
	preloadHooks = append(preloadHooks, func(l []byte) {
		if bytes.Contains(l, []byte(`"op":"valuetable"`)) {
			valueUniverse, _ = cwf.MustParse(l).(Obj)["universe"].([]any)
		}
	})
	register("valuetable", opValueTable, cmpValueTable)
	register("setlaws", opSetLaws, cmpLaws)
	register("reclaws", opRecLaws, cmpLaws)
	register("valuehist", opValueHist, cmpValueHist)
}
