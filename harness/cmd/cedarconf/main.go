// cedarconf binds the TLA+ specification to the real cedar-go code.
//
//	cedarconf replay  -in cases.ndjson -out diffs.ndjson -stats stats.json
//	    executes every TLC-generated case (op + inputs + the result the
//	    specification predicts) against the real code and writes the cases
//	    whose observation differs from the prediction.
//	cedarconf drive   -area A -seed S -n N -out trace.ndjson
//	    runs seeded random inputs through the real code and records one event
//	    per call (inputs + observation) for TLC to validate.
//	cedarconf exec    -in events.ndjson -out events2.ndjson
//	    re-executes recorded events (confirmation of a candidate violation).
//	cedarconf selftest
package main

import (
	"bufio"
	"encoding/json"
	"flag"
	"fmt"
	"os"
	"runtime"
	"sort"
	"sync"

	"verifharness/cwf"
)

type J = cwf.J
type Obj = cwf.Obj

// An op executes one case against the real code and returns the observation.
type opFunc func(c Obj) J

// A comparator decides whether observation and expectation agree on the
// observables the property names; it returns the indices (into a list-valued
// observation; 0 for a scalar one) that differ.
type cmpFunc func(c Obj, obs, exp J) []int

var ops = map[string]opFunc{}
var cmps = map[string]cmpFunc{}

func register(name string, f opFunc, c cmpFunc) {
	ops[name] = f
	cmps[name] = c
}

func readLines(path string, fn func(line []byte) error) error {
	f, err := os.Open(path)
	if err != nil {
		return err
	}
	defer f.Close()
	sc := bufio.NewScanner(f)
	sc.Buffer(make([]byte, 1<<20), 1<<30)
	for sc.Scan() {
		b := sc.Bytes()
		if len(b) == 0 {
			continue
		}
		if err := fn(append([]byte(nil), b...)); err != nil {
			return err
		}
	}
	return sc.Err()
}

func marshal(j J) []byte {
	b, err := json.Marshal(j)
	if err != nil {
		panic(err)
	}
	return b
}

func runOp(c Obj) (obs J) {
	name, _ := c["op"].(string)
	f, ok := ops[name]
	if !ok {
		fail(2, "unknown op %q", name)
	}
	if isolatedOps[name] && os.Getenv("VERIF_CHILD") == "" {
		return runIsolated(c)
	}
	defer func() {
		if r := recover(); r != nil {
			if he, ok := r.(harnessError); ok {
				fail(2, "harness error in op %s: %v", name, he.err)
			}
			obs = Obj{"ok": false, "panic": fmt.Sprint(r)}
		}
	}()
	return f(c)
}

// harnessError marks a failure of the harness itself (bad wire data), as
// opposed to a panic of the code under test.
type harnessError struct{ err error }

func must[T any](v T, err error) T {
	if err != nil {
		panic(harnessError{err})
	}
	return v
}

func fail(code int, format string, args ...any) {
	fmt.Fprintf(os.Stderr, "cedarconf: "+format+"\n", args...)
	os.Exit(code)
}

type stats struct {
	Cases    int            `json:"cases"`
	Diffs    int            `json:"diffs"`
	ByOp     map[string]int `json:"by_op"`
	Distinct int            `json:"distinct"`
	Samples  []J            `json:"samples"`
	Extra    map[string]int `json:"extra,omitempty"`
}

func parallelMap(lines [][]byte, fn func(i int, line []byte) []byte) [][]byte {
	out := make([][]byte, len(lines))
	var wg sync.WaitGroup
	nw := runtime.NumCPU()
	ch := make(chan int, 256)
	for w := 0; w < nw; w++ {
		wg.Add(1)
		go func() {
			defer wg.Done()
			for i := range ch {
				out[i] = fn(i, lines[i])
			}
		}()
	}
	for i := range lines {
		ch <- i
	}
	close(ch)
	wg.Wait()
	return out
}

func cmdReplay(args []string) {
	fs := flag.NewFlagSet("replay", flag.ExitOnError)
	in := fs.String("in", "", "cases ndjson")
	out := fs.String("out", "", "diffs ndjson")
	statsPath := fs.String("stats", "", "stats json")
	_ = fs.Parse(args)
	var lines [][]byte
	if err := readLines(*in, func(l []byte) error { lines = append(lines, l); return nil }); err != nil {
		fail(2, "read %s: %v", *in, err)
	}
	st := stats{ByOp: map[string]int{}}
	var mu sync.Mutex
	seen := map[string]bool{}
	preloadTables(lines)
	res := parallelMap(lines, func(i int, line []byte) []byte {
		c, ok := cwf.MustParse(line).(Obj)
		if !ok {
			fail(2, "case %d is not an object", i)
		}
		obs := runOp(c)
		name, _ := c["op"].(string)
		mu.Lock()
		st.ByOp[name]++
		seen[cwf.Canon(c)] = true
		if len(st.Samples) < 3 {
			st.Samples = append(st.Samples, Obj{"case": c, "obs": obs})
		}
		mu.Unlock()
		bad := cmps[name](c, obs, c["exp"])
		if len(bad) == 0 {
			return nil
		}
		return marshal(Obj{"case": c, "obs": obs, "bad": bad})
	})
	f, err := os.Create(*out)
	if err != nil {
		fail(2, "%v", err)
	}
	w := bufio.NewWriter(f)
	for _, r := range res {
		if r != nil {
			st.Diffs++
			w.Write(r)
			w.WriteByte('\n')
		}
	}
	w.Flush()
	f.Close()
	st.Cases = len(lines)
	st.Distinct = len(seen)
	if *statsPath != "" {
		os.WriteFile(*statsPath, marshal(st), 0o644)
	}
	fmt.Printf("replay: %d cases, %d diffs\n", st.Cases, st.Diffs)
}

// cmdExec re-executes recorded events: every event keeps its inputs, `obs` is
// recomputed.
func cmdExec(args []string) {
	fs := flag.NewFlagSet("exec", flag.ExitOnError)
	in := fs.String("in", "", "events ndjson")
	out := fs.String("out", "", "events ndjson")
	_ = fs.Parse(args)
	var lines [][]byte
	if err := readLines(*in, func(l []byte) error { lines = append(lines, l); return nil }); err != nil {
		fail(2, "read %s: %v", *in, err)
	}
	res := parallelMap(lines, func(i int, line []byte) []byte {
		c := cwf.MustParse(line).(Obj)
		c["obs"] = runOp(c)
		return marshal(c)
	})
	f, err := os.Create(*out)
	if err != nil {
		fail(2, "%v", err)
	}
	w := bufio.NewWriter(f)
	for _, r := range res {
		w.Write(r)
		w.WriteByte('\n')
	}
	w.Flush()
	f.Close()
}

// drivers generate inputs for an area; they return cases without obs.
type driver func(seed int64, n int, params map[string]string) []Obj

var drivers = map[string]driver{}

func cmdDrive(args []string) {
	fs := flag.NewFlagSet("drive", flag.ExitOnError)
	area := fs.String("area", "", "area")
	seed := fs.Int64("seed", 1, "seed")
	n := fs.Int("n", 1000, "number of events")
	out := fs.String("out", "", "trace ndjson prefix; shards are <out>.<k>")
	shards := fs.Int("shards", 1, "number of shard files")
	statsPath := fs.String("stats", "", "stats json")
	param := fs.String("param", "", "k=v,k=v")
	_ = fs.Parse(args)
	d, ok := drivers[*area]
	if !ok {
		fail(2, "unknown area %q", *area)
	}
	params := map[string]string{}
	for _, kv := range splitNonEmpty(*param, ',') {
		for i := 0; i < len(kv); i++ {
			if kv[i] == '=' {
				params[kv[:i]] = kv[i+1:]
			}
		}
	}
	if params["table"] != "" {
		preloadFile(params["table"])
	}
	cases := d(*seed, *n, params)
	lines := make([][]byte, len(cases))
	for i, c := range cases {
		lines[i] = marshal(c)
	}
	st := stats{ByOp: map[string]int{}, Extra: map[string]int{}}
	var mu sync.Mutex
	seen := map[string]bool{}
	res := parallelMap(lines, func(i int, line []byte) []byte {
		c := cases[i]
		obs := runOp(c)
		c["obs"] = obs
		name, _ := c["op"].(string)
		mu.Lock()
		st.ByOp[name]++
		seen[string(line)] = true
		if o, ok := obs.(Obj); ok {
			if okv, _ := o["ok"].(bool); okv {
				st.Extra["obs_ok"]++
			} else if _, has := o["ok"]; has {
				st.Extra["obs_err"]++
			}
		}
		mu.Unlock()
		return marshal(c)
	})
	files := make([]*bufio.Writer, *shards)
	fhs := make([]*os.File, *shards)
	for k := range files {
		f, err := os.Create(fmt.Sprintf("%s.%d", *out, k))
		if err != nil {
			fail(2, "%v", err)
		}
		fhs[k] = f
		files[k] = bufio.NewWriter(f)
	}
	for i, r := range res {
		w := files[i%*shards]
		w.Write(r)
		w.WriteByte('\n')
		if i < 3 {
			st.Samples = append(st.Samples, cwf.MustParse(r))
		}
	}
	for k := range files {
		files[k].Flush()
		fhs[k].Close()
	}
	st.Cases = len(cases)
	st.Distinct = len(seen)
	if *statsPath != "" {
		os.WriteFile(*statsPath, marshal(st), 0o644)
	}
	fmt.Printf("drive %s: %d events in %d shards\n", *area, len(cases), *shards)
}

func splitNonEmpty(s string, sep byte) []string {
	var out []string
	start := 0
	for i := 0; i <= len(s); i++ {
		if i == len(s) || s[i] == sep {
			if i > start {
				out = append(out, s[start:i])
			}
			start = i + 1
		}
	}
	return out
}

func main() {
	if len(os.Args) < 2 {
		fail(2, "usage: cedarconf replay|drive|exec|selftest ...")
	}
	switch os.Args[1] {
	case "replay":
		cmdReplay(os.Args[2:])
	case "drive":
		cmdDrive(os.Args[2:])
	case "exec":
		cmdExec(os.Args[2:])
	case "selftest":
		cmdSelftest()
	case "ops":
		names := []string{}
		for k := range ops {
			names = append(names, k)
		}
		sort.Strings(names)
		fmt.Println(names)
	default:
		if f, ok := extraCmds[os.Args[1]]; ok {
			f(os.Args[2:])
			return
		}
		fail(2, "unknown command %q", os.Args[1])
	}
}

var extraCmds = map[string]func(args []string){}
