package main

import (
	"bytes"
	"encoding/json"
	"fmt"
	"math"
	"math/big"
	"strings"

	"github.com/cedar-policy/cedar-go/types"
	"github.com/cedar-policy/cedar-go/x/exp/schema"
	"github.com/cedar-policy/cedar-go/x/exp/schema/resolved"
	exptypes "github.com/cedar-policy/cedar-go/x/exp/types"

	"verifharness/cwf"
)

// ---------------------------------------------------------------- TJSON -> JSON

func fromTJSON(j J, w *bytes.Buffer) {
	o := j.(Obj)
	switch {
	case o["s"] != nil:
		b, _ := json.Marshal(must(cwf.JToStr(o["s"])))
		w.Write(b)
	case o["n"] != nil:
		w.WriteString(must(cwf.JToBig(o["n"])).String())
	case o["b"] != nil:
		fmt.Fprint(w, o["b"].(bool))
	case o["a"] != nil:
		w.WriteByte('[')
		for i, it := range o["a"].([]any) {
			if i > 0 {
				w.WriteByte(',')
			}
			fromTJSON(it, w)
		}
		w.WriteByte(']')
	case o["o"] != nil:
		w.WriteByte('{')
		for i, m := range o["o"].([]any) {
			if i > 0 {
				w.WriteByte(',')
			}
			mo := m.(Obj)
			b, _ := json.Marshal(must(cwf.JToStr(mo["k"])))
			w.Write(b)
			w.WriteByte(':')
			fromTJSON(mo["v"], w)
		}
		w.WriteByte('}')
	default:
		w.WriteString("null")
	}
}

func tStr(s string) J { return Obj{"s": cwf.StrToJ(s)} }
func tObj(members ...any) J {
	if members == nil {
		members = []any{}
	}
	return Obj{"o": members}
}
func tMember(k string, v J) any { return Obj{"k": cwf.StrToJ(k), "v": v} }
func tKey(m any) string         { return must(cwf.JToStr(m.(Obj)["k"])) }
func tMembers(j J) ([]any, bool) {
	o, ok := j.(Obj)
	if !ok {
		return nil, false
	}
	ms, ok := o["o"].([]any)
	return ms, ok
}
func tGet(j J, key string) (J, bool) {
	ms, ok := tMembers(j)
	if !ok {
		return nil, false
	}
	for _, m := range ms {
		if tKey(m) == key {
			return m.(Obj)["v"], true
		}
	}
	return nil, false
}

// an entity reference in the other spelling: implicit {"type","id"} <-> explicit {"__entity": {...}}
func flipEntRef(j J) J {
	if inner, ok := tGet(j, "__entity"); ok {
		return inner
	}
	return tObj(tMember("__entity", j))
}

// respell the entity references in the positions where the format allows both spellings
func respellEntity(doc J, uid, parents bool) J {
	ms, _ := tMembers(doc)
	out := []any{}
	for _, m := range ms {
		k, v := tKey(m), m.(Obj)["v"]
		switch {
		case k == "uid" && uid:
			v = flipEntRef(v)
		case k == "parents" && parents:
			arr := []any{}
			for _, p := range v.(Obj)["a"].([]any) {
				arr = append(arr, flipEntRef(p))
			}
			v = Obj{"a": arr}
		}
		out = append(out, tMember(k, v))
	}
	return Obj{"o": out}
}

func valueBack(b []byte) J {
	return guardJ(func() J {
		var v types.Value
		if err := types.UnmarshalJSON(b, &v); err != nil {
			return Obj{"ok": false, "err": ascii(err.Error())}
		}
		b2, _ := json.Marshal(v)
		return Obj{"ok": true, "v": cwf.ValueToJ(v), "re": string(b2), "go": v}
	})
}

// the decoded object and the original must be Equal for the library itself (both directions), hash-compatible
// (a set holding both has one member) and equal as members of records
func goEqual(a, b types.Value) bool {
	if a == nil || b == nil {
		return false
	}
	if !a.Equal(b) || !b.Equal(a) {
		return false
	}
	if types.NewSet(a, b).Len() != 1 || !types.NewSet(a).Equal(types.NewSet(b)) {
		return false
	}
	return types.NewRecord(types.RecordMap{"k": a}).Equal(types.NewRecord(types.RecordMap{"k": b}))
}

func entityToJ(e types.Entity) J {
	m := types.EntityMap{e.UID: e}
	return cwf.StoreToJ(m).([]any)[0]
}

func entityBack(b []byte) J {
	return guardJ(func() J {
		var e types.Entity
		if err := json.Unmarshal(b, &e); err != nil {
			return Obj{"ok": false, "err": ascii(err.Error())}
		}
		b2, _ := json.Marshal(e)
		return Obj{"ok": true, "v": entityToJ(e), "re": string(b2), "go": e}
	})
}

func entitiesBack(b []byte) J {
	return guardJ(func() J {
		var m types.EntityMap
		if err := json.Unmarshal(b, &m); err != nil {
			return Obj{"ok": false, "err": ascii(err.Error())}
		}
		b2, _ := json.Marshal(m)
		return Obj{"ok": true, "v": cwf.StoreToJ(m), "n": len(m), "re": string(b2)}
	})
}

func requestBack(b []byte) J {
	return guardJ(func() J {
		var r types.Request
		if err := json.Unmarshal(b, &r); err != nil {
			return Obj{"ok": false, "err": ascii(err.Error())}
		}
		b2, _ := json.Marshal(r)
		return Obj{"ok": true, "v": Obj{"p": cwf.ValueToJ(r.Principal), "a": cwf.ValueToJ(r.Action), "r": cwf.ValueToJ(r.Resource), "c": cwf.ValueToJ(r.Context)}, "re": string(b2)}
	})
}

// the typed decoders of extension values accept three spellings
func typedSpellings(v types.Value) []any {
	var fn, arg string
	var dec func(b []byte) (types.Value, error)
	switch t := v.(type) {
	case types.Decimal:
		fn, arg = "decimal", t.String()
		dec = func(b []byte) (types.Value, error) { var x types.Decimal; err := x.UnmarshalJSON(b); return x, err }
	case types.Datetime:
		fn, arg = "datetime", t.String()
		dec = func(b []byte) (types.Value, error) { var x types.Datetime; err := x.UnmarshalJSON(b); return x, err }
	case types.Duration:
		fn, arg = "duration", t.String()
		dec = func(b []byte) (types.Value, error) { var x types.Duration; err := x.UnmarshalJSON(b); return x, err }
	case types.IPAddr:
		fn, arg = "ip", t.String()
		dec = func(b []byte) (types.Value, error) { var x types.IPAddr; err := x.UnmarshalJSON(b); return x, err }
	case types.EntityUID:
		out := []any{}
		for _, sp := range []struct{ name, doc string }{
			{"EntityUID implicit", fmt.Sprintf(`{"type":%s,"id":%s}`, jstr(string(t.Type)), jstr(string(t.ID)))},
			{"EntityUID explicit", fmt.Sprintf(`{"__entity":{"type":%s,"id":%s}}`, jstr(string(t.Type)), jstr(string(t.ID)))}} {
			doc := sp.doc
			out = append(out, Obj{"name": sp.name, "back": guardJ(func() J {
				var u types.EntityUID
				if err := u.UnmarshalJSON([]byte(doc)); err != nil {
					return Obj{"ok": false, "err": ascii(err.Error())}
				}
				return Obj{"ok": true, "v": cwf.ValueToJ(u)}
			})})
		}
		return out
	default:
		return []any{}
	}
	out := []any{}
	for _, sp := range []struct{ name, doc string }{
		{fn + " bare string", jstr(arg)},
		{fn + " {fn,arg}", fmt.Sprintf(`{"fn":%s,"arg":%s}`, jstr(fn), jstr(arg))},
		{fn + " __extn", fmt.Sprintf(`{"__extn":{"fn":%s,"arg":%s}}`, jstr(fn), jstr(arg))}} {
		doc := sp.doc
		out = append(out, Obj{"name": sp.name, "back": guardJ(func() J {
			x, err := dec([]byte(doc))
			if err != nil {
				return Obj{"ok": false, "err": ascii(err.Error())}
			}
			return Obj{"ok": true, "v": cwf.ValueToJ(x)}
		})})
	}
	return out
}

func jstr(s string) string { b, _ := json.Marshal(s); return string(b) }

// op "vjson": {kind: value|entity|entities|request, datum} -> the JSON round trip of the datum
//
//	json:   TJSON of json.Marshal(datum)
//	back:   {ok, v} from the matching decoder
//	rejson: "same" iff encoding the decoded datum reproduces the bytes
//	spell:  [{name, doc (TJSON), back}] alternative spellings of the document (entity references explicit / implicit
//	        in uid and parents positions) and what the decoder made of them
//	typed:  [{name, back}] the spellings a typed decoder accepts (extension values, EntityUID)
func opVJSON(c Obj) J {
	kind, _ := c["kind"].(string)
	out := Obj{"spell": []any{}, "typed": []any{}}
	var b []byte
	var err error
	var back func([]byte) J
	var names []J
	names = append(names, c["datum"])
	switch kind {
	case "value":
		v := must(cwf.JToValue(c["datum"]))
		b, err = json.Marshal(v)
		back = valueBack
		out["typed"] = typedSpellings(v)
	case "entity":
		m := must(cwf.JToStore([]any{c["datum"]}))
		for _, e := range m {
			b, err = json.Marshal(e)
		}
		back = entityBack
	case "entities":
		m := must(cwf.JToStore(c["datum"]))
		b, err = json.Marshal(m)
		back = entitiesBack
	case "request":
		env := must(cwf.JToEnv(Obj{"p": c["datum"].(Obj)["p"], "a": c["datum"].(Obj)["a"], "r": c["datum"].(Obj)["r"], "c": c["datum"].(Obj)["c"], "store": []any{}}))
		req, ok := env.Request()
		if !ok {
			return Obj{"skip": "not a request"}
		}
		b, err = json.Marshal(req)
		back = requestBack
	default:
		panic(harnessError{fmt.Errorf("vjson: unknown kind %q", kind)})
	}
	if err != nil {
		return Obj{"json": Obj{"z": 0}, "back": Obj{"ok": false, "err": "Marshal: " + ascii(err.Error())}, "rejson": "n/a", "spell": []any{}, "typed": []any{},
			"names": jsonNameTable(names...)}
	}
	doc := must(ToTJSON(b))
	out["json"] = doc
	bk := back(b)
	out["back"] = bk
	out["rejson"] = "n/a"
	if ok, _ := bk.(Obj)["ok"].(bool); ok {
		names = append(names, bk.(Obj)["v"])
		// second round trip: the decoder's own re-encoding of what it decoded
		re, _ := bk.(Obj)["re"].(string)
		out["rejson"] = "differs"
		if re == string(b) {
			out["rejson"] = "same"
		}
	}
	bkAnswer := "rejected"
	if ok, _ := bk.(Obj)["ok"].(bool); ok {
		re, _ := bk.(Obj)["re"].(string)
		bkAnswer = "ok " + re
	}
	delete(bk.(Obj), "re")
	out["equal"] = true
	if g, has := bk.(Obj)["go"]; has {
		switch kind {
		case "value":
			out["equal"] = goEqual(must(cwf.JToValue(c["datum"])), g.(types.Value))
		case "entity":
			for _, e := range must(cwf.JToStore([]any{c["datum"]})) {
				out["equal"] = e.Equal(g.(types.Entity)) && g.(types.Entity).Equal(e)
			}
		}
		delete(bk.(Obj), "go")
	}
	// the same document, byte-level respelling: every string and key written with \uXXXX escapes, white space
	// between all tokens.  It is the same JSON text for any reader (RFC 8259), so the decoder must give the same answer
	escDiffers := []any{}
	// "the same answer": both rejected, or both accepted and the library's own encoding of the two decoded objects is
	// the same bytes (the wire form of a decoded set lists members in Go map order, so it cannot be compared)
	answer := func(r J) string {
		ro := r.(Obj)
		if ok, _ := ro["ok"].(bool); !ok {
			return "rejected"
		}
		re, _ := ro["re"].(string)
		return "ok " + re
	}
	escCheck := func(name string, d J, plain string) {
		var w bytes.Buffer
		writeEscaped(d, &w)
		if answer(back(w.Bytes())) != plain {
			escDiffers = append(escDiffers, name)
		}
	}
	escCheck("encoding", doc, bkAnswer)
	spell := []any{}
	addSpell := func(name string, d J) {
		var w bytes.Buffer
		fromTJSON(d, &w)
		r := back(w.Bytes())
		escCheck(name, d, answer(r))
		delete(r.(Obj), "re")
		delete(r.(Obj), "go")
		if ok, _ := r.(Obj)["ok"].(bool); ok {
			names = append(names, r.(Obj)["v"])
		}
		spell = append(spell, Obj{"name": name, "doc": d, "back": r})
	}
	switch kind {
	case "entity":
		addSpell("uid explicit", respellEntity(doc, true, false))
		addSpell("parents explicit", respellEntity(doc, false, true))
		addSpell("uid and parents explicit", respellEntity(doc, true, true))
	case "entities":
		if items, ok := doc.(Obj)["a"].([]any); ok {
			arr := []any{}
			for i, e := range items {
				arr = append(arr, respellEntity(e, i%2 == 0, i%2 == 1))
			}
			addSpell("entity references explicit (alternating)", Obj{"a": arr})
		}
	case "request":
		ms, _ := tMembers(doc)
		outm := []any{}
		for _, m := range ms {
			k, v := tKey(m), m.(Obj)["v"]
			if k != "context" {
				v = flipEntRef(v)
			}
			outm = append(outm, tMember(k, v))
		}
		addSpell("entity references implicit", Obj{"o": outm})
	}
	out["spell"] = spell
	out["escdiffers"] = escDiffers
	out["names"] = jsonNameTable(names...)
	return out
}

func init() { register("vjson", opVJSON, func(c Obj, obs, exp J) []int { return nil }) }

// ---------------------------------------------------------------- driver

var jsonKeys = []string{"k", "", "a b", "é", "\"q\"", "\\", "\x00", " ", "type", "id", "fn", "arg", "__entity ", "__extn2", "\U0001F600", "</script>", "\x7f"}

// records whose keys are the escape words of the format (top level only, see the known finding)
func escapeLookalike(k int) types.Value {
	rec := func(m types.RecordMap) types.Value { return types.NewRecord(m) }
	switch k % 8 {
	case 0:
		return rec(types.RecordMap{"__entity": types.Long(5)})
	case 1:
		return rec(types.RecordMap{"__extn": types.String("x"), "k": types.Long(1)})
	case 2:
		return rec(types.RecordMap{"__entity": rec(types.RecordMap{"type": types.String("U"), "id": types.String("a")})})
	case 3:
		return rec(types.RecordMap{"__extn": rec(types.RecordMap{"fn": types.String("decimal"), "arg": types.String("1.0")})})
	case 4:
		return rec(types.RecordMap{"__extn": rec(types.RecordMap{"fn": types.String("nosuch"), "arg": types.String("1.0")})})
	case 5:
		return rec(types.RecordMap{"__entity": rec(types.RecordMap{"type": types.String("U")})})
	case 6:
		return rec(types.RecordMap{"__extn": rec(types.RecordMap{"fn": types.Long(1), "arg": types.String("1.0")})})
	default:
		return rec(types.RecordMap{"__entity": rec(types.RecordMap{"type": types.String("U"), "id": types.String("a")}), "type": types.Long(1)})
	}
}

// records whose keys differ from the escape words of the format only in letter case: ordinary records
func caseLookalike(k int) types.Value {
	rec := func(m types.RecordMap) types.Value { return types.NewRecord(m) }
	ent := rec(types.RecordMap{"type": types.String("T"), "id": types.String("x")})
	ext := rec(types.RecordMap{"fn": types.String("ip"), "arg": types.String("1.2.3.4")})
	switch k % 8 {
	case 0:
		return rec(types.RecordMap{"__Entity": ent})
	case 1:
		return rec(types.RecordMap{"__ENTITY": ent, "other": types.Long(1)})
	case 2:
		return rec(types.RecordMap{"__Extn": ext})
	case 3:
		return rec(types.RecordMap{"__EXTN": rec(types.RecordMap{})})
	case 4:
		return rec(types.RecordMap{"__eNtItY": types.Long(5)})
	case 5:
		return rec(types.RecordMap{"__extN": ext, "__Entity": ent})
	case 6:
		return rec(types.RecordMap{"__ENTITY": rec(types.RecordMap{"TYPE": types.String("T"), "ID": types.String("x")})})
	default:
		return rec(types.RecordMap{"__Extn": rec(types.RecordMap{"FN": types.String("decimal"), "Arg": types.String("1.0")})})
	}
}

var collidingMembers = []types.Value{types.Boolean(true), types.Long(1), cwf.DecimalFromRaw(1), types.NewDurationFromMillis(1), types.NewDatetimeFromMillis(1),
	types.Boolean(false), types.Long(0), cwf.DecimalFromRaw(0), types.Long(2), types.Long(3), types.Long(5), cwf.DecimalFromRaw(5),
	types.NewSet(types.Long(1), types.Long(2)), types.NewSet(types.Long(3)), types.NewSet(), types.NewSet(types.Long(0))}

// sets whose members collide in the library's hash (equal numeric payloads, equal member sums), in random insertion order
func (g *gen) collidingSet() types.Value {
	n := 2 + g.r.Intn(3)
	vs := make([]types.Value, n)
	for i := range vs {
		vs[i] = collidingMembers[g.r.Intn(len(collidingMembers))]
	}
	return types.NewSet(vs...)
}

func (g *gen) jsonValue(depth int) types.Value {
	if g.r.Intn(8) == 0 {
		if depth > 0 && g.r.Intn(2) == 0 {
			return types.NewRecord(types.RecordMap{"s": g.collidingSet(), "t": types.NewSet(g.collidingSet(), g.collidingSet())})
		}
		return g.collidingSet()
	}
	switch g.r.Intn(10) {
	case 0:
		return types.Long(boundary64(g.r, g.r.Intn(60)))
	case 1:
		return types.String(g.textString(g.r.Intn(80)))
	case 2:
		if depth > 0 {
			n := g.r.Intn(4)
			vs := make([]types.Value, n)
			for i := range vs {
				vs[i] = g.jsonValue(depth - 1)
			}
			return types.NewSet(vs...)
		}
	case 3:
		if depth > 0 {
			m := types.RecordMap{}
			for i := g.r.Intn(4); i > 0; i-- {
				m[types.String(jsonKeys[g.r.Intn(len(jsonKeys))])] = g.jsonValue(depth - 1)
			}
			return types.NewRecord(m)
		}
	case 4:
		return types.NewEntityUID(types.EntityType(textTypes[g.r.Intn(len(textTypes))]), types.String(g.textString(g.r.Intn(80))))
	case 5: // records that look like the implicit forms
		return types.NewRecord(types.RecordMap{"type": types.String("U"), "id": types.String("a")})
	case 6:
		return types.NewRecord(types.RecordMap{"fn": types.String("decimal"), "arg": types.String("1.0")})
	}
	return g.value(g.scalarKind(), 0)
}

// driver "vjson": values (nested sets / records to depth 3, every extension type at its boundaries, longs at the
// 64-bit limits, strings and keys over the Unicode classes and the characters JSON escapes, records that look like
// implicit forms), entities with 0-3 parents / attrs / tags, entity maps of 0-5 entities, requests
func driveVJSON(seed int64, n int, params map[string]string) []Obj {
	g := newGen(seed, 3)
	g.avoidKnown = true
	out := make([]Obj, 0, n)
	entity := func() types.Entity {
		e := types.Entity{UID: types.NewEntityUID(types.EntityType(textTypes[g.r.Intn(len(textTypes))]), types.String(g.textString(g.r.Intn(80))))}
		var ps []types.EntityUID
		for i := g.r.Intn(4); i > 0; i-- {
			ps = append(ps, types.NewEntityUID(types.EntityType(textTypes[g.r.Intn(len(textTypes))]), types.String(g.textString(g.r.Intn(80)))))
		}
		e.Parents = types.NewEntityUIDSet(ps...)
		am, tm := types.RecordMap{}, types.RecordMap{}
		for i := g.r.Intn(4); i > 0; i-- {
			am[types.String(jsonKeys[g.r.Intn(len(jsonKeys))])] = g.jsonValue(2)
		}
		for i := g.r.Intn(3); i > 0; i-- {
			tm[types.String(g.textString(g.r.Intn(80)))] = g.jsonValue(1)
		}
		e.Attributes, e.Tags = types.NewRecord(am), types.NewRecord(tm)
		return e
	}
	for i := 0; len(out) < n; i++ {
		switch i % 8 {
		case 0, 1:
			out = append(out, Obj{"op": "vjson", "kind": "value", "datum": cwf.ValueToJ(g.jsonValue(3))})
		case 2:
			if i%128 == 66 {
				// both members hash to 2^64 - 1: the probe chain wraps around
				out = append(out, Obj{"op": "vjson", "kind": "value", "datum": cwf.ValueToJ(types.NewSet(types.Long(-1), cwf.DecimalFromRaw(-1)))})
			} else if i%64 == 2 {
				out = append(out, Obj{"op": "vjson", "kind": "value", "datum": cwf.ValueToJ(escapeLookalike(i / 64))})
			} else if i%64 == 34 || i%64 == 18 {
				v := caseLookalike(i / 16)
				if (i/64)%3 == 1 { // nested: the value of an attribute, a member of a set
					v = types.NewRecord(types.RecordMap{"k": v, "s": types.NewSet(v)})
				}
				out = append(out, Obj{"op": "vjson", "kind": "value", "datum": cwf.ValueToJ(v)})
			} else {
				out = append(out, Obj{"op": "vjson", "kind": "value", "datum": cwf.ValueToJ(g.jsonValue(3))})
			}
		case 3: // scalars at their boundaries
			k := i / 8
			var v types.Value
			switch k % 5 {
			case 0:
				v = types.Long(boundary64(g.r, k/5))
			case 1:
				v = cwf.DecimalFromRaw(boundary64(g.r, k/5))
			case 2:
				ms := boundary64(g.r, k/5)
				if ms < -9223372036854775808+2*86400000 {
					ms = 0
				}
				v = types.NewDatetimeFromMillis(ms)
			case 3:
				v = types.NewDurationFromMillis(boundary64(g.r, k/5))
			default:
				ip := g.ipValue(k / 5)
				if ip.Addr().Is4In6() {
					ip = g.ipValue(0)
				}
				v = ip
			}
			out = append(out, Obj{"op": "vjson", "kind": "value", "datum": cwf.ValueToJ(v)})
		case 4, 5:
			out = append(out, Obj{"op": "vjson", "kind": "entity", "datum": entityToJ(entity())})
		case 6:
			m := types.EntityMap{}
			for k := g.r.Intn(6); k > 0; k-- {
				e := entity()
				m[e.UID] = e
			}
			out = append(out, Obj{"op": "vjson", "kind": "entities", "datum": cwf.StoreToJ(m)})
		default:
			e := g.env()
			if _, ok := e.Request(); !ok {
				continue
			}
			j := cwf.EnvToJ(e).(Obj)
			out = append(out, Obj{"op": "vjson", "kind": "request", "datum": Obj{"p": j["p"], "a": j["a"], "r": j["r"], "c": j["c"]}})
		}
	}
	return out
}

func init() { drivers["vjson"] = driveVJSON }

var _ = big.NewInt
var _ = strings.TrimSpace

// ---------------------------------------------------------------- schema-guided decoding

const coerceSchemaText = `
namespace NS { entity T; }
entity G;
entity U in [G] {
  e: U, oe?: NS::T, d: decimal, ip?: ipaddr, t?: datetime, dur?: duration,
  se: Set<U>, sd?: Set<decimal>, r: { e?: U, d: decimal, s: String, n?: { e: Set<NS::T> } },
  s: String, n: Long, b?: Bool
} tags Set<decimal>;
entity TagsOnlyExt tags decimal;
entity TagsOnlyEnt in [G] tags U;
entity TagsOnlySet tags Set<ipaddr>;
entity TagsRec tags { e: U, d?: decimal };
entity NoTags { e: U };
`

var coerceSchema = func() *schema.Schema {
	var s schema.Schema
	if err := s.UnmarshalCedar([]byte(coerceSchemaText)); err != nil {
		panic(err)
	}
	return &s
}()

// rewrite an explicit-form value document into the implicit form the declared type allows
func implicitByType(doc J, t resolved.IsType) J {
	switch t := t.(type) {
	case resolved.EntityType:
		if inner, ok := tGet(doc, "__entity"); ok {
			return inner
		}
	case resolved.ExtensionType:
		if inner, ok := tGet(doc, "__extn"); ok {
			if arg, ok := tGet(inner, "arg"); ok {
				return arg
			}
		}
	case resolved.SetType:
		if o, ok := doc.(Obj); ok {
			if items, ok := o["a"].([]any); ok {
				out := []any{}
				for _, it := range items {
					out = append(out, implicitByType(it, t.Element))
				}
				return Obj{"a": out}
			}
		}
	case resolved.RecordType:
		if ms, ok := tMembers(doc); ok {
			out := []any{}
			for _, m := range ms {
				k, v := tKey(m), m.(Obj)["v"]
				if a, ok := t[types.String(k)]; ok {
					v = implicitByType(v, a.Type)
				}
				out = append(out, tMember(k, v))
			}
			return Obj{"o": out}
		}
	}
	return doc
}

// mixedByType: like implicitByType, but inside every set the members alternate between the implicit and the explicit
// spelling (one document may mix them), starting with the implicit one when first is true
func mixedByType(doc J, t resolved.IsType, first bool) J {
	switch t := t.(type) {
	case resolved.SetType:
		if o, ok := doc.(Obj); ok {
			if items, ok := o["a"].([]any); ok {
				out := []any{}
				for i, it := range items {
					if (i%2 == 0) == first {
						out = append(out, implicitByType(it, t.Element))
					} else {
						out = append(out, mixedByType(it, t.Element, first))
					}
				}
				return Obj{"a": out}
			}
		}
	case resolved.RecordType:
		if ms, ok := tMembers(doc); ok {
			out := []any{}
			for _, m := range ms {
				k, v := tKey(m), m.(Obj)["v"]
				if a, ok := t[types.String(k)]; ok {
					v = mixedByType(v, a.Type, first)
				}
				out = append(out, tMember(k, v))
			}
			return Obj{"o": out}
		}
	}
	return doc
}

// op "vjsonschema": {datum: entity (conforming to coerceSchema)} -> spell: [{name, doc, backs: [Entity.UnmarshalJSONWithSchema,
// EntityMap.UnmarshalJSONWithSchema]}] for the encoder's own document and for the implicit spelling
func opVJSONSchema(c Obj) J {
	rs := must(coerceSchema.Resolve())
	var ent types.Entity
	for _, e := range must(cwf.JToStore([]any{c["datum"]})) {
		ent = e
	}
	b, err := json.Marshal(ent)
	if err != nil {
		panic(harnessError{err})
	}
	doc := must(ToTJSON(b))
	names := []J{c["datum"], Obj{"attr": "type"}, Obj{"attr": "id"}}
	spellings := []struct {
		name string
		doc  J
	}{{"explicit", doc}}
	if se, ok := rs.Entities[ent.UID.Type]; ok {
		ms, _ := tMembers(doc)
		out := []any{}
		for _, m := range ms {
			k, v := tKey(m), m.(Obj)["v"]
			switch {
			case k == "attrs":
				v = implicitByType(v, se.Shape)
			case k == "tags" && se.Tags != nil:
				tms, _ := tMembers(v)
				tout := []any{}
				for _, tm := range tms {
					tout = append(tout, tMember(tKey(tm), implicitByType(tm.(Obj)["v"], se.Tags)))
				}
				v = Obj{"o": tout}
			}
			out = append(out, tMember(k, v))
		}
		spellings = append(spellings, struct {
			name string
			doc  J
		}{"implicit", Obj{"o": out}})
		for _, first := range []bool{true, false} {
			mout := []any{}
			for _, m := range ms {
				k, v := tKey(m), m.(Obj)["v"]
				switch {
				case k == "attrs":
					v = mixedByType(v, se.Shape, first)
				case k == "tags" && se.Tags != nil:
					tms, _ := tMembers(v)
					tout := []any{}
					for _, tm := range tms {
						tout = append(tout, tMember(tKey(tm), mixedByType(tm.(Obj)["v"], se.Tags, first)))
					}
					v = Obj{"o": tout}
				}
				mout = append(mout, tMember(k, v))
			}
			name := "mixed (implicit first)"
			if !first {
				name = "mixed (explicit first)"
			}
			spellings = append(spellings, struct {
				name string
				doc  J
			}{name, Obj{"o": mout}})
		}
	}
	spell := []any{}
	escDiffers := []any{}
	for _, sp := range spellings {
		var w bytes.Buffer
		fromTJSON(sp.doc, &w)
		raw := w.Bytes()
		one := guardJ(func() J {
			var e exptypes.Entity
			if err := e.UnmarshalJSONWithSchema(raw, rs); err != nil {
				return Obj{"ok": false, "err": ascii(err.Error())}
			}
			return Obj{"ok": true, "v": entityToJ(types.Entity(e))}
		})
		many := guardJ(func() J {
			var m exptypes.EntityMap
			if err := m.UnmarshalJSONWithSchema(append(append([]byte("["), raw...), ']'), rs); err != nil {
				return Obj{"ok": false, "err": ascii(err.Error())}
			}
			for _, e := range m {
				return Obj{"ok": true, "v": entityToJ(e)}
			}
			return Obj{"ok": false, "err": "empty map"}
		})
		for _, r := range []J{one, many} {
			if ok, _ := r.(Obj)["ok"].(bool); ok {
				names = append(names, r.(Obj)["v"])
			}
		}
		// the byte-level respelling of the same document (strings and keys \u-escaped, white space between tokens) must
		// get the same answer from the schema-guided decoder: compared through the library's own encoding
		answer := func(b []byte) string {
			return guardS(func() string {
				var e exptypes.Entity
				if err := e.UnmarshalJSONWithSchema(b, rs); err != nil {
					return "rejected"
				}
				re, _ := json.Marshal(types.Entity(e))
				return "ok " + string(re)
			})
		}
		var esc bytes.Buffer
		writeEscaped(sp.doc, &esc)
		if answer(raw) != answer(esc.Bytes()) {
			escDiffers = append(escDiffers, sp.name)
		}
		spell = append(spell, Obj{"name": sp.name, "doc": sp.doc, "backs": []any{one, many}})
	}
	return Obj{"spell": spell, "escdiffers": escDiffers, "names": jsonNameTable(names...)}
}

// driver "vjsonschema": entities of every type of coerceSchema, optional members present and absent
func driveVJSONSchema(seed int64, n int, params map[string]string) []Obj {
	g := newGen(seed, 2)
	g.avoidKnown = true
	uid := func(t string) types.EntityUID {
		return types.NewEntityUID(types.EntityType(t), types.String(g.textString(g.r.Intn(70))))
	}
	dec := func() types.Value { return cwf.DecimalFromRaw(boundary64(g.r, g.r.Intn(50))) }
	ip := func() types.Value { return g.ipValue(g.r.Intn(14)) }
	dt := func() types.Value {
		ms := boundary64(g.r, g.r.Intn(50))
		if ms < -9223372036854775808+2*86400000 {
			ms = 1
		}
		return types.NewDatetimeFromMillis(ms)
	}
	opt := func() bool { return g.r.Intn(2) == 0 }
	set := func(f func() types.Value) types.Value {
		var vs []types.Value
		for i := g.r.Intn(5); i > 0; i-- {
			vs = append(vs, f())
		}
		return types.NewSet(vs...)
	}
	tags := func(f func() types.Value) types.Record {
		m := types.RecordMap{}
		for i := g.r.Intn(3); i > 0; i-- {
			m[types.String(g.textString(g.r.Intn(70)))] = f()
		}
		return types.NewRecord(m)
	}
	out := make([]Obj, 0, n)
	for i := 0; len(out) < n; i++ {
		var e types.Entity
		switch i % 6 {
		case 0, 1:
			e.UID = uid("U")
			m := types.RecordMap{"e": uid("U"), "d": dec(), "se": set(func() types.Value { return uid("U") }), "s": types.String(g.textString(g.r.Intn(70))), "n": types.Long(boundary64(g.r, g.r.Intn(40)))}
			r := types.RecordMap{"d": dec(), "s": types.String("type")}
			if opt() {
				r["e"] = uid("U")
			}
			if opt() {
				r["n"] = types.NewRecord(types.RecordMap{"e": set(func() types.Value { return uid("NS::T") })})
			}
			m["r"] = types.NewRecord(r)
			if opt() {
				m["oe"] = uid("NS::T")
			}
			if opt() {
				m["ip"] = ip()
			}
			if opt() {
				m["t"] = dt()
			}
			if opt() {
				m["dur"] = types.NewDurationFromMillis(boundary64(g.r, g.r.Intn(50)))
			}
			if opt() {
				m["sd"] = set(dec)
			}
			if opt() {
				m["b"] = types.Boolean(opt())
			}
			e.Attributes = types.NewRecord(m)
			e.Parents = types.NewEntityUIDSet(uid("G"))
			e.Tags = tags(func() types.Value { return set(dec) })
		case 2:
			e.UID, e.Tags = uid("TagsOnlyExt"), tags(dec)
		case 3:
			e.UID, e.Tags = uid("TagsOnlyEnt"), tags(func() types.Value { return uid("U") })
			e.Parents = types.NewEntityUIDSet(uid("G"))
		case 4:
			e.UID, e.Tags = uid("TagsOnlySet"), tags(func() types.Value { return set(ip) })
		default:
			if i%12 == 5 {
				e.UID, e.Attributes = uid("NoTags"), types.NewRecord(types.RecordMap{"e": uid("U")})
			} else {
				e.UID = uid("TagsRec")
				e.Tags = tags(func() types.Value {
					m := types.RecordMap{"e": uid("U")}
					if opt() {
						m["d"] = dec()
					}
					return types.NewRecord(m)
				})
			}
		}
		out = append(out, Obj{"op": "vjsonschema", "schema": cwf.SchemaToJ(coerceSchema.AST()), "datum": entityToJ(e)})
	}
	return out
}

func init() {
	register("vjsonschema", opVJSONSchema, func(c Obj, obs, exp J) []int { return nil })
	drivers["vjsonschema"] = driveVJSONSchema
}

// ---------------------------------------------------------------- decision and diagnostic JSON (C13)

type decisionDiag struct {
	Decision   types.Decision   `json:"decision"`
	Diagnostic types.Diagnostic `json:"diagnostic"`
}

func intToJ(n int) J { return bigToJ(big.NewInt(int64(n))) }

func diagPosToJ(p types.Position) J {
	return Obj{"file": cwf.StrToJ(p.Filename), "off": intToJ(p.Offset), "line": intToJ(p.Line), "col": intToJ(p.Column)}
}

func decisionDiagToJ(d decisionDiag) J {
	rs, es := []any{}, []any{}
	for _, r := range d.Diagnostic.Reasons {
		rs = append(rs, Obj{"id": cwf.StrToJ(string(r.PolicyID)), "pos": diagPosToJ(r.Position)})
	}
	for _, e := range d.Diagnostic.Errors {
		es = append(es, Obj{"id": cwf.StrToJ(string(e.PolicyID)), "pos": diagPosToJ(e.Position), "msg": cwf.StrToJ(e.Message)})
	}
	dec := "deny"
	if d.Decision == types.Allow {
		dec = "allow"
	}
	return Obj{"decision": dec, "reasons": rs, "errors": es}
}

// op "djson": {dd: index of the generated decision/diagnostic, seed} is not replayable from the wire alone, so the
// event carries the datum itself: {datum: {decision, reasons, errors}} (strings as code points, numbers as limbs)
func opDJSON(c Obj) J {
	dj := c["datum"].(Obj)
	var d decisionDiag
	d.Decision = types.Decision(dj["decision"] == "allow")
	pos := func(j J) types.Position {
		o := j.(Obj)
		return types.Position{Filename: must(cwf.JToStr(o["file"])), Offset: int(must(cwf.JToBig(o["off"])).Int64()),
			Line: int(must(cwf.JToBig(o["line"])).Int64()), Column: int(must(cwf.JToBig(o["col"])).Int64())}
	}
	for _, r := range dj["reasons"].([]any) {
		o := r.(Obj)
		d.Diagnostic.Reasons = append(d.Diagnostic.Reasons, types.DiagnosticReason{PolicyID: types.PolicyID(must(cwf.JToStr(o["id"]))), Position: pos(o["pos"])})
	}
	for _, e := range dj["errors"].([]any) {
		o := e.(Obj)
		d.Diagnostic.Errors = append(d.Diagnostic.Errors, types.DiagnosticError{PolicyID: types.PolicyID(must(cwf.JToStr(o["id"]))), Position: pos(o["pos"]),
			Message: must(cwf.JToStr(o["msg"]))})
	}
	b, err := json.Marshal(d)
	if err != nil {
		return Obj{"json": Obj{"z": 0}, "back": Obj{"ok": false, "err": ascii(err.Error())}, "rejson": "n/a"}
	}
	out := Obj{"json": must(ToTJSON(b)), "rejson": "n/a"}
	var back decisionDiag
	if err := json.Unmarshal(b, &back); err != nil {
		out["back"] = Obj{"ok": false, "err": ascii(err.Error())}
		return out
	}
	out["back"] = Obj{"ok": true, "v": decisionDiagToJ(back)}
	out["rejson"] = "differs"
	if b2, err := json.Marshal(back); err == nil && bytes.Equal(b, b2) {
		out["rejson"] = "same"
	}
	return out
}

// driver "djson": decisions with 0-3 reasons and errors; ids, file names and messages over the text classes (JSON
// escapes, non-BMP, controls), positions at the boundaries of int
func driveDJSON(seed int64, n int, params map[string]string) []Obj {
	g := newGen(seed, 2)
	out := make([]Obj, 0, n)
	num := func() int {
		switch g.r.Intn(6) {
		case 0:
			return 0
		case 1:
			return math.MaxInt64
		case 2:
			return math.MinInt64
		case 3:
			return -1
		default:
			return g.r.Intn(100000)
		}
	}
	str := func() string { return g.textString(g.r.Intn(70)) }
	pos := func() types.Position {
		return types.Position{Filename: str(), Offset: num(), Line: num(), Column: num()}
	}
	for i := 0; i < n; i++ {
		var d decisionDiag
		d.Decision = types.Decision(g.r.Intn(2) == 0)
		for k := g.r.Intn(4); k > 0; k-- {
			d.Diagnostic.Reasons = append(d.Diagnostic.Reasons, types.DiagnosticReason{PolicyID: types.PolicyID(str()), Position: pos()})
		}
		for k := g.r.Intn(4); k > 0; k-- {
			d.Diagnostic.Errors = append(d.Diagnostic.Errors, types.DiagnosticError{PolicyID: types.PolicyID(str()), Position: pos(), Message: str()})
		}
		out = append(out, Obj{"op": "djson", "datum": decisionDiagToJ(d)})
	}
	return out
}

func init() {
	register("djson", opDJSON, func(c Obj, obs, exp J) []int { return nil })
	drivers["djson"] = driveDJSON
}
