package main

import (
	"encoding/json"
	"fmt"
	"math"
	"net/netip"
	"strconv"
	"strings"
	"time"

	cedar "github.com/cedar-policy/cedar-go"
	"github.com/cedar-policy/cedar-go/types"
	"github.com/cedar-policy/cedar-go/x/exp/ast"
	"github.com/cedar-policy/cedar-go/x/exp/eval"

	"verifharness/cwf"
)

// ---------------------------------------------------------------- C12: text forms

func parseScalar(kind, s string) (types.Value, error) {
	switch kind {
	case "decimal":
		return types.ParseDecimal(s)
	case "duration":
		return types.ParseDuration(s)
	case "datetime":
		return types.ParseDatetime(s)
	case "ip":
		return types.ParseIPAddr(s)
	}
	panic(harnessError{fmt.Errorf("unknown scalar kind %q", kind)})
}

func guardJ(f func() J) (obs J) {
	defer func() {
		if r := recover(); r != nil {
			if he, ok := r.(harnessError); ok {
				panic(he)
			}
			obs = Obj{"ok": false, "panic": fmt.Sprint(r)}
		}
	}()
	return f()
}

// the __extn JSON spelling of an extension value decoded by the typed decoder
func jsonScalar(kind, s string) (types.Value, error) {
	b, _ := json.Marshal(map[string]any{"__extn": map[string]any{"fn": kind, "arg": s}})
	switch kind {
	case "decimal":
		var v types.Decimal
		err := v.UnmarshalJSON(b)
		return v, err
	case "duration":
		var v types.Duration
		err := v.UnmarshalJSON(b)
		return v, err
	case "datetime":
		var v types.Datetime
		err := v.UnmarshalJSON(b)
		return v, err
	default:
		var v types.IPAddr
		err := v.UnmarshalJSON(b)
		return v, err
	}
}

// op "parsetext": {kind, texts: [cps]} -> per text {parse, json, eval}: types.Parse<kind>, the
// typed JSON decoder on {"__extn": {"fn": kind, "arg": text}}, and the constructor function
// through the evaluator.
func opParseText(c Obj) J {
	kind, _ := c["kind"].(string)
	texts, _ := c["texts"].([]any)
	out := make([]any, len(texts))
	for i, t := range texts {
		s := must(cwf.JToStr(t))
		out[i] = Obj{
			"parse": guardJ(func() J { return cwf.ResultToJ(parseScalar(kind, s)) }),
			"json":  guardJ(func() J { return cwf.ResultToJ(jsonScalar(kind, s)) }),
			"eval": guardJ(func() J {
				return cwf.ResultToJ(eval.Eval(ast.NodeTypeExtensionCall{Name: types.Path(kind),
					Args: []ast.IsNode{ast.NodeValue{Value: types.String(s)}}}, eval.Env{}))
			}),
		}
	}
	return out
}

func cmpParseText(c Obj, obs, exp J) []int {
	os, _ := obs.([]any)
	es, _ := exp.([]any)
	if len(os) != len(es) {
		return []int{-1}
	}
	var bad []int
	for i := range os {
		o, _ := os[i].(Obj)
		for _, way := range []string{"parse", "json", "eval"} {
			if !cwf.ObsEqual(o[way], es[i]) {
				bad = append(bad, i)
				break
			}
		}
	}
	return bad
}

// op "construct": NewDecimal(i, e) for every i of `is`; NewDecimalFromFloat(m * 2^p) for every
// {m, p} of `fs`.
func opConstruct(c Obj) J {
	fn, _ := c["fn"].(string)
	switch fn {
	case "NewDecimal":
		e := must(cwf.AsInt(c["e"]))
		is, _ := c["is"].([]any)
		out := make([]any, len(is))
		for k, ij := range is {
			i := must(cwf.JToI64(ij))
			o := Obj{"new": guardJ(func() J { return cwf.ResultToJ(types.NewDecimal(i, e)) })}
			if e == 0 {
				o["fromInt"] = guardJ(func() J { return cwf.ResultToJ(types.NewDecimalFromInt(i)) })
			}
			out[k] = o
		}
		return out
	case "Duration.Duration":
		is, _ := c["is"].([]any)
		out := make([]any, len(is))
		for k, ij := range is {
			ms := must(cwf.JToI64(ij))
			out[k] = Obj{"new": guardJ(func() J {
				d, err := types.NewDurationFromMillis(ms).Duration()
				return cwf.ResultToJ(types.Long(int64(d)), err)
			})}
		}
		return out
	case "Duration.ToDays", "Duration.ToHours", "Duration.ToMinutes", "Duration.ToSeconds", "Duration.ToMilliseconds", "NewDuration", "Datetime.Time":
		is, _ := c["is"].([]any)
		out := make([]any, len(is))
		for k, ij := range is {
			x := must(cwf.JToI64(ij))
			out[k] = Obj{"new": guardJ(func() J {
				d := types.NewDurationFromMillis(x)
				switch fn {
				case "Duration.ToDays":
					return cwf.ResultToJ(types.Long(d.ToDays()), nil)
				case "Duration.ToHours":
					return cwf.ResultToJ(types.Long(d.ToHours()), nil)
				case "Duration.ToMinutes":
					return cwf.ResultToJ(types.Long(d.ToMinutes()), nil)
				case "Duration.ToSeconds":
					return cwf.ResultToJ(types.Long(d.ToSeconds()), nil)
				case "Duration.ToMilliseconds":
					return cwf.ResultToJ(types.Long(d.ToMilliseconds()), nil)
				case "NewDuration": // x is a count of nanoseconds
					return cwf.ResultToJ(types.NewDuration(time.Duration(x)), nil)
				default: // through time.Time and back
					return cwf.ResultToJ(types.NewDatetime(types.NewDatetimeFromMillis(x).Time()), nil)
				}
			})}
		}
		return out
	case "NewDecimalFromFloat":
		fs, _ := c["fs"].([]any)
		out := make([]any, len(fs))
		for k, fj := range fs {
			f := fj.(Obj)
			m, p := must(cwf.JToI64(f["m"])), must(cwf.AsInt(f["p"]))
			x := math.Ldexp(float64(m), p)
			switch p {
			case 9999:
				x = math.NaN()
			case 9998:
				x = math.Inf(1)
			case 9997:
				x = math.Inf(-1)
			}
			out[k] = Obj{"new": guardJ(func() J { return cwf.ResultToJ(types.NewDecimalFromFloat(x)) })}
		}
		return out
	}
	panic(harnessError{fmt.Errorf("unknown constructor %q", fn)})
}

// exact or error: a value must be the exact one; inside the documented exponent range
// (-4..14) a representable result must also be produced
func cmpConstruct(c Obj, obs, exp J) []int {
	os, _ := obs.([]any)
	es, _ := exp.([]any)
	if len(os) != len(es) {
		return []int{-1}
	}
	strict := true
	if c["fn"] == "NewDecimal" {
		e := must(cwf.AsInt(c["e"]))
		strict = e >= -4 && e <= 14
	}
	var bad []int
	for i := range os {
		o, _ := os[i].(Obj)
		for _, way := range []string{"new", "fromInt"} {
			r, has := o[way].(Obj)
			if !has {
				continue
			}
			ok, _ := r["ok"].(bool)
			_, panicked := r["panic"]
			if panicked || (ok || strict) && !cwf.ObsEqual(r, es[i]) {
				bad = append(bad, i)
				break
			}
		}
	}
	return bad
}

// text of a Cedar expression -> the real parser -> the real evaluator
func evalText(text string) J {
	var p cedar.Policy
	if err := p.UnmarshalCedar([]byte("permit(principal, action, resource) when { " + text + " };")); err != nil {
		return Obj{"ok": false, "stage": "parse", "err": ascii(err.Error())}
	}
	a := (*ast.Policy)(p.AST())
	if len(a.Conditions) != 1 {
		return Obj{"ok": false, "stage": "conditions"}
	}
	v, err := eval.Eval(a.Conditions[0].Body, eval.Env{})
	r := cwf.ResultToJ(v, err).(Obj)
	if ok, _ := r["ok"].(bool); ok {
		r["v"] = cwf.SplitTypes(r["v"])
	}
	return r
}

// op "textform": {v} -> the printed forms of the value and what the real parsers make of them
//
//	str, reparsed: String() and types.Parse*(String()) for decimal / datetime / duration / ipaddr;
//	               EntityUID.String() and EntityUID.UnmarshalCedar / UnmarshalBinary for entities
//	cedar, evalback: MarshalCedar() and the value of that text read by the real parser + evaluator
//	words, names: spelling tables for the specification's lexer
func opTextForm(c Obj) J {
	v := must(cwf.JToValue(c["v"]))
	out := Obj{}
	res := func(v types.Value, err error) J {
		r := cwf.ResultToJ(v, err).(Obj)
		if ok, _ := r["ok"].(bool); ok {
			r["v"] = cwf.SplitTypes(r["v"])
		}
		return r
	}
	switch t := v.(type) {
	case types.Decimal:
		out["str"] = cwf.StrToJ(t.String())
		out["reparsed"] = guardJ(func() J { return res(types.ParseDecimal(t.String())) })
	case types.Datetime:
		out["str"] = cwf.StrToJ(t.String())
		out["reparsed"] = guardJ(func() J { return res(types.ParseDatetime(t.String())) })
	case types.Duration:
		out["str"] = cwf.StrToJ(t.String())
		out["reparsed"] = guardJ(func() J { return res(types.ParseDuration(t.String())) })
	case types.IPAddr:
		out["str"] = cwf.StrToJ(t.String())
		out["reparsed"] = guardJ(func() J { return res(types.ParseIPAddr(t.String())) })
	case types.EntityUID:
		out["str"] = cwf.StrToJ(t.String())
		out["reparsed"] = guardJ(func() J {
			var u, u2 types.EntityUID
			if err := u.UnmarshalCedar([]byte(t.String())); err != nil {
				return res(nil, err)
			}
			b, _ := t.MarshalBinary()
			if err := u2.UnmarshalBinary(b); err != nil || u2 != u {
				return Obj{"ok": false, "stage": "binary"}
			}
			return res(u, nil)
		})
	}
	var text []byte
	if r := guardJ(func() J { text = v.MarshalCedar(); return nil }); r != nil {
		return r
	}
	out["cedar"] = cwf.StrToJ(string(text))
	out["evalback"] = guardJ(func() J { return evalText(string(text)) })
	out["words"] = wordTable(text)
	out["names"] = nameTable(c["v"])
	return out
}

func init() {
	register("parsetext", opParseText, cmpParseText)
	register("construct", opConstruct, cmpConstruct)
	register("textform", opTextForm, func(c Obj, obs, exp J) []int { return nil })
}

// ---------------------------------------------------------------- driver

var textTypes = []string{"U", "G", "Action", "NS::T"}

func boundary64(r interface{ Int63() int64 }, k int) int64 {
	specials := []int64{math.MinInt64, math.MinInt64 + 1, math.MaxInt64, math.MaxInt64 - 1, 0, 1, -1, 9, 10, -10, 99, 100, 999, 1000, -1000, 9999,
		10000, -10000, 10001, -9999, 59999, 60000, 60001, 3599999, 3600000, 86399999, 86400000, 86400001, -86400000, -86400001,
		-62167219200000, -62167219200001, -62135596800000, 253402300799999, 253402300800000, 951782400000, 1709164800000,
		-2208988800000, 4107542400000, -30610224000000, 1e15, -1e15, 1e18, -1e18, 1234567890123456789}
	if k < len(specials) {
		return specials[k]
	}
	x := r.Int63()
	switch k % 7 {
	case 0:
		return x
	case 1:
		return -x
	case 2:
		return x % 1e13 // datetimes of the common era
	case 3:
		return -(x % 1e14)
	case 4:
		return x % 100000
	case 5:
		return math.MaxInt64 - x%100000
	default:
		return math.MinInt64 + x%100000
	}
}

func (g *gen) ipValue(k int) types.IPAddr {
	specials := []string{"0.0.0.0", "255.255.255.255", "127.0.0.1/8", "10.1.2.3/32", "0.0.0.0/0", "::", "::1", "::/0", "::1/128",
		"ffff:ffff:ffff:ffff:ffff:ffff:ffff:ffff", "1:2:3:4:5:6:7:8", "1::8", "1:0:0:4::8", "0:0:3::", "::ffff:0:1", "::ffff:102:304/120",
		"0:0:0:0:0:ffff::", "64:ff9b::102:304", "1:0:0:4:0:0:0:8", "fe80::1", "2001:db8::/32", "a:b:c:d:e:f:0:1/127"}
	if k < len(specials) {
		return must(types.ParseIPAddr(specials[k]))
	}
	if g.r.Intn(2) == 0 {
		var a [4]byte
		for i := range a {
			a[i] = byte(g.r.Intn(256))
		}
		bits := 32
		if g.r.Intn(2) == 0 {
			bits = g.r.Intn(33)
		}
		return types.IPAddr(netip.PrefixFrom(netip.AddrFrom4(a), bits))
	}
	var a [16]byte
	for i := 0; i < 16; i += 2 {
		switch g.r.Intn(3) {
		case 0:
			a[i], a[i+1] = byte(g.r.Intn(256)), byte(g.r.Intn(256))
		case 1:
			a[i+1] = byte(g.r.Intn(16))
		}
	}
	bits := 128
	if g.r.Intn(2) == 0 {
		bits = g.r.Intn(129)
	}
	return types.IPAddr(netip.PrefixFrom(netip.AddrFrom16(a), bits))
}

var cpClasses = []rune{0, 1, 7, 8, 9, 10, 11, 12, 13, 27, 31, 32, '!', '"', '\'', '*', '\\', '/', '0', 'a', 'z', '{', '}', '~', 0x7f, 0x80, 0x85, 0x9f,
	0xa0, 0xad, 0xe9, 0x300, 0x301, 0x378, 0x600, 0x7ff, 0x800, 0x200b, 0x200d, 0x2028, 0x2029, 0x202e, 0x2060, 0xd7ff, 0xe000, 0xf8ff, 0xfeff,
	0xfffd, 0xfffe, 0xffff, 0x10000, 0x1f600, 0xe0001, 0xe0100, 0xf0000, 0x10fffd, 0x10ffff}

func (g *gen) textString(k int) string {
	if k < len(cpClasses) {
		return string(cpClasses[k])
	}
	n := 1 + g.r.Intn(4)
	var sb strings.Builder
	for i := 0; i < n; i++ {
		switch g.r.Intn(4) {
		case 0:
			sb.WriteRune(cpClasses[g.r.Intn(len(cpClasses))])
		case 1:
			sb.WriteRune(rune(32 + g.r.Intn(95)))
		default:
			c := rune(g.r.Intn(0x110000))
			if c >= 0xd800 && c < 0xe000 {
				c = 0xfffd
			}
			sb.WriteRune(c)
		}
	}
	return sb.String()
}

// driver "text": values of every scalar kind at their boundaries and at random, strings and
// entity ids over the Unicode classes, nested sets and records.  param sweep=a-b adds every
// code point of the range (alone, and after 'a') as a string and as an entity id.
func driveText(seed int64, n int, params map[string]string) []Obj {
	g := newGen(seed, 3)
	out := make([]Obj, 0, n)
	add := func(v types.Value) {
		out = append(out, Obj{"op": "textform", "v": cwf.SplitTypes(cwf.ValueToJ(v))})
	}
	if sw := params["sweep"]; sw != "" {
		parts := strings.SplitN(sw, "-", 2)
		lo, _ := strconv.ParseInt(parts[0], 0, 32)
		hi, _ := strconv.ParseInt(parts[1], 0, 32)
		step := int64(1)
		if st := params["step"]; st != "" {
			step, _ = strconv.ParseInt(st, 0, 32)
		}
		for c := lo; c <= hi; c += step {
			if c >= 0xd800 && c < 0xe000 {
				continue
			}
			switch c % 3 {
			case 0:
				add(types.String(string(rune(c))))
			case 1:
				add(types.String("a" + string(rune(c))))
			default:
				add(types.NewEntityUID("U", types.String(string(rune(c)))))
			}
		}
		return out
	}
	per := n / 8
	for k := 0; k < per; k++ {
		add(types.Long(boundary64(g.r, k)))
		add(cwf.DecimalFromRaw(boundary64(g.r, k)))
		add(types.NewDatetimeFromMillis(boundary64(g.r, k)))
		add(types.NewDurationFromMillis(boundary64(g.r, k)))
		add(g.ipValue(k))
		add(types.String(g.textString(k)))
		add(types.NewEntityUID(types.EntityType(textTypes[k%len(textTypes)]), types.String(g.textString(k))))
		switch k % 3 {
		case 0:
			add(g.value(kSet, 2))
		case 1:
			add(g.value(kRec, 2))
		default:
			rm := types.RecordMap{}
			for i := 0; i <= g.r.Intn(3); i++ {
				rm[types.String(g.textString(k+i))] = types.String(g.textString(k + 2*i))
			}
			add(types.NewRecord(rm))
		}
	}
	return out
}

func init() { drivers["text"] = driveText }
