package main

import (
	"bytes"
	"encoding/json"
	"fmt"
	"hash/fnv"
	"io"
	"math/big"
	"sort"
	"strings"
	"unicode/utf16"

	cedar "github.com/cedar-policy/cedar-go"
	pubast "github.com/cedar-policy/cedar-go/ast"
	"github.com/cedar-policy/cedar-go/types"
	"github.com/cedar-policy/cedar-go/x/exp/ast"

	"verifharness/cwf"
)

// ---------------------------------------------------------------- TJSON
// JSON in a tagged form that TLC can inspect (spec/ValueJson.tla): strings as code points, integers as
// limb numbers, objects as member lists in document order.

func tjsonValue(dec *json.Decoder) (J, error) {
	tok, err := dec.Token()
	if err != nil {
		return nil, err
	}
	switch t := tok.(type) {
	case json.Delim:
		switch t {
		case '[':
			items := []any{}
			for dec.More() {
				v, err := tjsonValue(dec)
				if err != nil {
					return nil, err
				}
				items = append(items, v)
			}
			if _, err := dec.Token(); err != nil {
				return nil, err
			}
			return Obj{"a": items}, nil
		case '{':
			members := []any{}
			for dec.More() {
				kt, err := dec.Token()
				if err != nil {
					return nil, err
				}
				k, _ := kt.(string)
				v, err := tjsonValue(dec)
				if err != nil {
					return nil, err
				}
				members = append(members, Obj{"k": cwf.StrToJ(k), "v": v})
			}
			if _, err := dec.Token(); err != nil {
				return nil, err
			}
			return Obj{"o": members}, nil
		}
		return nil, fmt.Errorf("unexpected delimiter %v", t)
	case string:
		return Obj{"s": cwf.StrToJ(t)}, nil
	case bool:
		return Obj{"b": t}, nil
	case nil:
		return Obj{"z": 0}, nil
	case json.Number:
		if n, ok := new(big.Int).SetString(t.String(), 10); ok && n.BitLen() < 100 {
			return Obj{"n": bigToJ(n)}, nil
		}
		return Obj{"f": 0}, nil
	}
	return nil, fmt.Errorf("unexpected token %T", tok)
}

func bigToJ(n *big.Int) J {
	neg := n.Sign() < 0
	m := new(big.Int).Abs(n)
	mag := []any{}
	base := big.NewInt(10000)
	for m.Sign() > 0 {
		r := new(big.Int)
		m.DivMod(m, base, r)
		mag = append(mag, int(r.Int64()))
	}
	return Obj{"neg": neg, "mag": mag}
}

// ToTJSON converts a JSON document; an error means the bytes are not one JSON value
func ToTJSON(b []byte) (J, error) {
	dec := json.NewDecoder(bytes.NewReader(b))
	dec.UseNumber()
	v, err := tjsonValue(dec)
	if err != nil {
		return nil, err
	}
	if _, err := dec.Token(); err != io.EOF {
		return nil, fmt.Errorf("trailing data")
	}
	return v, nil
}

// ---------------------------------------------------------------- C09

// every wire name that stands for characters in a JSON policy: attribute names, record keys, entity types
// and ids, annotation keys, function names
func jsonNameTable(js ...J) []any {
	seen := map[string]bool{}
	var walk func(j J)
	walk = func(j J) {
		switch t := j.(type) {
		case Obj:
			for k, v := range t {
				if s, ok := v.(string); ok && (k == "attr" || k == "key" || k == "id" || k == "ty" || k == "fn" || (k == "k" && t["v"] != nil)) {
					seen[s] = true
				}
				if k == "f" || k == "attrs" { // record values and entity attributes: the keys are names
					if f, ok := v.(Obj); ok {
						for name := range f {
							seen[name] = true
						}
					}
				}
				walk(v)
			}
		case []any:
			for _, v := range t {
				walk(v)
			}
		}
	}
	for _, j := range js {
		walk(j)
	}
	ns := make([]string, 0, len(seen))
	for n := range seen {
		ns = append(ns, n)
	}
	sort.Strings(ns)
	out := []any{}
	for _, n := range ns {
		out = append(out, Obj{"name": n, "cps": cwf.StrToJ(must(cwf.NameFromWire(n)))})
	}
	return out
}

func outcomeOf(p *cedar.Policy, env cwf.Env) string {
	req, ok := env.Request()
	if !ok {
		return "n/a"
	}
	ps := cedar.NewPolicySet()
	ps.Add("p", p)
	_, diag := cedar.Authorize(ps, env.Store, req)
	switch {
	case len(diag.Errors) == 1 && len(diag.Reasons) == 0:
		return "err"
	case len(diag.Errors) == 0 && len(diag.Reasons) == 1:
		return "sat"
	case len(diag.Errors) == 0 && len(diag.Reasons) == 0:
		return "unsat"
	}
	return "inconsistent"
}

func outcomes(p *cedar.Policy, envs []cwf.Env) []any {
	out := make([]any, len(envs))
	for i, e := range envs {
		out[i] = guardS(func() string { return outcomeOf(p, e) })
	}
	return out
}

func guardS(f func() string) (s string) {
	defer func() {
		if r := recover(); r != nil {
			s = "panic"
		}
	}()
	return f()
}

var syntaxEnvCache []cwf.Env

// op "pjson": {policy, via: "ast"|"json"|"text", envs?} -> the JSON round trip of the subject
//
//	subject: the policy whose JSON encoding is examined (input AST; reparsed from its text; decoded from its JSON)
//	json:    TJSON of subject.MarshalJSON()
//	back:    {ok, policy} from Policy.UnmarshalJSON(json)
//	rejson:  "same" iff encoding the decoded policy reproduces the same bytes
//	cross:   {ok, policy, base}: back rendered as Cedar text and parsed (base: "text alone"), then encoded as JSON
//	         and decoded again (policy)
//	az:      outcomes (sat / unsat / err) of subject, back and cross under every environment of the event
func opPJSON(c Obj) J {
	subject := cedar.NewPolicyFromAST((*pubast.Policy)(must(cwf.JToPolicy(c["policy"]))))
	why := noTextForm(c["policy"])
	if strings.HasPrefix(why, "unknown function") || strings.HasPrefix(why, "method call without receiver") {
		return Obj{"skip": "not a Cedar policy: " + why}
	}
	hasText := why == ""
	via, _ := c["via"].(string)
	if via == "json" && strings.HasPrefix(why, "odd name") {
		// an AST with names the syntax cannot spell is no policy for the text codec -- unless the JSON DECODER accepts
		// it: then it is a policy decoded from JSON and the statement speaks about its text form
		hasText = true
	}
	switch via {
	case "json":
		b, err := subject.MarshalJSON()
		if err != nil {
			return Obj{"skip": "MarshalJSON: " + ascii(err.Error())}
		}
		var p cedar.Policy
		if err := p.UnmarshalJSON(b); err != nil {
			return Obj{"skip": "UnmarshalJSON: " + ascii(err.Error())}
		}
		subject = &p
	case "text":
		if !hasText {
			return Obj{"skip": "no text form"}
		}
		var p cedar.Policy
		if err := p.UnmarshalCedar(subject.MarshalCedar()); err != nil {
			return Obj{"skip": "UnmarshalCedar: " + ascii(err.Error())}
		}
		subject = &p
	}
	out := Obj{}
	sj := cwf.PolicyToJ((*ast.Policy)(subject.AST()))
	out["subject"] = sj
	b, err := subject.MarshalJSON()
	if err != nil {
		out["json"] = Obj{"z": 0}
		out["back"] = Obj{"ok": false, "err": "MarshalJSON: " + ascii(err.Error())}
		out["names"] = jsonNameTable(sj)
		return out
	}
	out["json"] = must(ToTJSON(b))
	var envs []cwf.Env
	if arr, ok := c["envs"].([]any); ok {
		for _, e := range arr {
			envs = append(envs, must(cwf.JToEnv(e)))
		}
	}
	az := []any{outcomes(subject, envs)}
	tables := []J{sj}
	var back cedar.Policy
	if err := back.UnmarshalJSON(b); err != nil {
		out["back"] = Obj{"ok": false, "err": ascii(err.Error())}
		out["rejson"] = "n/a"
	} else {
		bj := cwf.PolicyToJ((*ast.Policy)(back.AST()))
		tables = append(tables, bj)
		out["back"] = Obj{"ok": true, "policy": bj}
		az = append(az, outcomes(&back, envs))
		if b2, err := back.MarshalJSON(); err == nil && bytes.Equal(b, b2) {
			out["rejson"] = "same"
		} else {
			out["rejson"] = "differs"
		}
		// JSON -> text -> JSON: the decoded policy written as Cedar text, parsed, encoded and decoded again
		if hasText {
			var viaText, again cedar.Policy
			if err := viaText.UnmarshalCedar(back.MarshalCedar()); err != nil {
				out["cross"] = Obj{"ok": false, "err": "text: " + ascii(err.Error())}
			} else if b3, err := viaText.MarshalJSON(); err != nil {
				out["cross"] = Obj{"ok": false, "err": "MarshalJSON: " + ascii(err.Error())}
			} else if err := again.UnmarshalJSON(b3); err != nil {
				out["cross"] = Obj{"ok": false, "err": "UnmarshalJSON: " + ascii(err.Error())}
			} else {
				cj := cwf.PolicyToJ((*ast.Policy)(again.AST()))
				tj := cwf.PolicyToJ((*ast.Policy)(viaText.AST()))
				tables = append(tables, cj, tj)
				out["cross"] = Obj{"ok": true, "policy": cj, "base": tj}
				az = append(az, outcomes(&again, envs))
			}
		}
	}
	out["az"] = az
	// the same document in spellings the format allows and only other encoders write
	alts := []any{}
	all := policyRespellings(out["json"])
	// two of the applicable respellings per event, chosen by the document itself (validation cost, determinism)
	h := fnv.New32a()
	h.Write(b)
	pick := all
	if len(all) > 2 {
		i, j := int(h.Sum32()%uint32(len(all))), int((h.Sum32()/64)%uint32(len(all)-1))
		if j >= i {
			j++
		}
		pick = []respelled{all[i], all[j]}
	}
	for _, a := range pick {
		var buf bytes.Buffer
		a.write(a.doc, &buf)
		entry := Obj{"how": a.how, "json": a.doc, "strict": a.strict}
		var p cedar.Policy
		if err := guardE(func() error { return p.UnmarshalJSON(buf.Bytes()) }); err != nil {
			entry["back"] = Obj{"ok": false, "err": ascii(err.Error())}
		} else {
			pj := cwf.PolicyToJ((*ast.Policy)(p.AST()))
			tables = append(tables, pj)
			entry["back"] = Obj{"ok": true, "policy": pj}
			entry["az"] = outcomes(&p, envs)
		}
		alts = append(alts, entry)
	}
	out["alts"] = alts
	out["names"] = jsonNameTable(tables...)
	return out
}

func guardE(f func() error) (err error) {
	defer func() {
		if r := recover(); r != nil {
			err = fmt.Errorf("panic: %v", r)
		}
	}()
	return f()
}

// ---------------------------------------------------------------- respellings of a policy document

type respelled struct {
	how    string
	doc    J    // TJSON of the respelled document (what the specification reads)
	strict bool // the specification must read the same policy from it (else: judged only if it does)
	write  func(J, *bytes.Buffer)
}

// tMap rebuilds a TJSON tree bottom-up: f sees every node after its children were rebuilt; path is the list of
// object keys from the root ("#" for array elements)
func tMap(j J, path []string, f func(path []string, j J) J) J {
	o, _ := j.(Obj)
	switch {
	case o["a"] != nil:
		arr := []any{}
		for _, it := range o["a"].([]any) {
			arr = append(arr, tMap(it, append(path[:len(path):len(path)], "#"), f))
		}
		j = Obj{"a": arr}
	case o["o"] != nil:
		ms := []any{}
		for _, m := range o["o"].([]any) {
			k := tKey(m)
			ms = append(ms, tMember(k, tMap(m.(Obj)["v"], append(path[:len(path):len(path)], k), f)))
		}
		j = Obj{"o": ms}
	}
	return f(path, j)
}

func lastKey(path []string, back int) string {
	if len(path) < back {
		return ""
	}
	return path[len(path)-back]
}

// inScope: the node is an entity reference of a scope (principal / action / resource: entity, entities[], in.entity)
func inScope(path []string) bool {
	if len(path) < 2 || (path[0] != "principal" && path[0] != "action" && path[0] != "resource") {
		return false
	}
	rest := strings.Join(path[1:], "/")
	return rest == "entity" || rest == "entities/#" || rest == "in/entity"
}

// inExpr: the path lies in a condition body
func inExpr(path []string) bool {
	return len(path) >= 3 && path[0] == "conditions" && path[2] == "body"
}

func reverseMembers(j J) J {
	ms, ok := tMembers(j)
	if !ok {
		return j
	}
	out := make([]any, len(ms))
	for i, m := range ms {
		out[len(ms)-1-i] = m
	}
	return Obj{"o": out}
}

// writeEscaped: every string and key with \uXXXX escapes for all of its UTF-16 units, and generous white space
func writeEscaped(j J, w *bytes.Buffer) {
	esc := func(s string) {
		w.WriteByte('"')
		for _, u := range utf16.Encode([]rune(s)) {
			fmt.Fprintf(w, "\\u%04X", u)
		}
		w.WriteByte('"')
	}
	o := j.(Obj)
	switch {
	case o["s"] != nil:
		esc(must(cwf.JToStr(o["s"])))
	case o["a"] != nil:
		w.WriteString("[ ")
		for i, it := range o["a"].([]any) {
			if i > 0 {
				w.WriteString("\n,\t")
			}
			writeEscaped(it, w)
		}
		w.WriteString(" ]")
	case o["o"] != nil:
		w.WriteString("{\r\n")
		for i, m := range o["o"].([]any) {
			if i > 0 {
				w.WriteString(" , ")
			}
			esc(tKey(m))
			w.WriteString(" :\n")
			writeEscaped(m.(Obj)["v"], w)
		}
		w.WriteString("\t}")
	default:
		fromTJSON(j, w)
	}
}

func policyRespellings(doc J) []respelled {
	if _, ok := tMembers(doc); !ok {
		return nil
	}
	var out []respelled
	add := func(how string, strict bool, d J, write func(J, *bytes.Buffer)) {
		var a, b bytes.Buffer
		fromTJSON(doc, &a)
		fromTJSON(d, &b)
		if write == nil && bytes.Equal(a.Bytes(), b.Bytes()) {
			return // nothing to respell in this document
		}
		if write == nil {
			write = fromTJSON
		}
		out = append(out, respelled{how, d, strict, write})
	}
	// scope entities in the explicit spelling; entity values of expressions in the implicit one
	add("explicit-scope-entities", true, tMap(doc, nil, func(path []string, j J) J {
		if inScope(path) {
			return flipEntRef(j)
		}
		return j
	}), nil)
	add("implicit-entity-values", false, tMap(doc, nil, func(path []string, j J) J {
		if inExpr(path) && lastKey(path, 1) == "Value" {
			if inner, ok := tGet(j, "__entity"); ok {
				return inner
			}
		}
		return j
	}), nil)
	// pattern literals split in two, with an empty literal in between
	add("split-pattern-literals", true, tMap(doc, nil, func(path []string, j J) J {
		if !inExpr(path) || lastKey(path, 1) != "pattern" || lastKey(path, 2) != "like" {
			return j
		}
		items, _ := j.(Obj)["a"].([]any)
		arr := []any{tObj(tMember("Literal", tStr("")))} // an empty literal in front (of a wildcard, too) adds nothing
		for _, it := range items {
			lit, ok := tGet(it, "Literal")
			if !ok {
				arr = append(arr, it)
				continue
			}
			r := []rune(must(cwf.JToStr(lit.(Obj)["s"])))
			h := len(r) / 2
			arr = append(arr, tObj(tMember("Literal", tStr(string(r[:h])))), tObj(tMember("Literal", tStr(""))),
				tObj(tMember("Literal", tStr(string(r[h:])))))
		}
		arr = append(arr, tObj(tMember("Literal", tStr(""))))
		return Obj{"a": arr}
	}), nil)
	// extension values <-> constructor calls
	add("extension-values-as-calls", false, tMap(doc, nil, func(path []string, j J) J {
		if !inExpr(path) {
			return j
		}
		if v, ok := tGet(j, "Value"); ok {
			if x, ok := tGet(v, "__extn"); ok {
				fn, ok1 := tGet(x, "fn")
				arg, ok2 := tGet(x, "arg")
				if ok1 && ok2 {
					return tObj(tMember(must(cwf.JToStr(fn.(Obj)["s"])), Obj{"a": []any{tObj(tMember("Value", arg))}}))
				}
			}
		}
		return j
	}), nil)
	add("constructor-calls-as-values", false, tMap(doc, nil, func(path []string, j J) J {
		ms, ok := tMembers(j)
		if !inExpr(path) || !ok || len(ms) != 1 {
			return j
		}
		fn := tKey(ms[0])
		if fn != "decimal" && fn != "ip" && fn != "datetime" && fn != "duration" {
			return j
		}
		args, _ := ms[0].(Obj)["v"].(Obj)["a"].([]any)
		if len(args) != 1 {
			return j
		}
		if v, ok := tGet(args[0], "Value"); ok {
			if _, isStr := v.(Obj)["s"]; isStr {
				return tObj(tMember("Value", tObj(tMember("__extn", tObj(tMember("fn", tStr(fn)), tMember("arg", v))))))
			}
		}
		return j
	}), nil)
	// member order reversed in every object (scopes, operands, record literals, annotations, the document)
	add("reversed-member-order", true, tMap(doc, nil, func(path []string, j J) J { return reverseMembers(j) }), nil)
	// the members the encoder omits when empty, written out
	explicit := func(path []string, j J) J {
		if len(path) != 0 {
			return j
		}
		ms, _ := tMembers(j)
		ms = append([]any(nil), ms...)
		if _, ok := tGet(j, "annotations"); !ok {
			ms = append(ms, tMember("annotations", tObj()))
		}
		if _, ok := tGet(j, "conditions"); !ok {
			ms = append(ms, tMember("conditions", Obj{"a": []any{}}))
		}
		return Obj{"o": ms}
	}
	add("explicit-empty-members", true, tMap(doc, nil, explicit), nil)
	// the same document, every string escaped and white space everywhere
	add("escaped-strings-and-white-space", true, doc, writeEscaped)
	return out
}

// op "pjsonset": {items: [{id, policy}]} -> PolicySet.MarshalJSON -> PolicySet.UnmarshalJSON: the ids and the
// policy under every id
func opPJSONSet(c Obj) J {
	items, _ := c["items"].([]any)
	ps := cedar.NewPolicySet()
	subjects := []any{}
	var tables []J
	for _, it := range items {
		o := it.(Obj)
		id, _ := o["id"].(string)
		p := cedar.NewPolicyFromAST((*pubast.Policy)(must(cwf.JToPolicy(o["policy"]))))
		ps.Add(cedar.PolicyID(must(cwf.NameFromWire(id))), p)
		sj := cwf.PolicyToJ((*ast.Policy)(p.AST()))
		subjects = append(subjects, Obj{"id": id, "policy": sj})
		tables = append(tables, sj)
	}
	out := Obj{"subjects": subjects}
	b, err := ps.MarshalJSON()
	if err != nil {
		out["back"] = Obj{"ok": false, "err": ascii(err.Error())}
		out["names"] = jsonNameTable(tables...)
		return out
	}
	var ps2 cedar.PolicySet
	if err := ps2.UnmarshalJSON(b); err != nil {
		out["back"] = Obj{"ok": false, "err": ascii(err.Error())}
	} else {
		got := []any{}
		var ids []string
		for id := range ps2.All() {
			ids = append(ids, string(id))
		}
		sort.Strings(ids)
		for _, id := range ids {
			pj := cwf.PolicyToJ((*ast.Policy)(ps2.Get(cedar.PolicyID(id)).AST()))
			tables = append(tables, pj)
			got = append(got, Obj{"id": cwf.NameToWire(id), "policy": pj})
		}
		out["back"] = Obj{"ok": true, "items": got}
		b2, err := ps2.MarshalJSON()
		out["rejson"] = "differs"
		if err == nil && bytes.Equal(b, b2) {
			out["rejson"] = "same"
		}
	}
	out["names"] = jsonNameTable(tables...)
	return out
}

func init() {
	register("pjson", opPJSON, func(c Obj, obs, exp J) []int { return nil })
	register("pjsonset", opPJSONSet, func(c Obj, obs, exp J) []int { return nil })
}

// driver "pjson": random policies (all node kinds, scopes, annotations), three random environments each
func drivePJSON(seed int64, n int, params map[string]string) []Obj {
	g := newGen(seed, 4)
	g.avoidKnown = true
	vias := []string{"ast", "json", "text"}
	out := make([]Obj, 0, n)
	for i := 0; i < n; i++ {
		p := g.policy(4)
		if len(p.Conditions) == 0 || g.r.Intn(3) == 0 {
			p.Conditions = append(p.Conditions, ast.ConditionType{Condition: ast.ConditionWhen, Body: g.expr(kBool, 1+g.r.Intn(4))})
		}
		if g.r.Intn(4) == 0 {
			s := scanStrings[g.r.Intn(len(scanStrings))]
			p.Annotations = append(p.Annotations, ast.AnnotationType{Key: types.Ident(fmt.Sprintf("note%d", g.r.Intn(1000))), Value: types.String(s)})
		}
		envs := []any{cwf.EnvToJ(g.env()), cwf.EnvToJ(g.env()), cwf.EnvToJ(g.env())}
		if i%16 == 7 {
			// names the syntax cannot spell, offered to the JSON decoder
			odd := types.EntityType(oddTypeNames[g.r.Intn(len(oddTypeNames))])
			switch g.r.Intn(5) {
			case 0:
				p.Principal = ast.ScopeTypeIs{Type: odd}
			case 1:
				p.Resource = ast.ScopeTypeIsIn{Type: odd, Entity: g.uid()}
			case 2:
				p.Conditions = append(p.Conditions, ast.ConditionType{Condition: ast.ConditionWhen, Body: ast.Principal().Is(odd).AsIsNode()})
			case 3:
				p.Conditions = append(p.Conditions, ast.ConditionType{Condition: ast.ConditionWhen,
					Body: ast.Principal().Equal(ast.Value(types.NewEntityUID(odd, "x"))).AsIsNode()})
			default:
				p.Annotations = append(p.Annotations, ast.AnnotationType{Key: types.Ident(oddTypeNames[g.r.Intn(len(oddTypeNames))]), Value: "v"})
			}
			out = append(out, Obj{"op": "pjson", "policy": cwf.PolicyToJ(p), "via": "json", "envs": envs})
			continue
		}
		out = append(out, Obj{"op": "pjson", "policy": cwf.PolicyToJ(p), "via": vias[i%3], "envs": envs})
	}
	return out
}

var oddTypeNames = []string{"User || true", "a b", "if", "", "A::", "::A", "1A", "A::B C", "true", "A-B", "\u00e9", "U) when { true", "A::in"}

func init() { drivers["pjson"] = drivePJSON }

var _ = strings.TrimSpace
