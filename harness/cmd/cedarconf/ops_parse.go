package main

import (
	"fmt"
	"hash/fnv"
	"strings"
	"unicode/utf8"

	cedar "github.com/cedar-policy/cedar-go"
	"github.com/cedar-policy/cedar-go/x/exp/ast"

	"verifharness/cwf"
)

// op "parse": {tokens: [...], layout: n} -> what the real text parser makes of the token
// sequence laid out as text:
//
//	{list: {ok, policies: [ast..]} | {ok: false}, single: same through Policy.UnmarshalCedar}
//
// Tokens (spec/Syntax.tla): {t: id|kw, s}, {t: int, d: [digits]}, {t: str, raw: [code points]},
// {t: op, s}.  The layout (separators between tokens: spaces, newlines, tabs, CR LF, line and
// block comments, nothing where two tokens cannot merge) is derived from `layout` or, if
// absent, from a hash of the tokens, so that it is reproducible.
var seps = []string{" ", "\n", "\t", "  ", " /* c */ ", "\n// c é\n", "\r\n", " ", "", ""}

func tokenText(tok Obj) string {
	switch tok["t"] {
	case "id", "kw", "op":
		s, _ := tok["s"].(string)
		return s
	case "int":
		var sb strings.Builder
		for _, d := range intList(tok["d"]) {
			sb.WriteByte(byte('0' + d))
		}
		return sb.String()
	case "str":
		return `"` + must(cwf.JToStr(tok["raw"])) + `"`
	}
	panic(harnessError{fmt.Errorf("parse: unknown token %v", tok)})
}

func glue(a, b string) bool { // may the two token texts be written without a separator?
	if a == "" || b == "" {
		return true
	}
	punct := func(s string) bool {
		return len(s) == 1 && strings.ContainsAny(s, "(),;[]{}")
	}
	return punct(a) || punct(b)
}

func layoutTokens(tokens []any, seed uint64) string {
	var sb strings.Builder
	prev := ""
	x := seed*6364136223846793005 + 1442695040888963407
	for _, t := range tokens {
		txt := tokenText(t.(Obj))
		x = x*6364136223846793005 + 1442695040888963407
		sep := seps[(x>>33)%uint64(len(seps))]
		if sep == "" && !glue(prev, txt) {
			sep = " "
		}
		if prev == "" && sb.Len() == 0 && (x>>40)%3 != 0 {
			sep = ""
		}
		sb.WriteString(sep)
		sb.WriteString(txt)
		prev = txt
	}
	if (x>>20)%2 == 0 {
		sb.WriteString(seps[(x>>45)%uint64(len(seps))])
	}
	return sb.String()
}

func policiesToJ(ps []*cedar.Policy) []any {
	out := []any{}
	for _, p := range ps {
		// entity types as path components, as in spec/Syntax.tla
		out = append(out, cwf.SplitTypes(cwf.PolicyToJ((*ast.Policy)(p.AST()))))
	}
	return out
}

func opParse(c Obj) J {
	tokens, _ := c["tokens"].([]any)
	var seed uint64
	if l, ok := c["layout"]; ok {
		seed = uint64(must(asIntJ(l)))
	} else {
		h := fnv.New64a()
		h.Write(marshal(tokens))
		seed = h.Sum64()
	}
	text := layoutTokens(tokens, seed)
	out := Obj{"text": cwf.StrToJ(text)}
	var list cedar.PolicyList
	if err := list.UnmarshalCedar([]byte(text)); err != nil {
		out["list"] = Obj{"ok": false}
	} else {
		out["list"] = Obj{"ok": true, "policies": policiesToJ(list)}
	}
	var single cedar.Policy
	if err := single.UnmarshalCedar([]byte(text)); err != nil {
		out["single"] = Obj{"ok": false}
	} else {
		out["single"] = Obj{"ok": true, "policies": policiesToJ([]*cedar.Policy{&single})}
	}
	// the same tokens behind n bytes of leading white space / comment: the token sequence, and so the tree, is the
	// same.  n is chosen so that a multi-byte character of the text is cut at a multiple of 1024 bytes (the read
	// buffer of the tokenizer), at every one of its inner byte boundaries; the first three such characters
	padded := []any{}
	chars := 0
	for o := 0; o < len(text) && chars < 3; {
		r, size := utf8.DecodeRuneInString(text[o:])
		if r == utf8.RuneError || size == 1 {
			o += size
			continue
		}
		chars++
		for k := 1; k < size; k++ {
			n := (1024 - (o+k)%1024) % 1024
			pad := strings.Repeat(" ", n)
			if n >= 3 && (o+k)%2 == 0 {
				pad = "//" + strings.Repeat("c", n-3) + "\n"
			}
			var l2 cedar.PolicyList
			if err := l2.UnmarshalCedar([]byte(pad + text)); err != nil {
				padded = append(padded, Obj{"ok": false, "n": n})
			} else {
				padded = append(padded, Obj{"ok": true, "policies": policiesToJ(l2), "n": n})
			}
		}
		o += size
	}
	if len(padded) > 0 {
		out["padded"] = padded
	}
	return out
}

// expected ASTs are normalised through the wire codec (JToPolicy -> PolicyToJ) before comparing
func normPolicies(j J) (string, bool) {
	arr, _ := j.([]any)
	out := []any{}
	for _, p := range arr {
		pol, err := cwf.JToPolicy(p)
		if err != nil {
			return "", false
		}
		out = append(out, cwf.PolicyToJ(pol))
	}
	return cwf.Canon(out), true
}

func parseAgrees(res J, exp Obj, single bool) bool {
	r, _ := res.(Obj)
	eok, _ := exp["ok"].(bool)
	rok, _ := r["ok"].(bool)
	if eok != rok {
		return false
	}
	if !eok {
		return true
	}
	a, ok1 := normPolicies(r["policies"])
	b, ok2 := normPolicies(exp["policies"])
	return ok1 && ok2 && a == b
}

func cmpParse(c Obj, obs, exp J) []int {
	o, ok := obs.(Obj)
	e, ok2 := exp.(Obj)
	if !ok || !ok2 || o["list"] == nil {
		return []int{0}
	}
	if !parseAgrees(o["list"], e, false) {
		return []int{0}
	}
	eok, _ := e["ok"].(bool)
	n := 0
	if arr, ok := e["policies"].([]any); ok {
		n = len(arr)
	}
	// Policy.UnmarshalCedar: must agree when the text is exactly one policy, must reject what
	// the grammar rejects
	if (eok && n == 1) || !eok {
		if !parseAgrees(o["single"], e, true) {
			return []int{1}
		}
	}
	// the same tokens behind leading white space
	if ps, ok := o["padded"].([]any); ok {
		for _, p := range ps {
			if !parseAgrees(p, e, false) {
				return []int{2}
			}
		}
	}
	return nil
}

func init() {
	register("parse", opParse, cmpParse)
}
