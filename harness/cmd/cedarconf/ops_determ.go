package main

import (
	"bytes"
	"context"
	"crypto/sha256"
	"encoding/json"
	"fmt"
	"sort"
	"strings"

	cedar "github.com/cedar-policy/cedar-go"
	pubast "github.com/cedar-policy/cedar-go/ast"
	"github.com/cedar-policy/cedar-go/types"
	"github.com/cedar-policy/cedar-go/x/exp/ast"
	"github.com/cedar-policy/cedar-go/x/exp/batch"
	"github.com/cedar-policy/cedar-go/x/exp/schema"

	"verifharness/cwf"
)

// op "determ": {what, input, reps} -> list of `reps` observations of the same operation on
// the same input, every repetition on freshly built / freshly decoded objects so that Go's
// per-loop map iteration order is resampled.  An observation is {h: sha256 of the observable,
// s: ASCII preview}.  C14: all observations of one input must be equal.
//
//	what = "authz"        input {policies: [{id, policy}], env, order?}: decision, reason SET, error SET with messages
//	       "batch"        input as op "batch" (no fault): sorted callback results
//	       "policy_json"  input {json: code points of a policy in JSON}: UnmarshalJSON -> MarshalCedar and MarshalJSON bytes
//	       "policy_text"  input {text: code points}: UnmarshalCedar -> MarshalCedar and MarshalJSON bytes
//	       "policyset"    input {policies: [{id, policy}], order}: PolicySet built by Add in that order -> MarshalCedar, MarshalJSON
//	       "policyset_json" input {json}: PolicySet.UnmarshalJSON -> MarshalJSON, MarshalCedar
//	       "entities"     input {store}: EntityMap built in a rotated insertion order -> MarshalJSON; decode -> re-encode
//	       "value"        input {v}: value rebuilt from the wire form -> MarshalCedar, MarshalJSON, String
//	       "schema_text" / "schema_json" input {src: code points of a schema}: decode -> MarshalCedar and MarshalJSON bytes
func observation(parts ...string) Obj {
	s := strings.Join(parts, "\x1f")
	sum := sha256.Sum256([]byte(s))
	var prev strings.Builder
	for _, r := range s {
		if prev.Len() > 300 {
			break
		}
		if r >= 32 && r < 127 && r != '"' && r != '\\' {
			prev.WriteRune(r)
		} else {
			fmt.Fprintf(&prev, "<%x>", r)
		}
	}
	return Obj{"h": fmt.Sprintf("%x", sum[:12]), "s": prev.String()}
}

func authzObservation(dec cedar.Decision, diag cedar.Diagnostic) string {
	rs, es := []string{}, []string{}
	for _, r := range diag.Reasons {
		rs = append(rs, string(r.PolicyID))
	}
	for _, e := range diag.Errors {
		es = append(es, string(e.PolicyID)+": "+e.Message)
	}
	sort.Strings(rs)
	sort.Strings(es)
	return fmt.Sprintf("%v|%s|%s", dec, strings.Join(rs, ","), strings.Join(es, ";"))
}

func opDeterm(c Obj) J {
	what, _ := c["what"].(string)
	in, _ := c["input"].(Obj)
	reps := 30
	if r, ok := c["reps"]; ok {
		reps = must(asIntJ(r))
	}
	out := make([]any, 0, reps)
	for rep := 0; rep < reps; rep++ {
		out = append(out, determOnce(what, in, rep))
	}
	return out
}

func determOnce(what string, in Obj, rep int) (obs J) {
	defer func() {
		if r := recover(); r != nil {
			if he, ok := r.(harnessError); ok {
				panic(he)
			}
			obs = Obj{"h": "panic", "s": fmt.Sprint(r)}
		}
	}()
	switch what {
	case "authz":
		env := must(cwf.JToEnv(in["env"]))
		req, _ := env.Request()
		ps, order := decodePolicies(in)
		byID := map[string]idPolicy{}
		for _, p := range ps {
			byID[p.id] = p
		}
		set := cedar.NewPolicySet()
		// insertion order rotates with the repetition
		for i := range order {
			id := order[(i+rep)%len(order)]
			set.Add(cedar.PolicyID(id), cedar.NewPolicyFromAST((*pubast.Policy)(byID[id].ast)))
		}
		dec, diag := cedar.Authorize(set, env.Store, req)
		return observation(authzObservation(dec, diag))
	case "batch":
		c2 := Obj{}
		for k, v := range in {
			c2[k] = v
		}
		c2["fault"] = Obj{"kind": "none", "at": 1}
		res, _ := opBatch(c2).(Obj)
		calls, _ := res["calls"].([]any)
		keys := make([]string, len(calls))
		for i, call := range calls {
			// the whole result of every callback: decision, reasons AND the error entries with their messages
			keys[i] = callKey(cwf.MustParse(marshal(call))) + " errors " + cwf.Canon(call.(Obj)["errs"])
		}
		sort.Strings(keys)
		return observation(fmt.Sprint(res["ret"]), fmt.Sprint(res["msg"]), strings.Join(keys, "\n"))
	case "policy_json":
		var p cedar.Policy
		if err := p.UnmarshalJSON([]byte(must(cwf.JToStr(in["json"])))); err != nil {
			return observation("error", err.Error())
		}
		js, _ := p.MarshalJSON()
		return observation(string(p.MarshalCedar()), string(js))
	case "policy_text":
		var p cedar.Policy
		if err := p.UnmarshalCedar([]byte(must(cwf.JToStr(in["text"])))); err != nil {
			return observation("error", err.Error())
		}
		js, _ := p.MarshalJSON()
		return observation(string(p.MarshalCedar()), string(js))
	case "policyset":
		ps, order := decodePolicies(in)
		byID := map[string]idPolicy{}
		for _, p := range ps {
			byID[p.id] = p
		}
		set := cedar.NewPolicySet()
		for i := range order {
			id := order[(i*7+rep)%len(order)]
			if set.Get(cedar.PolicyID(id)) == nil {
				set.Add(cedar.PolicyID(id), cedar.NewPolicyFromAST((*pubast.Policy)(byID[id].ast)))
			}
		}
		for _, id := range order { // whatever the rotation skipped
			if set.Get(cedar.PolicyID(id)) == nil {
				set.Add(cedar.PolicyID(id), cedar.NewPolicyFromAST((*pubast.Policy)(byID[id].ast)))
			}
		}
		js, _ := set.MarshalJSON()
		return observation(string(set.MarshalCedar()), string(js))
	case "policyset_json":
		var set cedar.PolicySet
		if err := set.UnmarshalJSON([]byte(must(cwf.JToStr(in["json"])))); err != nil {
			return observation("error", err.Error())
		}
		js, _ := set.MarshalJSON()
		return observation(string(set.MarshalCedar()), string(js))
	case "entities":
		store := must(cwf.JToStore(in["store"]))
		uids := make([]types.EntityUID, 0, len(store))
		for u := range store {
			uids = append(uids, u)
		}
		sort.Slice(uids, func(i, j int) bool { return uids[i].String() < uids[j].String() })
		m := types.EntityMap{}
		for i := range uids {
			u := uids[(i+rep)%len(uids)]
			m[u] = store[u]
		}
		b1, err := json.Marshal(m)
		if err != nil {
			return observation("error", err.Error())
		}
		var back types.EntityMap
		if err := json.Unmarshal(b1, &back); err != nil {
			return observation("decode error", err.Error())
		}
		b2, _ := json.Marshal(back)
		return observation(string(b1), string(b2))
	case "schema_text", "schema_json":
		var sc schema.Schema
		src := []byte(must(cwf.JToStr(in["src"])))
		var err error
		if what == "schema_text" {
			err = sc.UnmarshalCedar(src)
		} else {
			err = sc.UnmarshalJSON(src)
		}
		if err != nil {
			return observation("error", err.Error())
		}
		txt, err1 := sc.MarshalCedar()
		js, err2 := sc.MarshalJSON()
		return observation(string(txt), fmt.Sprint(err1), string(js), fmt.Sprint(err2))
	case "value":
		v := must(cwf.JToValue(in["v"]))
		js, _ := json.Marshal(v)
		return observation(string(v.MarshalCedar()), string(js), v.String())
	}
	panic(harnessError{fmt.Errorf("determ: unknown what %q", what)})
}

// driver "determ": inputs with many map entries wherever the code iterates a Go map
func driveDeterm(seed int64, n int, params map[string]string) []Obj {
	g := newGen(seed, 3)
	reps := 30
	if params["reps"] != "" {
		reps = atoi(params["reps"])
	}
	var out []Obj
	add := func(what string, in Obj) {
		out = append(out, Obj{"op": "determ", "what": what, "input": in, "reps": reps})
	}
	failing := func(i int) ast.IsNode { // distinct failures with distinct messages
		switch i % 4 {
		case 0:
			return ast.NodeTypeAdd{BinaryNode: bin(val(types.Long(1)), strNode("x"))}
		case 1:
			return ast.NodeTypeNot{UnaryNode: ast.UnaryNode{Arg: val(types.Long(int64(i)))}}
		case 2:
			return ast.NodeTypeAccess{StrOpNode: ast.StrOpNode{Arg: ast.NodeTypeVariable{Name: "context"}, Value: types.String(fmt.Sprintf("missing%d", i))}}
		}
		return ext("decimal", strNode(fmt.Sprintf("bad%d", i)))
	}
	for i := 0; len(out) < n; i++ {
		switch i % 11 {
		case 8: // batch authorization: variables inside sets of several elements, nested records, several policies
			unk := func(name string) J { return Obj{"k": "unknown", "name": name} }
			ctx := Obj{"k": "rec", "f": Obj{
				"ss": Obj{"k": "set", "els": []any{unk("x"), cwf.ValueToJ(types.Long(1)), cwf.ValueToJ(types.Long(2)), cwf.ValueToJ(types.String("s"))}},
				"r":  Obj{"k": "rec", "f": Obj{"n": unk("y"), "m": cwf.ValueToJ(types.Long(int64(i)))}},
				"e":  cwf.ValueToJ(g.uid()), "n": cwf.ValueToJ(types.Long(2))}}
			e := g.env()
			tmpl := cwf.EnvToJ(e).(Obj)
			tmpl["c"] = ctx
			if i%2 == 0 {
				tmpl["r"] = unk("z")
			}
			vars := []any{Obj{"key": "x", "values": []any{cwf.ValueToJ(types.Long(1)), cwf.ValueToJ(types.Long(7)), cwf.ValueToJ(types.String("s"))}},
				Obj{"key": "y", "values": []any{cwf.ValueToJ(types.Long(2)), cwf.ValueToJ(types.Long(3))}}}
			if i%2 == 0 {
				vars = append(vars, Obj{"key": "z", "values": []any{cwf.ValueToJ(g.uid()), cwf.ValueToJ(g.uid())}})
			}
			ctxAttr := func(a string) ast.IsNode {
				return ast.NodeTypeAccess{StrOpNode: ast.StrOpNode{Arg: ast.NodeTypeVariable{Name: "context"}, Value: types.String(a)}}
			}
			mk := func(body ast.IsNode, eff ast.Effect) *ast.Policy {
				return &ast.Policy{Effect: eff, Principal: ast.ScopeTypeAll{}, Action: ast.ScopeTypeAll{}, Resource: ast.ScopeTypeAll{},
					Conditions: []ast.ConditionType{{Condition: ast.ConditionWhen, Body: body}}}
			}
			pols := []any{
				Obj{"id": "c7", "policy": cwf.PolicyToJ(mk(ast.NodeTypeContains{BinaryNode: bin(ctxAttr("ss"), val(types.Long(7)))}, ast.EffectPermit))},
				Obj{"id": "c1", "policy": cwf.PolicyToJ(mk(ast.NodeTypeContainsAll{BinaryNode: bin(ctxAttr("ss"), val(types.NewSet(types.Long(1), types.Long(2), types.String("s"))))}, ast.EffectPermit))},
				Obj{"id": "rn", "policy": cwf.PolicyToJ(mk(ast.NodeTypeEquals{BinaryNode: bin(ast.NodeTypeAccess{StrOpNode: ast.StrOpNode{Arg: ctxAttr("r"), Value: "n"}}, ctxAttr("n"))}, ast.EffectForbid))},
				Obj{"id": "g", "policy": cwf.PolicyToJ(g.policy(2))}}
			add("batch", Obj{"policies": pols, "template": tmpl, "vars": vars})
			// two variables with equally long value lists, policies that fail on one of them and are decided by the
			// other: the order in which the variables are bound must not show in the results
			tmpl2 := cwf.EnvToJ(e).(Obj)
			tmpl2["p"], tmpl2["r"] = unk("x"), unk("y")
			vars2 := []any{Obj{"key": "x", "values": []any{cwf.ValueToJ(types.NewEntityUID("U", "a")), cwf.ValueToJ(types.NewEntityUID("U", "nosuch"))}},
				Obj{"key": "y", "values": []any{cwf.ValueToJ(types.NewEntityUID("G", "g")), cwf.ValueToJ(types.NewEntityUID("G", "zz"))}}}
			pv, rv := ast.NodeTypeVariable{Name: "principal"}, ast.NodeTypeVariable{Name: "resource"}
			two := func(a, b ast.IsNode) *ast.Policy {
				return &ast.Policy{Effect: ast.EffectPermit, Principal: ast.ScopeTypeAll{}, Action: ast.ScopeTypeAll{}, Resource: ast.ScopeTypeAll{},
					Conditions: []ast.ConditionType{{Condition: ast.ConditionWhen, Body: a}, {Condition: ast.ConditionWhen, Body: b}}}
			}
			acc := func(x ast.IsNode, a string) ast.IsNode { return ast.NodeTypeAccess{StrOpNode: ast.StrOpNode{Arg: x, Value: types.String(a)}} }
			pols2 := []any{
				Obj{"id": "e1", "policy": cwf.PolicyToJ(two(acc(pv, "nosuch"), ast.NodeTypeEquals{BinaryNode: bin(rv, val(types.NewEntityUID("G", "g")))}))},
				Obj{"id": "e2", "policy": cwf.PolicyToJ(two(ast.NodeTypeEquals{BinaryNode: bin(rv, val(types.NewEntityUID("G", "g")))}, acc(pv, "nosuch")))},
				Obj{"id": "e3", "policy": cwf.PolicyToJ(two(acc(rv, "nosuch"), ast.NodeTypeEquals{BinaryNode: bin(pv, val(types.NewEntityUID("U", "a")))}))},
				Obj{"id": "e4", "policy": cwf.PolicyToJ(two(val(types.String("not a bool")), acc(pv, "k")))}}
			add("batch", Obj{"policies": pols2, "template": tmpl2, "vars": vars2})
			// unbound and unused variables: which one the error names
			add("batch", Obj{"policies": pols2, "template": tmpl2, "vars": []any{}})
			tmpl3 := cwf.EnvToJ(e).(Obj)
			add("batch", Obj{"policies": pols2, "template": tmpl3, "vars": vars2})
		case 9: // `in` / containsAll over sets whose members fail in different ways: which failure is reported?
			bad := types.NewSet(types.Long(int64(i)), types.String("a"), types.Boolean(true), types.NewRecord(types.RecordMap{"k": types.Long(1)}))
			bodies := []ast.IsNode{
				ast.NodeTypeIn{BinaryNode: bin(ast.NodeTypeVariable{Name: "principal"}, val(bad))},
				ast.NodeTypeIn{BinaryNode: bin(val(g.uid()), val(types.NewSet(types.String("x"), types.Long(2), g.uid())))},
				ast.NodeTypeIsIn{NodeTypeIs: ast.NodeTypeIs{Left: ast.NodeTypeVariable{Name: "principal"}, EntityType: "U"}, Entity: val(bad)},
				ast.NodeTypeGetTag{BinaryNode: bin(ast.NodeTypeVariable{Name: "principal"}, val(types.Long(1)))}}
			pols, order := []any{}, []any{}
			for k, b := range bodies {
				id := fmt.Sprintf("e%d", k)
				p := &ast.Policy{Effect: ast.EffectPermit, Principal: ast.ScopeTypeAll{}, Action: ast.ScopeTypeAll{}, Resource: ast.ScopeTypeAll{},
					Conditions: []ast.ConditionType{{Condition: ast.ConditionWhen, Body: b}}}
				pols = append(pols, Obj{"id": id, "policy": cwf.PolicyToJ(p)})
				order = append(order, id)
			}
			add("authz", Obj{"policies": pols, "order": order, "env": cwf.EnvToJ(g.env())})
			// the same policies under a request whose principal was left unspecified (the zero EntityUID), with tag
			// operands that are not constants: the messages must not depend on which compiled copy is asked
			zenv := cwf.EnvToJ(g.env()).(Obj)
			zenv["p"] = cwf.ValueToJ(types.EntityUID{})
			ctxv := ast.NodeTypeVariable{Name: "context"}
			tagExprs := []ast.IsNode{val(types.String("a")),
				ast.NodeTypeIfThenElse{If: ast.NodeTypeAccess{StrOpNode: ast.StrOpNode{Arg: ctxv, Value: "b"}}, Then: val(types.String("a")), Else: val(types.String("b"))},
				ast.NodeTypeAccess{StrOpNode: ast.StrOpNode{Arg: ast.NodeTypeAccess{StrOpNode: ast.StrOpNode{Arg: ctxv, Value: "r"}}, Value: "s"}}}
			zp, zo := []any{}, []any{}
			for k, te := range tagExprs {
				id := fmt.Sprintf("z%d", k)
				p := &ast.Policy{Effect: ast.EffectPermit, Principal: ast.ScopeTypeAll{}, Action: ast.ScopeTypeAll{}, Resource: ast.ScopeTypeAll{},
					Conditions: []ast.ConditionType{{Condition: ast.ConditionWhen,
						Body: ast.NodeTypeEquals{BinaryNode: bin(ast.NodeTypeGetTag{BinaryNode: bin(ast.NodeTypeVariable{Name: "principal"}, te)}, val(types.Long(1)))}}}}
				zp = append(zp, Obj{"id": id, "policy": cwf.PolicyToJ(p)})
				zo = append(zo, id)
			}
			add("authz", Obj{"policies": zp, "order": zo, "env": zenv})
		case 10: // schemas with several declarations of every kind in several namespaces
			txt := g.schemaText()
			if i%2 == 0 {
				add("schema_text", Obj{"src": cwf.StrToJ(txt)})
			} else {
				var sc schema.Schema
				if err := sc.UnmarshalCedar([]byte(txt)); err != nil {
					panic(harnessError{fmt.Errorf("generated schema does not parse: %v\n%s", err, txt)})
				}
				js, err := sc.MarshalJSON()
				if err != nil {
					continue
				}
				add("schema_json", Obj{"src": cwf.StrToJ(string(js))})
			}
		case 0: // a record literal with several failing fields: which failure is reported?
			var els []ast.RecordElementNode
			for k := 0; k < 5; k++ {
				els = append(els, ast.RecordElementNode{Key: types.String(fmt.Sprintf("f%d", k)), Value: failing(k + i)})
			}
			cond := ast.NodeTypeEquals{BinaryNode: bin(ast.NodeTypeRecord{Elements: els}, val(types.Long(1)))}
			p := &ast.Policy{Effect: ast.EffectPermit, Principal: ast.ScopeTypeAll{}, Action: ast.ScopeTypeAll{}, Resource: ast.ScopeTypeAll{},
				Conditions: []ast.ConditionType{{Condition: ast.ConditionWhen, Body: cond}}}
			pols := []any{Obj{"id": "p0", "policy": cwf.PolicyToJ(p)}}
			order := []any{"p0"}
			for k := 1; k < 12; k++ {
				id := fmt.Sprintf("p%d", k)
				pols = append(pols, Obj{"id": id, "policy": cwf.PolicyToJ(g.policy(2))})
				order = append(order, id)
			}
			add("authz", Obj{"policies": pols, "order": order, "env": cwf.EnvToJ(g.env())})
		case 1: // a policy decoded from JSON whose record literals and annotations have several keys
			var els []ast.RecordElementNode
			for k := 0; k < 6; k++ {
				els = append(els, ast.RecordElementNode{Key: types.String(fmt.Sprintf("k%d", (k*5+i)%9)), Value: g.expr(kLong, 1)})
			}
			seen := map[types.String]bool{}
			var uniq []ast.RecordElementNode
			for _, e := range els {
				if !seen[e.Key] {
					seen[e.Key] = true
					uniq = append(uniq, e)
				}
			}
			p := &ast.Policy{Effect: ast.EffectForbid, Principal: ast.ScopeTypeAll{}, Action: ast.ScopeTypeAll{}, Resource: ast.ScopeTypeAll{},
				Annotations: []ast.AnnotationType{{Key: "zeta", Value: "1"}, {Key: "alpha", Value: "2"}, {Key: "mid", Value: "3"}, {Key: "beta", Value: ""}},
				Conditions: []ast.ConditionType{{Condition: ast.ConditionWhen,
					Body: ast.NodeTypeHas{StrOpNode: ast.StrOpNode{Arg: ast.NodeTypeRecord{Elements: uniq}, Value: "k1"}}}}}
			js, err := (*pubast.Policy)(p).MarshalJSON()
			if err != nil {
				continue
			}
			add("policy_json", Obj{"json": cwf.StrToJ(string(js))})
		case 2: // random policies through text
			p := g.policy(3)
			txt := guard(func() string { return string((*pubast.Policy)(p).MarshalCedar()) })
			if txt == "panic" {
				continue
			}
			add("policy_text", Obj{"text": cwf.StrToJ(txt)})
		case 3: // a policy set of 12 policies
			pols, order := []any{}, []any{}
			for k := 0; k < 12; k++ {
				id := fmt.Sprintf("policy%d", k)
				pp := g.policy(2)
				if guard(func() string { (*pubast.Policy)(pp).MarshalCedar(); return "" }) == "panic" {
					pp = g.policy(0)
				}
				pols = append(pols, Obj{"id": id, "policy": cwf.PolicyToJ(pp)})
				order = append(order, id)
			}
			add("policyset", Obj{"policies": pols, "order": order})
		case 4:
			add("entities", Obj{"store": cwf.StoreToJ(g.store())})
		case 5: // sets of colliding values, nested records
			add("value", Obj{"v": cwf.ValueToJ(g.value(pick(g, []kind{kSet, kRec}), 3))})
		case 6: // random policy sets with random requests (messages included)
			pols, order := []any{}, []any{}
			for k := 0; k < 12; k++ {
				id := fmt.Sprintf("p%d", k)
				pols = append(pols, Obj{"id": id, "policy": cwf.PolicyToJ(g.policy(3))})
				order = append(order, id)
			}
			add("authz", Obj{"policies": pols, "order": order, "env": cwf.EnvToJ(g.env())})
		default: // policy set JSON
			set := cedar.NewPolicySet()
			for k := 0; k < 8; k++ {
				pp := g.policy(2)
				set.Add(cedar.PolicyID(fmt.Sprintf("id%d", (k*3)%8)), cedar.NewPolicyFromAST((*pubast.Policy)(pp)))
			}
			js, err := set.MarshalJSON()
			if err != nil {
				continue
			}
			add("policyset_json", Obj{"json": cwf.StrToJ(string(js))})
		}
	}
	return out
}

// schemaText: a schema (Cedar syntax) with 2-4 declarations of every kind in the empty namespace and two more
func (g *gen) schemaText() string {
	var sb strings.Builder
	decls := func(ns string) {
		ind := ""
		if ns != "" {
			fmt.Fprintf(&sb, "@doc(\"ns %s\")\nnamespace %s {\n", ns, ns)
			ind = "  "
		}
		n := 2 + g.r.Intn(3)
		for k := 0; k < n; k++ {
			fmt.Fprintf(&sb, "%stype %sT%d = { a%d: Long, \"odd key %d\"?: Set<String>, b: { c: Bool, d?: ipaddr } };\n", ind, ns, k, k, k)
		}
		for k := 0; k < n; k++ {
			fmt.Fprintf(&sb, "%sentity %sEn%d enum [\"v%d\", \"w\", \"a b\"];\n", ind, ns, k, k)
		}
		for k := 0; k < n; k++ {
			parents := ""
			if k > 0 {
				parents = fmt.Sprintf(" in [%sE0]", ns)
			}
			fmt.Fprintf(&sb, "%s@id(\"e%d\") @zz(\"1\") @aa(\"2\")\n%sentity %sE%d%s { name: String, n%d?: Long, t: %sT0, z: Set<%sE0>, m: decimal } tags String;\n", ind, k, ind, ns, k, parents, k, ns, ns)
		}
		fmt.Fprintf(&sb, "%saction %sgroup0, %sgroup1;\n", ind, ns, ns)
		for k := 0; k < n; k++ {
			fmt.Fprintf(&sb, "%saction \"%s act %d\", %sact%d in [%sgroup0, %sgroup1] appliesTo { principal: [%sE0, %sE1], resource: [%sE1, %sEn0], context: { k%d: Long, t: %sT1, o?: String } };\n",
				ind, ns, k, ns, k, ns, ns, ns, ns, ns, ns, k, ns)
		}
		if ns != "" {
			sb.WriteString("}\n")
		}
	}
	decls("")
	decls("Alpha")
	decls("Beta")
	return sb.String()
}

var _ = bytes.Equal
var _ = context.Background
var _ = batch.Ignore

func init() {
	register("determ", opDeterm, func(c Obj, obs, exp J) []int { return nil })
	drivers["determ"] = driveDeterm
}
