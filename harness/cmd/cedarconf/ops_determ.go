package main

import (
	"bytes"
	"context"
	"crypto/sha256"
	"encoding/json"
	"fmt"
	"sort"
	"strings"

	cedar "github.com/cedar-policy/cedar-go"
	pubast "github.com/cedar-policy/cedar-go/ast"
	"github.com/cedar-policy/cedar-go/types"
	"github.com/cedar-policy/cedar-go/x/exp/ast"
	"github.com/cedar-policy/cedar-go/x/exp/batch"

	"verifharness/cwf"
)

// op "determ": {what, input, reps} -> list of `reps` observations of the same operation on
// the same input, every repetition on freshly built / freshly decoded objects so that Go's
// per-loop map iteration order is resampled.  An observation is {h: sha256 of the observable,
// s: ASCII preview}.  C14: all observations of one input must be equal.
//
//	what = "authz"        input {policies: [{id, policy}], env, order?}: decision, reason SET, error SET with messages
//	       "batch"        input as op "batch" (no fault): sorted callback results
//	       "policy_json"  input {json: code points of a policy in JSON}: UnmarshalJSON -> MarshalCedar and MarshalJSON bytes
//	       "policy_text"  input {text: code points}: UnmarshalCedar -> MarshalCedar and MarshalJSON bytes
//	       "policyset"    input {policies: [{id, policy}], order}: PolicySet built by Add in that order -> MarshalCedar, MarshalJSON
//	       "policyset_json" input {json}: PolicySet.UnmarshalJSON -> MarshalJSON, MarshalCedar
//	       "entities"     input {store}: EntityMap built in a rotated insertion order -> MarshalJSON; decode -> re-encode
//	       "value"        input {v}: value rebuilt from the wire form -> MarshalCedar, MarshalJSON, String
func observation(parts ...string) Obj {
	s := strings.Join(parts, "\x1f")
	sum := sha256.Sum256([]byte(s))
	var prev strings.Builder
	for _, r := range s {
		if prev.Len() > 300 {
			break
		}
		if r >= 32 && r < 127 && r != '"' && r != '\\' {
			prev.WriteRune(r)
		} else {
			fmt.Fprintf(&prev, "<%x>", r)
		}
	}
	return Obj{"h": fmt.Sprintf("%x", sum[:12]), "s": prev.String()}
}

func authzObservation(dec cedar.Decision, diag cedar.Diagnostic) string {
	rs, es := []string{}, []string{}
	for _, r := range diag.Reasons {
		rs = append(rs, string(r.PolicyID))
	}
	for _, e := range diag.Errors {
		es = append(es, string(e.PolicyID)+": "+e.Message)
	}
	sort.Strings(rs)
	sort.Strings(es)
	return fmt.Sprintf("%v|%s|%s", dec, strings.Join(rs, ","), strings.Join(es, ";"))
}

func opDeterm(c Obj) J {
	what, _ := c["what"].(string)
	in, _ := c["input"].(Obj)
	reps := 30
	if r, ok := c["reps"]; ok {
		reps = must(asIntJ(r))
	}
	out := make([]any, 0, reps)
	for rep := 0; rep < reps; rep++ {
		out = append(out, determOnce(what, in, rep))
	}
	return out
}

func determOnce(what string, in Obj, rep int) (obs J) {
	defer func() {
		if r := recover(); r != nil {
			if he, ok := r.(harnessError); ok {
				panic(he)
			}
			obs = Obj{"h": "panic", "s": fmt.Sprint(r)}
		}
	}()
	switch what {
	case "authz":
		env := must(cwf.JToEnv(in["env"]))
		req, _ := env.Request()
		ps, order := decodePolicies(in)
		byID := map[string]idPolicy{}
		for _, p := range ps {
			byID[p.id] = p
		}
		set := cedar.NewPolicySet()
		// insertion order rotates with the repetition
		for i := range order {
			id := order[(i+rep)%len(order)]
			set.Add(cedar.PolicyID(id), cedar.NewPolicyFromAST((*pubast.Policy)(byID[id].ast)))
		}
		dec, diag := cedar.Authorize(set, env.Store, req)
		return observation(authzObservation(dec, diag))
	case "batch":
		c2 := Obj{}
		for k, v := range in {
			c2[k] = v
		}
		c2["fault"] = Obj{"kind": "none", "at": 1}
		res, _ := opBatch(c2).(Obj)
		calls, _ := res["calls"].([]any)
		keys := make([]string, len(calls))
		for i, call := range calls {
			keys[i] = callKey(cwf.MustParse(marshal(call)))
		}
		sort.Strings(keys)
		return observation(fmt.Sprint(res["ret"]), strings.Join(keys, "\n"))
	case "policy_json":
		var p cedar.Policy
		if err := p.UnmarshalJSON([]byte(must(cwf.JToStr(in["json"])))); err != nil {
			return observation("error", err.Error())
		}
		js, _ := p.MarshalJSON()
		return observation(string(p.MarshalCedar()), string(js))
	case "policy_text":
		var p cedar.Policy
		if err := p.UnmarshalCedar([]byte(must(cwf.JToStr(in["text"])))); err != nil {
			return observation("error", err.Error())
		}
		js, _ := p.MarshalJSON()
		return observation(string(p.MarshalCedar()), string(js))
	case "policyset":
		ps, order := decodePolicies(in)
		byID := map[string]idPolicy{}
		for _, p := range ps {
			byID[p.id] = p
		}
		set := cedar.NewPolicySet()
		for i := range order {
			id := order[(i*7+rep)%len(order)]
			if set.Get(cedar.PolicyID(id)) == nil {
				set.Add(cedar.PolicyID(id), cedar.NewPolicyFromAST((*pubast.Policy)(byID[id].ast)))
			}
		}
		for _, id := range order { // whatever the rotation skipped
			if set.Get(cedar.PolicyID(id)) == nil {
				set.Add(cedar.PolicyID(id), cedar.NewPolicyFromAST((*pubast.Policy)(byID[id].ast)))
			}
		}
		js, _ := set.MarshalJSON()
		return observation(string(set.MarshalCedar()), string(js))
	case "policyset_json":
		var set cedar.PolicySet
		if err := set.UnmarshalJSON([]byte(must(cwf.JToStr(in["json"])))); err != nil {
			return observation("error", err.Error())
		}
		js, _ := set.MarshalJSON()
		return observation(string(set.MarshalCedar()), string(js))
	case "entities":
		store := must(cwf.JToStore(in["store"]))
		uids := make([]types.EntityUID, 0, len(store))
		for u := range store {
			uids = append(uids, u)
		}
		sort.Slice(uids, func(i, j int) bool { return uids[i].String() < uids[j].String() })
		m := types.EntityMap{}
		for i := range uids {
			u := uids[(i+rep)%len(uids)]
			m[u] = store[u]
		}
		b1, err := json.Marshal(m)
		if err != nil {
			return observation("error", err.Error())
		}
		var back types.EntityMap
		if err := json.Unmarshal(b1, &back); err != nil {
			return observation("decode error", err.Error())
		}
		b2, _ := json.Marshal(back)
		return observation(string(b1), string(b2))
	case "value":
		v := must(cwf.JToValue(in["v"]))
		js, _ := json.Marshal(v)
		return observation(string(v.MarshalCedar()), string(js), v.String())
	}
	panic(harnessError{fmt.Errorf("determ: unknown what %q", what)})
}

// driver "determ": inputs with many map entries wherever the code iterates a Go map
func driveDeterm(seed int64, n int, params map[string]string) []Obj {
	g := newGen(seed, 3)
	reps := 30
	if params["reps"] != "" {
		reps = atoi(params["reps"])
	}
	var out []Obj
	add := func(what string, in Obj) {
		out = append(out, Obj{"op": "determ", "what": what, "input": in, "reps": reps})
	}
	failing := func(i int) ast.IsNode { // distinct failures with distinct messages
		switch i % 4 {
		case 0:
			return ast.NodeTypeAdd{BinaryNode: bin(val(types.Long(1)), strNode("x"))}
		case 1:
			return ast.NodeTypeNot{UnaryNode: ast.UnaryNode{Arg: val(types.Long(int64(i)))}}
		case 2:
			return ast.NodeTypeAccess{StrOpNode: ast.StrOpNode{Arg: ast.NodeTypeVariable{Name: "context"}, Value: types.String(fmt.Sprintf("missing%d", i))}}
		}
		return ext("decimal", strNode(fmt.Sprintf("bad%d", i)))
	}
	for i := 0; len(out) < n; i++ {
		switch i % 8 {
		case 0: // a record literal with several failing fields: which failure is reported?
			var els []ast.RecordElementNode
			for k := 0; k < 5; k++ {
				els = append(els, ast.RecordElementNode{Key: types.String(fmt.Sprintf("f%d", k)), Value: failing(k + i)})
			}
			cond := ast.NodeTypeEquals{BinaryNode: bin(ast.NodeTypeRecord{Elements: els}, val(types.Long(1)))}
			p := &ast.Policy{Effect: ast.EffectPermit, Principal: ast.ScopeTypeAll{}, Action: ast.ScopeTypeAll{}, Resource: ast.ScopeTypeAll{},
				Conditions: []ast.ConditionType{{Condition: ast.ConditionWhen, Body: cond}}}
			pols := []any{Obj{"id": "p0", "policy": cwf.PolicyToJ(p)}}
			order := []any{"p0"}
			for k := 1; k < 12; k++ {
				id := fmt.Sprintf("p%d", k)
				pols = append(pols, Obj{"id": id, "policy": cwf.PolicyToJ(g.policy(2))})
				order = append(order, id)
			}
			add("authz", Obj{"policies": pols, "order": order, "env": cwf.EnvToJ(g.env())})
		case 1: // a policy decoded from JSON whose record literals and annotations have several keys
			var els []ast.RecordElementNode
			for k := 0; k < 6; k++ {
				els = append(els, ast.RecordElementNode{Key: types.String(fmt.Sprintf("k%d", (k*5+i)%9)), Value: g.expr(kLong, 1)})
			}
			seen := map[types.String]bool{}
			var uniq []ast.RecordElementNode
			for _, e := range els {
				if !seen[e.Key] {
					seen[e.Key] = true
					uniq = append(uniq, e)
				}
			}
			p := &ast.Policy{Effect: ast.EffectForbid, Principal: ast.ScopeTypeAll{}, Action: ast.ScopeTypeAll{}, Resource: ast.ScopeTypeAll{},
				Annotations: []ast.AnnotationType{{Key: "zeta", Value: "1"}, {Key: "alpha", Value: "2"}, {Key: "mid", Value: "3"}, {Key: "beta", Value: ""}},
				Conditions: []ast.ConditionType{{Condition: ast.ConditionWhen,
					Body: ast.NodeTypeHas{StrOpNode: ast.StrOpNode{Arg: ast.NodeTypeRecord{Elements: uniq}, Value: "k1"}}}}}
			js, err := (*pubast.Policy)(p).MarshalJSON()
			if err != nil {
				continue
			}
			add("policy_json", Obj{"json": cwf.StrToJ(string(js))})
		case 2: // random policies through text
			p := g.policy(3)
			txt := guard(func() string { return string((*pubast.Policy)(p).MarshalCedar()) })
			if txt == "panic" {
				continue
			}
			add("policy_text", Obj{"text": cwf.StrToJ(txt)})
		case 3: // a policy set of 12 policies
			pols, order := []any{}, []any{}
			for k := 0; k < 12; k++ {
				id := fmt.Sprintf("policy%d", k)
				pp := g.policy(2)
				if guard(func() string { (*pubast.Policy)(pp).MarshalCedar(); return "" }) == "panic" {
					pp = g.policy(0)
				}
				pols = append(pols, Obj{"id": id, "policy": cwf.PolicyToJ(pp)})
				order = append(order, id)
			}
			add("policyset", Obj{"policies": pols, "order": order})
		case 4:
			add("entities", Obj{"store": cwf.StoreToJ(g.store())})
		case 5: // sets of colliding values, nested records
			add("value", Obj{"v": cwf.ValueToJ(g.value(pick(g, []kind{kSet, kRec}), 3))})
		case 6: // random policy sets with random requests (messages included)
			pols, order := []any{}, []any{}
			for k := 0; k < 12; k++ {
				id := fmt.Sprintf("p%d", k)
				pols = append(pols, Obj{"id": id, "policy": cwf.PolicyToJ(g.policy(3))})
				order = append(order, id)
			}
			add("authz", Obj{"policies": pols, "order": order, "env": cwf.EnvToJ(g.env())})
		default: // policy set JSON
			set := cedar.NewPolicySet()
			for k := 0; k < 8; k++ {
				pp := g.policy(2)
				set.Add(cedar.PolicyID(fmt.Sprintf("id%d", (k*3)%8)), cedar.NewPolicyFromAST((*pubast.Policy)(pp)))
			}
			js, err := set.MarshalJSON()
			if err != nil {
				continue
			}
			add("policyset_json", Obj{"json": cwf.StrToJ(string(js))})
		}
	}
	return out
}

var _ = bytes.Equal
var _ = context.Background
var _ = batch.Ignore

func init() {
	register("determ", opDeterm, func(c Obj, obs, exp J) []int { return nil })
	drivers["determ"] = driveDeterm
}
