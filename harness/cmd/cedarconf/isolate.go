package main

import (
	"bufio"
	"bytes"
	"fmt"
	"io"
	"os"
	"os/exec"
	"runtime"
	"runtime/debug"
	"strings"
	"sync"
	"time"

	"verifharness/cwf"
)

// Ops whose subject may crash the process (a Go stack overflow is a fatal error that recover() cannot catch) run in
// worker child processes: `cedarconf worker` reads one case per line and answers one line per case.  A worker that
// dies is the observation {"ok": false, "crash": <tail of its stderr>}; a worker that does not answer within the
// deadline is killed and is the observation {"ok": false, "timeout": true}.

var isolatedOps = map[string]bool{}

const workerDeadline = 120 * time.Second

type worker struct {
	cmd    *exec.Cmd
	in     io.WriteCloser
	out    *bufio.Reader
	stderr *bytes.Buffer
}

func startWorker() *worker {
	cmd := exec.Command(os.Args[0], "worker")
	cmd.Env = append(os.Environ(), "VERIF_CHILD=1")
	in, _ := cmd.StdinPipe()
	outp, _ := cmd.StdoutPipe()
	w := &worker{cmd: cmd, in: in, stderr: &bytes.Buffer{}}
	cmd.Stderr = w.stderr
	w.out = bufio.NewReaderSize(outp, 1<<20)
	if err := cmd.Start(); err != nil {
		fail(2, "cannot start worker: %v", err)
	}
	return w
}

var workerPool chan *worker
var workerOnce sync.Once

func getWorker() *worker {
	workerOnce.Do(func() {
		n := runtime.NumCPU()
		workerPool = make(chan *worker, n)
		for i := 0; i < n; i++ {
			workerPool <- nil // started lazily
		}
	})
	w := <-workerPool
	if w == nil {
		w = startWorker()
	}
	return w
}

func runIsolated(c Obj) J {
	w := getWorker()
	line := append(marshal(c), '\n')
	type answer struct {
		line []byte
		err  error
	}
	ch := make(chan answer, 1)
	go func() {
		if _, err := w.in.Write(line); err != nil {
			ch <- answer{nil, err}
			return
		}
		l, err := w.out.ReadBytes('\n')
		ch <- answer{l, err}
	}()
	select {
	case a := <-ch:
		if a.err != nil {
			_ = w.cmd.Wait()
			tail := w.stderr.String()
			if strings.Contains(tail, "stack overflow") || strings.Contains(tail, "goroutine stack exceeds") {
				tail = "fatal error: stack overflow"
			} else if i := strings.Index(tail, "goroutine "); i > 0 {
				tail = tail[:i]
			}
			if len(tail) > 300 {
				tail = tail[:300]
			}
			workerPool <- nil
			return Obj{"ok": false, "crash": ascii(strings.TrimSpace(tail))}
		}
		workerPool <- w
		return cwf.MustParse(a.line)
	case <-time.After(workerDeadline):
		_ = w.cmd.Process.Kill()
		_ = w.cmd.Wait()
		workerPool <- nil
		return Obj{"ok": false, "timeout": true}
	}
}

func cmdWorker(args []string) {
	// a runaway recursion is reported after 64 MB of stack instead of Go's default 1 GB (seconds per crash)
	debug.SetMaxStack(64 << 20)
	in := bufio.NewReaderSize(os.Stdin, 1<<20)
	out := bufio.NewWriter(os.Stdout)
	for {
		line, err := in.ReadBytes('\n')
		if len(line) > 0 {
			c, ok := cwf.MustParse(line).(Obj)
			if !ok {
				fail(2, "worker: case is not an object")
			}
			name, _ := c["op"].(string)
			f := ops[name]
			if f == nil {
				fail(2, "worker: unknown op %q", name)
			}
			obs := func() (obs J) {
				defer func() {
					if r := recover(); r != nil {
						if he, ok := r.(harnessError); ok {
							fail(2, "harness error in op %s: %v", name, he.err)
						}
						obs = Obj{"ok": false, "panic": ascii(fmt.Sprint(r))}
					}
				}()
				return f(c)
			}()
			out.Write(marshal(obs))
			out.WriteByte('\n')
			out.Flush()
		}
		if err != nil {
			return
		}
	}
}

func init() { extraCmds["worker"] = cmdWorker }
