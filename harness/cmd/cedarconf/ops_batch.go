package main

import (
	"context"
	"errors"
	"fmt"
	"sort"

	cedar "github.com/cedar-policy/cedar-go"
	pubast "github.com/cedar-policy/cedar-go/ast"
	"github.com/cedar-policy/cedar-go/types"
	"github.com/cedar-policy/cedar-go/x/exp/ast"
	"github.com/cedar-policy/cedar-go/x/exp/batch"

	"verifharness/cwf"
)

// op "batch": {policies: [{id, policy}], template: penv (unknown markers = variables), vars:
// [{key, values}], fault: {kind: none|fail|cancel, at: k}} ->
//
//	{ret: nil|cb|ctx|other:<msg>, calls: [{values, request, decision, reasons, cross}]}
//
// The callback copies every Result, fails (with a sentinel error) at its k-th invocation or
// cancels the context during it, and additionally authorizes Result.Request with the ordinary
// authorizer over the full policy set (`cross`, must equal decision/reasons).
var errCallback = errors.New("verif: callback failed on purpose")

func opBatch(c Obj) J {
	tmpl := must(cwf.JToEnv(c["template"]))
	ps, order := decodePolicies(c)
	set := cedar.NewPolicySet()
	byID := map[string]idPolicy{}
	for _, p := range ps {
		byID[p.id] = p
	}
	for _, id := range order {
		set.Add(cedar.PolicyID(id), cedar.NewPolicyFromAST((*pubast.Policy)(byID[id].ast)))
	}
	vars := batch.Variables{}
	if arr, ok := c["vars"].([]any); ok {
		for _, e := range arr {
			o := e.(Obj)
			key, _ := o["key"].(string)
			vals := []types.Value{}
			if varr, ok := o["values"].([]any); ok {
				for _, v := range varr {
					vals = append(vals, must(cwf.JToValue(v)))
				}
			}
			vars[types.String(key)] = vals
		}
	}
	kind, at := "none", 0
	if f, ok := c["fault"].(Obj); ok {
		kind, _ = f["kind"].(string)
		at = must(asIntJ(f["at"]))
	}
	ctx, cancel := context.WithCancel(context.Background())
	defer cancel()
	calls := []any{}
	n := 0
	cb := func(r batch.Result) error {
		n++
		vals := Obj{}
		for k, v := range r.Values {
			vals[cwf.NameToWire(string(k))] = cwf.ValueToJ(v)
		}
		reasons := []string{}
		for _, x := range r.Diagnostic.Reasons {
			reasons = append(reasons, string(x.PolicyID))
		}
		sort.Strings(reasons)
		dec := "deny"
		if r.Decision == cedar.Allow {
			dec = "allow"
		}
		xdec, xdiag := cedar.Authorize(set, tmpl.Store, r.Request)
		cross := diagToJ(xdec, xdiag, func(s string) string { return s })
		errs := []string{}
		for _, x := range r.Diagnostic.Errors {
			errs = append(errs, string(x.PolicyID)+": "+x.Message)
		}
		sort.Strings(errs)
		call := Obj{"errs": strs(errs), "values": vals,
			"request":  Obj{"p": cwf.ValueToJ(r.Request.Principal), "a": cwf.ValueToJ(r.Request.Action), "r": cwf.ValueToJ(r.Request.Resource), "c": cwf.ValueToJ(r.Request.Context)},
			"decision": dec, "reasons": strs(reasons),
			"cross": cross["decision"] == dec && cwf.Canon(cross["reasons"]) == cwf.Canon(strs(reasons))}
		if call["cross"] != true {
			call["ordinary"] = cross
		}
		calls = append(calls, call)
		if kind == "fail" && n == at {
			return errCallback
		}
		if kind == "cancel" && n == at {
			cancel()
		}
		return nil
	}
	if kind == "precancel" {
		cancel()
	}
	err := batch.Authorize(ctx, set, tmpl.Store, batch.Request{Principal: tmpl.P, Action: tmpl.A, Resource: tmpl.R, Context: tmpl.C, Variables: vars}, cb)
	ret := "nil"
	switch {
	case err == nil:
	case errors.Is(err, errCallback):
		ret = "cb"
	case errors.Is(err, context.Canceled):
		ret = "ctx"
	default:
		ret = "other"
	}
	out := Obj{"ret": ret, "calls": calls}
	if ret == "other" {
		out["msg"] = err.Error()
	}
	return out
}

func callKey(call J) string {
	o, _ := call.(Obj)
	return cwf.Canon(normStore(Obj{"values": o["values"], "request": o["request"], "decision": o["decision"], "reasons": o["reasons"]}))
}

// comparator: the acceptance predicate of spec/Batch.tla (Acceptable) on the emitted expectation
func cmpBatch(c Obj, obs, exp J) []int {
	o, ok := obs.(Obj)
	e, ok2 := exp.(Obj)
	if !ok || !ok2 {
		return []int{0}
	}
	if _, p := o["panic"]; p {
		return []int{0}
	}
	calls, _ := o["calls"].([]any)
	ret, _ := o["ret"].(string)
	switch e["pre"] {
	case "error":
		if len(calls) != 0 || ret != "other" {
			return []int{0}
		}
		return nil
	case "nowork":
		if len(calls) != 0 || ret != "nil" {
			return []int{0}
		}
		return nil
	case "precancel":
		if len(calls) != 0 || ret != "ctx" {
			return []int{0}
		}
		return nil
	}
	total := must(asIntJ(e["total"]))
	bag := map[string]int{}
	if arr, ok := e["calls"].([]any); ok {
		for _, x := range arr {
			xo := x.(Obj)
			bag[callKey(xo["call"])] += must(asIntJ(xo["count"]))
		}
	}
	seen := map[string]int{}
	for _, call := range calls {
		if ok, _ := call.(Obj)["cross"].(bool); !ok {
			return []int{0}
		}
		k := callKey(cwf.MustParse(marshal(call)))
		seen[k]++
		if seen[k] > bag[k] {
			return []int{0}
		}
	}
	f, _ := c["fault"].(Obj)
	kind, _ := f["kind"].(string)
	at := 0
	if f != nil {
		at = must(asIntJ(f["at"]))
	}
	if kind == "none" || kind == "" || at > total {
		if len(calls) != total || ret != "nil" {
			return []int{0}
		}
		return nil
	}
	want := "cb"
	if kind == "cancel" {
		want = "ctx"
	}
	if len(calls) != at || ret != want {
		return []int{0}
	}
	return nil
}

// driver "batch": random templates (nesting depth <= 3, up to 3 variables, lists of up to 4
// values with duplicates) and random policies over the request variables
func driveBatch(seed int64, n int, params map[string]string) []Obj {
	g := newGen(seed, 3)
	out := make([]Obj, 0, n)
	unk := func(name string) J { return Obj{"k": "unknown", "name": name} }
	names := []string{"x", "y", "z"}
	for i := 0; i < n; i++ {
		env := cwf.EnvToJ(g.env()).(Obj)
		nv := g.r.Intn(4)
		used := map[string]string{} // name -> "ent" or "val"
		leakAttr := ""              // the attribute of context.r that holds a variable, if any
		ctx := env["c"].(Obj)["f"].(Obj)
		for k := 0; k < nv; k++ {
			name := names[k]
			for occ := 1 + g.r.Intn(2); occ > 0; occ-- {
				switch g.r.Intn(8) {
				case 0:
					if used[name] != "val" {
						env["p"] = unk(name)
						used[name] = "ent"
					}
				case 1:
					if used[name] != "val" {
						env["r"] = unk(name)
						used[name] = "ent"
					}
				case 2:
					if used[name] != "val" {
						env["a"] = unk(name)
						used[name] = "ent"
					}
				case 3, 4:
					if used[name] != "ent" {
						ctx[pick(g, attrNames)] = unk(name)
						used[name] = "val"
					}
				case 5:
					if used[name] != "ent" {
						leakAttr = pick(g, attrNames)
						ctx["r"] = Obj{"k": "rec", "f": Obj{leakAttr: unk(name), "n": cwf.ValueToJ(g.long())}}
						used[name] = "val"
					}
				default:
					if used[name] != "ent" {
						ctx["ss"] = Obj{"k": "set", "els": []any{unk(name), cwf.ValueToJ(g.long())}}
						used[name] = "val"
					}
				}
			}
		}
		// variables actually present decide the lists (a later write may have overwritten an earlier one)
		present := map[string]bool{}
		findUnknowns(env["p"], present)
		findUnknowns(env["a"], present)
		findUnknowns(env["r"], present)
		findUnknowns(env["c"], present)
		vars := []any{}
		total := 1
		for _, name := range names {
			if !present[name] {
				continue
			}
			ln := 1 + g.r.Intn(4)
			if g.r.Intn(15) == 0 {
				ln = 0
			}
			vals := []any{}
			for j := 0; j < ln; j++ {
				if used[name] == "ent" {
					vals = append(vals, cwf.ValueToJ(g.uid()))
				} else {
					vals = append(vals, cwf.ValueToJ(g.value(pick(g, []kind{kLong, kLong, kStr, kBool, kEnt}), 0)))
				}
			}
			total *= ln
			vars = append(vars, Obj{"key": name, "values": vals})
		}
		if g.r.Intn(25) == 0 { // an unused variable
			vars = append(vars, Obj{"key": "unused", "values": []any{cwf.ValueToJ(g.long())}})
		}
		np := 1 + g.r.Intn(6)
		pols := []any{}
		for k := 0; k < np; k++ {
			pols = append(pols, Obj{"id": fmt.Sprintf("p%d", k), "policy": cwf.PolicyToJ(g.policy(3))})
		}
		// conditions that relate two request parts (decided at different recursion levels)
		for k := g.r.Intn(3); k > 0; k-- {
			ctxAttr := func(a string) ast.IsNode {
				return ast.NodeTypeAccess{StrOpNode: ast.StrOpNode{Arg: ast.NodeTypeVariable{Name: "context"}, Value: types.String(a)}}
			}
			v := func(n string) ast.IsNode { return ast.NodeTypeVariable{Name: types.String(n)} }
			var body ast.IsNode
			switch g.r.Intn(5) {
			case 0:
				body = ast.NodeTypeEquals{BinaryNode: bin(v("principal"), ctxAttr("e"))}
			case 1:
				body = ast.NodeTypeContains{BinaryNode: bin(ctxAttr("ss"), v("resource"))}
			case 2:
				body = ast.NodeTypeEquals{BinaryNode: bin(ctxAttr("n"), ast.NodeTypeAccess{StrOpNode: ast.StrOpNode{Arg: ctxAttr("r"), Value: "n"}})}
			case 3:
				body = ast.NodeTypeContains{BinaryNode: bin(ast.NodeTypeSet{Elements: []ast.IsNode{v("principal"), v("resource")}}, ctxAttr("e"))}
			default:
				body = ast.NodeTypeIn{BinaryNode: bin(v("principal"), v("resource"))}
			}
			p := &ast.Policy{Effect: ast.EffectPermit, Principal: ast.ScopeTypeAll{}, Action: ast.ScopeTypeAll{}, Resource: ast.ScopeTypeAll{},
				Conditions: []ast.ConditionType{{Condition: ast.ConditionWhen, Body: body}}}
			if g.r.Intn(3) == 0 {
				p.Effect = ast.EffectForbid
			}
			pols = append(pols, Obj{"id": fmt.Sprintf("rel%d", k), "policy": cwf.PolicyToJ(p)})
		}
		// literals and branches over a collection that still holds a variable next to the variable itself: true for
		// every value of the variable, so a forbid that is lost or a permit that is dropped shows at once
		if r, ok := ctx["r"].(Obj); ok && leakAttr != "" && r["k"] == "rec" {
			cv := ast.NodeTypeVariable{Name: "context"}
			cr := ast.NodeTypeAccess{StrOpNode: ast.StrOpNode{Arg: cv, Value: "r"}}
			cra := ast.NodeTypeAccess{StrOpNode: ast.StrOpNode{Arg: cr, Value: types.String(leakAttr)}}
			bodies := []ast.IsNode{
				ast.NodeTypeContains{BinaryNode: bin(ast.NodeTypeSet{Elements: []ast.IsNode{cr, cra}}, cr)},
				ast.NodeTypeEquals{BinaryNode: bin(ast.NodeTypeIfThenElse{If: ast.NodeTypeEquals{BinaryNode: bin(cra, cra)}, Then: cr,
					Else: ast.NodeValue{Value: types.NewRecord(types.RecordMap{})}}, cr)},
				ast.NodeTypeEquals{BinaryNode: bin(ast.NodeTypeAccess{StrOpNode: ast.StrOpNode{Arg: ast.NodeTypeRecord{Elements: []ast.RecordElementNode{
					{Key: "p", Value: cr}, {Key: "q", Value: cra}}}, Value: "p"}}, cr)},
			}
			for k, body := range bodies {
				if g.r.Intn(2) == 0 {
					continue
				}
				p := &ast.Policy{Effect: ast.EffectForbid, Principal: ast.ScopeTypeAll{}, Action: ast.ScopeTypeAll{}, Resource: ast.ScopeTypeAll{},
					Conditions: []ast.ConditionType{{Condition: ast.ConditionWhen, Body: body}}}
				if g.r.Intn(3) == 0 {
					p.Effect = ast.EffectPermit
				}
				pols = append(pols, Obj{"id": fmt.Sprintf("leak%d", k), "policy": cwf.PolicyToJ(p)})
			}
		}
		fault := Obj{"kind": "none", "at": 1}
		if total > 0 && g.r.Intn(3) == 0 {
			fault = Obj{"kind": pick(g, []string{"fail", "cancel"}), "at": 1 + g.r.Intn(total+1)}
		} else if g.r.Intn(12) == 0 { // the context is cancelled before the call (also with an empty value list)
			fault = Obj{"kind": "precancel", "at": 1}
		}
		out = append(out, Obj{"op": "batch", "policies": pols, "template": env, "vars": vars, "fault": fault})
	}
	return out
}

func findUnknowns(j J, out map[string]bool) {
	switch t := j.(type) {
	case Obj:
		if t["k"] == "unknown" {
			out[t["name"].(string)] = true
			return
		}
		for _, v := range t {
			findUnknowns(v, out)
		}
	case []any:
		for _, v := range t {
			findUnknowns(v, out)
		}
	}
}

func init() {
	register("batch", opBatch, cmpBatch)
	drivers["batch"] = driveBatch
}
