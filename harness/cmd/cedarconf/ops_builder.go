package main

import (
	pubast "github.com/cedar-policy/cedar-go/ast"
	"github.com/cedar-policy/cedar-go/types"
	"github.com/cedar-policy/cedar-go/x/exp/ast"

	"verifharness/cwf"
)

// The public builder API (package ast: Permit().When(Principal().Equal(...))) is how programs construct policies.
// buildViaAPI reconstructs a policy tree by calling that API only; the result must be the tree itself.  ok is false
// for trees the API cannot express (an extension call with the wrong number of arguments, an unknown function).

type apiBuilder struct{ ok bool }

func (b *apiBuilder) node(n ast.IsNode) pubast.Node {
	bin := func(l, r ast.IsNode, f func(a, b pubast.Node) pubast.Node) pubast.Node { return f(b.node(l), b.node(r)) }
	switch t := n.(type) {
	case ast.NodeTypeIfThenElse:
		return pubast.IfThenElse(b.node(t.If), b.node(t.Then), b.node(t.Else))
	case ast.NodeTypeOr:
		return bin(t.Left, t.Right, pubast.Node.Or)
	case ast.NodeTypeAnd:
		return bin(t.Left, t.Right, pubast.Node.And)
	case ast.NodeTypeLessThan:
		return bin(t.Left, t.Right, pubast.Node.LessThan)
	case ast.NodeTypeLessThanOrEqual:
		return bin(t.Left, t.Right, pubast.Node.LessThanOrEqual)
	case ast.NodeTypeGreaterThan:
		return bin(t.Left, t.Right, pubast.Node.GreaterThan)
	case ast.NodeTypeGreaterThanOrEqual:
		return bin(t.Left, t.Right, pubast.Node.GreaterThanOrEqual)
	case ast.NodeTypeNotEquals:
		return bin(t.Left, t.Right, pubast.Node.NotEqual)
	case ast.NodeTypeEquals:
		return bin(t.Left, t.Right, pubast.Node.Equal)
	case ast.NodeTypeIn:
		return bin(t.Left, t.Right, pubast.Node.In)
	case ast.NodeTypeHas:
		return b.node(t.Arg).Has(t.Value)
	case ast.NodeTypeHasTag:
		return bin(t.Left, t.Right, pubast.Node.HasTag)
	case ast.NodeTypeGetTag:
		return bin(t.Left, t.Right, pubast.Node.GetTag)
	case ast.NodeTypeLike:
		return b.node(t.Arg).Like(t.Value)
	case ast.NodeTypeIs:
		return b.node(t.Left).Is(t.EntityType)
	case ast.NodeTypeIsIn:
		return b.node(t.Left).IsIn(t.EntityType, b.node(t.Entity))
	case ast.NodeTypeSub:
		return bin(t.Left, t.Right, pubast.Node.Subtract)
	case ast.NodeTypeAdd:
		return bin(t.Left, t.Right, pubast.Node.Add)
	case ast.NodeTypeMult:
		return bin(t.Left, t.Right, pubast.Node.Multiply)
	case ast.NodeTypeNegate:
		return pubast.Negate(b.node(t.Arg))
	case ast.NodeTypeNot:
		return pubast.Not(b.node(t.Arg))
	case ast.NodeTypeAccess:
		return b.node(t.Arg).Access(t.Value)
	case ast.NodeTypeContains:
		return bin(t.Left, t.Right, pubast.Node.Contains)
	case ast.NodeTypeContainsAll:
		return bin(t.Left, t.Right, pubast.Node.ContainsAll)
	case ast.NodeTypeContainsAny:
		return bin(t.Left, t.Right, pubast.Node.ContainsAny)
	case ast.NodeTypeIsEmpty:
		return b.node(t.Arg).IsEmpty()
	case ast.NodeValue:
		switch v := t.Value.(type) {
		case types.Boolean:
			return pubast.Boolean(v)
		case types.String:
			return pubast.String(v)
		case types.Long:
			return pubast.Long(v)
		case types.EntityUID:
			return pubast.EntityUID(types.Ident(v.Type), v.ID)
		}
		return pubast.Value(t.Value)
	case ast.NodeTypeRecord:
		var ps pubast.Pairs
		seen := map[types.String]bool{}
		for _, e := range t.Elements {
			if seen[e.Key] { // Record keeps the latter of duplicate keys: not the same tree
				b.ok = false
			}
			seen[e.Key] = true
			ps = append(ps, pubast.Pair{Key: e.Key, Value: b.node(e.Value)})
		}
		return pubast.Record(ps)
	case ast.NodeTypeSet:
		var ns []pubast.Node
		for _, e := range t.Elements {
			ns = append(ns, b.node(e))
		}
		return pubast.Set(ns...)
	case ast.NodeTypeVariable:
		switch t.Name {
		case "principal":
			return pubast.Principal()
		case "action":
			return pubast.Action()
		case "resource":
			return pubast.Resource()
		case "context":
			return pubast.Context()
		}
	case ast.NodeTypeExtensionCall:
		args := make([]pubast.Node, len(t.Args))
		for i, a := range t.Args {
			args[i] = b.node(a)
		}
		one := map[types.Path]func(pubast.Node) pubast.Node{"decimal": pubast.DecimalExtensionCall, "ip": pubast.IPExtensionCall,
			"datetime": pubast.DatetimeExtensionCall, "duration": pubast.DurationExtensionCall,
			"isIpv4": pubast.Node.IsIpv4, "isIpv6": pubast.Node.IsIpv6, "isLoopback": pubast.Node.IsLoopback, "isMulticast": pubast.Node.IsMulticast,
			"toDate": pubast.Node.ToDate, "toTime": pubast.Node.ToTime, "toDays": pubast.Node.ToDays, "toHours": pubast.Node.ToHours,
			"toMinutes": pubast.Node.ToMinutes, "toSeconds": pubast.Node.ToSeconds, "toMilliseconds": pubast.Node.ToMilliseconds}
		two := map[types.Path]func(a, b pubast.Node) pubast.Node{"lessThan": pubast.Node.DecimalLessThan, "lessThanOrEqual": pubast.Node.DecimalLessThanOrEqual,
			"greaterThan": pubast.Node.DecimalGreaterThan, "greaterThanOrEqual": pubast.Node.DecimalGreaterThanOrEqual,
			"isInRange": pubast.Node.IsInRange, "offset": pubast.Node.Offset, "durationSince": pubast.Node.DurationSince}
		if f, has := one[t.Name]; has && len(args) == 1 {
			return f(args[0])
		}
		if f, has := two[t.Name]; has && len(args) == 2 {
			return f(args[0], args[1])
		}
	}
	b.ok = false
	return pubast.True()
}

func buildViaAPI(p *ast.Policy) (*ast.Policy, bool) {
	b := &apiBuilder{ok: true}
	var out *pubast.Policy
	if len(p.Annotations) > 0 {
		var an *pubast.Annotations
		seen := map[types.Ident]bool{}
		for i, a := range p.Annotations {
			if seen[a.Key] {
				return nil, false
			}
			seen[a.Key] = true
			if i == 0 {
				an = pubast.Annotation(a.Key, a.Value)
			} else {
				an = an.Annotation(a.Key, a.Value)
			}
		}
		if p.Effect == ast.EffectPermit {
			out = an.Permit()
		} else {
			out = an.Forbid()
		}
	} else if p.Effect == ast.EffectPermit {
		out = pubast.Permit()
	} else {
		out = pubast.Forbid()
	}
	switch s := p.Principal.(type) {
	case ast.ScopeTypeEq:
		out = out.PrincipalEq(s.Entity)
	case ast.ScopeTypeIn:
		out = out.PrincipalIn(s.Entity)
	case ast.ScopeTypeIs:
		out = out.PrincipalIs(s.Type)
	case ast.ScopeTypeIsIn:
		out = out.PrincipalIsIn(s.Type, s.Entity)
	}
	switch s := p.Action.(type) {
	case ast.ScopeTypeEq:
		out = out.ActionEq(s.Entity)
	case ast.ScopeTypeIn:
		out = out.ActionIn(s.Entity)
	case ast.ScopeTypeInSet:
		out = out.ActionInSet(s.Entities...)
	}
	switch s := p.Resource.(type) {
	case ast.ScopeTypeEq:
		out = out.ResourceEq(s.Entity)
	case ast.ScopeTypeIn:
		out = out.ResourceIn(s.Entity)
	case ast.ScopeTypeIs:
		out = out.ResourceIs(s.Type)
	case ast.ScopeTypeIsIn:
		out = out.ResourceIsIn(s.Type, s.Entity)
	}
	for _, c := range p.Conditions {
		if c.Condition == ast.ConditionWhen {
			out = out.When(b.node(c.Body))
		} else {
			out = out.Unless(b.node(c.Body))
		}
	}
	return (*ast.Policy)(out), b.ok
}

// builderVerdict: "same" | "differs" | "n/a"
func builderVerdict(p *ast.Policy) string {
	return guardS(func() string {
		q, ok := buildViaAPI(p)
		if !ok {
			return "n/a"
		}
		if cwf.Canon(cwf.PolicyToJ(q)) == cwf.Canon(cwf.PolicyToJ(p)) {
			return "same"
		}
		return "differs"
	})
}
