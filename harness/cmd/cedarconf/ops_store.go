package main

import (
	"bytes"
	"encoding/json"
	"fmt"
	"math/rand"
	"sort"

	cedar "github.com/cedar-policy/cedar-go"
	pubast "github.com/cedar-policy/cedar-go/ast"

	"verifharness/cwf"
)

// The table announced by {op: "storetable", pols: [policy..], probes: [env..]}: steps of
// "store" cases refer to policies by number (1-based); every policy carries the
// annotation @pid("<n>") by which the harness recognises it in a container.
var storePols []any
var storeProbes []cwf.Env

func loadStoreTable(c Obj) {
	storePols, _ = c["pols"].([]any)
	storeProbes = nil
	storeProbesJ, _ = c["probes"].([]any)
	if arr, ok := c["probes"].([]any); ok {
		for _, e := range arr {
			storeProbes = append(storeProbes, must(cwf.JToEnv(e)))
		}
	}
}

func init() {
	preloadHooks = append(preloadHooks, func(l []byte) {
		if bytes.Contains(l, []byte(`"op":"storetable"`)) {
			loadStoreTable(cwf.MustParse(l).(Obj))
		}
	})
	register("storetable", func(c Obj) J { return "loaded" }, func(c Obj, obs, exp J) []int { return nil })
	register("store", opStore, cmpStore)
	drivers["store"] = driveStore
}

// the table a case uses: its own ("table" field) or the preloaded global one; never
// shared mutable state between concurrently executed cases
type storeTable struct {
	pols   []any
	probes []cwf.Env
}

func tableOf(c Obj) storeTable {
	if tbl, ok := c["table"].(Obj); ok {
		t := storeTable{}
		t.pols, _ = tbl["pols"].([]any)
		if arr, ok := tbl["probes"].([]any); ok {
			for _, e := range arr {
				t.probes = append(t.probes, must(cwf.JToEnv(e)))
			}
		}
		return t
	}
	return storeTable{pols: storePols, probes: storeProbes}
}

func (t storeTable) tablePolicy(n int) *cedar.Policy {
	if n < 1 || n > len(t.pols) {
		panic(harnessError{fmt.Errorf("store: no policy %d in the table", n)})
	}
	return cedar.NewPolicyFromAST((*pubast.Policy)(must(cwf.JToPolicy(t.pols[n-1]))))
}

func pidOf(p *cedar.Policy) int {
	if p == nil {
		return 0
	}
	s := string(p.Annotations()["pid"])
	n := 0
	for _, c := range s {
		n = n*10 + int(c-'0')
	}
	if s == "" {
		return -1
	}
	return n
}

type storeState struct {
	storeTable
	sets [3]*cedar.PolicySet // 1-based
	copy cedar.PolicyMap
}

func mapEntries(get func(func(cedar.PolicyID, *cedar.Policy) bool)) []any {
	type ent struct {
		id string
		p  *cedar.Policy
	}
	var es []ent
	get(func(id cedar.PolicyID, p *cedar.Policy) bool { es = append(es, ent{string(id), p}); return true })
	sort.Slice(es, func(i, j int) bool { return es[i].id < es[j].id })
	out := []any{}
	for _, e := range es {
		file := ""
		if e.p != nil {
			file = e.p.Position().Filename
		}
		out = append(out, Obj{"id": e.id, "pol": pidOf(e.p), "file": file})
	}
	return out
}

func (s *storeState) proj() J {
	sets := []any{}
	for h := 1; h <= 2; h++ {
		ps := s.sets[h]
		if ps == nil {
			sets = append(sets, Obj{"live": false, "entries": []any{}, "az": []any{}})
			continue
		}
		entries := mapEntries(func(y func(cedar.PolicyID, *cedar.Policy) bool) { ps.All()(y) })
		// All(), Get() and Map() must describe the same contents
		consistent := len(ps.Map()) == len(entries)
		for _, e := range entries {
			eo := e.(Obj)
			if pidOf(ps.Get(cedar.PolicyID(eo["id"].(string)))) != eo["pol"].(int) {
				consistent = false
			}
		}
		az := []any{}
		for _, env := range s.probes {
			req, _ := env.Request()
			dec, diag := cedar.Authorize(ps, env.Store, req)
			r := diagToJ(dec, diag, func(x string) string { return x })
			delete(r, "st")
			az = append(az, r)
		}
		o := Obj{"live": true, "entries": entries, "az": az}
		if !consistent {
			o["inconsistent"] = true
		}
		sets = append(sets, o)
	}
	cp := Obj{"live": s.copy != nil, "entries": []any{}}
	if s.copy != nil {
		cp["entries"] = mapEntries(func(y func(cedar.PolicyID, *cedar.Policy) bool) { s.copy.All()(y) })
	}
	return Obj{"sets": sets, "copy": cp}
}

func (s *storeState) step(st Obj) J {
	op, _ := st["op"].(string)
	h := 0
	if v, ok := st["h"]; ok {
		h = must(asIntJ(v))
	}
	id, _ := st["id"].(string)
	pol := 0
	if v, ok := st["pol"]; ok {
		pol = must(asIntJ(v))
	}
	switch op {
	case "new":
		s.sets[h] = cedar.NewPolicySet()
		return "ok"
	case "load":
		var doc bytes.Buffer
		for i, n := range intList(st["doc"]) {
			if i > 0 {
				doc.WriteString("\n")
			}
			doc.Write(s.tablePolicy(n).MarshalCedar())
		}
		file, _ := st["file"].(string)
		ps, err := cedar.NewPolicySetFromBytes(file, doc.Bytes())
		if err != nil {
			return "error: " + err.Error()
		}
		s.sets[h] = ps
		return len(ps.Map())
	case "add":
		return s.sets[h].Add(cedar.PolicyID(id), s.tablePolicy(pol))
	case "remove":
		return s.sets[h].Remove(cedar.PolicyID(id))
	case "get":
		return pidOf(s.sets[h].Get(cedar.PolicyID(id)))
	case "mapcopy":
		s.copy = s.sets[h].Map()
		return len(s.copy)
	case "mapput":
		s.copy[cedar.PolicyID(id)] = s.tablePolicy(pol)
		return "ok"
	case "mapdelete":
		delete(s.copy, cedar.PolicyID(id))
		return "ok"
	case "marshalcedar":
		txt := s.sets[h].MarshalCedar()
		list, err := cedar.NewPolicyListFromBytes("", txt)
		if err != nil {
			return "error: " + err.Error()
		}
		out := []any{}
		for _, p := range list {
			out = append(out, pidOf(p))
		}
		return out
	case "badjson":
		// the set's own encoding with one more valid entry and one null entry: cannot be decoded
		b, err := s.sets[h].MarshalJSON()
		if err != nil {
			return "error: " + err.Error()
		}
		var doc map[string]map[string]json.RawMessage
		if err := json.Unmarshal(b, &doc); err != nil {
			panic(harnessError{err})
		}
		if doc["staticPolicies"] == nil {
			doc["staticPolicies"] = map[string]json.RawMessage{}
		}
		doc["staticPolicies"]["zz extra"] = json.RawMessage(`{"effect":"forbid","principal":{"op":"All"},"action":{"op":"All"},"resource":{"op":"All"}}`)
		doc["staticPolicies"]["zz null"] = json.RawMessage(`null`)
		bad, _ := json.Marshal(doc)
		if err := s.sets[h].UnmarshalJSON(bad); err != nil {
			return "error"
		}
		return "ok"
	case "jsonroundtrip":
		h2 := must(asIntJ(st["h2"]))
		b, err := s.sets[h].MarshalJSON()
		if err != nil {
			return "error: " + err.Error()
		}
		n := len(s.sets[h].Map())
		if s.sets[h2] == nil {
			s.sets[h2] = &cedar.PolicySet{}
		}
		if err := s.sets[h2].UnmarshalJSON(b); err != nil {
			return "error: " + err.Error()
		}
		return n
	}
	panic(harnessError{fmt.Errorf("store: unknown step %q", op)})
}

// op "store": {steps: [..]} -> {rets: [..], projs: [..]} after every step
func opStore(c Obj) J {
	s := storeState{storeTable: tableOf(c)}
	steps, _ := c["steps"].([]any)
	rets, projs := []any{}, []any{}
	for _, st := range steps {
		rets = append(rets, s.step(st.(Obj)))
		projs = append(projs, s.proj())
	}
	return Obj{"rets": rets, "projs": projs}
}

// normalise: id lists that denote sets are sorted; ints compared as numbers
func normStore(j J) J {
	switch t := j.(type) {
	case Obj:
		out := Obj{}
		for k, v := range t {
			if k == "reasons" || k == "errors" {
				var ss []string
				if arr, ok := v.([]any); ok {
					for _, x := range arr {
						ss = append(ss, fmt.Sprint(x))
					}
				}
				sort.Strings(ss)
				out[k] = strs(ss)
			} else {
				out[k] = normStore(v)
			}
		}
		return out
	case []any:
		out := make([]any, len(t))
		for i, v := range t {
			out[i] = normStore(v)
		}
		return out
	}
	return j
}

// the expectation lists cover the LAST len(exp) steps
func cmpStore(c Obj, obs, exp J) []int {
	o, ok := obs.(Obj)
	e, ok2 := exp.(Obj)
	if !ok || !ok2 {
		return []int{0}
	}
	for _, k := range []string{"rets", "projs"} {
		oa, _ := o[k].([]any)
		ea, _ := e[k].([]any)
		if len(ea) > len(oa) {
			return []int{0}
		}
		oa = oa[len(oa)-len(ea):]
		for i := range ea {
			if cwf.Canon(normStore(cwf.MustParse(marshal(oa[i])))) != cwf.Canon(normStore(ea[i])) {
				return []int{len(steps(c)) - len(ea) + i}
			}
		}
	}
	return nil
}

func steps(c Obj) []any {
	s, _ := c["steps"].([]any)
	return s
}

// driver "store": random histories of 50..500 operations over 10 ids; the policy table
// travels with every event
func driveStore(seed int64, n int, params map[string]string) []Obj {
	if storePols == nil {
		panic(harnessError{fmt.Errorf("driver store needs -param table=<cases file with a storetable line>")})
	}
	r := rand.New(rand.NewSource(seed))
	ids := []string{"a", "b", "policy1", "policy10", "policy2", "z", "A", "policy0", "p", ""}
	out := make([]Obj, 0, n)
	for i := 0; i < n; i++ {
		length := 50 + r.Intn(451)
		if params["maxlen"] != "" {
			length = 5 + r.Intn(atoi(params["maxlen"]))
		}
		live := [3]bool{}
		copyLive := false
		var st []any
		for len(st) < length {
			h := 1 + r.Intn(2)
			id := ids[r.Intn(len(ids))]
			pol := 1 + r.Intn(len(storePols))
			switch k := r.Intn(20); {
			case !live[h]:
				if r.Intn(2) == 0 {
					st = append(st, Obj{"op": "new", "h": h})
				} else {
					st = append(st, loadStep(r, h))
				}
				live[h] = true
			case k < 6:
				st = append(st, Obj{"op": "add", "h": h, "id": id, "pol": pol})
			case k < 9:
				st = append(st, Obj{"op": "remove", "h": h, "id": id})
			case k < 11:
				st = append(st, Obj{"op": "get", "h": h, "id": id})
			case k < 12:
				st = append(st, loadStep(r, h))
			case k < 13:
				st = append(st, Obj{"op": "mapcopy", "h": h})
				copyLive = true
			case k < 15 && copyLive:
				st = append(st, Obj{"op": "mapput", "id": id, "pol": pol})
			case k < 16 && copyLive:
				st = append(st, Obj{"op": "mapdelete", "id": id})
			case k < 17:
				st = append(st, Obj{"op": "marshalcedar", "h": h})
			case k < 18:
				st = append(st, Obj{"op": "badjson", "h": h})
			default:
				h2 := 1 + r.Intn(2)
				st = append(st, Obj{"op": "jsonroundtrip", "h": h, "h2": h2})
				live[h2] = true
			}
		}
		out = append(out, Obj{"op": "store", "steps": st, "table": Obj{"pols": storePols, "probes": storeProbesJ}})
	}
	return out
}

var storeProbesJ []any

func loadStep(r *rand.Rand, h int) Obj {
	n := []int{0, 1, 3, 12}[r.Intn(4)]
	doc := []any{}
	for i := 0; i < n; i++ {
		doc = append(doc, 1+r.Intn(len(storePols)))
	}
	return Obj{"op": "load", "h": h, "doc": doc, "file": fmt.Sprintf("f%d.cedar", n)}
}
