package main

import (
	"bytes"
	"fmt"
	"iter"
	"sort"
	"strings"
	"unicode/utf8"

	cedar "github.com/cedar-policy/cedar-go"
	pubast "github.com/cedar-policy/cedar-go/ast"
	"github.com/cedar-policy/cedar-go/x/exp/ast"

	"verifharness/cwf"
)

// op "authz": {policies: [{id, policy}], order: [ids], env, text: bool}
// authorizes the same policies three ways and reports, for each,
// {decision, reasons: sorted ids, errors: sorted ids}:
//
//	A: a PolicySet filled with Add() in `order` (iteration = Go map order)
//	B: a PolicyIterator that yields exactly `order`
//	C: (when text) one document made of the policies' own text renderings in
//	   `order`, loaded with NewPolicySetFromBytes; ids policy<i> are mapped back;
//	   "pos" reports whether every reason/error carries the file name and the
//	   offset/line/column of the first token of its policy in that document.
type sliceIter struct {
	ids []cedar.PolicyID
	ps  []*cedar.Policy
}

func (s sliceIter) All() iter.Seq2[cedar.PolicyID, *cedar.Policy] {
	return func(yield func(cedar.PolicyID, *cedar.Policy) bool) {
		for i := range s.ids {
			if !yield(s.ids[i], s.ps[i]) {
				return
			}
		}
	}
}

func diagToJ(dec cedar.Decision, diag cedar.Diagnostic, rename func(string) string) Obj {
	d := "deny"
	if dec == cedar.Allow {
		d = "allow"
	}
	rs, es := []string{}, []string{}
	for _, r := range diag.Reasons {
		rs = append(rs, rename(string(r.PolicyID)))
	}
	for _, e := range diag.Errors {
		es = append(es, rename(string(e.PolicyID)))
	}
	sort.Strings(rs)
	sort.Strings(es)
	return Obj{"st": "ok", "decision": d, "reasons": strs(rs), "errors": strs(es)}
}

func strs(ss []string) []any {
	out := make([]any, len(ss))
	for i, s := range ss {
		out[i] = s
	}
	return out
}

type idPolicy struct {
	id  string
	ast *ast.Policy
}

func decodePolicies(c Obj) ([]idPolicy, []string) {
	arr, _ := c["policies"].([]any)
	var ps []idPolicy
	byID := map[string]bool{}
	for _, e := range arr {
		o := e.(Obj)
		id, _ := o["id"].(string)
		ps = append(ps, idPolicy{id, must(cwf.JToPolicy(o["policy"]))})
		byID[id] = true
	}
	var order []string
	if oarr, ok := c["order"].([]any); ok {
		for _, x := range oarr {
			order = append(order, x.(string))
		}
	}
	if len(order) == 0 {
		for _, p := range ps {
			order = append(order, p.id)
		}
	}
	return ps, order
}

var separators = []string{"\n\n", "\n", " ", "\n// a comment\n", "\t\r\n", "\n/* é€😀 */ ", "\r\n  "}

func opAuthz(c Obj) J {
	env := must(cwf.JToEnv(c["env"]))
	req, ok := env.Request()
	if !ok {
		panic(harnessError{fmt.Errorf("authz: environment is not a request")})
	}
	ps, order := decodePolicies(c)
	byID := map[string]*cedar.Policy{}
	for _, p := range ps {
		byID[p.id] = cedar.NewPolicyFromAST((*pubast.Policy)(p.ast))
	}
	same := func(s string) string { return s }
	out := Obj{}
	// A
	set := cedar.NewPolicySet()
	for _, id := range order {
		set.Add(cedar.PolicyID(id), byID[id])
	}
	dec, diag := cedar.Authorize(set, env.Store, req)
	out["A"] = diagToJ(dec, diag, same)
	// B
	it := sliceIter{}
	for _, id := range order {
		it.ids = append(it.ids, cedar.PolicyID(id))
		it.ps = append(it.ps, byID[id])
	}
	dec, diag = cedar.Authorize(it, env.Store, req)
	out["B"] = diagToJ(dec, diag, same)
	// C
	if t, _ := c["text"].(bool); t {
		out["C"], out["pos"] = authzViaText(c, order, byID, env, req)
	} else {
		out["C"], out["pos"] = Obj{"st": "skip"}, "n/a"
	}
	return out
}

type pos struct{ off, line, col int }

func authzViaText(c Obj, order []string, byID map[string]*cedar.Policy, env cwf.Env, req cedar.Request) (res J, posres J) {
	// Policies that have no text form (unknown functions, wrong arity, ...) or whose
	// rendering does not parse back faithfully are skipped here: rendering and parsing
	// are the subject of C08 / C10, not of the authorizer.
	defer func() {
		if r := recover(); r != nil {
			res, posres = Obj{"st": "skip"}, "n/a"
		}
	}()
	var doc bytes.Buffer
	seed := 0
	if s, ok := c["layout"]; ok {
		seed = must(asIntJ(s))
	}
	if seed%3 != 0 { // otherwise the first policy starts at offset 0
		doc.WriteString(separators[seed%len(separators)])
	}
	starts := make([]pos, len(order))
	for i, id := range order {
		b := doc.Bytes()
		starts[i] = pos{off: len(b), line: 1 + bytes.Count(b, []byte("\n")), col: 1 + utf8.RuneCount(b[bytes.LastIndexByte(b, '\n')+1:])}
		doc.Write(byID[id].MarshalCedar())
		doc.WriteString(separators[(seed+i+1)%len(separators)])
	}
	set, err := cedar.NewPolicySetFromBytes("f.cedar", doc.Bytes())
	if err != nil {
		return Obj{"st": "skip"}, "n/a"
	}
	// text round trip must be faithful for this comparison to mean anything (C08 checks fidelity itself)
	for i, id := range order {
		p := set.Get(cedar.PolicyID(fmt.Sprintf("policy%d", i)))
		if p == nil {
			return Obj{"st": "fail", "why": fmt.Sprintf("missing policy%d", i)}, "n/a"
		}
		if !cwf.Equal(cwf.PolicyToJ((*ast.Policy)(p.AST())), cwf.PolicyToJ((*ast.Policy)(byID[id].AST()))) {
			return Obj{"st": "skip"}, "n/a"
		}
	}
	rename := func(s string) string {
		var i int
		if _, err := fmt.Sscanf(s, "policy%d", &i); err == nil && i >= 0 && i < len(order) && s == fmt.Sprintf("policy%d", i) {
			return order[i]
		}
		return "?" + s
	}
	dec, diag := cedar.Authorize(set, env.Store, req)
	posOK := true
	var bad []string
	check := func(id string, p cedar.Position) {
		var i int
		fmt.Sscanf(id, "policy%d", &i)
		if i < 0 || i >= len(starts) {
			posOK = false
			return
		}
		want := starts[i]
		if p.Filename != "f.cedar" || p.Offset != want.off || p.Line != want.line || p.Column != want.col {
			posOK = false
			bad = append(bad, fmt.Sprintf("%s: got %s:%d:%d:%d want %d:%d:%d", id, p.Filename, p.Offset, p.Line, p.Column, want.off, want.line, want.col))
		}
	}
	for _, r := range diag.Reasons {
		check(string(r.PolicyID), r.Position)
	}
	for _, e := range diag.Errors {
		check(string(e.PolicyID), e.Position)
	}
	for i := range order { // and Policy.Position() of every policy, reported or not
		check(fmt.Sprintf("policy%d", i), set.Get(cedar.PolicyID(fmt.Sprintf("policy%d", i))).Position())
	}
	var pj J = "ok"
	if !posOK {
		pj = "bad: " + strings.Join(bad, "; ")
	}
	return diagToJ(dec, diag, rename), pj
}

func asIntJ(j J) (int, error) {
	switch t := j.(type) {
	case float64:
		return int(t), nil
	case int:
		return t, nil
	}
	var n int
	_, err := fmt.Sscanf(fmt.Sprint(j), "%d", &n)
	return n, err
}

func cmpAuthz(c Obj, obs, exp J) []int {
	o, ok := obs.(Obj)
	if !ok {
		return []int{0}
	}
	if _, p := o["panic"]; p {
		return []int{0}
	}
	e := cwf.Canon(normResult(exp))
	for _, way := range []string{"A", "B", "C"} {
		if w, ok := o[way].(Obj); ok && w["st"] == "skip" {
			continue
		}
		if cwf.Canon(normResult(o[way])) != e {
			return []int{0}
		}
	}
	if o["pos"] != "n/a" && o["pos"] != "ok" {
		return []int{0}
	}
	return nil
}

// normResult sorts the id lists (TLC emits sets in its own order; [] and {} both mean empty)
func normResult(j J) J {
	o, ok := j.(Obj)
	if !ok {
		return j
	}
	out := Obj{"decision": o["decision"], "st": "ok"}
	for _, k := range []string{"reasons", "errors"} {
		var ss []string
		if arr, ok := o[k].([]any); ok {
			for _, x := range arr {
				ss = append(ss, fmt.Sprint(x))
			}
		}
		sort.Strings(ss)
		out[k] = strs(ss)
	}
	for k, v := range o {
		if k != "decision" && k != "reasons" && k != "errors" {
			out[k] = v
		}
	}
	return out
}

func init() {
	register("authz", opAuthz, cmpAuthz)
}
