package main

import (
	"bytes"
	"fmt"
	"sort"

	cedar "github.com/cedar-policy/cedar-go"
	pubast "github.com/cedar-policy/cedar-go/ast"
	"github.com/cedar-policy/cedar-go/types"
	"github.com/cedar-policy/cedar-go/x/exp/ast"
	"github.com/cedar-policy/cedar-go/x/exp/schema"
	sast "github.com/cedar-policy/cedar-go/x/exp/schema/ast"
	"github.com/cedar-policy/cedar-go/x/exp/schema/resolved"
	"github.com/cedar-policy/cedar-go/x/exp/schema/validate"

	"verifharness/cwf"
)

// ---------------------------------------------------------------- C16 / C17: schemas

func resolveJ(s *schema.Schema) J {
	r, err := s.Resolve()
	if err != nil {
		return Obj{"ok": false, "err": ascii(err.Error())}
	}
	return Obj{"ok": true, "v": cwf.ResolvedToJ(r)}
}

// op "schema": {schema: SWF, probes: bool} -> what resolution and the two codecs make of the schema
//
//	r0:    resolution of the AST as built
//	text:  {ok, r, again, ast}: MarshalCedar -> UnmarshalCedar (ok), its resolution (r), whether rendering the parsed
//	       schema repeats the bytes (again), the parsed AST in wire form
//	json:  the same through MarshalJSON / UnmarshalJSON
//	t2j:   text -> parse -> MarshalJSON -> parse -> resolve;  j2t: JSON -> parse -> MarshalCedar -> parse -> resolve
//	probes: validator runs (both modes) over policies / entities / requests derived from the resolved schema:
//	       [{what, mode, outcome: accept | reject}]  (a panic / crash / timeout is the isolated worker's observation)
func opSchema(c Obj) J {
	a := must(cwf.JToSchema(c["schema"]))
	s := schema.NewSchemaFromAST(a)
	out := Obj{"r0": resolveJ(s)}
	via := func(marshal func(*schema.Schema) ([]byte, error), unmarshal func(*schema.Schema, []byte) error) (Obj, *schema.Schema) {
		b, err := marshal(s)
		if err != nil {
			return Obj{"ok": false, "stage": "marshal", "err": ascii(err.Error())}, nil
		}
		var s2 schema.Schema
		if err := unmarshal(&s2, b); err != nil {
			return Obj{"ok": false, "stage": "parse", "err": ascii(err.Error()), "doc": cwf.StrToJ(string(b))}, nil
		}
		o := Obj{"ok": true, "r": resolveJ(&s2), "ast": cwf.SchemaToJ(s2.AST())}
		b2, err := marshal(&s2)
		o["again"] = err == nil && bytes.Equal(b, b2)
		if o["again"] == false {
			o["doc"] = cwf.StrToJ(string(b))
			o["doc2"] = cwf.StrToJ(string(b2))
		}
		return o, &s2
	}
	mText := func(x *schema.Schema) ([]byte, error) { return x.MarshalCedar() }
	uText := func(x *schema.Schema, b []byte) error { return x.UnmarshalCedar(b) }
	mJSON := func(x *schema.Schema) ([]byte, error) { return x.MarshalJSON() }
	uJSON := func(x *schema.Schema, b []byte) error { return x.UnmarshalJSON(b) }
	var st, sj *schema.Schema
	out["text"], st = via(mText, uText)
	out["json"], sj = via(mJSON, uJSON)
	cross := func(from *schema.Schema, marshal func(*schema.Schema) ([]byte, error), unmarshal func(*schema.Schema, []byte) error) J {
		if from == nil {
			return Obj{"ok": false, "stage": "n/a"}
		}
		b, err := marshal(from)
		if err != nil {
			return Obj{"ok": false, "stage": "marshal", "err": ascii(err.Error())}
		}
		var s2 schema.Schema
		if err := unmarshal(&s2, b); err != nil {
			return Obj{"ok": false, "stage": "parse", "err": ascii(err.Error())}
		}
		return Obj{"ok": true, "r": resolveJ(&s2)}
	}
	out["t2j"] = cross(st, mJSON, uJSON)
	out["j2t"] = cross(sj, mText, uText)
	if pr, _ := c["probes"].(bool); pr {
		if r, err := s.Resolve(); err == nil {
			out["probes"] = validatorProbes(r)
		} else {
			out["probes"] = []any{}
		}
	}
	return out
}

func verdict(err error) string {
	if err != nil {
		return "reject"
	}
	return "accept"
}

// validatorProbes runs the validator over policies, entities and requests derived from the schema: every entity type
// in every scope position and as `in` / `is` operand, every attribute of every type accessed and tested, literals of
// every kind (incl. set / record / extension VALUE nodes as the JSON decoder builds them), every action applied
func validatorProbes(r *resolved.Schema) []any {
	out := []any{}
	var ets []types.EntityType
	for et := range r.Entities {
		ets = append(ets, et)
	}
	for et := range r.Enums {
		ets = append(ets, et)
	}
	sort.Slice(ets, func(i, j int) bool { return ets[i] < ets[j] })
	var acts []types.EntityUID
	for u := range r.Actions {
		acts = append(acts, u)
	}
	sort.Slice(acts, func(i, j int) bool { return acts[i].String() < acts[j].String() })
	v := func(x types.Value) ast.IsNode { return ast.NodeValue{Value: x} }
	pvar := ast.NodeTypeVariable{Name: "principal"}
	rvar := ast.NodeTypeVariable{Name: "resource"}
	cvar := ast.NodeTypeVariable{Name: "context"}
	var pols []*ast.Policy
	mk := func(p ast.IsPrincipalScopeNode, a ast.IsActionScopeNode, rs ast.IsResourceScopeNode, conds ...ast.IsNode) {
		pol := &ast.Policy{Effect: ast.EffectPermit, Principal: p, Action: a, Resource: rs}
		for _, cnd := range conds {
			pol.Conditions = append(pol.Conditions, ast.ConditionType{Condition: ast.ConditionWhen, Body: cnd})
		}
		pols = append(pols, pol)
	}
	all := ast.ScopeTypeAll{}
	literals := []types.Value{types.Long(1), types.String("s"), types.Boolean(true), types.NewSet(types.Long(1), types.Long(2)), types.NewSet(),
		types.NewRecord(types.RecordMap{"a": types.Long(1), "b": types.NewSet(types.String("x"))}), types.NewRecord(types.RecordMap{}),
		must(types.ParseDecimal("1.5")), must(types.ParseIPAddr("10.0.0.1")), types.NewDatetimeFromMillis(0), types.NewDurationFromMillis(1),
		types.NewSet(types.NewEntityUID("Nope", "x")), types.NewRecord(types.RecordMap{"e": types.NewEntityUID("Nope", "x")})}
	for _, l := range literals {
		mk(all, all, all, ast.NodeTypeEquals{BinaryNode: bin(v(l), v(l))})
		mk(all, all, all, ast.NodeTypeContains{BinaryNode: bin(v(l), v(types.Long(1)))})
		mk(all, all, all, ast.NodeTypeAccess{StrOpNode: ast.StrOpNode{Arg: v(l), Value: "a"}})
		mk(all, all, all, ast.NodeTypeIn{BinaryNode: bin(pvar, v(l))})
		mk(all, all, all, ast.NodeTypeEquals{BinaryNode: bin(cvar, v(l))})
		mk(all, all, all, ast.NodeTypeIsEmpty{UnaryNode: ast.UnaryNode{Arg: v(l)}})
		mk(all, all, all, ast.NodeTypeLessThan{BinaryNode: bin(v(l), v(l))})
	}
	for _, et := range ets {
		uid := types.NewEntityUID(et, "x")
		mk(ast.ScopeTypeIs{Type: et}, all, all)
		mk(ast.ScopeTypeIn{Entity: uid}, all, ast.ScopeTypeIn{Entity: uid})
		mk(ast.ScopeTypeIsIn{Type: et, Entity: uid}, all, ast.ScopeTypeIsIn{Type: et, Entity: uid})
		mk(ast.ScopeTypeEq{Entity: uid}, all, ast.ScopeTypeEq{Entity: uid})
		mk(all, all, all, ast.NodeTypeIn{BinaryNode: bin(pvar, v(uid))}, ast.NodeTypeIn{BinaryNode: bin(rvar, v(types.NewSet(uid)))})
		mk(all, all, all, ast.NodeTypeIsIn{NodeTypeIs: ast.NodeTypeIs{Left: rvar, EntityType: et}, Entity: v(uid)})
		mk(all, all, all, ast.NodeTypeIs{Left: pvar, EntityType: et})
		mk(all, all, all, ast.NodeTypeHasTag{BinaryNode: bin(v(uid), v(types.String("t")))}, ast.NodeTypeGetTag{BinaryNode: bin(v(uid), v(types.String("t")))})
		if e, ok := r.Entities[et]; ok {
			// nested access through every request variable (whatever its declared type): var.attr.sub for the record-typed
			// attributes of this entity type -- also exercises the messages built from access paths
			for attr, at := range e.Shape {
				if rt, isRec := at.Type.(resolved.RecordType); isRec {
					for sub := range rt {
						for _, vn := range []types.String{"principal", "resource", "action", "context"} {
							inner := ast.NodeTypeAccess{StrOpNode: ast.StrOpNode{Arg: ast.NodeTypeVariable{Name: vn}, Value: attr}}
							mk(all, all, all, ast.NodeTypeEquals{BinaryNode: bin(ast.NodeTypeAccess{StrOpNode: ast.StrOpNode{Arg: inner, Value: sub}}, v(types.Long(1)))})
						}
					}
				}
			}
			for attr := range e.Shape {
				acc := ast.NodeTypeAccess{StrOpNode: ast.StrOpNode{Arg: v(uid), Value: attr}}
				mk(ast.ScopeTypeIs{Type: et}, all, all, ast.NodeTypeHas{StrOpNode: ast.StrOpNode{Arg: pvar, Value: attr}},
					ast.NodeTypeEquals{BinaryNode: bin(ast.NodeTypeAccess{StrOpNode: ast.StrOpNode{Arg: pvar, Value: attr}}, acc)})
				mk(all, all, all, ast.NodeTypeIn{BinaryNode: bin(acc, pvar)}, ast.NodeTypeLessThan{BinaryNode: bin(acc, v(types.Long(1)))})
			}
		}
	}
	for _, au := range acts {
		mk(all, ast.ScopeTypeEq{Entity: au}, all, ast.NodeTypeHas{StrOpNode: ast.StrOpNode{Arg: cvar, Value: "k"}})
		mk(all, ast.ScopeTypeIn{Entity: au}, all)
		mk(all, ast.ScopeTypeInSet{Entities: acts}, all, ast.NodeTypeIn{BinaryNode: bin(ast.NodeTypeVariable{Name: "action"}, v(au))})
		if ap := r.Actions[au].AppliesTo; ap != nil {
			for attr := range ap.Context {
				mk(all, ast.ScopeTypeEq{Entity: au}, all, ast.NodeTypeAccess{StrOpNode: ast.StrOpNode{Arg: cvar, Value: attr}})
			}
		}
	}
	// the same policies once more as the JSON decoder builds them
	n := len(pols)
	for i := 0; i < n; i += 3 {
		p := cedar.NewPolicyFromAST((*pubPolicyAST)(pols[i]))
		if b, err := p.MarshalJSON(); err == nil {
			var q cedar.Policy
			if q.UnmarshalJSON(b) == nil {
				pols = append(pols, (*ast.Policy)(q.AST()))
			}
		}
	}
	for _, mode := range []string{"strict", "permissive"} {
		opt := validate.WithStrict()
		if mode == "permissive" {
			opt = validate.WithPermissive()
		}
		val := validate.New(r, opt)
		acc, rej := 0, 0
		for i, p := range pols {
			switch guardS(func() string { return verdict(val.Policy(fmt.Sprintf("p%d", i), p)) }) {
			case "accept":
				acc++
			case "reject":
				rej++
			default:
				out = append(out, Obj{"what": "policy " + ascii(string(cedar.NewPolicyFromAST((*pubPolicyAST)(p)).MarshalCedar())), "mode": mode, "outcome": "panic"})
			}
		}
		out = append(out, Obj{"what": "policies", "mode": mode, "outcome": "done", "accept": acc, "reject": rej})
		// entities: one per entity type with every attribute filled by a value of the declared type, one empty, actions
		em := types.EntityMap{}
		for _, et := range ets {
			uid := types.NewEntityUID(et, "x")
			ent := types.Entity{UID: uid}
			if e, ok := r.Entities[et]; ok {
				rm := types.RecordMap{}
				for attr, at := range e.Shape {
					rm[attr] = sampleValue(r, at.Type, 0)
				}
				ent.Attributes = types.NewRecord(rm)
				var ps []types.EntityUID
				for _, pt := range e.ParentTypes {
					ps = append(ps, types.NewEntityUID(pt, "x"))
				}
				ent.Parents = types.NewEntityUIDSet(ps...)
				if e.Tags != nil {
					ent.Tags = types.NewRecord(types.RecordMap{"t": sampleValue(r, e.Tags, 0)})
				}
			}
			em[uid] = ent
			out = append(out, Obj{"what": "entity " + ascii(string(et)), "mode": mode, "outcome": guardS(func() string { return verdict(val.Entity(ent)) })})
			out = append(out, Obj{"what": "bare entity " + ascii(string(et)), "mode": mode, "outcome": guardS(func() string { return verdict(val.Entity(types.Entity{UID: uid})) })})
		}
		for _, au := range acts {
			em[au] = r.Actions[au].Entity
		}
		out = append(out, Obj{"what": "entities", "mode": mode, "outcome": guardS(func() string { return verdict(val.Entities(em)) })})
		for _, au := range acts {
			ap := r.Actions[au].AppliesTo
			if ap == nil {
				out = append(out, Obj{"what": "request " + ascii(au.String()), "mode": mode,
					"outcome": guardS(func() string {
						return verdict(val.Request(types.Request{Principal: types.NewEntityUID("Nope", "x"), Action: au, Resource: types.NewEntityUID("Nope", "x")}))
					})})
				continue
			}
			for _, pt := range ap.Principals {
				for _, rt := range ap.Resources {
					cm := types.RecordMap{}
					for attr, at := range ap.Context {
						cm[attr] = sampleValue(r, at.Type, 0)
					}
					req := types.Request{Principal: types.NewEntityUID(pt, "x"), Action: au, Resource: types.NewEntityUID(rt, "x"), Context: types.NewRecord(cm)}
					out = append(out, Obj{"what": "request " + ascii(au.String()), "mode": mode, "outcome": guardS(func() string { return verdict(val.Request(req)) })})
				}
			}
		}
	}
	return out
}

type pubPolicyAST = pubast.Policy

func sampleValue(r *resolved.Schema, t resolved.IsType, depth int) types.Value {
	switch t := t.(type) {
	case resolved.StringType:
		return types.String("s")
	case resolved.LongType:
		return types.Long(1)
	case resolved.BoolType:
		return types.Boolean(true)
	case resolved.ExtensionType:
		switch string(t) {
		case "decimal":
			return must(types.ParseDecimal("1.0"))
		case "ipaddr":
			return must(types.ParseIPAddr("10.0.0.1"))
		case "datetime":
			return types.NewDatetimeFromMillis(0)
		default:
			return types.NewDurationFromMillis(1)
		}
	case resolved.SetType:
		if depth > 6 {
			return types.NewSet()
		}
		return types.NewSet(sampleValue(r, t.Element, depth+1))
	case resolved.RecordType:
		rm := types.RecordMap{}
		if depth <= 6 {
			for attr, at := range t {
				rm[attr] = sampleValue(r, at.Type, depth+1)
			}
		}
		return types.NewRecord(rm)
	case resolved.EntityType:
		return types.NewEntityUID(types.EntityType(t), "x")
	}
	return types.Long(0)
}

var _ = sast.String

func init() {
	register("schema", opSchema, func(c Obj, obs, exp J) []int { return nil })
	isolatedOps["schema"] = true
}
