package main

import (
	"bytes"
	"fmt"
	"regexp"
	"sort"
	"strings"
	"unicode/utf8"

	cedar "github.com/cedar-policy/cedar-go"
	pubast "github.com/cedar-policy/cedar-go/ast"
	"github.com/cedar-policy/cedar-go/x/exp/ast"

	"verifharness/cwf"
)

// op "marshal": {policy, via: "ast"|"json"|"text", parts: bool} -> what MarshalCedar and the real
// parser make of the policy:
//
//	subject:  the policy whose rendering is examined (the input for via=ast; the policy decoded from
//	          the input's JSON / reparsed from the input's text for via=json / via=text)
//	text:     code points of subject.MarshalCedar()
//	reparsed: {ok, policy} from Policy.UnmarshalCedar(text)
//	retext:   "same" iff rendering the reparsed policy reproduces the same bytes
//	list:     {ok, policies} from PolicyList.UnmarshalCedar(PolicyList{subject}.MarshalCedar())
//	words, names: spelling tables for the specification's lexer (TLC cannot look inside strings):
//	          every identifier-shaped word of the text, every attribute / key / entity-id name of the subject
//
// parts: entity types are written as path components (the syntax universes).
func opMarshal(c Obj) J {
	parts, _ := c["parts"].(bool)
	conv := func(p *ast.Policy) J {
		j := cwf.PolicyToJ(p)
		if parts {
			j = cwf.SplitTypes(j)
		}
		return j
	}
	if why := noTextForm(c["policy"]); why != "" {
		return Obj{"skip": "no text form: " + why}
	}
	subject := cedar.NewPolicyFromAST((*pubast.Policy)(must(cwf.JToPolicy(c["policy"]))))
	out := Obj{}
	via, _ := c["via"].(string)
	switch via {
	case "json":
		b, err := subject.MarshalJSON()
		if err != nil {
			return Obj{"skip": "MarshalJSON: " + ascii(err.Error())}
		}
		var p cedar.Policy
		if err := p.UnmarshalJSON(b); err != nil {
			return Obj{"skip": "UnmarshalJSON: " + ascii(err.Error())}
		}
		subject = &p
	case "text":
		var p cedar.Policy
		if err := p.UnmarshalCedar(subject.MarshalCedar()); err != nil {
			return Obj{"skip": "UnmarshalCedar: " + ascii(err.Error())}
		}
		subject = &p
	}
	sj := conv((*ast.Policy)(subject.AST()))
	out["subject"] = sj
	if via == "ast" || via == "" {
		// the same tree built through the public builder API (package ast) must be the tree itself
		out["builder"] = builderVerdict(must(cwf.JToPolicy(c["policy"])))
	}
	text := subject.MarshalCedar()
	out["text"] = cwf.StrToJ(string(text))
	out["utf8"] = utf8.Valid(text)
	var p cedar.Policy
	if err := p.UnmarshalCedar(text); err != nil {
		out["reparsed"] = Obj{"ok": false, "err": ascii(err.Error())}
		out["retext"] = "n/a"
	} else {
		out["reparsed"] = Obj{"ok": true, "policy": conv((*ast.Policy)(p.AST()))}
		if t2 := p.MarshalCedar(); bytes.Equal(t2, text) {
			out["retext"] = "same"
		} else {
			out["retext"] = "differs"
			out["text2"] = cwf.StrToJ(string(t2))
		}
	}
	var list cedar.PolicyList
	if err := list.UnmarshalCedar(cedar.PolicyList{subject}.MarshalCedar()); err != nil {
		out["list"] = Obj{"ok": false}
	} else {
		ps := []any{}
		for _, q := range list {
			ps = append(ps, conv((*ast.Policy)(q.AST())))
		}
		out["list"] = Obj{"ok": true, "policies": ps}
	}
	out["words"] = wordTable(text)
	out["names"] = nameTable(sj)
	return out
}

func ascii(s string) string {
	b := []byte(s)
	for i, c := range b {
		if c < 32 || c > 126 || c == '"' || c == '\\' {
			b[i] = '?'
		}
	}
	return string(b)
}

var wordRe = regexp.MustCompile(`[A-Za-z_][A-Za-z0-9_]*`)

func wordTable(text []byte) []any {
	seen := map[string]bool{}
	for _, w := range wordRe.FindAll(text, -1) {
		seen[string(w)] = true
	}
	ws := make([]string, 0, len(seen))
	for w := range seen {
		ws = append(ws, w)
	}
	sort.Strings(ws)
	out := []any{}
	for _, w := range ws {
		out = append(out, Obj{"name": w, "cps": cwf.StrToJ(w)})
	}
	return out
}

// every wire name that stands for characters: attribute names, record keys, entity ids
func nameTable(j J) []any {
	seen := map[string]bool{}
	var walk func(j J)
	walk = func(j J) {
		switch t := j.(type) {
		case Obj:
			for k, v := range t {
				if s, ok := v.(string); ok && (k == "attr" || k == "key" || (k == "id" && t["k"] == "ent")) {
					seen[s] = true
				}
				if k == "f" { // record values: field names are the keys of f
					if f, ok := v.(Obj); ok {
						for name := range f {
							seen[name] = true
						}
					}
				}
				walk(v)
			}
		case []any:
			for _, v := range t {
				walk(v)
			}
		}
	}
	walk(j)
	ns := make([]string, 0, len(seen))
	for n := range seen {
		ns = append(ns, n)
	}
	sort.Strings(ns)
	out := []any{}
	for _, n := range ns {
		out = append(out, Obj{"name": n, "cps": cwf.StrToJ(must(cwf.NameFromWire(n)))})
	}
	return out
}

// op "marshalset": {items: [{id, policy}], parts} -> the policies that come back from
// PolicySet.MarshalCedar -> NewPolicySetFromBytes (policy0, policy1, ...: lexicographic id order)
// and from PolicyList.MarshalCedar -> NewPolicyListFromBytes (list order), with their texts.
func opMarshalSet(c Obj) J {
	parts, _ := c["parts"].(bool)
	conv := func(p *ast.Policy) J {
		j := cwf.PolicyToJ(p)
		if parts {
			j = cwf.SplitTypes(j)
		}
		return j
	}
	items, _ := c["items"].([]any)
	ps := cedar.NewPolicySet()
	var list cedar.PolicyList
	var subjects []any
	for _, it := range items {
		o := it.(Obj)
		id, _ := o["id"].(string)
		p := cedar.NewPolicyFromAST((*pubast.Policy)(must(cwf.JToPolicy(o["policy"]))))
		ps.Add(cedar.PolicyID(must(cwf.NameFromWire(id))), p)
		list = append(list, p)
		subjects = append(subjects, conv((*ast.Policy)(p.AST())))
	}
	out := Obj{"names": nameTable(subjects)}
	text := ps.MarshalCedar()
	out["settext"] = cwf.StrToJ(string(text))
	words := text
	if ps2, err := cedar.NewPolicySetFromBytes("f.cedar", text); err != nil {
		out["set"] = Obj{"ok": false, "err": ascii(err.Error())}
	} else {
		got := []any{}
		for i := 0; ; i++ {
			q := ps2.Get(cedar.PolicyID(fmt.Sprintf("policy%d", i)))
			if q == nil {
				break
			}
			got = append(got, conv((*ast.Policy)(q.AST())))
		}
		n := 0
		for range ps2.All() {
			n++
		}
		out["set"] = Obj{"ok": true, "policies": got, "count": n}
	}
	ltext := list.MarshalCedar()
	out["listtext"] = cwf.StrToJ(string(ltext))
	words = append(append([]byte{}, words...), ' ')
	words = append(words, ltext...)
	if l2, err := cedar.NewPolicyListFromBytes("f.cedar", ltext); err != nil {
		out["list"] = Obj{"ok": false, "err": ascii(err.Error())}
	} else {
		got := []any{}
		for _, q := range l2 {
			got = append(got, conv((*ast.Policy)(q.AST())))
		}
		out["list"] = Obj{"ok": true, "policies": got}
	}
	out["words"] = wordTable(words)
	return out
}

func init() {
	register("marshal", opMarshal, func(c Obj, obs, exp J) []int { return nil })
	register("marshalset", opMarshalSet, func(c Obj, obs, exp J) []int { return nil })
}

// driver "marshal": random policies (conditions of every kind, scopes, annotations with
// arbitrary strings), three random environments each for comparing the meaning
func driveMarshal(seed int64, n int, params map[string]string) []Obj {
	g := newGen(seed, 4)
	vias := []string{"ast", "json", "text"}
	out := make([]Obj, 0, n)
	for i := 0; i < n; i++ {
		p := g.policy(4)
		if len(p.Conditions) == 0 || g.r.Intn(3) == 0 {
			p.Conditions = append(p.Conditions, ast.ConditionType{Condition: ast.ConditionWhen, Body: g.expr(kBool, 1+g.r.Intn(4))})
		}
		envs := []any{cwf.EnvToJ(g.env()), cwf.EnvToJ(g.env()), cwf.EnvToJ(g.env())}
		out = append(out, Obj{"op": "marshal", "policy": cwf.PolicyToJ(p), "via": vias[i%3], "parts": false, "envs": envs})
	}
	return out
}

func init() { drivers["marshal"] = driveMarshal }

var extMethods = map[string]bool{"lessThan": true, "lessThanOrEqual": true, "greaterThan": true, "greaterThanOrEqual": true,
	"isInRange": true, "offset": true, "durationSince": true, "isIpv4": true, "isIpv6": true, "isLoopback": true,
	"isMulticast": true, "toDate": true, "toTime": true, "toDays": true, "toHours": true, "toMinutes": true,
	"toSeconds": true, "toMilliseconds": true}
var extFunctions = map[string]bool{"ip": true, "decimal": true, "datetime": true, "duration": true}

// ASTs that a program can build but the Cedar syntax cannot express (outside C08's quantifier):
// calls of functions the language does not have, method calls without a receiver.
func noTextForm(j J) string {
	why := ""
	var walk func(j J)
	walk = func(j J) {
		switch t := j.(type) {
		case Obj:
			if t["op"] == "ext" {
				fn, _ := t["fn"].(string)
				args, _ := t["args"].([]any)
				switch {
				case !extMethods[fn] && !extFunctions[fn]:
					why = "unknown function " + ascii(fn)
				case extMethods[fn] && len(args) == 0:
					why = "method call without receiver"
				}
			}
			for _, v := range t {
				walk(v)
			}
		case []any:
			for _, v := range t {
				walk(v)
			}
		}
	}
	walk(j)
	if why == "" {
		why = oddNames(j)
	}
	return why
}

var identRe = regexp.MustCompile(`^[A-Za-z_][A-Za-z0-9_]*$`)
var reservedWords = map[string]bool{"true": true, "false": true, "if": true, "then": true, "else": true, "in": true, "like": true,
	"has": true, "is": true, "__cedar": true}

func pathOK(ty string) bool {
	for _, part := range strings.Split(ty, "::") {
		if !identRe.MatchString(part) || reservedWords[part] {
			return false
		}
	}
	return true
}

// oddNames: entity types that are not identifier paths, annotation keys that are not identifiers.  A program can put
// them into an AST; whether a DECODER may accept them is another matter (see opPJSON).
func oddNames(j J) string {
	why := ""
	var walk func(j J)
	walk = func(j J) {
		switch t := j.(type) {
		case Obj:
			if ty, ok := t["ty"].(string); ok {
				if name, err := cwf.NameFromWire(ty); err != nil || !pathOK(name) {
					why = "odd name: entity type is not a path"
				}
			}
			if parts, ok := t["ty"].([]any); ok {
				for _, p := range parts {
					if s, _ := p.(string); !pathOK(s) {
						why = "odd name: entity type is not a path"
					}
				}
			}
			if annos, ok := t["annos"].([]any); ok {
				for _, a := range annos {
					if ao, ok := a.(Obj); ok {
						k, _ := ao["k"].(string)
						if name, err := cwf.NameFromWire(k); err != nil || !identRe.MatchString(name) {
							why = "odd name: annotation key is not an identifier"
						}
					}
				}
			}
			for _, v := range t {
				walk(v)
			}
		case []any:
			for _, v := range t {
				walk(v)
			}
		}
	}
	walk(j)
	return why
}
