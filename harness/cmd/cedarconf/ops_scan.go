package main

import (
	"bytes"
	"errors"
	"fmt"
	"io"
	"math/rand"
	"strings"
	"unicode/utf8"

	cedar "github.com/cedar-policy/cedar-go"
	pubast "github.com/cedar-policy/cedar-go/ast"
	"github.com/cedar-policy/cedar-go/types"
	"github.com/cedar-policy/cedar-go/x/exp/ast"
	"github.com/cedar-policy/cedar-go/x/exp/verifhook"

	"verifharness/cwf"
)

// ---------------------------------------------------------------- C18: scanner / streaming decoder

var errReaderFault = errors.New("injected reader fault")

// scriptReader delivers a document as a script of reads says: sizes[k] bytes at the k-th call
// (cycling), never more than the caller's buffer; EOF together with the last bytes if eofWithData;
// a non-EOF error once failAt bytes have been delivered (failAt < 0: never).
type scriptReader struct {
	doc         []byte
	pos         int
	sizes       []int
	k           int
	eofWithData bool
	failAt      int
	caps        []int // capacities offered (coverage only)
}

func (r *scriptReader) Read(p []byte) (int, error) {
	r.caps = append(r.caps, len(p))
	if r.failAt >= 0 && r.pos >= r.failAt {
		return 0, errReaderFault
	}
	if r.pos >= len(r.doc) {
		return 0, io.EOF
	}
	n := len(p)
	if len(r.sizes) > 0 {
		n = r.sizes[r.k%len(r.sizes)]
		r.k++
	}
	if n > len(p) {
		n = len(p)
	}
	if n > len(r.doc)-r.pos {
		n = len(r.doc) - r.pos
	}
	failed := false
	if r.failAt >= 0 && r.pos+n >= r.failAt {
		n = r.failAt - r.pos
		failed = true
	}
	copy(p, r.doc[r.pos:r.pos+n])
	r.pos += n
	if failed {
		return n, errReaderFault
	}
	if r.eofWithData && r.pos == len(r.doc) {
		return n, io.EOF
	}
	return n, nil
}

// exactReader returns exactly the scripted (n, eof, fail) per call, then (0, EOF)
type exactReader struct {
	doc   []byte
	pos   int
	reads []any
	k     int
}

func (r *exactReader) Read(p []byte) (int, error) {
	if r.k >= len(r.reads) {
		if r.pos < len(r.doc) { // the model stopped reading (error state): deliver the rest
			n := copy(p, r.doc[r.pos:])
			r.pos += n
			return n, nil
		}
		return 0, io.EOF
	}
	rd := r.reads[r.k].(Obj)
	r.k++
	n := must(cwf.AsInt(rd["n"]))
	if n > len(p) || n > len(r.doc)-r.pos {
		panic(harnessError{fmt.Errorf("scripted read of %d bytes does not fit", n)})
	}
	copy(p, r.doc[r.pos:r.pos+n])
	r.pos += n
	if f, _ := rd["fail"].(bool); f {
		return n, errReaderFault
	}
	if e, _ := rd["eof"].(bool); e {
		return n, io.EOF
	}
	return n, nil
}

var tokClass = []string{"eof", "id", "int", "id", "str", "op", "unk"}

func tokensToJ(toks []verifhook.Token, bytesText bool) []any {
	out := []any{}
	for _, t := range toks {
		if t.Type == 0 {
			continue // the EOF token's position is not part of the statement
		}
		o := Obj{"t": tokClass[t.Type], "off": t.Offset, "line": t.Line, "col": t.Column}
		if bytesText {
			bs := []any{}
			for _, b := range []byte(t.Text) {
				bs = append(bs, int(b))
			}
			o["text"] = bs
		} else {
			o["text"] = cwf.StrToJ(t.Text)
		}
		out = append(out, o)
	}
	return out
}

func bytesOf(j J) []byte {
	arr, _ := j.([]any)
	out := make([]byte, len(arr))
	for i, b := range arr {
		out[i] = byte(must(cwf.AsInt(b)))
	}
	return out
}

// op "scanreplay" (M2): {doc: [bytes], reads: [{n, eof, fail}], failAt} -> the real tokenizer fed by a reader
// that performs exactly the reads of the TLC behaviour: {ok, toks: [{text: [bytes], off, line, col}]}
func opScanReplay(c Obj) J {
	doc := bytesOf(c["doc"])
	reads, _ := c["reads"].([]any)
	toks, err := verifhook.TokenizeReader(&exactReader{doc: doc, reads: reads})
	if err != nil {
		return Obj{"ok": false}
	}
	ts := tokensToJ(toks, true)
	for _, t := range ts {
		delete(t.(Obj), "t")
	}
	return Obj{"ok": true, "toks": ts}
}

func cmpScanReplay(c Obj, obs, exp J) []int {
	o, _ := obs.(Obj)
	e, _ := exp.(Obj)
	ook, _ := o["ok"].(bool)
	eok, _ := e["ok"].(bool)
	if ook != eok {
		return []int{0}
	}
	if ook && !cwf.Equal(o["toks"], e["toks"]) {
		return []int{0}
	}
	return nil
}

type scanResult struct {
	ok   bool
	err  string
	toks []any
}

func scanWith(r io.Reader) scanResult {
	toks, err := verifhook.TokenizeReader(r)
	if err != nil {
		return scanResult{err: err.Error()}
	}
	return scanResult{ok: true, toks: tokensToJ(toks, false)}
}

func (a scanResult) toJ() J {
	if !a.ok {
		return Obj{"ok": false, "err": ascii(a.err)}
	}
	return Obj{"ok": true, "toks": a.toks}
}

func posToJ(p cedar.Position) Obj {
	return Obj{"off": p.Offset, "line": p.Line, "col": p.Column, "file": p.Filename}
}

type decodeResult struct {
	ok   bool
	err  string
	pols []string // canonical wire form of every policy
	pos  []any
}

func decodeStream(r io.Reader) decodeResult {
	dec := cedar.NewDecoder(r)
	var res decodeResult
	for {
		var p cedar.Policy
		err := dec.Decode(&p)
		if err == io.EOF {
			res.ok = true
			return res
		}
		if err != nil {
			return decodeResult{err: err.Error()}
		}
		res.pols = append(res.pols, cwf.Canon(cwf.PolicyToJ((*ast.Policy)(p.AST()))))
		res.pos = append(res.pos, posToJ(p.Position()))
	}
}

func decodeSlice(doc []byte) decodeResult {
	list, err := cedar.NewPolicyListFromBytes("", doc)
	if err != nil {
		return decodeResult{err: err.Error()}
	}
	res := decodeResult{ok: true}
	for _, p := range list {
		res.pols = append(res.pols, cwf.Canon(cwf.PolicyToJ((*ast.Policy)(p.AST()))))
		res.pos = append(res.pos, posToJ(p.Position()))
	}
	return res
}

// NewPolicyListFromBytes wraps the parser's error ("parser error: ..."), the Decoder does not: the wrapper is
// not part of what the chunking can influence
func bareErr(s string) string { return strings.TrimPrefix(s, "parser error: ") }

func sameDecode(a, b decodeResult) bool {
	if a.ok != b.ok || bareErr(a.err) != bareErr(b.err) || len(a.pols) != len(b.pols) {
		return false
	}
	for i := range a.pols {
		if a.pols[i] != b.pols[i] || !cwf.Equal(a.pos[i], b.pos[i]) {
			return false
		}
	}
	return true
}

func (a decodeResult) toJ() J {
	if !a.ok {
		return Obj{"ok": false, "err": ascii(a.err)}
	}
	pos := a.pos
	if pos == nil {
		pos = []any{}
	}
	return Obj{"ok": true, "n": len(a.pols), "pos": pos}
}

// op "scan" (M3): {doc: [cps], valid, schedules: [{sizes, eofWithData, failAt}]} ->
//
//	slice:  tokens of the whole byte slice (hook) -- class, text, offset, line, column
//	pols:   NewPolicyListFromBytes: number of policies and their positions
//	runs:   per schedule, the tokenizer and the streaming decoder fed by the scripted reader: "same" when
//	        both equal the whole-slice results (tokens / policies and positions / error text), otherwise what differed
//	diag:   positions reported by cedar.Authorize diagnostics for the policies parsed with a file name,
//	        by policy index
func opScan(c Obj) J {
	text := must(cwf.JToStr(c["doc"]))
	doc := []byte(text)
	out := Obj{}
	slice := scanWith(bytes.NewReader(doc))
	out["slice"] = slice.toJ()
	sd := decodeSlice(doc)
	out["pols"] = sd.toJ()
	scheds, _ := c["schedules"].([]any)
	runs := make([]any, len(scheds))
	refills := 0
	for i, sj := range scheds {
		s := sj.(Obj)
		var sizes []int
		for _, x := range s["sizes"].([]any) {
			sizes = append(sizes, must(cwf.AsInt(x)))
		}
		ewd, _ := s["eofWithData"].(bool)
		failAt := must(cwf.AsInt(s["failAt"]))
		mk := func() *scriptReader {
			return &scriptReader{doc: doc, sizes: sizes, eofWithData: ewd, failAt: failAt}
		}
		r1 := mk()
		tk := scanWith(r1)
		refills += len(r1.caps)
		dc := decodeStream(mk())
		if failAt >= 0 {
			runs[i] = Obj{"same": false, "fault": true, "tokOk": tk.ok, "decOk": dc.ok}
			continue
		}
		same := tk.ok == slice.ok && tk.err == slice.err && cwf.Equal(tk.toks, slice.toks) && sameDecode(dc, sd)
		if same {
			runs[i] = Obj{"same": true}
		} else {
			runs[i] = Obj{"same": false, "fault": false, "tok": tk.toJ(), "dec": dc.toJ(), "decSame": sameDecode(dc, sd)}
		}
	}
	out["runs"] = runs
	out["reads"] = refills
	// positions in diagnostics
	diag := []any{}
	if sd.ok {
		if ps, err := cedar.NewPolicySetFromBytes("doc.cedar", doc); err == nil {
			req := types.Request{Principal: types.NewEntityUID("U", "a"), Action: types.NewEntityUID("Action", "view"),
				Resource: types.NewEntityUID("G", "g"), Context: types.NewRecord(types.RecordMap{})}
			_, d := cedar.Authorize(ps, types.EntityMap{}, req)
			add := func(id cedar.PolicyID, p cedar.Position) {
				var idx int
				if _, err := fmt.Sscanf(string(id), "policy%d", &idx); err == nil {
					diag = append(diag, Obj{"idx": idx, "pos": posToJ(p)})
				}
			}
			for _, r := range d.Reasons {
				add(r.PolicyID, r.Position)
			}
			for _, e := range d.Errors {
				add(e.PolicyID, e.Position)
			}
			// every stored policy reports the position too
			for id, p := range ps.All() {
				add(id, p.Position())
			}
		} else {
			out["setErr"] = ascii(err.Error())
		}
	}
	out["diag"] = diag
	return out
}

func init() {
	register("scanreplay", opScanReplay, cmpScanReplay)
	register("scan", opScan, func(c Obj, obs, exp J) []int { return nil })
}

// ---------------------------------------------------------------- driver

var scanSeparators = []string{" ", "\n", "\r\n", "\t", "  \n", "\n\n", " // plain comment\n", " // café € \U0001F600 comment\r\n",
	" /* block */ ", "/* multi\nline é€\U0001F600 */", "\r", " /**/ ", "//\n"}

// relayout replaces blanks outside string literals by random scanSeparators
func relayout(r *rand.Rand, text string, density int) string {
	var sb strings.Builder
	inStr := false
	for i := 0; i < len(text); i++ {
		ch := text[i]
		switch {
		case inStr:
			sb.WriteByte(ch)
			if ch == '\\' && i+1 < len(text) {
				i++
				sb.WriteByte(text[i])
			} else if ch == '"' {
				inStr = false
			}
		case ch == '"':
			inStr = true
			sb.WriteByte(ch)
		case (ch == ' ' || ch == '\n') && r.Intn(density) == 0:
			sb.WriteString(scanSeparators[r.Intn(len(scanSeparators))])
		default:
			sb.WriteByte(ch)
		}
	}
	return sb.String()
}

var scanStrings = []string{"é", "€", "\U0001F600", "aéb€c\U0001F600d", "éééééééé", "x\ty", "q\"q", "back\\slash",
	strings.Repeat("\U0001F600", 40), strings.Repeat("long_identifier_", 8), "́", "�", "\u007f"}

func (g *gen) scanPolicy() *ast.Policy {
	p := g.policy(3)
	if g.r.Intn(2) == 0 {
		s := scanStrings[g.r.Intn(len(scanStrings))]
		p.Annotations = append(p.Annotations, ast.AnnotationType{Key: types.Ident(fmt.Sprintf("note%d", g.r.Intn(1000))), Value: types.String(s)})
	}
	if g.r.Intn(2) == 0 {
		s := scanStrings[g.r.Intn(len(scanStrings))]
		p.Conditions = append(p.Conditions, ast.ConditionType{Condition: ast.ConditionWhen,
			Body: ast.NodeTypeEquals{BinaryNode: ast.BinaryNode{Left: ast.NodeTypeAccess{StrOpNode: ast.StrOpNode{Arg: ast.NodeTypeVariable{Name: "context"}, Value: types.String(strings.Repeat("k", 1+g.r.Intn(30)))}},
				Right: ast.NodeValue{Value: types.String(s)}}}})
	}
	return p
}

func randomSchedule(r *rand.Rand, docLen int, fault bool) Obj {
	var sizes []any
	switch r.Intn(7) {
	case 0:
		sizes = []any{1}
	case 1:
		for i := 0; i < 1+r.Intn(6); i++ {
			sizes = append(sizes, 1+r.Intn(7))
		}
	case 2:
		sizes = []any{1024}
	case 3: // the first read ends just before / inside the buffer end, then single bytes, then large reads
		sizes = []any{1024 - r.Intn(9)}
		for i := 0; i < 12; i++ {
			sizes = append(sizes, 1)
		}
		sizes = append(sizes, 1024, 1024, 1021+r.Intn(4))
	case 4: // zero-length reads in between
		for i := 0; i < 2+r.Intn(5); i++ {
			if r.Intn(3) == 0 {
				sizes = append(sizes, 0)
			} else {
				sizes = append(sizes, 1+r.Intn(300))
			}
		}
		sizes = append(sizes, 1+r.Intn(5))
	case 5:
		sizes = []any{1 + r.Intn(3), 1000 + r.Intn(30)}
	default:
		for i := 0; i < 1+r.Intn(4); i++ {
			sizes = append(sizes, 1+r.Intn(2048))
		}
	}
	s := Obj{"sizes": sizes, "eofWithData": r.Intn(2) == 0, "failAt": -1}
	if fault && docLen > 0 {
		s["failAt"] = r.Intn(docLen)
	}
	return s
}

// driver "scan": documents of 1-5 KB assembled from rendered random policies with random layout
// (CR LF mixes, line and block comments with non-ASCII text, strings with 2-, 3- and 4-byte characters, long
// identifiers), each with reader schedules (one byte at a time, small random sizes, whole buffers, reads ending
// around the buffer end, zero-length reads, EOF together with the last bytes) and fault positions; every fourth
// document is damaged (random byte edits) and only compared across schedules.
func driveScan(seed int64, n int, params map[string]string) []Obj {
	g := newGen(seed, 3)
	nsched := 10
	if v := params["schedules"]; v != "" {
		nsched = atoi(v)
	}
	out := make([]Obj, 0, n)
	for i := 0; i < n; i++ {
		var sb strings.Builder
		if g.r.Intn(3) == 0 { // padding that moves the interesting part towards the buffer end
			sb.WriteString("/*" + strings.Repeat("p", 900+g.r.Intn(200)) + "*/")
		}
		target := 300 + g.r.Intn(4500)
		if i%10 == 0 {
			target = g.r.Intn(40)
		}
		for sb.Len() < target {
			ap := g.scanPolicy()
			if noTextForm(cwf.PolicyToJ(ap)) != "" {
				continue
			}
			p := cedar.NewPolicyFromAST((*pubast.Policy)(ap))
			sb.WriteString(relayout(g.r, string(p.MarshalCedar()), 2+g.r.Intn(6)))
			sb.WriteString(scanSeparators[g.r.Intn(len(scanSeparators))])
		}
		text := sb.String()
		valid := true
		if i%4 == 3 {
			valid = false
			b := []byte(text)
			for k := 0; k < 1+g.r.Intn(3) && len(b) > 0; k++ {
				at := g.r.Intn(len(b))
				switch g.r.Intn(3) {
				case 0:
					b = append(b[:at], b[at+1:]...)
				case 1:
					b[at] = damageBytes[g.r.Intn(len(damageBytes))]
				default:
					b = append(b[:at], append([]byte{insertBytes[g.r.Intn(len(insertBytes))]}, b[at:]...)...)
				}
			}
			if !utf8.Valid(b) {
				b = []byte(strings.ToValidUTF8(string(b), "?"))
			}
			text = string(b)
		}
		scheds := []any{}
		for k := 0; k < nsched; k++ {
			scheds = append(scheds, randomSchedule(g.r, len(text), k%3 == 2))
		}
		out = append(out, Obj{"op": "scan", "doc": cwf.StrToJ(text), "valid": valid, "schedules": scheds})
	}
	return out
}

var damageBytes = []byte("\"\\/*;(){}\n\x00@=&|x9 ")
var insertBytes = []byte("\"/*\n;\\")

func init() { drivers["scan"] = driveScan }
