package main

import (
	"bufio"
	"bytes"
	"encoding/json"
	"flag"
	"fmt"
	"io"
	"math/rand"
	"os"
	"os/exec"
	"strings"
	"time"

	cedar "github.com/cedar-policy/cedar-go"
	pubast "github.com/cedar-policy/cedar-go/ast"
	"github.com/cedar-policy/cedar-go/types"
	"github.com/cedar-policy/cedar-go/x/exp/ast"
	"github.com/cedar-policy/cedar-go/x/exp/schema"

	"verifharness/cwf"
)

// ---------------------------------------------------------------- C10: totality

var stageDeadline = 10 * time.Second

// stage runs f under recover and a deadline: outcome value | error | panic | timeout
func stage(name string, f func() error) Obj {
	type res struct {
		outcome, detail string
	}
	ch := make(chan res, 1)
	go func() {
		defer func() {
			if r := recover(); r != nil {
				ch <- res{"panic", ascii(fmt.Sprint(r))}
			}
		}()
		if err := f(); err != nil {
			ch <- res{"error", ""}
		} else {
			ch <- res{"value", ""}
		}
	}()
	select {
	case r := <-ch:
		o := Obj{"stage": name, "outcome": r.outcome}
		if r.detail != "" {
			if len(r.detail) > 160 {
				r.detail = r.detail[:160]
			}
			o["detail"] = r.detail
		}
		return o
	case <-time.After(stageDeadline):
		return Obj{"stage": name, "outcome": "timeout"}
	}
}

var totalReq = types.Request{Principal: types.NewEntityUID("U", "a"), Action: types.NewEntityUID("Action", "view"),
	Resource: types.NewEntityUID("G", "g"), Context: types.NewRecord(types.RecordMap{"k": types.Long(1)})}

func usePolicy(p *cedar.Policy, st *[]any) {
	*st = append(*st, stage("MarshalCedar", func() error { p.MarshalCedar(); return nil }))
	*st = append(*st, stage("MarshalJSON", func() error { _, err := p.MarshalJSON(); return err }))
	*st = append(*st, stage("AST+Position", func() error { _ = p.AST(); _ = p.Position(); _ = p.Annotations(); return nil }))
	*st = append(*st, stage("Authorize", func() error {
		ps := cedar.NewPolicySet()
		ps.Add("p", p)
		cedar.Authorize(ps, types.EntityMap{}, totalReq)
		return nil
	}))
}

func useSet(ps *cedar.PolicySet, st *[]any) {
	*st = append(*st, stage("set.MarshalCedar", func() error { ps.MarshalCedar(); return nil }))
	*st = append(*st, stage("set.MarshalJSON", func() error { _, err := ps.MarshalJSON(); return err }))
	*st = append(*st, stage("set.Authorize", func() error { cedar.Authorize(ps, types.EntityMap{}, totalReq); return nil }))
	*st = append(*st, stage("set.Encoder", func() error {
		enc := cedar.NewEncoder(io.Discard)
		for _, p := range ps.All() {
			if err := enc.Encode(p); err != nil {
				return err
			}
		}
		return nil
	}))
}

func useValue(v types.Value, st *[]any) {
	*st = append(*st, stage("value.MarshalCedar", func() error { v.MarshalCedar(); _ = v.String(); return nil }))
	*st = append(*st, stage("value.MarshalJSON", func() error { _, err := json.Marshal(v); return err }))
	*st = append(*st, stage("value.Equal", func() error { v.Equal(v); return nil }))
}

var entityProbe = func() *cedar.PolicySet {
	ps, err := cedar.NewPolicySetFromBytes("probe.cedar", []byte(
		`permit(principal, action, resource) when { principal.k == 1 || principal has n || principal.hasTag("t") || principal in resource };
		 permit(principal in G::"g", action, resource is G in G::"top");`))
	if err != nil {
		panic(err)
	}
	return ps
}()

func useEntities(m types.EntityMap, st *[]any) {
	*st = append(*st, stage("entities.MarshalJSON", func() error { _, err := json.Marshal(m); return err }))
	*st = append(*st, stage("entities.Authorize", func() error {
		for uid := range m {
			req := totalReq
			req.Principal, req.Resource = uid, uid
			cedar.Authorize(entityProbe, m, req)
		}
		cedar.Authorize(entityProbe, m, totalReq)
		return nil
	}))
}

// runStages feeds the bytes to every decoder of the kind and every accepted value on to the encoders and the authorizer
func runStages(kind string, b []byte) []any {
	st := []any{}
	switch kind {
	case "policy":
		var p cedar.Policy
		s := stage("Policy.UnmarshalJSON", func() error { return p.UnmarshalJSON(b) })
		st = append(st, s)
		if s["outcome"] == "value" {
			usePolicy(&p, &st)
		}
		var ap pubast.Policy
		s = stage("ast.Policy.UnmarshalJSON", func() error { return ap.UnmarshalJSON(b) })
		st = append(st, s)
		if s["outcome"] == "value" {
			st = append(st, stage("ast.MarshalCedar", func() error { ap.MarshalCedar(); return nil }))
			st = append(st, stage("ast.MarshalJSON", func() error { _, err := ap.MarshalJSON(); return err }))
		}
	case "policyset":
		var ps cedar.PolicySet
		s := stage("PolicySet.UnmarshalJSON", func() error { return ps.UnmarshalJSON(b) })
		st = append(st, s)
		if s["outcome"] == "value" {
			useSet(&ps, &st)
		}
	case "value":
		var v types.Value
		s := stage("types.UnmarshalJSON", func() error { return types.UnmarshalJSON(b, &v) })
		st = append(st, s)
		if s["outcome"] == "value" && v != nil {
			useValue(v, &st)
		}
		st = append(st, stage("typed decoders", func() error {
			var d types.Decimal
			var t types.Datetime
			var u types.Duration
			var i types.IPAddr
			var e types.EntityUID
			var r types.Record
			var s types.Set
			var pt types.Pattern
			_, _, _, _ = d.UnmarshalJSON(b), t.UnmarshalJSON(b), u.UnmarshalJSON(b), i.UnmarshalJSON(b)
			_, _, _, _ = e.UnmarshalJSON(b), r.UnmarshalJSON(b), s.UnmarshalJSON(b), pt.UnmarshalJSON(b)
			return nil
		}))
	case "entity":
		var e types.Entity
		s := stage("Entity.UnmarshalJSON", func() error { return json.Unmarshal(b, &e) })
		st = append(st, s)
		if s["outcome"] == "value" {
			st = append(st, stage("Entity.MarshalJSON", func() error { _, err := json.Marshal(e); return err }))
			useEntities(types.EntityMap{e.UID: e}, &st)
		}
	case "entities":
		var m types.EntityMap
		s := stage("EntityMap.UnmarshalJSON", func() error { return json.Unmarshal(b, &m) })
		st = append(st, s)
		if s["outcome"] == "value" {
			useEntities(m, &st)
		}
	case "request":
		var r types.Request
		s := stage("Request.UnmarshalJSON", func() error { return json.Unmarshal(b, &r) })
		st = append(st, s)
		if s["outcome"] == "value" {
			st = append(st, stage("Request.Authorize", func() error {
				cedar.Authorize(entityProbe, types.EntityMap{}, r)
				_, err := json.Marshal(r)
				return err
			}))
		}
	case "schemajson", "schematext":
		var sc schema.Schema
		s := stage("Schema.Unmarshal", func() error {
			if kind == "schemajson" {
				return sc.UnmarshalJSON(b)
			}
			return sc.UnmarshalCedar(b)
		})
		st = append(st, s)
		if s["outcome"] == "value" {
			st = append(st, stage("Schema.MarshalCedar", func() error { _, err := sc.MarshalCedar(); return err }))
			st = append(st, stage("Schema.MarshalJSON", func() error { _, err := sc.MarshalJSON(); return err }))
			st = append(st, stage("Schema.Resolve", func() error { _, err := sc.Resolve(); return err }))
		}
	case "policytext":
		var p cedar.Policy
		s := stage("Policy.UnmarshalCedar", func() error { return p.UnmarshalCedar(b) })
		st = append(st, s)
		if s["outcome"] == "value" {
			usePolicy(&p, &st)
		}
		var list cedar.PolicyList
		s = stage("PolicyList.UnmarshalCedar", func() error { return list.UnmarshalCedar(b) })
		st = append(st, s)
		if s["outcome"] == "value" {
			st = append(st, stage("PolicyList.MarshalCedar", func() error { list.MarshalCedar(); return nil }))
		}
		var ps *cedar.PolicySet
		s = stage("NewPolicySetFromBytes", func() error { var err error; ps, err = cedar.NewPolicySetFromBytes("f.cedar", b); return err })
		st = append(st, s)
		if s["outcome"] == "value" {
			useSet(ps, &st)
		}
		st = append(st, stage("Decoder", func() error {
			dec := cedar.NewDecoder(bytes.NewReader(b))
			for {
				var q cedar.Policy
				if err := dec.Decode(&q); err != nil {
					if err == io.EOF {
						return nil
					}
					return err
				}
			}
		}))
	case "uidtext":
		var u types.EntityUID
		s := stage("EntityUID.UnmarshalCedar", func() error { return u.UnmarshalCedar(b) })
		st = append(st, s)
		if s["outcome"] == "value" {
			useValue(u, &st)
		}
	default:
		panic(harnessError{fmt.Errorf("total: unknown kind %q", kind)})
	}
	return st
}

func totalObs(kind string, b []byte) J {
	return Obj{"runs": []any{Obj{"name": kind, "stages": runStages(kind, b)}}, "bytes": len(b)}
}

func cmpTotal(c Obj, obs, exp J) []int {
	o, _ := obs.(Obj)
	runs, ok := o["runs"].([]any)
	if !ok {
		return []int{0}
	}
	for _, r := range runs {
		for _, s := range r.(Obj)["stages"].([]any) {
			if oc := s.(Obj)["outcome"]; oc != "value" && oc != "error" {
				return []int{0}
			}
		}
	}
	return nil
}

// op "total": {kind, doc: TJSON} (a TLC-generated mutant of a seed document)
func opTotal(c Obj) J {
	var w bytes.Buffer
	fromTJSON(c["doc"], &w)
	kind, _ := c["kind"].(string)
	return totalObs(kind, w.Bytes())
}

// op "totalbytes": {kind, bytes: [0..255]} (truncations, random byte edits)
func opTotalBytes(c Obj) J {
	kind, _ := c["kind"].(string)
	return totalObs(kind, bytesOf(c["bytes"]))
}

// op "totaltext": {tokens} (the token mutation universe of C07) laid out as text
func opTotalText(c Obj) J {
	toks, _ := c["tokens"].([]any)
	text := layoutTokens(toks, 7)
	return totalObs("policytext", []byte(text))
}

// op "totaldepth": {form, k}: k-fold nesting, run in a child process (a Go stack overflow is fatal and cannot be recovered)
func opTotalDepth(c Obj) J {
	form, _ := c["form"].(string)
	k := must(cwf.AsInt(c["k"]))
	cmd := exec.Command(os.Args[0], "depthchild", form, fmt.Sprint(k))
	var out bytes.Buffer
	cmd.Stdout = &out
	cmd.Stderr = &out
	done := make(chan error, 1)
	if err := cmd.Start(); err != nil {
		panic(harnessError{err})
	}
	go func() { done <- cmd.Wait() }()
	outcome, detail := "value", ""
	select {
	case err := <-done:
		txt := out.String()
		switch {
		case err == nil && strings.Contains(txt, "DEPTH-OK"):
			outcome = "value"
		case strings.Contains(txt, "stack overflow") || strings.Contains(txt, "goroutine stack exceeds"):
			outcome, detail = "crash", "fatal error: stack overflow"
		case strings.Contains(txt, "DEPTH-PANIC"):
			outcome, detail = "panic", ascii(txt[:min(len(txt), 160)])
		default:
			outcome, detail = "crash", ascii(txt[:min(len(txt), 160)])
		}
	case <-time.After(depthDeadline):
		_ = cmd.Process.Kill()
		outcome = "timeout"
	}
	st := Obj{"stage": "nest " + form, "outcome": outcome}
	if detail != "" {
		st["detail"] = detail
	}
	return Obj{"runs": []any{Obj{"name": form, "stages": []any{st}}}, "bytes": k}
}

var depthDeadline = 600 * time.Second

func nestDoc(form string, k int) (string, []byte) {
	rep := strings.Repeat
	switch form {
	case "parens":
		return "policytext", []byte("permit(principal, action, resource) when { " + rep("(", k) + "1" + rep(")", k) + " == 1 };")
	case "not":
		return "policytext", []byte("permit(principal, action, resource) when { " + rep("!", k) + "true };")
	case "neg":
		return "policytext", []byte("permit(principal, action, resource) when { " + rep("-", k) + "1 == 1 };")
	case "if":
		return "policytext", []byte("permit(principal, action, resource) when { " + rep("if true then ", k) + "true" + rep(" else false", k) + " };")
	case "set":
		return "policytext", []byte("permit(principal, action, resource) when { " + rep("[", k) + rep("]", k) + " == 1 };")
	case "record":
		return "policytext", []byte("permit(principal, action, resource) when { " + rep("{a:", k) + "1" + rep("}", k) + " == 1 };")
	case "access":
		return "policytext", []byte("permit(principal, action, resource) when { context" + rep(".a", k) + " == 1 };")
	case "and":
		return "policytext", []byte("permit(principal, action, resource) when { true" + rep(" && true", k) + " };")
	case "jsonarray":
		return "value", []byte(rep("[", k) + rep("]", k))
	case "jsonrecord":
		return "value", []byte(rep(`{"a":`, k) + "1" + rep("}", k))
	case "jsonnot":
		return "policy", []byte(`{"effect":"permit","principal":{"op":"All"},"action":{"op":"All"},"resource":{"op":"All"},"conditions":[{"kind":"when","body":` +
			rep(`{"!":{"arg":`, k) + `{"Value":true}` + rep("}}", k) + `}]}`)
	case "jsonset":
		return "policy", []byte(`{"effect":"permit","principal":{"op":"All"},"action":{"op":"All"},"resource":{"op":"All"},"conditions":[{"kind":"when","body":` +
			rep(`{"Set":[`, k) + rep("]}", k) + `}]}`)
	case "jsonsetx", "jsonnotx", "jsonrecx":
		// an expression object with a known key next to an unknown one, nested: decoders that retry an object as an
		// extension call after an "unknown field" error decode the subtree twice per level
		open, close := `{"Set":[`, `],"x":[]}`
		if form == "jsonnotx" {
			open, close = `{"!":{"arg":`, `},"x":[]}`
		} else if form == "jsonrecx" {
			open, close = `{"Record":{"a":`, `},"x":[]}`
		}
		return "policy", []byte(`{"effect":"permit","principal":{"op":"All"},"action":{"op":"All"},"resource":{"op":"All"},"conditions":[{"kind":"when","body":` +
			rep(open, k) + `{"Value":1}` + rep(close, k) + `}]}`)
	case "schemaset":
		return "schematext", []byte("entity E { a: " + rep("Set<", k) + "Long" + rep(">", k) + " };")
	case "schemarecord":
		return "schematext", []byte("entity E { a: " + rep("{ a: ", k) + "Long" + rep(" }", k) + " };")
	}
	panic(harnessError{fmt.Errorf("unknown nesting form %q", form)})
}

func cmdDepthChild(args []string) {
	stageDeadline = 30 * time.Minute // the parent enforces the deadline of the whole case
	form := args[0]
	var k int
	fmt.Sscan(args[1], &k)
	kind, doc := nestDoc(form, k)
	for _, s := range runStages(kind, doc) {
		if oc := s.(Obj)["outcome"]; oc != "value" && oc != "error" {
			fmt.Printf("DEPTH-PANIC %v\n", s)
			os.Exit(3)
		}
	}
	fmt.Println("DEPTH-OK")
}

// cmdSeeds writes seed documents (kind + TJSON of a real encoding) for TLC to mutate
func cmdSeeds(args []string) {
	fs := flag.NewFlagSet("seeds", flag.ExitOnError)
	seed := fs.Int64("seed", 1, "seed")
	n := fs.Int("n", 40, "number of seeds")
	out := fs.String("out", "", "seeds ndjson")
	_ = fs.Parse(args)
	f, err := os.Create(*out)
	if err != nil {
		fail(2, "%v", err)
	}
	w := bufio.NewWriter(f)
	for _, s := range seedDocs(*seed, *n) {
		w.Write(marshal(Obj{"kind": s.kind, "doc": must(ToTJSON(s.doc))}))
		w.WriteByte('\n')
	}
	w.Flush()
	f.Close()
}

type seedDoc struct {
	kind string
	doc  []byte
}

// seedDocs: real encodings of generated data (JSON kinds) -- small, so that every position can be mutated
func seedDocs(seed int64, n int) []seedDoc {
	g := newGen(seed, 2)
	g.avoidKnown = true
	var out []seedDoc
	pol := func(depth int) *cedar.Policy {
		for {
			p := g.policy(depth)
			if noTextForm(cwf.PolicyToJ(p)) != "" {
				continue
			}
			if len(p.Conditions) == 0 {
				p.Conditions = append(p.Conditions, ast.ConditionType{Condition: ast.ConditionWhen, Body: g.expr(kBool, 2)})
			}
			return cedar.NewPolicyFromAST((*pubast.Policy)(p))
		}
	}
	for i := 0; len(out) < n; i++ {
		switch i % 6 {
		case 0, 1:
			if b, err := pol(2).MarshalJSON(); err == nil {
				out = append(out, seedDoc{"policy", b})
			}
		case 2:
			ps := cedar.NewPolicySet()
			ps.Add("p0", pol(1))
			ps.Add("other id", pol(1))
			if b, err := ps.MarshalJSON(); err == nil {
				out = append(out, seedDoc{"policyset", b})
			}
		case 3:
			b, _ := json.Marshal(g.jsonValue(2))
			out = append(out, seedDoc{"value", b})
		case 4:
			st := g.store()
			for _, e := range st {
				b, _ := json.Marshal(e)
				out = append(out, seedDoc{"entity", b})
				break
			}
		default:
			if i%12 == 5 {
				var sc schema.Schema
				if err := sc.UnmarshalCedar([]byte(smallSchema)); err != nil {
					panic(harnessError{err})
				}
				b, _ := sc.MarshalJSON()
				out = append(out, seedDoc{"schemajson", b})
			} else {
				m := types.EntityMap{}
				k := 0
				for uid, e := range g.store() {
					m[uid] = e
					if k++; k >= 2 {
						break
					}
				}
				b, _ := json.Marshal(m)
				out = append(out, seedDoc{"entities", b})
			}
		}
	}
	return out
}

const smallSchema = `@doc("n") namespace N { type T = { a: Long, "b c"?: Set<String> }; entity En enum ["v", "w"];
  @id("e") entity E in [F] { name: String, t: T, d?: decimal } tags String; entity F;
  action g; action "a b", r in [g] appliesTo { principal: [E], resource: [F, En], context: { k: Long, o?: T } }; }
entity Top; action top appliesTo { principal: Top, resource: Top };`

// comments of every form, cut at every byte: the lexers' comment and string states
const commentedSchema = `/** doc **/ // line comment
namespace N { /* a
   * decorated
   **/ entity A /* x */ in [B] { "k\u{1F600}\n": Set<Long> /***/ }; // tail
  entity B; /*/ */ action a appliesTo { principal: A, resource: B }; } /* trailing **/`

const commentedPolicy = `// head
@id("a\"\u{1F600}\n") // after annotation
permit(principal == U::"a\\", action in [Action::"view"], resource is G in G::"g") // scope
when { principal.k == 1 && "a*b" like "a\*b*" || context has "s t" }
unless { ip("10.0.0.1").isIpv4() && -9223372036854775808 < 1 }; // end`

// driver "totalbytes": every truncation and random byte edits of valid documents of every kind (text and JSON)
func driveTotalBytes(seed int64, n int, params map[string]string) []Obj {
	r := rand.New(rand.NewSource(seed))
	g := newGen(seed+1, 3)
	g.avoidKnown = true
	var docs []seedDoc
	for _, s := range seedDocs(seed, 18) {
		docs = append(docs, s)
	}
	for i := 0; i < 6; i++ {
		p := g.scanPolicy()
		if noTextForm(cwf.PolicyToJ(p)) != "" {
			continue
		}
		docs = append(docs, seedDoc{"policytext", cedar.NewPolicyFromAST((*pubast.Policy)(p)).MarshalCedar()})
	}
	docs = append(docs, seedDoc{"schematext", []byte(smallSchema)}, seedDoc{"schematext", []byte(commentedSchema)},
		seedDoc{"policytext", []byte(commentedPolicy)}, seedDoc{"uidtext", []byte(`NS::T::"a\"b\u{1F600}\n"`)},
		seedDoc{"request", []byte(`{"principal":{"type":"U","id":"a"},"action":{"__entity":{"type":"Action","id":"view"}},"resource":{"type":"G","id":"g"},"context":{"k":1,"s":[1,"a"]}}`)})
	out := []Obj{}
	add := func(kind string, b []byte) {
		arr := make([]any, len(b))
		for i, c := range b {
			arr[i] = int(c)
		}
		out = append(out, Obj{"op": "totalbytes", "kind": kind, "bytes": arr})
	}
	step := 1
	if params["step"] != "" {
		step = atoi(params["step"])
	}
	for _, d := range docs {
		step := step
		if strings.HasSuffix(d.kind, "text") { // texts are short: every cut, so that no lexer state is skipped
			step = 1
		}
		for cut := 0; cut <= len(d.doc); cut += step {
			add(d.kind, d.doc[:cut])
		}
	}
	junk := []byte("\"\\{}[]:,/*;()\x00\xff\xc3 0truenull-.eE@=&|")
	for len(out) < n {
		d := docs[r.Intn(len(docs))]
		b := append([]byte(nil), d.doc...)
		for k := 1 + r.Intn(3); k > 0 && len(b) > 0; k-- {
			at := r.Intn(len(b))
			switch r.Intn(4) {
			case 0:
				b = append(b[:at], b[at+1:]...)
			case 1:
				b[at] = junk[r.Intn(len(junk))]
			case 2:
				b = append(b[:at], append([]byte{junk[r.Intn(len(junk))]}, b[at:]...)...)
			default: // duplicate a slice
				to := at + r.Intn(min(40, len(b)-at)+1)
				b = append(b[:to], append(append([]byte(nil), b[at:to]...), b[to:]...)...)
			}
		}
		add(d.kind, b)
	}
	return out
}

func init() {
	register("total", opTotal, cmpTotal)
	register("totalbytes", opTotalBytes, cmpTotal)
	register("totaltext", opTotalText, cmpTotal)
	register("totaldepth", opTotalDepth, cmpTotal)
	drivers["totalbytes"] = driveTotalBytes
	extraCmds["seeds"] = cmdSeeds
	extraCmds["depthchild"] = cmdDepthChild
}
