package main

import (
	"fmt"
	"math"
	"math/rand"
	"net/netip"
	"strings"

	"github.com/cedar-policy/cedar-go/types"
	"github.com/cedar-policy/cedar-go/x/exp/ast"

	"verifharness/cwf"
)

// Seeded random generation of expressions, stores and requests for the
// trace-recording drivers (M3).  Generation is "mostly well typed": a node of a
// wanted kind is built from operands of the right kinds, and with a small
// probability an operand of another kind is used so that failure paths are
// exercised too.  The generator only chooses inputs; what the real code does
// with them is recorded and judged by the specification.

type kind int

const (
	kBool kind = iota
	kLong
	kStr
	kEnt
	kSet
	kRec
	kDec
	kDt
	kDur
	kIP
	nKinds
)

var longB = []int64{math.MinInt64, math.MinInt64 + 1, -(1 << 62), -3037000500, -3037000499, -(1 << 32), -(1 << 31),
	-86400001, -86400000, -86399999, -10, -2, -1, 0, 1, 2, 3, 10, 86399999, 86400000, 86400001, 1 << 31, 1 << 32,
	3037000499, 3037000500, 153092023, 60247241209, 60247241210, 1 << 62, math.MaxInt64 - 1, math.MaxInt64}

var strB = []string{"", "a", "b", "ab", "ba", "a*", "*", "a*b", "\"", "\\", "\x00", "\t", "\r\n", "\u007f", "\u0080",
	"é", "́e", "​", "", "�", "\U0001F600", "\U0010FFFF", "hello", "1.0", "127.0.0.1"}

var decLits = []string{"0.0", "1.0", "-1.0", "0.0001", "-0.0001", "1.5", "12.3456", "922337203685477.5807",
	"-922337203685477.5808", "922337203685477.5808", "1", "1.", ".5", "1.00000", "x", "00.10", "-0.0"}
var dtLits = []string{"1970-01-01", "1969-12-31", "2024-02-29", "2023-02-29", "0000-01-01", "9999-12-31",
	"1970-01-01T00:00:00Z", "1969-12-31T23:59:59.999Z", "2024-03-10T01:02:03.004+0530", "2024-03-10T01:02:03-2359",
	"2024-13-01", "2024-01-32", "2024-01-01T24:00:00Z", "+000010000-01-01", "-000000001-12-31T23:59:59Z",
	"+292278994-08-17T07:12:55.807Z", "+292278994-08-17T07:12:55.808Z", "-292275055-05-16T16:47:04.192Z",
	"-292275055-05-16T16:47:04.191Z", "+999999999-12-31", "2024-01-01T00:00:00", "2024-1-01", "x"}
var durLits = []string{"0ms", "1ms", "-1ms", "1d", "1h", "1m", "1s", "1d2h3m4s5ms", "-1d2h3m4s5ms", "1h1d", "1dd", "1",
	"d", "", "-", "9223372036854775807ms", "9223372036854775808ms", "-9223372036854775808ms", "106751991167d",
	"106751991168d", "1d 2h", "1ms1ms", "24h", "60m", "1000ms"}
var ipLits = []string{"127.0.0.1", "127.0.0.1/8", "127.0.0.0/7", "10.0.0.0/8", "10.1.2.3", "10.1.2.3/32", "224.0.0.1",
	"224.0.0.0/4", "224.0.0.0/3", "0.0.0.0/0", "::1", "::1/127", "::/0", "ff00::/8", "ff00::/7", "ff02::1",
	"2001:db8::/32", "2001:db8::1", "::ffff:0:1", "1.2.3", "1.2.3.4.5", "256.1.1.1", "01.2.3.4", "1.2.3.4/33",
	"::1/129", "::ffff:1.2.3.4", "1::2::3", "x", "1.2.3.4/08"}

var entTypes = []string{"U", "G", "Action", "NS::T"}
var entIDs = []string{"a", "b", "c", "g", "h", "view", "edit", "all"}
var attrNames = []string{"n", "s", "e", "ss", "r", "opt", "b", "d", "t", "ip", "dur"}
var tagNames = []string{"t1", "t2", ""}

type gen struct {
	// avoidKnown: do not draw the values behind the recorded known findings (instants of the first
	// representable day, IPv4-mapped IPv6 addresses); they are checked where they can be matched precisely
	avoidKnown bool
	r          *rand.Rand
	uids       []types.EntityUID
	maxDep     int
}

func newGen(seed int64, maxDepth int) *gen {
	g := &gen{r: rand.New(rand.NewSource(seed)), maxDep: maxDepth, avoidKnown: true}
	for _, t := range entTypes {
		for _, id := range entIDs {
			g.uids = append(g.uids, types.NewEntityUID(types.EntityType(t), types.String(id)))
		}
	}
	return g
}

func pick[T any](g *gen, xs []T) T { return xs[g.r.Intn(len(xs))] }

func (g *gen) long() types.Long {
	if g.r.Intn(3) == 0 {
		return types.Long(g.r.Intn(7) - 3)
	}
	return types.Long(pick(g, longB))
}

func (g *gen) uid() types.EntityUID {
	if g.r.Intn(4) != 0 { // concentrate on a few so that relations hold
		return g.uids[g.r.Intn(10)]
	}
	return pick(g, g.uids)
}

func (g *gen) value(k kind, depth int) types.Value {
	switch k {
	case kBool:
		return types.Boolean(g.r.Intn(2) == 0)
	case kLong:
		return g.long()
	case kStr:
		return types.String(pick(g, strB))
	case kEnt:
		return g.uid()
	case kSet:
		n := g.r.Intn(4)
		ek := kind(g.r.Intn(int(nKinds)))
		if depth <= 0 && (ek == kSet || ek == kRec) {
			ek = kLong
		}
		vals := make([]types.Value, n)
		for i := range vals {
			if g.r.Intn(8) == 0 {
				vals[i] = g.value(g.scalarKind(), depth-1)
			} else {
				vals[i] = g.value(ek, depth-1)
			}
		}
		return types.NewSet(vals...)
	case kRec:
		n := g.r.Intn(4)
		m := types.RecordMap{}
		for i := 0; i < n; i++ {
			kk := kind(g.r.Intn(int(nKinds)))
			if depth <= 0 && (kk == kSet || kk == kRec) {
				kk = kStr
			}
			m[types.String(pick(g, attrNames))] = g.value(kk, depth-1)
		}
		return types.NewRecord(m)
	case kDec:
		return cwf.DecimalFromRaw(int64(g.long()))
	case kDt:
		for {
			ms := int64(g.long())
			if !g.avoidKnown || ms >= math.MinInt64+2*86400000 {
				return types.NewDatetimeFromMillis(ms)
			}
		}
	case kDur:
		return types.NewDurationFromMillis(int64(g.long()))
	case kIP:
		for {
			if ip, err := types.ParseIPAddr(pick(g, ipLits)); err == nil {
				if netip.Prefix(ip).Addr().Zone() == "" && !(g.avoidKnown && netip.Prefix(ip).Addr().Is4In6()) {
					return ip
				}
			}
		}
	}
	panic("kind")
}

func (g *gen) scalarKind() kind {
	ks := []kind{kBool, kLong, kStr, kEnt, kDec, kDt, kDur, kIP}
	return pick(g, ks)
}

// attribute kinds by name: entities and the context carry attributes whose
// kind usually (not always) follows this table, so that `.n + 1` mostly works.
var attrKind = map[string]kind{"n": kLong, "s": kStr, "e": kEnt, "ss": kSet, "r": kRec, "opt": kLong, "b": kBool,
	"d": kDec, "t": kDt, "ip": kIP, "dur": kDur}

func (g *gen) attrs() types.Record {
	m := types.RecordMap{}
	for _, a := range attrNames {
		if g.r.Intn(3) == 0 {
			continue
		}
		k := attrKind[a]
		if g.r.Intn(10) == 0 {
			k = kind(g.r.Intn(int(nKinds)))
		}
		m[types.String(a)] = g.value(k, 1)
	}
	return types.NewRecord(m)
}

func (g *gen) store() types.EntityMap {
	m := types.EntityMap{}
	n := 2 + g.r.Intn(7)
	for i := 0; i < n; i++ {
		u := g.uid()
		var ps []types.EntityUID
		for j := g.r.Intn(4); j > 0; j-- {
			ps = append(ps, g.uid())
		}
		tags := types.RecordMap{}
		for _, t := range tagNames {
			if g.r.Intn(2) == 0 {
				tags[types.String(t)] = g.value(pick(g, []kind{kLong, kStr, kBool}), 0)
			}
		}
		m[u] = types.Entity{UID: u, Parents: types.NewEntityUIDSet(ps...), Attributes: g.attrs(), Tags: types.NewRecord(tags)}
	}
	return m
}

func (g *gen) env() cwf.Env {
	return cwf.Env{P: g.uid(), A: g.uid(), R: g.uid(), C: g.attrs(), Store: g.store()}
}

func val(v types.Value) ast.IsNode       { return ast.NodeValue{Value: v} }
func bin(l, r ast.IsNode) ast.BinaryNode { return ast.BinaryNode{Left: l, Right: r} }
func strNode(s string) ast.IsNode        { return val(types.String(s)) }
func ext(name string, args ...ast.IsNode) ast.IsNode {
	return ast.NodeTypeExtensionCall{Name: types.Path(name), Args: args}
}

var vars = []string{"principal", "action", "resource"}

// expr builds an expression that usually evaluates to a value of kind k.
func (g *gen) expr(k kind, depth int) ast.IsNode {
	if g.r.Intn(12) == 0 { // type confusion
		k = kind(g.r.Intn(int(nKinds)))
	}
	if depth <= 0 {
		return g.leaf(k)
	}
	d := depth - 1
	sub := func(kk kind) ast.IsNode { return g.expr(kk, d) }
	anyK := func() kind { return kind(g.r.Intn(int(nKinds))) }
	if g.r.Intn(10) == 0 {
		return ast.NodeTypeIfThenElse{If: sub(kBool), Then: sub(k), Else: sub(k)}
	}
	if g.r.Intn(12) == 0 { // attribute of an entity / record / context
		a := pick(g, attrNames)
		for _, name := range attrNames { // (not the map: generation must be a function of the seed)
			if kk := attrKind[name]; kk == k && g.r.Intn(2) == 0 {
				a = name
			}
		}
		base := sub(pick(g, []kind{kEnt, kRec}))
		if g.r.Intn(3) == 0 {
			base = ast.NodeTypeVariable{Name: "context"}
		}
		return ast.NodeTypeAccess{StrOpNode: ast.StrOpNode{Arg: base, Value: types.String(a)}}
	}
	switch k {
	case kBool:
		switch g.r.Intn(22) {
		case 0:
			return ast.NodeTypeAnd{BinaryNode: bin(sub(kBool), sub(kBool))}
		case 1:
			return ast.NodeTypeOr{BinaryNode: bin(sub(kBool), sub(kBool))}
		case 2:
			return ast.NodeTypeNot{UnaryNode: ast.UnaryNode{Arg: sub(kBool)}}
		case 3:
			if g.r.Intn(4) == 0 {
				return g.permutedSets()
			}
			kk := anyK()
			return ast.NodeTypeEquals{BinaryNode: bin(sub(kk), sub(kk))}
		case 4:
			kk := anyK()
			return ast.NodeTypeNotEquals{BinaryNode: bin(sub(kk), sub(kk))}
		case 5, 6, 7, 8:
			kk := pick(g, []kind{kLong, kLong, kDt, kDur})
			b := bin(sub(kk), sub(kk))
			switch g.r.Intn(4) {
			case 0:
				return ast.NodeTypeLessThan{BinaryNode: b}
			case 1:
				return ast.NodeTypeLessThanOrEqual{BinaryNode: b}
			case 2:
				return ast.NodeTypeGreaterThan{BinaryNode: b}
			}
			return ast.NodeTypeGreaterThanOrEqual{BinaryNode: b}
		case 9:
			return ast.NodeTypeIn{BinaryNode: bin(sub(kEnt), sub(pick(g, []kind{kEnt, kSet})))}
		case 10:
			return ast.NodeTypeIs{Left: sub(kEnt), EntityType: types.EntityType(pick(g, entTypes))}
		case 11:
			return ast.NodeTypeIsIn{NodeTypeIs: ast.NodeTypeIs{Left: sub(kEnt), EntityType: types.EntityType(pick(g, entTypes))},
				Entity: sub(pick(g, []kind{kEnt, kSet}))}
		case 12:
			return ast.NodeTypeHas{StrOpNode: ast.StrOpNode{Arg: sub(pick(g, []kind{kEnt, kRec})), Value: types.String(pick(g, attrNames))}}
		case 13:
			return ast.NodeTypeHasTag{BinaryNode: bin(sub(kEnt), sub(kStr))}
		case 14:
			return ast.NodeTypeLike{Arg: sub(kStr), Value: g.pattern()}
		case 15:
			kk := anyK()
			return ast.NodeTypeContains{BinaryNode: bin(g.setOf(kk, d), sub(kk))}
		case 16:
			kk := anyK()
			return ast.NodeTypeContainsAll{BinaryNode: bin(g.setOf(kk, d), g.setOf(kk, d))}
		case 17:
			kk := anyK()
			return ast.NodeTypeContainsAny{BinaryNode: bin(g.setOf(kk, d), g.setOf(kk, d))}
		case 18:
			return ast.NodeTypeIsEmpty{UnaryNode: ast.UnaryNode{Arg: sub(kSet)}}
		case 19:
			return ext(pick(g, []string{"lessThan", "lessThanOrEqual", "greaterThan", "greaterThanOrEqual"}), sub(kDec), sub(kDec))
		case 20:
			return ext(pick(g, []string{"isIpv4", "isIpv6", "isLoopback", "isMulticast"}), sub(kIP))
		default:
			return ext("isInRange", sub(kIP), sub(kIP))
		}
	case kLong:
		switch g.r.Intn(8) {
		case 0, 1:
			return ast.NodeTypeAdd{BinaryNode: bin(sub(kLong), sub(kLong))}
		case 2:
			return ast.NodeTypeSub{BinaryNode: bin(sub(kLong), sub(kLong))}
		case 3:
			return ast.NodeTypeMult{BinaryNode: bin(sub(kLong), sub(kLong))}
		case 4:
			return ast.NodeTypeNegate{UnaryNode: ast.UnaryNode{Arg: sub(kLong)}}
		case 5:
			return ext(pick(g, []string{"toDays", "toHours", "toMinutes", "toSeconds", "toMilliseconds"}), sub(kDur))
		case 6:
			return ast.NodeTypeGetTag{BinaryNode: bin(sub(kEnt), strNode(pick(g, tagNames)))}
		}
	case kStr:
		if g.r.Intn(3) == 0 {
			return ast.NodeTypeGetTag{BinaryNode: bin(sub(kEnt), sub(kStr))}
		}
	case kSet:
		return g.setOf(anyK(), d)
	case kRec:
		n := g.r.Intn(3)
		var els []ast.RecordElementNode
		used := map[string]bool{}
		for i := 0; i < n; i++ {
			a := pick(g, attrNames)
			if used[a] {
				continue
			}
			used[a] = true
			els = append(els, ast.RecordElementNode{Key: types.String(a), Value: sub(attrKind[a])})
		}
		return ast.NodeTypeRecord{Elements: els}
	case kDec:
		return ext("decimal", g.litArg(decLits, d))
	case kDt:
		switch g.r.Intn(4) {
		case 0:
			return ext("offset", sub(kDt), sub(kDur))
		case 1:
			return ext("toDate", sub(kDt))
		}
		return ext("datetime", g.litArg(dtLits, d))
	case kDur:
		switch g.r.Intn(4) {
		case 0:
			return ext("durationSince", sub(kDt), sub(kDt))
		case 1:
			return ext("toTime", sub(kDt))
		}
		return ext("duration", g.litArg(durLits, d))
	case kIP:
		return ext("ip", g.litArg(ipLits, d))
	}
	return g.leaf(k)
}

// permutedSets relates two sets (values or literals) built from the same pool of values
// that collide in the implementation's hash (n, true/false, decimal / duration / datetime
// with payload n), inserted in different orders and with duplicates.
func (g *gen) permutedSets() ast.IsNode {
	n := int64(g.r.Intn(3))
	pool := []types.Value{types.Long(n), types.Boolean(n == 1), cwf.DecimalFromRaw(n), types.NewDurationFromMillis(n),
		types.NewDatetimeFromMillis(n), types.Long(n + 1), types.String("a")}
	m := 2 + g.r.Intn(4)
	a := make([]types.Value, m)
	for i := range a {
		a[i] = pick(g, pool)
	}
	b := append([]types.Value(nil), a...)
	g.r.Shuffle(len(b), func(i, j int) { b[i], b[j] = b[j], b[i] })
	if g.r.Intn(3) == 0 {
		b = append(b, pick(g, pool))
	}
	mk := func(vs []types.Value) ast.IsNode {
		switch g.r.Intn(3) {
		case 0:
			return val(types.NewSet(vs...))
		case 1:
			els := make([]ast.IsNode, len(vs))
			for i, v := range vs {
				els[i] = val(v)
			}
			return ast.NodeTypeSet{Elements: els}
		}
		return val(types.NewRecord(types.RecordMap{"s": types.NewSet(vs...)}))
	}
	l, r := mk(a), mk(b)
	switch g.r.Intn(5) {
	case 0:
		return ast.NodeTypeNotEquals{BinaryNode: bin(l, r)}
	case 1:
		return ast.NodeTypeContainsAll{BinaryNode: bin(l, r)}
	case 2:
		return ast.NodeTypeContains{BinaryNode: bin(ast.NodeTypeSet{Elements: []ast.IsNode{l}}, r)}
	}
	return ast.NodeTypeEquals{BinaryNode: bin(l, r)}
}

func (g *gen) litArg(lits []string, depth int) ast.IsNode {
	if g.r.Intn(15) == 0 {
		return g.expr(kStr, depth)
	}
	for {
		l := pick(g, lits)
		if !g.avoidKnown || !strings.HasPrefix(l, "-292275055-05-1") {
			return strNode(l)
		}
	}
}

func (g *gen) setOf(k kind, depth int) ast.IsNode {
	if g.r.Intn(3) == 0 {
		return g.expr(kSet, 0)
	}
	n := g.r.Intn(4)
	els := make([]ast.IsNode, n)
	for i := range els {
		els[i] = g.expr(k, depth)
	}
	return ast.NodeTypeSet{Elements: els}
}

func (g *gen) pattern() types.Pattern {
	var comps []any
	for n := g.r.Intn(4); n > 0; n-- {
		if g.r.Intn(2) == 0 {
			comps = append(comps, types.Wildcard{})
		} else {
			comps = append(comps, pick(g, strB))
		}
	}
	if len(comps) > 0 {
		if s, ok := comps[0].(string); ok && s == "" { // NewPattern("", Wildcard) quirk is C09's subject
			comps[0] = "a"
		}
	}
	return types.NewPattern(comps...)
}

func (g *gen) leaf(k kind) ast.IsNode {
	switch g.r.Intn(6) {
	case 0:
		if k == kEnt {
			return ast.NodeTypeVariable{Name: types.String(pick(g, vars))}
		}
		if k == kRec {
			return ast.NodeTypeVariable{Name: "context"}
		}
	case 1:
		// wrong arity / unknown function, rarely
		if g.r.Intn(20) == 0 {
			names := []string{"decimal", "ip", "isIpv4", "lessThan", "offset", "toDate", "nosuch", "toDays"}
			n := g.r.Intn(4)
			args := make([]ast.IsNode, n)
			for i := range args {
				args[i] = val(g.value(g.scalarKind(), 0))
			}
			return ext(pick(g, names), args...)
		}
	}
	return val(g.value(k, 1))
}

// driver "eval": random expression trees over random environments
func driveEval(seed int64, n int, params map[string]string) []Obj {
	depth := 5
	if params["depth"] != "" {
		depth = atoi(params["depth"])
	}
	g := newGen(seed, depth)
	out := make([]Obj, 0, n)
	per := 8
	for i := 0; i < n; i += per {
		env := g.env()
		exprs := []any{}
		for j := 0; j < per && i+j < n; j++ {
			k := kind(g.r.Intn(int(nKinds)))
			if g.r.Intn(2) == 0 {
				k = kBool
			}
			exprs = append(exprs, cwf.NodeToJ(g.expr(k, 1+g.r.Intn(depth))))
		}
		out = append(out, Obj{"op": "eval", "exprs": exprs, "env": cwf.EnvToJ(env)})
	}
	return out
}

func atoi(s string) int {
	n := 0
	for _, c := range s {
		n = n*10 + int(c-'0')
	}
	return n
}

func init() {
	drivers["eval"] = driveEval
}

// ---------------------------------------------------------------- policies

func (g *gen) scopeUID() types.EntityUID { return g.uid() }

func (g *gen) policy(condDepth int) *ast.Policy {
	p := &ast.Policy{Effect: ast.EffectPermit, Principal: ast.ScopeTypeAll{}, Action: ast.ScopeTypeAll{}, Resource: ast.ScopeTypeAll{}}
	if g.r.Intn(3) == 0 {
		p.Effect = ast.EffectForbid
	}
	ty := func() types.EntityType { return types.EntityType(pick(g, entTypes)) }
	switch g.r.Intn(8) {
	case 0:
		p.Principal = ast.ScopeTypeEq{Entity: g.uid()}
	case 1:
		p.Principal = ast.ScopeTypeIn{Entity: g.uid()}
	case 2:
		p.Principal = ast.ScopeTypeIs{Type: ty()}
	case 3:
		p.Principal = ast.ScopeTypeIsIn{Type: ty(), Entity: g.uid()}
	}
	switch g.r.Intn(8) {
	case 0:
		p.Action = ast.ScopeTypeEq{Entity: g.uid()}
	case 1:
		p.Action = ast.ScopeTypeIn{Entity: g.uid()}
	case 2:
		var es []types.EntityUID
		for n := g.r.Intn(4); n > 0; n-- {
			es = append(es, g.uid())
		}
		p.Action = ast.ScopeTypeInSet{Entities: es}
	}
	switch g.r.Intn(8) {
	case 0:
		p.Resource = ast.ScopeTypeEq{Entity: g.uid()}
	case 1:
		p.Resource = ast.ScopeTypeIn{Entity: g.uid()}
	case 2:
		p.Resource = ast.ScopeTypeIs{Type: ty()}
	case 3:
		p.Resource = ast.ScopeTypeIsIn{Type: ty(), Entity: g.uid()}
	}
	for n := g.r.Intn(3); n > 0; n-- {
		kind := ast.Condition(ast.ConditionWhen)
		if g.r.Intn(3) == 0 {
			kind = ast.ConditionUnless
		}
		p.Conditions = append(p.Conditions, ast.ConditionType{Condition: kind, Body: g.expr(kBool, g.r.Intn(condDepth+1))})
	}
	return p
}

// driver "authz": random policy sets (1-12 policies) over random environments
func driveAuthz(seed int64, n int, params map[string]string) []Obj {
	g := newGen(seed, 3)
	out := make([]Obj, 0, n)
	for i := 0; i < n; i++ {
		np := 1 + g.r.Intn(12)
		if g.r.Intn(20) == 0 {
			np = 0
		}
		pols := []any{}
		order := []any{}
		for k := 0; k < np; k++ {
			id := fmt.Sprintf("p%d", k)
			pols = append(pols, Obj{"id": id, "policy": cwf.PolicyToJ(g.policy(3))})
			order = append(order, id)
		}
		g.r.Shuffle(len(order), func(a, b int) { order[a], order[b] = order[b], order[a] })
		out = append(out, Obj{"op": "authz", "policies": pols, "order": order, "env": cwf.EnvToJ(g.env()),
			"text": i%2 == 0, "layout": g.r.Intn(1000)})
	}
	return out
}

func init() {
	drivers["authz"] = driveAuthz
}
