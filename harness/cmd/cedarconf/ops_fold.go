package main

import (
	"bytes"
	"encoding/json"
	"fmt"

	cedar "github.com/cedar-policy/cedar-go"
	pubast "github.com/cedar-policy/cedar-go/ast"
	"github.com/cedar-policy/cedar-go/types"
	"github.com/cedar-policy/cedar-go/x/exp/ast"
	"github.com/cedar-policy/cedar-go/x/exp/eval"

	"verifharness/cwf"
)

// envTable is announced by a case {op: "envtable", envs: [...]}; later cases refer
// to environments by position in it.  Cases may also carry their own "envs".
var envTable []cwf.Env
var envTableJ []any

func loadEnvTable(c Obj) {
	arr, _ := c["envs"].([]any)
	envTable = nil
	envTableJ = arr
	for _, e := range arr {
		envTable = append(envTable, must(cwf.JToEnv(e)))
	}
}

// tables announced inside a cases file are loaded before any case is executed
var preloadHooks = []func(line []byte){
	func(l []byte) {
		if bytes.Contains(l, []byte(`"op":"envtable"`)) {
			loadEnvTable(cwf.MustParse(l).(Obj))
		}
	},
}

func preloadTables(lines [][]byte) {
	for _, l := range lines {
		for _, h := range preloadHooks {
			h(l)
		}
	}
}

func preloadFile(path string) {
	var lines [][]byte
	if err := readLines(path, func(l []byte) error { lines = append(lines, l); return nil }); err != nil {
		fail(2, "read %s: %v", path, err)
	}
	preloadTables(lines)
}

func caseEnvs(c Obj) []cwf.Env {
	if arr, ok := c["envs"].([]any); ok {
		out := make([]cwf.Env, len(arr))
		for i, e := range arr {
			out[i] = must(cwf.JToEnv(e))
		}
		return out
	}
	if envTable == nil {
		panic(harnessError{fmt.Errorf("no environment table loaded")})
	}
	return envTable
}

func outcomeOfEval(v types.Value, err error) string {
	if err != nil {
		return "err"
	}
	b, ok := v.(types.Boolean)
	if !ok {
		return "err"
	}
	if b {
		return "sat"
	}
	return "unsat"
}

// outcome of one compiled policy under env, observed through cedar.Authorize
func outcomeOfAuthz(p *cedar.Policy, env cwf.Env) string {
	req, ok := env.Request()
	if !ok {
		return "n/a"
	}
	ps := cedar.NewPolicySet()
	ps.Add("p", p)
	_, diag := cedar.Authorize(ps, env.Store, req)
	switch {
	case len(diag.Errors) == 1 && len(diag.Reasons) == 0:
		return "err"
	case len(diag.Errors) == 0 && len(diag.Reasons) == 1:
		return "sat"
	case len(diag.Errors) == 0 && len(diag.Reasons) == 0:
		return "unsat"
	}
	return "inconsistent"
}

type snapshot struct {
	astJ, text, js string
}

func guard(f func() string) (s string) {
	defer func() {
		if r := recover(); r != nil {
			s = "panic"
		}
	}()
	return f()
}

func snapAST(p *ast.Policy) snapshot {
	return snapshot{
		astJ: cwf.Canon(cwf.PolicyToJ(p)) + fmt.Sprintf("|pos=%v", p.Position),
		text: guard(func() string { return string((*pubast.Policy)(p).MarshalCedar()) }),
		js: guard(func() string {
			b, err := (*pubast.Policy)(p).MarshalJSON()
			if err != nil {
				return "error"
			}
			return string(b)
		}),
	}
}

// op "fold": {policy} (+ envs or the env table) ->
//
//	folded: outcome per env of the compiled policy (cedar.NewPolicyFromAST folds) through cedar.Authorize
//	direct: outcome per env of x/exp/eval.Eval(PolicyToNode(original AST)) -- never folded
//	snap:   "same" iff the caller's AST, the compiled policy's AST(), MarshalCedar and MarshalJSON are
//	        what they were before compilation, also after all authorizations
func opFold(c Obj) J {
	orig := must(cwf.JToPolicy(c["policy"]))
	keep := must(cwf.JToPolicy(c["policy"])) // an untouched twin for the direct evaluation
	before := snapAST(orig)
	cp := cedar.NewPolicyFromAST((*pubast.Policy)(orig))
	afterCompile := snapAST(orig)
	envs := caseEnvs(c)
	folded, direct := make([]any, len(envs)), make([]any, len(envs))
	node := eval.PolicyToNode(keep).AsIsNode()
	for i, env := range envs {
		folded[i] = outcomeOfAuthz(cp, env)
		v, err := eval.Eval(node, eval.Env{Entities: env.Store, Principal: env.P, Action: env.A, Resource: env.R, Context: env.C})
		direct[i] = outcomeOfEval(v, err)
	}
	snap := "same"
	viaPolicy := snapshot{
		astJ: cwf.Canon(cwf.PolicyToJ((*ast.Policy)(cp.AST()))) + fmt.Sprintf("|pos=%v", cp.AST().Position),
		text: guard(func() string { return string(cp.MarshalCedar()) }),
		js: guard(func() string {
			b, err := cp.MarshalJSON()
			if err != nil {
				return "error"
			}
			return string(b)
		}),
	}
	switch {
	case afterCompile != before:
		snap = "caller's AST changed by compilation"
	case snapAST(orig) != before:
		snap = "caller's AST changed by authorization"
	case viaPolicy.astJ != before.astJ:
		snap = "Policy.AST() differs from the original"
	case viaPolicy.text != before.text:
		snap = "Policy.MarshalCedar differs: " + viaPolicy.text
	case !jsonEqual(viaPolicy.js, before.js):
		snap = "Policy.MarshalJSON differs: " + viaPolicy.js
	}
	return Obj{"folded": folded, "direct": direct, "snap": snap}
}

func jsonEqual(a, b string) bool {
	if a == b {
		return true
	}
	var x, y any
	if json.Unmarshal([]byte(a), &x) != nil || json.Unmarshal([]byte(b), &y) != nil {
		return false
	}
	ab, _ := json.Marshal(x)
	bb, _ := json.Marshal(y)
	return bytes.Equal(ab, bb)
}

func cmpFold(c Obj, obs, exp J) []int {
	o, ok := obs.(Obj)
	if !ok || o["snap"] != "same" {
		return []int{0}
	}
	e, _ := exp.([]any)
	for _, k := range []string{"folded", "direct"} {
		arr, _ := o[k].([]any)
		if len(arr) != len(e) {
			return []int{0}
		}
		for i := range arr {
			if arr[i] != "n/a" && fmt.Sprint(arr[i]) != fmt.Sprint(e[i]) {
				return []int{0}
			}
		}
	}
	return nil
}

// driver "fold": random policies whose conditions are constant-heavy, three random environments each
func driveFold(seed int64, n int, params map[string]string) []Obj {
	g := newGen(seed, 4)
	out := make([]Obj, 0, n)
	for i := 0; i < n; i++ {
		p := g.policy(4)
		if len(p.Conditions) == 0 {
			p.Conditions = append(p.Conditions, ast.ConditionType{Condition: ast.ConditionWhen, Body: g.expr(kBool, 1+g.r.Intn(4))})
		}
		envs := []any{cwf.EnvToJ(g.env()), cwf.EnvToJ(g.env()), cwf.EnvToJ(g.env())}
		out = append(out, Obj{"op": "fold", "policy": cwf.PolicyToJ(p), "envs": envs})
	}
	return out
}

func init() {
	register("fold", opFold, cmpFold)
	register("envtable", func(c Obj) J { return "loaded" }, func(c Obj, obs, exp J) []int { return nil })
	drivers["fold"] = driveFold
}
