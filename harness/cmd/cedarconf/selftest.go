package main

import (
	"fmt"
	"os"

	"verifharness/cwf"
)

// selftest: the wire codec round-trips (part of the trusted base).
func cmdSelftest() {
	g := newGen(12345, 5)
	bad := 0
	for i := 0; i < 20000; i++ {
		k := kind(g.r.Intn(int(nKinds)))
		v := g.value(k, 2)
		j := cwf.ValueToJ(v)
		j2 := cwf.MustParse(marshal(j))
		v2, err := cwf.JToValue(j2)
		if err != nil || !cwf.Equal(cwf.ValueToJ(v2), j) {
			fmt.Fprintf(os.Stderr, "selftest: value round trip failed: %s (%v)\n", cwf.Canon(j), err)
			bad++
		}
		e := g.expr(k, 3)
		ej := cwf.NodeToJ(e)
		e2, err := cwf.JToNode(cwf.MustParse(marshal(ej)))
		if err != nil || !cwf.Equal(cwf.NodeToJ(e2), ej) {
			fmt.Fprintf(os.Stderr, "selftest: expr round trip failed: %s (%v)\n", cwf.Canon(ej), err)
			bad++
		}
		if i%50 == 0 {
			env := g.env()
			envj := cwf.EnvToJ(env)
			env2, err := cwf.JToEnv(cwf.MustParse(marshal(envj)))
			if err != nil || !cwf.Equal(cwf.EnvToJ(env2), envj) {
				fmt.Fprintf(os.Stderr, "selftest: env round trip failed (%v)\n", err)
				bad++
			}
		}
	}
	for _, n := range []string{"", "a", "a b", "é", "~", "~{41}", "\xff", "a\"b\\c", "x::y", "😀"} {
		w := cwf.NameToWire(n)
		back, err := cwf.NameFromWire(w)
		if err != nil || back != n {
			fmt.Fprintf(os.Stderr, "selftest: name %q -> %q -> %q (%v)\n", n, w, back, err)
			bad++
		}
		for _, r := range w {
			if r > 126 || r < 32 || r == '"' || r == '\\' {
				fmt.Fprintf(os.Stderr, "selftest: wire name %q not plain ASCII\n", w)
				bad++
			}
		}
	}
	if bad > 0 {
		fail(2, "selftest: %d failures", bad)
	}
	fmt.Println("selftest ok")
}
