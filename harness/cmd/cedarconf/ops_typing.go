package main

import (
	"github.com/cedar-policy/cedar-go/types"
	"github.com/cedar-policy/cedar-go/x/exp/schema"
	"github.com/cedar-policy/cedar-go/x/exp/schema/resolved"
	"github.com/cedar-policy/cedar-go/x/exp/schema/validate"

	"verifharness/cwf"
)

// ---------------------------------------------------------------- C15: validator soundness

func resolveWire(j J) *resolved.Schema {
	s := schema.NewSchemaFromAST(must(cwf.JToSchema(j)))
	return must(s.Resolve())
}

// op "typing": {schema, policies: [policy]} -> verdicts: [{strict, permissive}] (accept | reject | panic)
func opTyping(c Obj) J {
	r := resolveWire(c["schema"])
	vs, vp := validate.New(r, validate.WithStrict()), validate.New(r, validate.WithPermissive())
	pols, _ := c["policies"].([]any)
	out := make([]any, len(pols))
	for i, pj := range pols {
		p := must(cwf.JToPolicy(pj))
		out[i] = Obj{
			"strict":     guardS(func() string { return verdict(vs.Policy("p", p)) }),
			"permissive": guardS(func() string { return verdict(vp.Policy("p", p)) }),
		}
	}
	return Obj{"verdicts": out}
}

// op "typingenvs": {schema, envs} -> conform: [bool]: the real Validator.Request and Validator.Entities accept the
// environment (both modes)
func opTypingEnvs(c Obj) J {
	r := resolveWire(c["schema"])
	envs, _ := c["envs"].([]any)
	out := make([]any, len(envs))
	why := make([]any, len(envs))
	for i, ej := range envs {
		env := must(cwf.JToEnv(ej))
		req, ok := env.Request()
		good := ok
		why[i] = ""
		for _, opt := range []validate.Option{validate.WithStrict(), validate.WithPermissive()} {
			v := validate.New(r, opt)
			if ok {
				if err := v.Request(req); err != nil {
					good = false
					why[i] = ascii(err.Error())
				}
			}
			if err := v.Entities(types.EntityMap(env.Store)); err != nil {
				good = false
				why[i] = ascii(err.Error())
			}
		}
		out[i] = good
	}
	return Obj{"conform": out, "why": why}
}

func init() {
	register("typing", opTyping, func(c Obj, obs, exp J) []int { return nil })
	register("typingenvs", opTypingEnvs, func(c Obj, obs, exp J) []int { return nil })
}
