#!/usr/bin/env python3
"""./check <property> --tier quick|thorough   |   ./check <property> --replay <path>

exit 0: the property held on everything explored (KNOWN-FINDING lines for listed findings)
exit 1: VIOLATION property=<id> replay=<path>   (reproduced in a fresh process and by TLC)
exit 2: the check itself is broken (never a verdict about the code)
"""
import argparse, json, os, sys, traceback

sys.path.insert(0, os.path.dirname(os.path.abspath(__file__)))
import vlib
from vlib import Broken, log
import props, props2


def main():
    ap = argparse.ArgumentParser()
    ap.add_argument("property")
    ap.add_argument("--tier", default=os.environ.get("VERIF_TIER", "quick"), choices=["quick", "thorough"])
    ap.add_argument("--replay")
    ap.add_argument("--keep", action="store_true", help="keep the work directory")
    a = ap.parse_args()
    seed = int(os.environ.get("VERIF_SEED", "1") or "1")
    pid = a.property
    if pid not in props.REGISTRY:
        print("unknown property %s" % pid, file=sys.stderr)
        return 2
    ctx = vlib.Ctx(pid, a.tier, seed)
    if a.keep:
        ctx.cleanup = lambda: None
    try:
        vlib.build_harness()
        if a.replay:
            return props.replay(ctx, a.replay)
        return props.REGISTRY[pid](ctx)
    except Broken as e:
        print("BROKEN-CHECK property=%s: %s" % (pid, e), file=sys.stderr)
        ctx.cleanup()
        return 2
    except Exception:
        traceback.print_exc()
        ctx.cleanup()
        return 2


if __name__ == "__main__":
    sys.exit(main())
