#!/usr/bin/env python3
"""MANIFEST.setup_cmd: build the harness against /repo (offline), self-test the wire
codec, check that the generated universe module is current, SANY-parse every module."""
import glob, os, shutil, subprocess, sys, tempfile

sys.path.insert(0, os.path.dirname(os.path.abspath(__file__)))
import vlib


def main():
    vlib.build_harness()
    print(vlib.harness(["selftest"]).strip())
    # generated module is current
    with tempfile.TemporaryDirectory(dir=os.path.join(vlib.VERIF, ".work") if os.path.isdir(os.path.join(vlib.VERIF, ".work")) else None) as td:
        gen = os.path.join(td, "Universe.tla")
        gen2 = os.path.join(td, "JsonKeys.tla")
        subprocess.run([sys.executable, os.path.join(vlib.VERIF, "tools", "genuniverse.py"), gen, gen2], check=True)
        if open(gen).read() != open(os.path.join(vlib.SPEC, "Universe.tla")).read() or \
                open(gen2).read() != open(os.path.join(vlib.SPEC, "JsonKeys.tla")).read():
            print("spec/Universe.tla or spec/JsonKeys.tla is stale: run tools/genuniverse.py", file=sys.stderr)
            return 2
        # SANY over every module (all modules in one directory so EXTENDS resolves)
        for f in glob.glob(os.path.join(vlib.SPEC, "*.tla")) + glob.glob(os.path.join(vlib.SPEC, "mc", "*.tla")) + \
                glob.glob(os.path.join(vlib.SPEC, "trace", "*.tla")):
            shutil.copy(f, td)
        bad = 0
        mods = sorted(glob.glob(os.path.join(td, "*.tla")))
        for m in mods:
            p = subprocess.run(["java", "-cp", vlib.TLA_CP, "tla2sany.SANY", os.path.basename(m)], cwd=td,
                               stdout=subprocess.PIPE, stderr=subprocess.STDOUT, text=True)
            if p.returncode != 0 or "*** Errors" in p.stdout or "Fatal errors" in p.stdout or "Could not parse" in p.stdout:
                print("SANY failed on %s:\n%s" % (os.path.basename(m), p.stdout[-1500:]), file=sys.stderr)
                bad += 1
        print("SANY: %d modules parsed, %d failed" % (len(mods), bad))
        if bad:
            return 2
    return 0


if __name__ == "__main__":
    os.makedirs(os.path.join(vlib.VERIF, ".work"), exist_ok=True)
    try:
        sys.exit(main())
    except vlib.Broken as e:
        print("setup failed: %s" % e, file=sys.stderr)
        sys.exit(2)
