#!/usr/bin/env python3
"""tracedbg.py <Trace module> <trace.ndjson> [first [count]]: validate (a slice of) a recorded trace, print verdicts and time"""
import sys, os, json, time
sys.path.insert(0, os.path.dirname(os.path.abspath(__file__)))
import vlib, props, props2
mod, f = sys.argv[1], sys.argv[2]
ctx = vlib.Ctx("DBG", "quick", 1)
lines = open(f).read().splitlines()
a = int(sys.argv[3]) if len(sys.argv) > 3 else 0
n = int(sys.argv[4]) if len(sys.argv) > 4 else len(lines)
sub = os.path.join(ctx.work, "sub.ndjson")
open(sub, "w").write("\n".join(lines[a:a + n]) + "\n")
t = time.time()
res = vlib.tlc_validate(ctx, "dbg", mod, [sub])
print("%.1fs" % (time.time() - t))
for _, bad in res:
    for b in bad[:int(os.environ.get("SHOW", "10"))]:
        print(json.dumps(b)[:1500])
    print(len(bad), "bad")
print([s for s in ctx.cov["stages"]][-1]); ctx.cleanup()
