#!/usr/bin/env python3
"""tlcerr.py <Trace module> <trace>: run the trace validation and print TLC's error text"""
import sys, os
sys.path.insert(0, os.path.dirname(os.path.abspath(__file__)))
import vlib, props, props2
ctx = vlib.Ctx("DBG", "quick", 1)
try:
    vlib.tlc_validate(ctx, "dbg", sys.argv[1], [sys.argv[2]])
    print("ok")
except Exception as e:
    txt = open(os.path.join(ctx.work, "dbg.val0", "tlc.out")).read()
    i = txt.find("Error:")
    print(txt[i:i + 3500])
ctx.cleanup()
