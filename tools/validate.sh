#!/bin/sh
# validates MANIFEST.json and every evidence file against the schemas (uses the tooling venv's jsonschema)
python3-vt - <<'PY'
import json, glob, jsonschema
jsonschema.validate(json.load(open('/verif/MANIFEST.json')), json.load(open('/root/.vp/MANIFEST.schema.json')))
print('manifest ok')
for f in sorted(glob.glob('/verif/evidence/*.json')):
    e = json.load(open(f))
    jsonschema.validate(e, json.load(open('/root/.vp/EVIDENCE.schema.json')))
    c = e['coverage']
    print(f.split('/')[-1], 'ok', e['tier'], 'states', c.get('states'), 'trans', c.get('transitions'), 'traces', c.get('traces_validated_against_impl'), 'eval', c.get('evaluations'), 'wall', e['wall_s'], 'viol', e.get('violations'))
PY
