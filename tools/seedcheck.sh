#!/bin/sh
# usage: seedcheck.sh <scratch worktree of /repo> <seeded id>...
# Regression of the checks against the kept seeded changes: each patch that still applies to the worktree's HEAD is
# applied there and the quick tier of its property is run with VERIF_REPO; expected: exit 1 (caught).
WT=$1; shift
export GOFLAGS=-mod=mod GOPROXY=off GOSUMDB=off GOTOOLCHAIN=local
for id in "$@"; do
  d=/verif/seeded/$id
  prop=$(python3 -c "import json;print(json.load(open('$d/meta.json'))['property'])")
  cd $WT && git checkout -q -- . && git clean -fdq
  if ! git apply --check $d/patch.diff 2>/dev/null; then echo "SEEDCHECK $id $prop STALE (the patch no longer applies: a later fix touches the same lines)"; continue; fi
  git apply $d/patch.diff && go build ./... || { echo "SEEDCHECK $id $prop does-not-build"; continue; }
  out=$(cd /verif && VERIF_REPO=$WT ./check $prop --tier quick 2>&1); rc=$?
  echo "SEEDCHECK $id $prop rc=$rc $(echo "$out" | grep -m1 '^VIOLATION\|^BROKEN' | cut -c1-120)"
  cd $WT && git checkout -q -- . && git clean -fdq
done
