"""Properties C08.. (codecs, totality, schema): same machinery as props.py"""
import hashlib, json, os, re, time

import pretty, vlib
from vlib import Broken, log
from props import (prop, KINDS, GEN_CFG, SYNTAX_CONSTS, add_m2, add_m3, add_gen_exec_validate, confirm_all, mc_cfg, envhash)


def cps(x):
    return "".join(chr(c) if 0 <= c < 0x110000 and not 0xD800 <= c < 0xE000 else "�" for c in (x or []))


# ====================================================================== C08 marshalling

def trace_tables(f, d):
    """TraceTables.tla for one trace file: the union of the events' spelling tables (words of the
    texts, names of the subjects).  TLC cannot look inside strings; these tables are how code points
    of the recorded text are related to the atomic names of the wire form."""
    words, names = {}, {}
    for ev in vlib.read_ndjson(f):
        o = ev.get("obs") or {}
        if not isinstance(o, dict):
            continue
        for key, tab in (("words", words), ("names", names)):
            for e in o.get(key) or []:
                tab[e["name"]] = e["cps"]

    def seq(tab):
        rows = []
        for name in sorted(tab):
            if any(ord(ch) < 32 or ord(ch) > 126 or ch in '"\\' for ch in name):
                raise Broken("spelling table: name %r is not a wire name" % name)
            rows.append('[name |-> "%s", cps |-> <<%s>>]' % (name, ", ".join(str(c) for c in tab[name])))
        return "<<" + ",\n  ".join(rows) + ">>"
    gd = os.path.join(d, "gen")
    os.makedirs(gd, exist_ok=True)
    path = os.path.join(gd, "TraceTables.tla")
    with open(path, "w") as fh:
        fh.write("----------------------------- MODULE TraceTables -----------------------------\n"
                 "EXTENDS Json\n"
                 "TrWords == %s\nTrNames == %s\n"
                 "TrJ == JsonDeserialize(\"tables.json\")\n"
                 "TrByCps == [on |-> TRUE, names |-> TrJ.names, nameKeys |-> DOMAIN TrJ.names, "
                 "words |-> TrJ.words, wordKeys |-> DOMAIN TrJ.words]\n"
                 "=============================================================================\n" % (seq(words), seq(names)))

    def key(cs):
        return "<<" + ", ".join(str(c) for c in cs) + ">>"      # = TLC's ToString of the tuple
    jpath = os.path.join(gd, "tables.json")
    with open(jpath, "w") as fh:
        json.dump({"names": {key(v): k for k, v in names.items()},
                   "words": {key(v): k for k, v in words.items()}}, fh)
    return {"TraceTables.tla": path, "tables.json": jpath}


vlib.TRACE_PREP["Trace_Marshal"] = trace_tables
MARSHAL_CFG = ("CONSTANT PathTable <- MCPathTable\nCONSTANT NameTable <- TrNames\nCONSTANT IdTable <- TrNames\n"
               "CONSTANT WordTable <- TrWords\nCONSTANT ByCps <- TrByCps\nCONSTANT EnvStride = %d\n")
vlib.TRACE_CFG["Trace_Marshal"] = MARSHAL_CFG % 6


def describe_marshal(ev, obs, entry):
    why = "; ".join(entry.get("why") or ["?"])
    if ev.get("op") == "marshalset":
        ids = ", ".join(repr(i.get("id")) for i in ev.get("items") or [])
        txt = cps((obs or {}).get("settext")) if isinstance(obs, dict) else ""
        return "marshal set of policies with ids [%s] => %s; text `%s`" % (ids, why, txt[:600].replace("\n", " "))
    o = obs if isinstance(obs, dict) else {}
    subj = o.get("subject") or ev.get("policy")
    t1, t2 = cps(o.get("text")), cps(o.get("text2"))
    if o.get("retext") == "differs":
        # Negate(n) and the literal -n are both written "-n" but parenthesised differently; -0 comes back as 0
        def norm(t):        # drop every pair of parentheses directly around -N (to a fixpoint), read -0 as 0
            while True:
                u = re.sub(r"\(-(\d+)\)", r"-\1", t)
                u = re.sub(r"(?<![\w.\"])-0(?!\w|\.\d)", "0", u)
                if u == t:
                    return t
                t = u
        if norm(t1) == norm(t2):
            why = why.replace("second rendering differs", "second rendering differs only around a negated integer literal")
    mapped = re.findall(r'ip\("::ffff:\d+\.\d+\.\d+\.\d+(?:/\d+)?"\)', t1)
    if mapped:
        why += " [text holds %s]" % mapped[0]
    s = "marshal (%s) %s => `%s` =>WHY: %s" % (ev.get("via"), pretty.sp(subj), t1.replace("\n", " ")[:500], why)
    if o.get("retext") == "differs":
        s += " =>SECOND: `%s`" % t2.replace("\n", " ")[:500]
    if isinstance(o.get("reparsed"), dict) and not o["reparsed"].get("ok"):
        s += "; parser: %s" % o["reparsed"].get("err")
    return s


KINDS["marshal"] = dict(module="Trace_Marshal", shrink=None, describe=describe_marshal)


@prop("C08")
def run_C08(ctx):
    ctx.rule = ("spec/Marshal.tla: a policy survives rendering iff effect, annotations and scope are the same and every condition "
                "evaluates identically (value or kind of failure, TLA+ evaluator) under every environment of the universe. "
                "M1: Lex(Spell(ts)) = ts and Parse(Render(a)) = a on the syntax universe (MC_Syntax). Inputs enumerated by TLC: "
                "(syntax) every AST of the C07 universe, every parent/child/position triple again over integer and boolean operands, "
                "value nodes that only programs / JSON can build (sets, records with odd keys, every boundary decimal / datetime / "
                "duration / ipaddr / long, as operands, receivers and arguments), annotations and strings over StrB, policy sets with "
                "ids in every byte-order pattern; (exprs) every policy of the expression universe. Each is rendered by the real "
                "MarshalCedar as built from the AST, as decoded from its JSON and as reparsed from its text; the text is parsed by the "
                "real parser (Policy and PolicyList), rendered again (bytes must repeat), and READ BY THE SPECIFICATION "
                "(Syntax!Lex + ParsePolicy over the recorded code points) -- a marshaller and parser that are wrong in the same way "
                "are still caught. Trace_Marshal judges every event. M3: random policies with random environments. "
                "distinct = distinct inputs.")
    ctx.assumptions = ["meaning is compared on finite environment sets (3 for the syntax universe, the 72 of Universe!EnvUW "
                       "(every 6th at the quick tier) for the expression universe, 3 random ones per random policy)",
                       "spelling tables (identifier words of the text, attribute / key / id names of the policy) are computed by the "
                       "harness and the checker: TLC cannot look inside strings",
                       "ASTs with no text form (entity types that are not paths, annotation keys that are not identifiers, "
                       "method calls without receiver) are outside the statement's quantifier and not generated"]
    q = ctx.quick
    vlib.TRACE_CFG["Trace_Marshal"] = MARSHAL_CFG % (6 if q else 1)
    vlib.tlc_check(ctx, "m1.lex", "MC_Syntax",
                   "INIT Init\nNEXT Next\nINVARIANT RoundTrip\nINVARIANT LexRoundTrip\nCHECK_DEADLOCK FALSE\n" + SYNTAX_CONSTS
                   + 'CONSTANT Mode = "ast"\n', ["mc/MC_Syntax.tla"])
    add_gen_exec_validate(ctx, "marshal", "syntax", "MC_Syntax", ["mc/MC_Syntax.tla"],
                          cfg=GEN_CFG + SYNTAX_CONSTS + 'CONSTANT Mode = "marshal"\n', min_cases=5000, timeout=7200)
    consts = "CONSTANT UseDepth2 = %s\nCONSTANT Stride = %d\n" % ("FALSE" if q else "TRUE", 2 if q else 1)
    add_gen_exec_validate(ctx, "marshal", "exprs", "MC_MarshalExpr", ["mc/MC_MarshalExpr.tla"], cfg=GEN_CFG + consts,
                          min_cases=1000, timeout=7200)
    add_m3(ctx, "marshal", "random", "marshal", 1500 if q else 40000)
    return vlib.finish(ctx, confirm_all)


# ====================================================================== C12 text forms

TEXT_CFG = ("CONSTANT PathTable <- MCPathTable\nCONSTANT NameTable <- TrNames\nCONSTANT IdTable <- TrNames\n"
            "CONSTANT WordTable <- TrWords\nCONSTANT ByCps <- TrByCps\n")
vlib.TRACE_PREP["Trace_Text"] = trace_tables
vlib.TRACE_CFG["Trace_Text"] = TEXT_CFG


def _obs3(o):
    ways = [(w, pretty.so(o[w]).strip() if isinstance(o.get(w), dict) else "?") for w in ("parse", "json", "eval") if w in o]
    if len(set(s for _, s in ways)) == 1:
        return ways[0][1]
    return " ".join("%s=%s" % ws for ws in ways)


def describe_parsetext(ev, obs, entry):
    exp = (ev.get("exp") or [{}])[0]
    o = (obs or [{}])[0] if isinstance(obs, list) else {}
    return "parse %s('%s') => observed %s, specified %s" % (ev.get("kind"), cps((ev.get("texts") or [[]])[0]), _obs3(o), pretty.so(exp).strip())


def describe_construct(ev, obs, entry):
    exp = (ev.get("exp") or [{}])[0]
    o = (obs or [{}])[0] if isinstance(obs, list) else {}
    if ev.get("fn") == "NewDecimal":
        call = "NewDecimal(%d, %s)" % (pretty.num(ev["is"][0]), ev["e"])
    elif ev.get("fn") in ("Duration.ToDays", "Duration.ToHours", "Duration.ToMinutes", "Duration.ToSeconds", "Duration.ToMilliseconds"):
        call = "NewDurationFromMillis(%d).%s()" % (pretty.num(ev["is"][0]), ev["fn"].split(".")[1])
    elif ev.get("fn") == "NewDuration":
        call = "NewDuration(time.Duration(%d))" % pretty.num(ev["is"][0])
    elif ev.get("fn") == "Datetime.Time":
        call = "NewDatetime(NewDatetimeFromMillis(%d).Time())" % pretty.num(ev["is"][0])
    elif ev.get("fn") == "Duration.Duration":
        call = "NewDurationFromMillis(%d).Duration() [nanoseconds]" % pretty.num(ev["is"][0])
    else:
        f = ev["fs"][0]
        p = f["p"]
        call = "NewDecimalFromFloat(%s)" % ({9999: "NaN", 9998: "+Inf", 9997: "-Inf"}.get(p) or "%d * 2^%d" % (pretty.num(f["m"]), p))
    got = " ".join("%s=%s" % (w, pretty.so(o[w]).strip()) for w in ("new", "fromInt") if isinstance(o.get(w), dict))
    return "construct %s => observed %s, exact result %s" % (call, got, pretty.so(exp).strip())


KINDS["parsetext"] = dict(module=None, describe=describe_parsetext)
KINDS["construct"] = dict(module=None, describe=describe_construct)


def describe_textform(ev, obs, entry):
    o = obs if isinstance(obs, dict) else {}
    v = ev.get("v") or {}
    why = entry.get("why") or []
    exp = entry.get("exp") or {}
    kind = {"dec": "decimal", "dt": "datetime", "dur": "duration", "ip": "ip", "ent": "entity"}.get(v.get("k"), v.get("k"))
    parts = []
    if "panic" in why or "cedar" not in o:
        return "text form of %s => panic %s" % (pretty.sv(v), json.dumps(o)[:200])
    if "parse" in why:
        parts.append("parse %s('%s') => observed %s, specified %s" % (kind, cps(o.get("str")), pretty.so(o.get("reparsed") or {}).strip(), pretty.sv(v)))
    if "print" in why:
        parts.append("print %s %s => '%s', which the documented syntax reads as %s" % (kind, pretty.sv(v), cps(o.get("str")), pretty.so(exp.get("str") or {}).strip()))
    if "cedar" in why or "evalback" in why:
        parts.append("cedar text of %s => `%s`: the specification reads %s, the real parser and evaluator %s" % (
            pretty.sv(v), cps(o.get("cedar"))[:300], pretty.so(exp.get("cedar") or {}).strip(), pretty.so(o.get("evalback") or {}).strip()))
    return "; ".join(parts)


KINDS["textform"] = dict(module="Trace_Text", shrink=None, describe=describe_textform)


def add_table_m2(ctx, name, module, extra, cfg, min_cases, listkeys, timeout=7200):
    """M2 for table rows (a list of inputs with a list of expected results): every differing index becomes its own
    one-element case, so that confirmation and known-finding matching work per input"""
    before = len(ctx.candidates)
    st = vlib.generate_and_replay(ctx, name, module, cfg, extra, min_cases=min_cases, timeout=timeout)
    ctx.candidates = ctx.candidates[:before]
    for dd in vlib.read_ndjson(os.path.join(ctx.work, name + ".gen", "diffs.ndjson")):
        c = dd["case"]
        for i in dd["bad"]:
            if i < 0:
                raise Broken("%s: observation list has the wrong length" % name)
            one = dict(c)
            for k in listkeys:
                if k in one:
                    one[k] = [c[k][i]]
            one["exp"] = [c["exp"][i]]
            ctx.candidates.append(dict(kind=c["op"], stage=name, event=one))
    return st


@prop("C12")
def run_C12(ctx):
    ctx.rule = ("spec/TextForms.tla over CedarExt: the documented literal syntax of decimal / duration / datetime / ipaddr as parsers "
                "over code points with exact multi-limb arithmetic and 64-bit range; ReadValue = the specification's lexer + expression "
                "grammar + evaluator; exact constructors (NewDecimalExact = i * 10^e or failure). M2 (MC_TextForms): every literal of "
                "the boundary lists, every literal assembled from components (sign x integer part x fraction; year x month-day x "
                "time/offset incl. expanded years; unit subsets in and out of order with quantities at each unit's overflow edge; "
                "v4/v6 forms x prefix suffixes) and every single-character deletion / replacement / insertion / transposition of 11 "
                "representative literals, with the specified value or rejection, executed through types.Parse*, the typed __extn JSON "
                "decoder and the constructor function in the evaluator; NewDecimal(i, e) for the boundary longs and the wrap-around "
                "candidates ceil(k * 2^64 / 10^e) x every exponent -6..16, NewDecimalFromInt, NewDecimalFromFloat on exactly "
                "representable doubles, the range edge, NaN and infinities. M3 (Trace_Text): values of every kind at their boundaries "
                "and at random (entity ids, strings and record keys over the Unicode classes; thorough: every Unicode scalar value) "
                "are printed by the real String() / MarshalCedar(); TLC reads the recorded code points with the specification's own "
                "parsers and compares with the value, and checks what the real parsers / evaluator read back. distinct = distinct rows / events.")
    ctx.assumptions = ["the literal syntaxes in CedarExt are a transcription of the Cedar documents (RFC 80 for datetime / duration)",
                       "Unicode printability tables are not modelled: any escape spelling that unescapes to the character is accepted",
                       "NewDecimalFromFloat is documented as approximate: exactness is demanded only where the product with 10^4 is "
                       "exact in a double; at the range edge only 'error, not a wrapped value' is demanded",
                       "the type part of an entity UID text is not validated by the statement's reading used here"]
    q = ctx.quick
    add_table_m2(ctx, "tables", "MC_TextForms", ["mc/MC_TextForms.tla"], GEN_CFG + SYNTAX_CONSTS, 40, ("texts", "is", "fs"))
    add_m3(ctx, "textform", "forms", "text", 8000 if q else 160000)
    if q:
        add_m3(ctx, "textform", "unicode", "text", 1, params={"sweep": "0-0x10ffff", "step": "257"}, shards=2)
    else:
        vlib.LIGHT_JVM = False
        add_m3(ctx, "textform", "unicode", "text", 1, params={"sweep": "0-0x10ffff", "step": "1"}, shards=4 * vlib.MAX_SHARDS)
    return vlib.finish(ctx, confirm_all)


# ====================================================================== C18 scanner / streaming decoder

def describe_scan(ev, obs, entry):
    doc = cps(ev.get("doc"))
    h = hashlib.sha1(doc.encode("utf-8", "replace")).hexdigest()[:10]
    o = obs if isinstance(obs, dict) else {}
    parts = []
    for w in entry.get("why") or []:
        what = w.get("what")
        if what == "schedule":
            i = w["idx"] - 1
            sch = (ev.get("schedules") or [])[i] if i < len(ev.get("schedules") or []) else {}
            run = (o.get("runs") or [])[i] if i < len(o.get("runs") or []) else {}
            if run.get("fault"):
                parts.append("reader failing after %s bytes (read sizes %s): tokenizer %s, streaming decoder %s -- a result instead of an error" % (
                    sch.get("failAt"), sch.get("sizes"), "returned tokens" if run.get("tokOk") else "failed", "returned policies" if run.get("decOk") else "failed"))
            else:
                tk, dc = (run or {}).get("tok") or {}, (run or {}).get("dec") or {}
                parts.append("read sizes %s eofWithData=%s: tokenizer %s, decoder %s -- differs from the whole-slice result (tokenizer %s, %s policies)" % (
                    sch.get("sizes"), sch.get("eofWithData"),
                    ("ok, %d tokens" % len(tk.get("toks") or [])) if tk.get("ok") else "error `%s`" % tk.get("err"),
                    ("ok, %s policies" % dc.get("n")) if dc.get("ok") else "error `%s`" % dc.get("err"),
                    ("ok, %d tokens" % len((o.get("slice") or {}).get("toks") or [])) if (o.get("slice") or {}).get("ok") else "error",
                    (o.get("pols") or {}).get("n")))
        elif what == "token":
            k = w["idx"] - 1
            got = ((o.get("slice") or {}).get("toks") or [])
            g = got[k] if k < len(got) else None
            e = w.get("exp") or {}
            parts.append("token %d: observed %s, reference %s" % (
                w["idx"], ("%s `%s` at offset %s line %s column %s" % (g["t"], cps(g["text"]), g["off"], g["line"], g["col"])) if g else "none",
                ("%s `%s` at offset %s line %s column %s" % (e.get("t"), doc[e["a"] - 1:e["b"]], e.get("off"), e.get("line"), e.get("col"))) if "a" in e else "none"))
        elif what in ("policy position", "diagnostic position"):
            parts.append("%s of policy %s: observed %s, first token per reference %s" % (
                what, w.get("idx"), json.dumps(((o.get("pols") or {}).get("pos") or [None] * 999)[w["idx"] - 1]) if what == "policy position" else
                json.dumps([d for d in (o.get("diag") or []) if d.get("idx") == w.get("idx")][:1]), json.dumps({k: (w.get("exp") or {}).get(k) for k in ("off", "line", "col")})))
        else:
            parts.append(str(what) + (" (expected %s)" % w.get("exp") if "exp" in w else ""))
    return "scan document %s (%d bytes%s) `%s` => %s" % (h, len(doc.encode("utf-8", "replace")), "" if ev.get("valid") else ", damaged",
                                                      doc[:120].replace("\n", "\\n"), "; ".join(parts))


def shrink_scan(ev, entry=None):
    out = []
    for w in (entry or {}).get("why") or []:
        if w.get("what") == "schedule":
            i = w["idx"] - 1
            out.append(dict(ev, schedules=[ev["schedules"][i]]))
    return out


KINDS["scan"] = dict(module="Trace_Scanner", shrink=shrink_scan, describe=describe_scan)


def describe_scanreplay(ev, obs, entry):
    doc = bytes(ev.get("doc") or []).decode("utf-8", "replace")
    reads = " ".join("%s%s%s" % (r["n"], "+EOF" if r.get("eof") else "", "+FAIL" if r.get("fail") else "") for r in ev.get("reads") or [])
    def toks(r):
        if not isinstance(r, dict) or not r.get("ok"):
            return "error"
        return " ".join("`%s`@%s:%s:%s" % (bytes(t["text"]).decode("utf-8", "replace"), t["off"], t["line"], t["col"]) for t in r.get("toks") or [])
    return "tokenize `%s` with reads [%s] => observed %s, specified %s" % (doc.replace("\n", "\\n"), reads, toks(obs), toks(ev.get("exp")))


KINDS["scanreplay"] = dict(module=None, describe=describe_scanreplay)


SCANNER_MC = ("CONSTANT BufLen = %d\nCONSTANT MaxZero = 1\nCONSTANT Docs <- MCDocs\n")


@prop("C18")
def run_C18(ctx):
    ctx.rule = ("spec/Scanner.tla transcribes scanner.next / nextToken / tokenText (refill with spill of the partial token, move of the "
                "unread bytes, sentinel, partial-rune handling, line / column / lastLineLen bookkeeping, token text = spilled head + buffer "
                "tail) with the io.Reader as environment: every Read returns any 0..min(cap, remaining) bytes, optionally with EOF, or fails "
                "at any byte position. M1: at BufLen 6 (and 5, 8 thorough) TLC explores EVERY schedule over 13 documents in which words, "
                "one-character tokens, strings, 2- / 3- / 4-byte characters, blanks and line feeds straddle the buffer end: the emitted "
                "tokens (text, byte offset, line, column) are always a prefix of the reference tokenization and equal to it at the end, the "
                "buffer mirrors the document, a failing reader ends in an error, the scanner never gets stuck and terminates. M2: simulated "
                "behaviours of the same model (document, the exact (n, eof, fail) of every Read, specified tokens or error) are replayed on "
                "the real tokenizer through the verif hook with a reader that performs exactly those reads. M3 (Trace_Scanner, "
                "ScannerRef!LexPos = the reference tokenization of Cedar text with positions): documents of 0-5 KB assembled from rendered "
                "random policies with random layout (CR LF mixes, comments and strings with non-ASCII text, long identifiers, padding that "
                "moves tokens onto the 1024-byte buffer end), each under 10 (thorough 16) reader schedules -- one byte at a time, small "
                "random sizes, whole buffers, reads ending around the buffer end, zero-length reads, EOF with the last bytes, faults at "
                "random byte positions: tokens of the whole slice = reference; every schedule gives the same tokens and the same decoded "
                "policies / error as the whole slice; a fault gives an error; Policy.Position() and the positions in authorization "
                "diagnostics = first token of each policy per reference. distinct = distinct documents.")
    ctx.assumptions = ["the token grammar of the M1/M2 model is reduced (words, '(' and strings); classification of Cedar tokens is specified "
                       "by ScannerRef!LexPos and checked in M3", "exhaustive exploration is at BufLen 5-8; the 1024-byte machine is reached "
                       "by replayed and random schedules", "the position of the EOF token is not compared",
                       "damaged documents are only compared across schedules (same result or same error text as the whole slice)"]
    q = ctx.quick
    inv = ["TypeOK", "Mirror", "Consumed", "PrefixOK", "Final", "FailReported", "NoStuck"]
    for bl in ([6] if q else [5, 6, 8]):
        vlib.tlc_check(ctx, "m1.buf%d" % bl, "MC_Scanner",
                       "SPECIFICATION Spec\nVIEW View\n" + SCANNER_MC % bl + "".join("INVARIANT %s\n" % i for i in inv)
                       + "PROPERTY Terminates\nCHECK_DEADLOCK FALSE\n", ["mc/MC_Scanner.tla"])
    add_m2(ctx, "scanreplay", "behaviours", "MC_Scanner", ["mc/MC_Scanner.tla"],
           cfg="INIT Init\nNEXT Next\nINVARIANT Emit\nCHECK_DEADLOCK FALSE\n" + SCANNER_MC % 6, min_cases=500,
           args=["-simulate", "num=%d" % (4000 if q else 60000), "-depth", "60", "-seed", str(ctx.seed)])
    add_m3(ctx, "scan", "documents", "scan", 160 if q else 4000, params={"schedules": 10 if q else 16}, shards=(4 if q else vlib.MAX_SHARDS))
    return vlib.finish(ctx, confirm_all)


# ====================================================================== C09 JSON policy codec

vlib.TRACE_PREP["Trace_PolicyJson"] = trace_tables
vlib.TRACE_CFG["Trace_PolicyJson"] = TEXT_CFG


def describe_pjson(ev, obs, entry):
    o = obs if isinstance(obs, dict) else {}
    why = "; ".join(entry.get("why") or ["?"])
    if ev.get("op") == "pjsonset":
        ids = ", ".join(repr(i.get("id")) for i in ev.get("items") or [])
        return "policy-set-json ids [%s] => %s%s" % (ids, why, (" (%s)" % (o.get("back") or {}).get("err")) if not (o.get("back") or {}).get("ok", True) else "")
    subj = o.get("subject") or ev.get("policy")
    s = "policy-json (%s) %s =>WHY: %s" % (ev.get("via"), pretty.sp(subj), why)
    for k in ("back", "cross"):
        r = o.get(k)
        if isinstance(r, dict) and not r.get("ok", True):
            s += " [%s: %s]" % (k, r.get("err"))
        elif isinstance(r, dict) and r.get("policy") and ("%s" % k in why or (k == "back" and "decoded" in why)):
            s += " [%s: %s]" % (k, pretty.sp(r["policy"])[:400])
    if "authorize" in why or "outcome" in why:
        s += " [outcomes %s]" % json.dumps(o.get("az"))
    return s


def shrink_pjson(ev, entry=None):
    if ev.get("op") != "pjson":
        return []
    p = ev.get("policy") or {}
    conds = p.get("conds") or []
    if len(conds) <= 1:
        return []
    return [dict(ev, policy=dict(p, conds=[c])) for c in conds]


KINDS["pjson"] = dict(module="Trace_PolicyJson", shrink=shrink_pjson, describe=describe_pjson)


def to_pjson(case):
    c = dict(case)
    c["op"] = "pjsonset" if case.get("op") == "marshalset" else "pjson"
    return c


@prop("C09")
def run_C09(ctx):
    ctx.rule = ("spec/PolicyJson.tla (over ValueJson, TextForms): FromEst reads a JSON policy document -- handed to TLC in a tagged form "
                "with strings as code points, integers as limb numbers and object members in document order -- under the documented "
                "format (scope objects, conditions, one-key expression objects, Value escapes __entity / __extn, like pattern lists, "
                "unknown key = extension call); SameAst compares policies in a comparison form (annotations and record-literal entries "
                "by key, a constructor call on a valid literal = the value it denotes, adjacent wildcards collapse). Inputs enumerated by "
                "TLC: the C07/C08 syntax universe (every parent/child/position triple, value leaves only programs / JSON can build, "
                "odd attribute names, annotations over the boundary strings, arithmetic groupings), policy sets under every id pattern, "
                "and the expression universe; each as built from the AST, as reparsed from its text and as decoded from its JSON. The "
                "harness encodes the subject with the real MarshalJSON, decodes it with the real UnmarshalJSON, takes the detour JSON -> text -> JSON, and authorizes every variant. Trace_PolicyJson: the specification's "
                "reading of the RECORDED document must be the subject's AST (catches encoder and decoder wrong in the same way); "
                "the decoded policy must be SameAst; the detour must equal what the text alone denotes; all variants have the same "
                "outcome, equal to CedarPolicy!Outcome for random policies under random environments; policy-set JSON preserves ids "
                "and the policy under every id; every respelling of the recorded document that the specification reads as the same "
                "policy must be accepted by the real decoder as the same policy, with the same outcomes. distinct = distinct inputs.")
    ctx.assumptions = ["the JSON policy format in PolicyJson.tla is a transcription of the documented format; one deviation of the code "
                       "is read as it writes it: `in` with an empty entity list is encoded without an `entities` member",
                       "ASTs that call functions Cedar does not have are outside the statement's quantifier and skipped",
                       "names (types, ids, attribute names, keys, function names) are related to their characters by spelling tables "
                       "computed by harness and checker",
                       "alternative spellings: the recorded document is respelled by the harness (explicit scope entities, implicit entity "
                       "values, split pattern literals with empty literals, extension values <-> constructor calls, reversed member order, "
                       "explicit empty members, all strings \\u-escaped with white space); each respelled document is READ BY THE "
                       "SPECIFICATION and judged only where the specification reads the subject's policy from it"]
    q = ctx.quick
    add_gen_exec_validate(ctx, "pjson", "syntax", "MC_Syntax", ["mc/MC_Syntax.tla"],
                          cfg=GEN_CFG + SYNTAX_CONSTS + 'CONSTANT Mode = "marshal"\n', min_cases=5000, timeout=7200, transform=to_pjson)
    consts = "CONSTANT UseDepth2 = %s\nCONSTANT Stride = %d\n" % ("FALSE" if q else "TRUE", 2 if q else 1)
    add_gen_exec_validate(ctx, "pjson", "exprs", "MC_MarshalExpr", ["mc/MC_MarshalExpr.tla"], cfg=GEN_CFG + consts,
                          min_cases=1000, timeout=7200, transform=to_pjson)
    add_m3(ctx, "pjson", "random", "pjson", 3000 if q else 60000)
    judged = sum(st.get("respellings_judged", 0) for st in ctx.cov["stages"])
    if judged < 1000:
        raise Broken("C09: only %d respelled documents were judged (vacuous)" % judged)
    ctx.cov["respellings_judged"] = judged
    return vlib.finish(ctx, confirm_all)


# ====================================================================== C13 value / entity JSON

vlib.TRACE_PREP["Trace_ValueJson"] = trace_tables
vlib.TRACE_CFG["Trace_ValueJson"] = TEXT_CFG


def describe_vjson(ev, obs, entry):
    o = obs if isinstance(obs, dict) else {}
    kind = ev.get("kind")
    d = ev.get("datum")
    if kind == "value":
        what = pretty.sv(d)
    elif kind == "entity":
        what = "entity %s parents %s attrs %s tags %s" % (pretty.sv(d["uid"]), [pretty.sv(p) for p in d.get("parents") or []],
                                                        {k: pretty.sv(v) for k, v in (d.get("attrs") or {}).items()} if isinstance(d.get("attrs"), dict) else {},
                                                        [(cps(t[0]), pretty.sv(t[1])) for t in d.get("tags") or []])
    elif kind == "entities":
        what = "entity map of %d entities %s" % (len(d or []), [pretty.sv(e["uid"]) for e in d or []][:6])
    else:
        what = "request " + " ".join("%s=%s" % (k, pretty.sv(d[k])) for k in ("p", "a", "r", "c"))
    back = o.get("back") or {}
    b = ("error `%s`" % back.get("err")) if not back.get("ok") else (pretty.sv(back["v"]) if kind == "value" else "a %s" % kind)
    return "value-json %s %s => %s; decoder returned %s" % (kind, what[:700], "; ".join(entry.get("why") or ["?"]), b[:300])


def describe_djson(ev, obs, entry):
    d = ev.get("datum") or {}
    def item(x):
        p = x.get("pos") or {}
        return "%r@%r:%s:%s:%s%s" % (cps(x.get("id")), cps(p.get("file")), pretty.big(p.get("off")), pretty.big(p.get("line")), pretty.big(p.get("col")),
                                      (" %r" % cps(x.get("msg"))) if "msg" in x else "")
    return "diagnostic-json %s reasons=[%s] errors=[%s] =>WHY: %s [back: %s]" % (
        d.get("decision"), ", ".join(item(x) for x in d.get("reasons") or []), ", ".join(item(x) for x in d.get("errors") or []),
        "; ".join(entry.get("why") or ["?"]), json.dumps((obs or {}).get("back"))[:300])


KINDS["djson"] = dict(module="Trace_ValueJson", shrink=None, describe=describe_djson)
KINDS["vjson"] = dict(module="Trace_ValueJson", shrink=None, describe=describe_vjson)
vlib.TRACE_PREP["Trace_ValueSchema"] = trace_tables
vlib.TRACE_CFG["Trace_ValueSchema"] = TEXT_CFG


def describe_vjsonschema(ev, obs, entry):
    d = ev.get("datum") or {}
    o = obs if isinstance(obs, dict) else {}
    backs = []
    for sp in o.get("spell") or []:
        for b in sp.get("backs") or []:
            if not b.get("ok"):
                backs.append("%s: error `%s`" % (sp.get("name"), b.get("err")))
    return "value-json-schema entity %s attrs %s tags %s => %s%s" % (
        pretty.sv(d.get("uid") or {}), {k: pretty.sv(v) for k, v in (d.get("attrs") or {}).items()} if isinstance(d.get("attrs"), dict) else {},
        [(cps(t[0]), pretty.sv(t[1])) for t in d.get("tags") or []], "; ".join(entry.get("why") or ["?"]), (" [" + "; ".join(backs)[:400] + "]") if backs else "")


KINDS["vjsonschema"] = dict(module="Trace_ValueSchema", shrink=None, describe=describe_vjsonschema)


@prop("C13")
def run_C13(ctx):
    ctx.rule = ("spec/ValueJson.tla reads the JSON form of values, entities, entity maps and requests itself (documents handed to TLC in a "
                "tagged form: strings as code points, integers as limb numbers, object members in document order): booleans, 64-bit "
                "integers, strings, arrays = sets, objects = records, the escapes __entity / __extn (fn one of ip / decimal / datetime / "
                "duration, arg read by the literal syntaxes of TextForms), entity references implicit or explicit where the format allows "
                "both; the decoder's fallback (a malformed escape payload is a record) is named and followed. Recorded round trips "
                "(Trace_ValueJson): values nested to depth 3 over the 64-bit boundaries, every extension type at its boundaries, strings "
                "/ keys / ids over the Unicode classes and the characters JSON escapes, records that look like implicit forms or carry "
                "the escape words; entities with 0-3 parents / attributes / tags; entity maps of 0-5 entities; requests. For each: the "
                "specification's reading of the RECORDED encoding = the datum; the real decoder's result = the datum; the decoder's "
                "re-encoding repeats the bytes; alternative spellings (entity references flipped explicit <-> implicit in uid / parents / "
                "request positions; bare string, {fn,arg} and __extn for typed extension decoders; both EntityUID spellings) are the same "
                "datum per the specification and per the real decoder. Schema-guided decoding (Trace_ValueSchema): entities of every "
                "type of a schema with entity / extension types at every depth are written in the encoder's own spelling and in the "
                "implicit one (bare {type, id} where an entity is declared, bare string where an extension type is declared); the "
                "specification resolves the schema (SchemaModel), reads each document and coerces by the declared types; both readings "
                "and both real decoders (Entity / EntityMap UnmarshalJSONWithSchema) must give the entity. distinct = distinct data.")
    ctx.assumptions = ["schema-guided decoding is checked against one schema (entity / extension types at every depth of sets and "
                       "records, in attributes and tags, tags-only and attribute-only entity types)",
                       "Decision / Diagnostic round trips are not modelled (fixed-shape structs without value dispatch)",
                       "names are related to their characters by spelling tables computed by harness and checker"]
    q = ctx.quick
    add_m3(ctx, "vjson", "roundtrips", "vjson", 6000 if q else 200000)
    add_m3(ctx, "vjsonschema", "schema-guided", "vjsonschema", 1200 if q else 40000)
    add_m3(ctx, "djson", "diagnostics", "djson", 600 if q else 20000)
    return vlib.finish(ctx, confirm_all)


# ====================================================================== C10 totality

def _tj_text(x):
    if not isinstance(x, dict):
        return "?"
    if "s" in x:
        return json.dumps(cps(x["s"]))
    if "n" in x:
        return str(pretty.num(x["n"]))
    if "b" in x:
        return "true" if x["b"] else "false"
    if "a" in x:
        return "[" + ",".join(_tj_text(y) for y in x["a"] or []) + "]"
    if "o" in x:
        return "{" + ",".join(json.dumps(cps(m["k"])) + ":" + _tj_text(m["v"]) for m in x["o"] or []) + "}"
    return "null"


def _bad_stage(obs):
    for r in (obs or {}).get("runs") or []:
        for s in r.get("stages") or []:
            if s.get("outcome") not in ("value", "error"):
                return s
    return {}


def describe_total(ev, obs, entry):
    s = _bad_stage(obs if isinstance(obs, dict) else {})
    op = ev.get("op")
    if op == "total":
        doc = _tj_text(ev.get("doc"))
    elif op == "totalbytes":
        doc = bytes(ev.get("bytes") or []).decode("utf-8", "replace")
    elif op == "totaltext":
        doc = " ".join(tok_text2(t) for t in ev.get("tokens") or [])
    else:
        doc = "%s nested %s deep" % (ev.get("form"), ev.get("k"))
    return "total %s `%s` => stage %s: %s %s" % (ev.get("kind") or op, doc[:700], s.get("stage"), s.get("outcome"), (s.get("detail") or "")[:200])


def tok_text2(t):
    if t.get("t") in ("id", "kw", "op"):
        return t.get("s", "")
    if t.get("t") == "int":
        return "".join(str(d) for d in t.get("d") or [])
    return '"' + cps(t.get("raw")) + '"'


for _k in ("total", "totaltext", "totaldepth"):
    KINDS[_k] = dict(module=None, describe=describe_total)
KINDS["totalbytes"] = dict(module="Trace_Total", shrink=None, describe=describe_total)


def replay_cases(ctx, name, kind, cases_path, min_cases):
    d = os.path.dirname(cases_path)
    diffs, stats = os.path.join(d, name + ".diffs.ndjson"), os.path.join(d, name + ".stats.json")
    vlib.harness(["replay", "-in", cases_path, "-out", diffs, "-stats", stats], timeout=7200)
    st = json.load(open(stats))
    if st["cases"] < min_cases:
        raise Broken("%s: only %d cases replayed (expected >= %d)" % (name, st["cases"], min_cases))
    ctx.cov["traces_validated_against_impl"] += st["cases"]
    ctx.cov["evaluations"] += st["cases"]
    ctx.cov["distinct_nontrivial"] += st["distinct"]
    for s in st.get("samples", [])[:1]:
        ctx.sample(dict(stage=name, kind="case executed by the real code", **s))
    ctx.cov["stages"].append(dict(stage=name, cases=st["cases"], diffs=st["diffs"]))
    log("%s: replayed %d cases, %d differ" % (name, st["cases"], st["diffs"]))
    for dd in vlib.read_ndjson(diffs):
        ctx.candidates.append(dict(kind=kind, stage=name, event=dd["case"]))
    return st


@prop("C10")
def run_C10(ctx):
    ctx.level = "exploration"
    ctx.rule = ("spec/Totality.tla states the property (every stage of every run ends in a value or an error) and defines the input "
                "families. (a) MC_Totality reads seed documents recorded from the real encoders (policy, policy-set, value, entity, "
                "entity-map and schema JSON) and emits EVERY single-position mutation of each (subtree replaced by null / {} / [] / \"\" / "
                "0 / true, every element and member deleted, every member duplicated or renamed under an operator name or escape word); "
                "the harness feeds each to every decoder of its kind and every accepted value on to MarshalCedar / MarshalJSON / Encoder "
                "and cedar.Authorize, each stage under recover() and a 10 s deadline. (b) the token-mutation universe of C07 (every "
                "single-token deletion / duplication / replacement / swap of the representative policies, the named ungrammatical "
                "families) through Policy / PolicyList / PolicySet-from-bytes / Decoder. (c) nesting families (parentheses, !, -, if, "
                "sets, records, attribute chains, && chains, JSON arrays / records / Set / ! nodes, schema Set<> and record types) at "
                "depths 10^3 and 10^4 (thorough: 10^5; 2*10^4 for schema text, whose indenting printer has quadratic output), each in a child process because a Go stack overflow is fatal. (d) every truncation "
                "(thorough; every 7th offset quick) and random byte edits of valid documents of every kind incl. entity-UID text, "
                "schema text and request JSON, validated by Trace_Total. evaluations = inputs run; distinct_nontrivial = distinct inputs.")
    ctx.assumptions = ["arbitrary byte strings cannot be enumerated: the specification contributes structured families and the statement",
                       "'bounded time' is a 10 s deadline per stage (600 s per nesting case: the text parser's cost grows faster than linearly with "
                       "the nesting depth, which is slow, not a hang)",
                       "disagreement with the accept / reject verdict of the specification is reported under C07 / C09 / C13, not here"]
    q = ctx.quick
    # (a) every single-position mutation of recorded seed documents
    d = ctx.dir("mutants.gen")
    seeds = os.path.join(d, "seeds.in")
    vlib.harness(["seeds", "-seed", str(ctx.seed), "-n", str(36 if q else 240), "-out", seeds])
    t = time.time()
    p = vlib.tlc_start(d, "MC_Totality", GEN_CFG, ["mc/MC_Totality.tla"], 1, (), {"seeds.ndjson": seeds}, 7200)
    res = vlib.tlc_finish(p, d)
    ctx.cov["states"] += res["distinct"]
    ctx.cov["transitions"] += res["generated"]
    ctx.cov["stages"].append(dict(stage="mutants.gen", module="MC_Totality", states=res["distinct"], wall_s=round(time.time() - t, 1)))
    replay_cases(ctx, "mutants", "total", os.path.join(d, "cases.ndjson"), 2000)
    # (b) token mutations
    res = vlib.tlc(ctx, "tokens.gen", "MC_Syntax", GEN_CFG + SYNTAX_CONSTS + 'CONSTANT Mode = "mutants"\n', ["mc/MC_Syntax.tla"], 1, (), None, 7200)
    cases = os.path.join(res["dir"], "cases.ndjson")
    tcases = os.path.join(res["dir"], "totaltext.ndjson")
    with open(tcases, "w") as f:
        for k, c in enumerate(vlib.read_ndjson(cases)):
            if q and k % 3:
                continue
            f.write(json.dumps(dict(op="totaltext", tokens=c["tokens"])) + "\n")
    replay_cases(ctx, "tokens", "totaltext", tcases, 5000)
    # (c) nesting
    forms = ["parens", "not", "neg", "if", "set", "record", "access", "and", "jsonarray", "jsonrecord", "jsonnot", "jsonset", "schemaset", "schemarecord"]
    depths = [1000, 10000] if q else [1000, 10000, 100000]
    dd = ctx.dir("depth")
    dcases = os.path.join(dd, "cases.ndjson")
    # the schema text printer indents by depth: its OUTPUT is quadratic in the nesting depth (256 MB at 16 000), so the
    # schema forms stop at 20 000 -- slow is not a hang, and a deadline cannot tell them apart
    dcs = [dict(op="totaldepth", form=f, k=(min(k, 20000) if f.startswith("schema") else k)) for f in forms for k in depths]
    # mixed known / unknown keys, nested: 60 and 600 levels (a decoder that decodes a subtree twice per level needs
    # 2^depth steps: 40 levels are already out of reach)
    dcs += [dict(op="totaldepth", form=f, k=k) for f in ("jsonsetx", "jsonnotx", "jsonrecx") for k in (60, 600)]
    if not q:
        # 10^6: beyond what the recursive-descent parser, the folder and the evaluator survive (recorded known finding)
        dcs += [dict(op="totaldepth", form=f, k=1000000) for f in ("parens", "not", "jsonarray")]
    vlib.write_ndjson(dcases, dcs)
    replay_cases(ctx, "nesting", "totaldepth", dcases, len(forms))
    # (d) truncations and byte edits
    add_m3(ctx, "totalbytes", "bytes", "totalbytes", 6000 if q else 120000, params={"step": 7 if q else 1}, shards=(2 if q else vlib.MAX_SHARDS))
    return vlib.finish(ctx, confirm_all)


# ====================================================================== C16 / C17 schemas

vlib.TRACE_CFG["Trace_Schema"] = 'CONSTANT Focus = "codec"\n'


def _schema_brief(sw):
    out = []
    for ns in (sw or {}).get("ns") or []:
        d = []
        for e in ns.get("entities") or []:
            d.append("entity %s%s" % (e["name"], (" in [%s]" % ", ".join((p["q"] + "::" if p["q"] else "") + p["n"] for p in e.get("parents") or [])) if e.get("parents") else ""))
        for e in ns.get("enums") or []:
            d.append("entity %s enum" % e["name"])
        for c in ns.get("commons") or []:
            d.append("type %s = %s" % (c["name"], json.dumps(c["type"], sort_keys=True)[:120]))
        for a in ns.get("actions") or []:
            d.append("action %s%s" % (a["name"], (" in [%s]" % ", ".join((p["q"] + "::" if p["q"] else "") + p["id"] for p in a.get("parents") or [])) if a.get("parents") else ""))
        out.append("namespace %r { %s }" % (ns.get("name"), "; ".join(d)))
    return " ".join(out)


def describe_schema(ev, obs, entry):
    o = obs if isinstance(obs, dict) else {}
    why = "; ".join(str(w) for w in (entry.get("why") or ["?"]))
    extra = ""
    if "crash" in o or "panic" in o or "timeout" in o:
        extra = " [%s]" % (o.get("crash") or o.get("panic") or "deadline")
    for k in ("text", "json"):
        v = o.get(k)
        if isinstance(v, dict) and not v.get("ok", True):
            extra += " [%s: %s %s]" % (k, v.get("stage"), v.get("err"))
    r0 = o.get("r0")
    if isinstance(r0, dict) and "resolution differs" in why:
        extra += " [real resolution: %s; specification: %s]" % ("ok" if r0.get("ok") else "error `%s`" % r0.get("err"), "ok" if entry.get("specok") else "fails")
    return "schema %s => %s%s" % (_schema_brief(ev.get("schema"))[:900], why, extra[:600])


KINDS["schema"] = dict(module="Trace_Schema", shrink=None, describe=describe_schema)


def run_schema(ctx, focus, quick_graph_stride):
    vlib.TRACE_CFG["Trace_Schema"] = 'CONSTANT Focus = "%s"\n' % focus
    q = ctx.quick
    nobig = "CONSTANT BigK = 0\nCONSTANT BigSeed = 0\n"
    g3 = "CONSTANT NodesN = 3\nCONSTANT GStride = 1\n" + nobig
    vlib.tlc_check(ctx, "m1.graphs", "MC_SchemaGen", 'INIT Init\nNEXT Next\nCONSTANT Family = "graphs"\nINVARIANT Total\nCHECK_DEADLOCK FALSE\n' + g3,
                   ["mc/MC_SchemaGen.tla"])

    def thin(stride):
        state = {"k": 0}

        def f(case):
            return case
        return f
    add_gen_exec_validate(ctx, "schema", "names", "MC_SchemaGen", ["mc/MC_SchemaGen.tla"],
                          cfg=GEN_CFG + 'CONSTANT Family = "names"\nINVARIANT Total\n' + g3, min_cases=150, timeout=7200)
    add_gen_exec_validate(ctx, "schema", "graphs", "MC_SchemaGen", ["mc/MC_SchemaGen.tla"],
                          cfg=GEN_CFG + 'CONSTANT Family = "graphs"\n' + g3, min_cases=3500, timeout=7200)
    if not q:       # four nodes: every 13th of the 65536 graphs per relation (about 5000 graphs, 35000 schemas), M1 included
        add_gen_exec_validate(ctx, "schema", "graphs4", "MC_SchemaGen", ["mc/MC_SchemaGen.tla"],
                              cfg=GEN_CFG + 'CONSTANT Family = "graphs"\nINVARIANT Total\nCONSTANT NodesN = 4\nCONSTANT GStride = 13\n' + nobig,
                              min_cases=20000, timeout=7200)
    # graphs too large to enumerate: pseudo-random graphs on five and six nodes (DAGs / loop-free / arbitrary, four
    # densities), drawn by a hash seeded with VERIF_SEED; M1 (Total) is checked on them while they are generated
    for nodes, k in ((5, 60 if q else 1500), (6, 90 if q else 2500)):
        add_gen_exec_validate(ctx, "schema", "big%d" % nodes, "MC_SchemaGen", ["mc/MC_SchemaGen.tla"],
                              cfg=GEN_CFG + 'CONSTANT Family = "big"\nINVARIANT Total\nCONSTANT NodesN = %d\nCONSTANT GStride = 1\n'
                                            'CONSTANT BigK = %d\nCONSTANT BigSeed = %d\n' % (nodes, k, ctx.seed),
                              min_cases=k * 5, timeout=7200)


@prop("C17")
def run_C17(ctx):
    ctx.rule = ("spec/SchemaModel.tla defines resolution (qualification, RFC 70 shadowing, common-type inlining with cycle rejection, the "
                "disambiguation order of type references, action parents and action-hierarchy cycles, contexts must be records) as a total "
                "function from schema ASTs to a resolved schema or failure. M1 (MC_SchemaGen, invariant Total): Resolve is total on the "
                "universe, fails on exactly the cyclic common-type and action graphs and on none of the entity-parent graphs. Inputs "
                "enumerated by TLC: EVERY directed graph on three nodes as entity-parent relation, common-type reference relation and "
                "action `in` relation, in the empty namespace and in a namespace with qualified / unqualified references (3072 schemas); "
                "the names family (X declared as entity / common type / nothing in the empty namespace and in N x 11 reference forms x "
                "built-in shadowing); feature schemas (annotations with and without values and odd characters, optional and nested "
                "attributes, sets, extension types, enumerated entities, names that need quoting, every appliesTo shape, tags). The "
                "harness resolves the AST with the real resolver, renders it as Cedar schema text and as JSON, parses each back, resolves, "
                "renders again, and converts text -> JSON and JSON -> text. Trace_Schema: the real resolution = Resolve(schema); every "
                "round trip parses, resolves to the same resolved schema and repeats the bytes; both conversions commute with "
                "resolution. distinct = distinct schemas.")
    ctx.assumptions = ["the two concrete syntaxes are not modelled: the statement is about commuting with resolution",
                       "an EntityTypeRef in a type position is written like any type name; ASTs where a common type of that name is in "
                       "scope have no text form and are outside the quantifier",
                       "deviation of the code followed by the specification: an unreferenced common type is not resolved"]
    run_schema(ctx, "codec", 1)
    return vlib.finish(ctx, confirm_all)


@prop("C16")
def run_C16(ctx):
    ctx.level = "exploration"
    ctx.rule = ("Same inputs and runs as C17 (every directed graph on three nodes for the entity-parent, common-type and action relations; "
                "the names and feature families), executed in isolated worker processes: the real Resolve, both codecs, and -- for every "
                "schema that resolves -- validate.Validator.Policy (strict and permissive) over policies derived from the resolved schema "
                "(every entity type in every scope form and as `in` / `is` operand, every attribute accessed / tested / compared, every "
                "action in ==, in and in-set scopes, literals of every kind incl. set / record / extension VALUE nodes, and the same "
                "policies once more as the JSON decoder builds them), Validator.Entity / Entities over entities filled per declared "
                "shape and bare ones, Validator.Request per appliesTo combination. Trace_Schema (Focus = total) demands that every run "
                "returned: a worker death (fatal stack overflow), a panic or a 120 s deadline is a violation. M1: SchemaModel!Resolve is a "
                "total function on the universe. evaluations = schemas run.")
    ctx.assumptions = ["termination is a 120 s deadline per schema; crashes are observed, not proved absent",
                       "policies / entities / requests are derived from each resolved schema by the harness, not enumerated by TLC"]
    run_schema(ctx, "total", 1)
    return vlib.finish(ctx, confirm_all)


# ====================================================================== C15 validator soundness

_typing_table = {}


def typing_prep(f, d):
    return {"table.ndjson": _typing_table["path"]}


vlib.TRACE_PREP["Trace_Typing"] = typing_prep


def describe_typing(ev, obs, entry):
    if ev.get("op") == "typingenvs":
        return "typing universe: the real validator rejects conforming environment %s: %s (specification drift)" % (
            (entry.get("items") or [{}])[0].get("env"), json.dumps((obs or {}).get("why"))[:300])
    items = entry.get("items") or []
    parts = []
    for it in items[:3]:
        i = it["idx"] - 1
        p = (ev.get("policies") or [])[i]
        v = ((obs or {}).get("verdicts") or [{}] * 999)[i]
        if it.get("panic"):
            parts.append("%s => validator %s" % (pretty.sp(p), json.dumps(v)))
        else:
            env = _typing_table.get("envs", [])[it["env"] - 1] if _typing_table.get("envs") else {}
            parts.append("%s => accepted (%s), but under the conforming request %s evaluation fails with a %s error (%d of the environments)" % (
                pretty.sp(p), ", ".join(sorted(it.get("modes") or [])), pretty.sreq(env) if env else it["env"], it.get("cls"), it.get("n", 0)))
    return "typing " + " | ".join(parts)


def shrink_typing(ev, entry=None):
    if ev.get("op") != "typing" or len(ev.get("policies") or []) <= 1:
        return []
    return [dict(ev, policies=[ev["policies"][it["idx"] - 1]]) for it in (entry or {}).get("items") or []]


KINDS["typing"] = dict(module="Trace_Typing", shrink=shrink_typing, describe=describe_typing)


@prop("C15")
def run_C15(ctx):
    ctx.rule = ("spec/Typing.tla states what validation promises: for an accepted policy, under every request and store that conform to the "
                "schema, evaluation (the specification's evaluator, C01) does not fail with a type / arity / unknown-function error, a "
                "missing attribute (record, or entity present in the store) or a missing tag; overflow, absent entities and extension "
                "errors remain allowed. It also defines conformance (ConformsV / ConformsEntity / ConformsEnv over SchemaModel!Resolve); "
                "MC_Typing's environments are checked to conform (ASSUME EnvsConform) and the real Validator.Request / Entities must "
                "accept each of them (otherwise: specification drift, exit 2). MC_Typing enumerates the policies over a schema with "
                "required / optional attributes of every type, nested records, sets, the four extension types, tags, an optional "
                "entity-typed attribute, an action group and two actions with different contexts: every binary operator over every "
                "ordered pair of 39 typed leaves (attributes at depth 1-2 of principal / resource / context, tags, literals), every unary "
                "operator and 10 + 5 extension functions over the leaves, and 50 guard forms (has / hasTag before access in && / || / ! "
                "/ then / else positions, `is` guards, LUB of optional access in sets / records / if), under three action scopes. The real "
                "validator judges each policy in strict and permissive mode; Trace_Typing evaluates every ACCEPTED policy under all "
                "40 conforming environments (optional members present / absent, entities present in / absent from the store, both "
                "actions) and demands Typing!Sound. distinct = distinct policies.")
    ctx.assumptions = ["the typing rules themselves are not modelled: the statement is about what the real validator accepts",
                       "error classes come from the TLA+ evaluator (value-vs-failure agreement with the real evaluator is C01)",
                       "one schema and a bounded universe of conforming data; unsoundness that needs other shapes is missed"]
    q = ctx.quick
    res = vlib.tlc(ctx, "policies.gen", "MC_Typing", GEN_CFG + "INVARIANT EmitTable\nCONSTANT Stride = %d\nCONSTANT ScopeStride = %d\n" % (4 if q else 1, 7 if q else 1),
                   ["mc/MC_Typing.tla"], 1, (), None, 7200)
    d = res["dir"]
    table = vlib.read_ndjson(os.path.join(d, "table.ndjson"))[0]
    _typing_table.update(path=os.path.join(d, "table.ndjson"), envs=table["envs"])
    pols = [c["policy"] for c in vlib.read_ndjson(os.path.join(d, "cases.ndjson"))]
    if len(pols) < 500:
        raise Broken("only %d policies generated" % len(pols))
    events = [dict(op="typingenvs", schema=table["schema"], envs=table["envs"])]
    for k in range(0, len(pols), 100):
        events.append(dict(op="typing", schema=table["schema"], policies=pols[k:k + 100]))
    shards = 4 if q else vlib.MAX_SHARDS
    files = []
    for k in range(shards):
        inp, outp = os.path.join(d, "in.%d" % k), os.path.join(d, "ev.%d" % k)
        vlib.write_ndjson(inp, events[k::shards])
        vlib.harness(["exec", "-in", inp, "-out", outp])
        files.append(outp)
    ctx.cov["evaluations"] += len(pols)
    ctx.cov["distinct_nontrivial"] += len(set(json.dumps(p, sort_keys=True) for p in pols))
    acc = 0
    for f in files:
        for ev in vlib.read_ndjson(f):
            for v in (ev.get("obs") or {}).get("verdicts") or []:
                acc += v.get("strict") == "accept" or v.get("permissive") == "accept"
    ctx.extra["policies_accepted_by_the_real_validator"] = acc
    if acc < 50:
        raise Broken("the validator accepted only %d policies: the universe does not exercise the statement" % acc)
    ctx.sample(dict(stage="policies", kind="tlc-generated policies judged by the real validator", event=dict(vlib.read_ndjson(files[0])[-1], schema="(see table)")))
    results = vlib.tlc_validate(ctx, "policies", "Trace_Typing", files)
    for f, bad in results:
        if not bad:
            continue
        evs = vlib.read_ndjson(f)
        for b in bad:
            ev = evs[b["event"] - 1]
            if ev.get("op") == "typingenvs":
                raise Broken("specification drift: the real validator rejects a conforming environment: %s" % json.dumps(ev["obs"].get("why"))[:400])
            ctx.candidates.append(dict(kind="typing", stage="policies", event=ev))
    return vlib.finish(ctx, confirm_all)
