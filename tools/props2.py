"""Properties C08.. (codecs, totality, schema): same machinery as props.py"""
import hashlib, json, os, re

import pretty, vlib
from vlib import Broken, log
from props import (prop, KINDS, GEN_CFG, SYNTAX_CONSTS, add_m2, add_m3, add_gen_exec_validate, confirm_all, mc_cfg, envhash)


def cps(x):
    return "".join(chr(c) if 0 <= c < 0x110000 and not 0xD800 <= c < 0xE000 else "�" for c in (x or []))


# ====================================================================== C08 marshalling

def trace_tables(f, d):
    """TraceTables.tla for one trace file: the union of the events' spelling tables (words of the
    texts, names of the subjects).  TLC cannot look inside strings; these tables are how code points
    of the recorded text are related to the atomic names of the wire form."""
    words, names = {}, {}
    for ev in vlib.read_ndjson(f):
        o = ev.get("obs") or {}
        if not isinstance(o, dict):
            continue
        for key, tab in (("words", words), ("names", names)):
            for e in o.get(key) or []:
                tab[e["name"]] = e["cps"]

    def seq(tab):
        rows = []
        for name in sorted(tab):
            if any(ord(ch) < 32 or ord(ch) > 126 or ch in '"\\' for ch in name):
                raise Broken("spelling table: name %r is not a wire name" % name)
            rows.append('[name |-> "%s", cps |-> <<%s>>]' % (name, ", ".join(str(c) for c in tab[name])))
        return "<<" + ",\n  ".join(rows) + ">>"
    gd = os.path.join(d, "gen")
    os.makedirs(gd, exist_ok=True)
    path = os.path.join(gd, "TraceTables.tla")
    with open(path, "w") as fh:
        fh.write("----------------------------- MODULE TraceTables -----------------------------\n"
                 "TrWords == %s\nTrNames == %s\n"
                 "=============================================================================\n" % (seq(words), seq(names)))
    return {"TraceTables.tla": path}


vlib.TRACE_PREP["Trace_Marshal"] = trace_tables
MARSHAL_CFG = ("CONSTANT PathTable <- MCPathTable\nCONSTANT NameTable <- TrNames\nCONSTANT IdTable <- TrNames\n"
               "CONSTANT WordTable <- TrWords\nCONSTANT EnvStride = %d\n")
vlib.TRACE_CFG["Trace_Marshal"] = MARSHAL_CFG % 6


def describe_marshal(ev, obs, entry):
    why = "; ".join(entry.get("why") or ["?"])
    if ev.get("op") == "marshalset":
        ids = ", ".join(repr(i.get("id")) for i in ev.get("items") or [])
        txt = cps((obs or {}).get("settext")) if isinstance(obs, dict) else ""
        return "marshal set of policies with ids [%s] => %s; text `%s`" % (ids, why, txt[:600].replace("\n", " "))
    o = obs if isinstance(obs, dict) else {}
    subj = o.get("subject") or ev.get("policy")
    t1, t2 = cps(o.get("text")), cps(o.get("text2"))
    if o.get("retext") == "differs":
        # Negate(n) and the literal -n are both written "-n" but parenthesised differently; -0 comes back as 0
        def norm(t):        # drop every pair of parentheses directly around -N (to a fixpoint), read -0 as 0
            while True:
                u = re.sub(r"\(-(\d+)\)", r"-\1", t)
                if u == t:
                    return re.sub(r"(?<![\w.\"])-0(?![\w.])", "0", t)
                t = u
        if norm(t1) == norm(t2):
            why = why.replace("second rendering differs", "second rendering differs only around a negated integer literal")
    mapped = re.findall(r'ip\("::ffff:\d+\.\d+\.\d+\.\d+(?:/\d+)?"\)', t1)
    if mapped:
        why += " [text holds %s]" % mapped[0]
    s = "marshal (%s) %s => `%s` =>WHY: %s" % (ev.get("via"), pretty.sp(subj), t1.replace("\n", " ")[:500], why)
    if o.get("retext") == "differs":
        s += " =>SECOND: `%s`" % t2.replace("\n", " ")[:500]
    if isinstance(o.get("reparsed"), dict) and not o["reparsed"].get("ok"):
        s += "; parser: %s" % o["reparsed"].get("err")
    return s


KINDS["marshal"] = dict(module="Trace_Marshal", shrink=None, describe=describe_marshal)


@prop("C08")
def run_C08(ctx):
    ctx.rule = ("spec/Marshal.tla: a policy survives rendering iff effect, annotations and scope are the same and every condition "
                "evaluates identically (value or kind of failure, TLA+ evaluator) under every environment of the universe. "
                "M1: Lex(Spell(ts)) = ts and Parse(Render(a)) = a on the syntax universe (MC_Syntax). Inputs enumerated by TLC: "
                "(syntax) every AST of the C07 universe, every parent/child/position triple again over integer and boolean operands, "
                "value nodes that only programs / JSON can build (sets, records with odd keys, every boundary decimal / datetime / "
                "duration / ipaddr / long, as operands, receivers and arguments), annotations and strings over StrB, policy sets with "
                "ids in every byte-order pattern; (exprs) every policy of the expression universe. Each is rendered by the real "
                "MarshalCedar as built from the AST, as decoded from its JSON and as reparsed from its text; the text is parsed by the "
                "real parser (Policy and PolicyList), rendered again (bytes must repeat), and READ BY THE SPECIFICATION "
                "(Syntax!Lex + ParsePolicy over the recorded code points) -- a marshaller and parser that are wrong in the same way "
                "are still caught. Trace_Marshal judges every event. M3: random policies with random environments. "
                "distinct = distinct inputs.")
    ctx.assumptions = ["meaning is compared on finite environment sets (3 for the syntax universe, the 72 of Universe!EnvUW "
                       "(every 6th at the quick tier) for the expression universe, 3 random ones per random policy)",
                       "spelling tables (identifier words of the text, attribute / key / id names of the policy) are computed by the "
                       "harness and the checker: TLC cannot look inside strings",
                       "ASTs with no text form (entity types that are not paths, annotation keys that are not identifiers, "
                       "method calls without receiver) are outside the statement's quantifier and not generated"]
    q = ctx.quick
    vlib.TRACE_CFG["Trace_Marshal"] = MARSHAL_CFG % (6 if q else 1)
    vlib.tlc_check(ctx, "m1.lex", "MC_Syntax",
                   "INIT Init\nNEXT Next\nINVARIANT RoundTrip\nINVARIANT LexRoundTrip\nCHECK_DEADLOCK FALSE\n" + SYNTAX_CONSTS
                   + 'CONSTANT Mode = "ast"\n', ["mc/MC_Syntax.tla"])
    add_gen_exec_validate(ctx, "marshal", "syntax", "MC_Syntax", ["mc/MC_Syntax.tla"],
                          cfg=GEN_CFG + SYNTAX_CONSTS + 'CONSTANT Mode = "marshal"\n', min_cases=5000, timeout=7200)
    consts = "CONSTANT UseDepth2 = %s\nCONSTANT Stride = %d\n" % ("FALSE" if q else "TRUE", 2 if q else 1)
    add_gen_exec_validate(ctx, "marshal", "exprs", "MC_MarshalExpr", ["mc/MC_MarshalExpr.tla"], cfg=GEN_CFG + consts,
                          min_cases=1000, timeout=7200)
    add_m3(ctx, "marshal", "random", "marshal", 1500 if q else 40000)
    return vlib.finish(ctx, confirm_all)
