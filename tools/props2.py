"""Properties C08.. (codecs, totality, schema): same machinery as props.py"""
import hashlib, json, os, re

import pretty, vlib
from vlib import Broken, log
from props import (prop, KINDS, GEN_CFG, SYNTAX_CONSTS, add_m2, add_m3, add_gen_exec_validate, confirm_all, mc_cfg, envhash)


def cps(x):
    return "".join(chr(c) if 0 <= c < 0x110000 and not 0xD800 <= c < 0xE000 else "�" for c in (x or []))


# ====================================================================== C08 marshalling

def trace_tables(f, d):
    """TraceTables.tla for one trace file: the union of the events' spelling tables (words of the
    texts, names of the subjects).  TLC cannot look inside strings; these tables are how code points
    of the recorded text are related to the atomic names of the wire form."""
    words, names = {}, {}
    for ev in vlib.read_ndjson(f):
        o = ev.get("obs") or {}
        if not isinstance(o, dict):
            continue
        for key, tab in (("words", words), ("names", names)):
            for e in o.get(key) or []:
                tab[e["name"]] = e["cps"]

    def seq(tab):
        rows = []
        for name in sorted(tab):
            if any(ord(ch) < 32 or ord(ch) > 126 or ch in '"\\' for ch in name):
                raise Broken("spelling table: name %r is not a wire name" % name)
            rows.append('[name |-> "%s", cps |-> <<%s>>]' % (name, ", ".join(str(c) for c in tab[name])))
        return "<<" + ",\n  ".join(rows) + ">>"
    gd = os.path.join(d, "gen")
    os.makedirs(gd, exist_ok=True)
    path = os.path.join(gd, "TraceTables.tla")
    with open(path, "w") as fh:
        fh.write("----------------------------- MODULE TraceTables -----------------------------\n"
                 "EXTENDS Json\n"
                 "TrWords == %s\nTrNames == %s\n"
                 "TrJ == JsonDeserialize(\"tables.json\")\n"
                 "TrByCps == [on |-> TRUE, names |-> TrJ.names, nameKeys |-> DOMAIN TrJ.names, "
                 "words |-> TrJ.words, wordKeys |-> DOMAIN TrJ.words]\n"
                 "=============================================================================\n" % (seq(words), seq(names)))

    def key(cs):
        return "<<" + ", ".join(str(c) for c in cs) + ">>"      # = TLC's ToString of the tuple
    jpath = os.path.join(gd, "tables.json")
    with open(jpath, "w") as fh:
        json.dump({"names": {key(v): k for k, v in names.items()},
                   "words": {key(v): k for k, v in words.items()}}, fh)
    return {"TraceTables.tla": path, "tables.json": jpath}


vlib.TRACE_PREP["Trace_Marshal"] = trace_tables
MARSHAL_CFG = ("CONSTANT PathTable <- MCPathTable\nCONSTANT NameTable <- TrNames\nCONSTANT IdTable <- TrNames\n"
               "CONSTANT WordTable <- TrWords\nCONSTANT ByCps <- TrByCps\nCONSTANT EnvStride = %d\n")
vlib.TRACE_CFG["Trace_Marshal"] = MARSHAL_CFG % 6


def describe_marshal(ev, obs, entry):
    why = "; ".join(entry.get("why") or ["?"])
    if ev.get("op") == "marshalset":
        ids = ", ".join(repr(i.get("id")) for i in ev.get("items") or [])
        txt = cps((obs or {}).get("settext")) if isinstance(obs, dict) else ""
        return "marshal set of policies with ids [%s] => %s; text `%s`" % (ids, why, txt[:600].replace("\n", " "))
    o = obs if isinstance(obs, dict) else {}
    subj = o.get("subject") or ev.get("policy")
    t1, t2 = cps(o.get("text")), cps(o.get("text2"))
    if o.get("retext") == "differs":
        # Negate(n) and the literal -n are both written "-n" but parenthesised differently; -0 comes back as 0
        def norm(t):        # drop every pair of parentheses directly around -N (to a fixpoint), read -0 as 0
            while True:
                u = re.sub(r"\(-(\d+)\)", r"-\1", t)
                if u == t:
                    return re.sub(r"(?<![\w.\"])-0(?![\w.])", "0", t)
                t = u
        if norm(t1) == norm(t2):
            why = why.replace("second rendering differs", "second rendering differs only around a negated integer literal")
    mapped = re.findall(r'ip\("::ffff:\d+\.\d+\.\d+\.\d+(?:/\d+)?"\)', t1)
    if mapped:
        why += " [text holds %s]" % mapped[0]
    s = "marshal (%s) %s => `%s` =>WHY: %s" % (ev.get("via"), pretty.sp(subj), t1.replace("\n", " ")[:500], why)
    if o.get("retext") == "differs":
        s += " =>SECOND: `%s`" % t2.replace("\n", " ")[:500]
    if isinstance(o.get("reparsed"), dict) and not o["reparsed"].get("ok"):
        s += "; parser: %s" % o["reparsed"].get("err")
    return s


KINDS["marshal"] = dict(module="Trace_Marshal", shrink=None, describe=describe_marshal)


@prop("C08")
def run_C08(ctx):
    ctx.rule = ("spec/Marshal.tla: a policy survives rendering iff effect, annotations and scope are the same and every condition "
                "evaluates identically (value or kind of failure, TLA+ evaluator) under every environment of the universe. "
                "M1: Lex(Spell(ts)) = ts and Parse(Render(a)) = a on the syntax universe (MC_Syntax). Inputs enumerated by TLC: "
                "(syntax) every AST of the C07 universe, every parent/child/position triple again over integer and boolean operands, "
                "value nodes that only programs / JSON can build (sets, records with odd keys, every boundary decimal / datetime / "
                "duration / ipaddr / long, as operands, receivers and arguments), annotations and strings over StrB, policy sets with "
                "ids in every byte-order pattern; (exprs) every policy of the expression universe. Each is rendered by the real "
                "MarshalCedar as built from the AST, as decoded from its JSON and as reparsed from its text; the text is parsed by the "
                "real parser (Policy and PolicyList), rendered again (bytes must repeat), and READ BY THE SPECIFICATION "
                "(Syntax!Lex + ParsePolicy over the recorded code points) -- a marshaller and parser that are wrong in the same way "
                "are still caught. Trace_Marshal judges every event. M3: random policies with random environments. "
                "distinct = distinct inputs.")
    ctx.assumptions = ["meaning is compared on finite environment sets (3 for the syntax universe, the 72 of Universe!EnvUW "
                       "(every 6th at the quick tier) for the expression universe, 3 random ones per random policy)",
                       "spelling tables (identifier words of the text, attribute / key / id names of the policy) are computed by the "
                       "harness and the checker: TLC cannot look inside strings",
                       "ASTs with no text form (entity types that are not paths, annotation keys that are not identifiers, "
                       "method calls without receiver) are outside the statement's quantifier and not generated"]
    q = ctx.quick
    vlib.TRACE_CFG["Trace_Marshal"] = MARSHAL_CFG % (6 if q else 1)
    vlib.tlc_check(ctx, "m1.lex", "MC_Syntax",
                   "INIT Init\nNEXT Next\nINVARIANT RoundTrip\nINVARIANT LexRoundTrip\nCHECK_DEADLOCK FALSE\n" + SYNTAX_CONSTS
                   + 'CONSTANT Mode = "ast"\n', ["mc/MC_Syntax.tla"])
    add_gen_exec_validate(ctx, "marshal", "syntax", "MC_Syntax", ["mc/MC_Syntax.tla"],
                          cfg=GEN_CFG + SYNTAX_CONSTS + 'CONSTANT Mode = "marshal"\n', min_cases=5000, timeout=7200)
    consts = "CONSTANT UseDepth2 = %s\nCONSTANT Stride = %d\n" % ("FALSE" if q else "TRUE", 2 if q else 1)
    add_gen_exec_validate(ctx, "marshal", "exprs", "MC_MarshalExpr", ["mc/MC_MarshalExpr.tla"], cfg=GEN_CFG + consts,
                          min_cases=1000, timeout=7200)
    add_m3(ctx, "marshal", "random", "marshal", 1500 if q else 40000)
    return vlib.finish(ctx, confirm_all)


# ====================================================================== C12 text forms

TEXT_CFG = ("CONSTANT PathTable <- MCPathTable\nCONSTANT NameTable <- TrNames\nCONSTANT IdTable <- TrNames\n"
            "CONSTANT WordTable <- TrWords\nCONSTANT ByCps <- TrByCps\n")
vlib.TRACE_PREP["Trace_Text"] = trace_tables
vlib.TRACE_CFG["Trace_Text"] = TEXT_CFG


def _obs3(o):
    ways = [(w, pretty.so(o[w]).strip() if isinstance(o.get(w), dict) else "?") for w in ("parse", "json", "eval") if w in o]
    if len(set(s for _, s in ways)) == 1:
        return ways[0][1]
    return " ".join("%s=%s" % ws for ws in ways)


def describe_parsetext(ev, obs, entry):
    exp = (ev.get("exp") or [{}])[0]
    o = (obs or [{}])[0] if isinstance(obs, list) else {}
    return "parse %s('%s') => observed %s, specified %s" % (ev.get("kind"), cps((ev.get("texts") or [[]])[0]), _obs3(o), pretty.so(exp).strip())


def describe_construct(ev, obs, entry):
    exp = (ev.get("exp") or [{}])[0]
    o = (obs or [{}])[0] if isinstance(obs, list) else {}
    if ev.get("fn") == "NewDecimal":
        call = "NewDecimal(%d, %s)" % (pretty.num(ev["is"][0]), ev["e"])
    else:
        f = ev["fs"][0]
        p = f["p"]
        call = "NewDecimalFromFloat(%s)" % ({9999: "NaN", 9998: "+Inf", 9997: "-Inf"}.get(p) or "%d * 2^%d" % (pretty.num(f["m"]), p))
    got = " ".join("%s=%s" % (w, pretty.so(o[w]).strip()) for w in ("new", "fromInt") if isinstance(o.get(w), dict))
    return "construct %s => observed %s, exact result %s" % (call, got, pretty.so(exp).strip())


KINDS["parsetext"] = dict(module=None, describe=describe_parsetext)
KINDS["construct"] = dict(module=None, describe=describe_construct)


def describe_textform(ev, obs, entry):
    o = obs if isinstance(obs, dict) else {}
    v = ev.get("v") or {}
    why = entry.get("why") or []
    exp = entry.get("exp") or {}
    kind = {"dec": "decimal", "dt": "datetime", "dur": "duration", "ip": "ip", "ent": "entity"}.get(v.get("k"), v.get("k"))
    parts = []
    if "panic" in why or "cedar" not in o:
        return "text form of %s => panic %s" % (pretty.sv(v), json.dumps(o)[:200])
    if "parse" in why:
        parts.append("parse %s('%s') => observed %s, specified %s" % (kind, cps(o.get("str")), pretty.so(o.get("reparsed") or {}).strip(), pretty.sv(v)))
    if "print" in why:
        parts.append("print %s %s => '%s', which the documented syntax reads as %s" % (kind, pretty.sv(v), cps(o.get("str")), pretty.so(exp.get("str") or {}).strip()))
    if "cedar" in why or "evalback" in why:
        parts.append("cedar text of %s => `%s`: the specification reads %s, the real parser and evaluator %s" % (
            pretty.sv(v), cps(o.get("cedar"))[:300], pretty.so(exp.get("cedar") or {}).strip(), pretty.so(o.get("evalback") or {}).strip()))
    return "; ".join(parts)


KINDS["textform"] = dict(module="Trace_Text", shrink=None, describe=describe_textform)


def add_table_m2(ctx, name, module, extra, cfg, min_cases, listkeys, timeout=7200):
    """M2 for table rows (a list of inputs with a list of expected results): every differing index becomes its own
    one-element case, so that confirmation and known-finding matching work per input"""
    before = len(ctx.candidates)
    st = vlib.generate_and_replay(ctx, name, module, cfg, extra, min_cases=min_cases, timeout=timeout)
    ctx.candidates = ctx.candidates[:before]
    for dd in vlib.read_ndjson(os.path.join(ctx.work, name + ".gen", "diffs.ndjson")):
        c = dd["case"]
        for i in dd["bad"]:
            if i < 0:
                raise Broken("%s: observation list has the wrong length" % name)
            one = dict(c)
            for k in listkeys:
                if k in one:
                    one[k] = [c[k][i]]
            one["exp"] = [c["exp"][i]]
            ctx.candidates.append(dict(kind=c["op"], stage=name, event=one))
    return st


@prop("C12")
def run_C12(ctx):
    ctx.rule = ("spec/TextForms.tla over CedarExt: the documented literal syntax of decimal / duration / datetime / ipaddr as parsers "
                "over code points with exact multi-limb arithmetic and 64-bit range; ReadValue = the specification's lexer + expression "
                "grammar + evaluator; exact constructors (NewDecimalExact = i * 10^e or failure). M2 (MC_TextForms): every literal of "
                "the boundary lists, every literal assembled from components (sign x integer part x fraction; year x month-day x "
                "time/offset incl. expanded years; unit subsets in and out of order with quantities at each unit's overflow edge; "
                "v4/v6 forms x prefix suffixes) and every single-character deletion / replacement / insertion / transposition of 11 "
                "representative literals, with the specified value or rejection, executed through types.Parse*, the typed __extn JSON "
                "decoder and the constructor function in the evaluator; NewDecimal(i, e) for the boundary longs and the wrap-around "
                "candidates ceil(k * 2^64 / 10^e) x every exponent -6..16, NewDecimalFromInt, NewDecimalFromFloat on exactly "
                "representable doubles, the range edge, NaN and infinities. M3 (Trace_Text): values of every kind at their boundaries "
                "and at random (entity ids, strings and record keys over the Unicode classes; thorough: every Unicode scalar value) "
                "are printed by the real String() / MarshalCedar(); TLC reads the recorded code points with the specification's own "
                "parsers and compares with the value, and checks what the real parsers / evaluator read back. distinct = distinct rows / events.")
    ctx.assumptions = ["the literal syntaxes in CedarExt are a transcription of the Cedar documents (RFC 80 for datetime / duration)",
                       "Unicode printability tables are not modelled: any escape spelling that unescapes to the character is accepted",
                       "NewDecimalFromFloat is documented as approximate: exactness is demanded only where the product with 10^4 is "
                       "exact in a double; at the range edge only 'error, not a wrapped value' is demanded",
                       "the type part of an entity UID text is not validated by the statement's reading used here"]
    q = ctx.quick
    add_table_m2(ctx, "tables", "MC_TextForms", ["mc/MC_TextForms.tla"], GEN_CFG + SYNTAX_CONSTS, 40, ("texts", "is", "fs"))
    add_m3(ctx, "textform", "forms", "text", 8000 if q else 160000)
    if q:
        add_m3(ctx, "textform", "unicode", "text", 1, params={"sweep": "0-0x10ffff", "step": "257"}, shards=2)
    else:
        vlib.LIGHT_JVM = False
        add_m3(ctx, "textform", "unicode", "text", 1, params={"sweep": "0-0x10ffff", "step": "1"}, shards=vlib.MAX_SHARDS)
    return vlib.finish(ctx, confirm_all)
