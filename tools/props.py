"""Per-property check definitions (stages, bounds per tier) and confirmation logic."""
import json, os
import vlib
from vlib import Broken, log
import pretty

GEN_CFG = "INIT Init\nNEXT Next\nINVARIANT Emit\nCHECK_DEADLOCK FALSE\n"

REGISTRY = {}


def prop(pid):
    def deco(f):
        REGISTRY[pid] = f
        return f
    return deco


# ------------------------------------------------------------------ eval-shaped candidates
# A candidate of kind "eval" is (env, expr): the real evaluator's observation for
# expr under env differs from what the specification defines.

ERR_NODE = {"op": "add", "l": {"op": "val", "v": {"k": "long", "n": {"neg": False, "mag": [1]}}},
            "r": {"op": "val", "v": {"k": "str", "s": [97]}}}

CHILD_KEYS = ("l", "r", "a", "c", "t", "e")


def children(e):
    """(container, key) references of the sub-expressions of e, in evaluation order"""
    refs = []
    for k in CHILD_KEYS:
        if k in e and isinstance(e[k], dict) and "op" in e[k]:
            refs.append((e, k))
    for k in ("args", "els"):
        if k in e and isinstance(e[k], list) and e.get("op") in ("ext", "set"):
            for i in range(len(e[k])):
                refs.append((e[k], i))
    if e.get("op") == "rec":
        for p in e.get("kv", []):
            refs.append((p, "val"))
    return refs


def postorder(e):
    """list of (node, start) in post-order; node i covers indices start..i"""
    out = []

    def walk(n):
        start = len(out)
        for cont, k in children(n):
            walk(cont[k])
        out.append((n, start))
    walk(e)
    return out


def replace_at(e, repl):
    """deep copy of e with the post-order positions in repl replaced"""
    e = json.loads(json.dumps(e))
    counter = [0]

    def walk(n):
        for cont, k in children(n):
            sub = walk(cont[k])
            if sub is not None:
                cont[k] = sub
        i = counter[0]
        counter[0] += 1
        return repl.get(i)
    r = walk(e)
    return r if r is not None else e


def literal_of(exp):
    if exp.get("ok"):
        return {"op": "val", "v": exp["v"]}
    return ERR_NODE


def validate_eval_events(ctx, name, events):
    """fresh-process re-execution + TLC re-evaluation of eval events; returns per event {idx: exp}"""
    d = ctx.dir(name)
    inp, outp = os.path.join(d, "in.ndjson"), os.path.join(d, "ev.ndjson")
    vlib.write_ndjson(inp, events)
    vlib.harness(["exec", "-in", inp, "-out", outp])
    res = vlib.tlc_validate(ctx, name, "Trace_Eval", [outp])
    execd = vlib.read_ndjson(outp)
    per = [dict() for _ in events]
    for _, bad in res:
        for b in bad:
            for it in b["items"]:
                per[b["event"] - 1][it["idx"] - 1] = it["exp"]
    return per, execd


def confirm_eval(ctx, cands):
    items, seen = [], set()
    for c in cands:
        key = json.dumps([c["env"], c["expr"]], sort_keys=True)
        if key not in seen:
            seen.add(key)
            items.append(dict(env=c["env"], expr=c["expr"], stage=c.get("stage"), first=True))
    confirmed = []
    for rnd in range(5):
        if not items:
            break
        events, posts = [], []
        for it in items:
            po = postorder(it["expr"])
            posts.append(po)
            events.append({"op": "eval", "env": it["env"], "exprs": [n for n, _ in po]})
        per, execd = validate_eval_events(ctx, "confirm%d" % rnd, events)
        nxt = []
        for it, po, bad, ev in zip(items, posts, per, execd):
            root = len(po) - 1
            if root not in bad:
                if it["first"]:
                    raise Broken("candidate did not reproduce on re-execution: %s" % pretty.se(it["expr"])[:300])
                continue        # repaired tree is fine: every difference was explained
            minimal = [i for i in sorted(bad) if not any(po[i][1] <= j < i for j in bad)]
            for i in minimal:
                node = po[i][0]
                obs = ev["obs"][i]
                descr = "eval %s => observed %s%s, specified %s" % (
                    pretty.se(node), pretty.so(obs),
                    (" az=" + obs["az"]) if obs.get("az") not in (None, "n/a") and pretty.so(obs) == pretty.so(bad[i]) else "",
                    pretty.so(bad[i]))
                confirmed.append(dict(kind="eval", stage=it["stage"], descr=descr, exp=bad[i], obs=obs,
                                      case={"op": "eval", "env": it["env"], "exprs": [node]}))
            if root not in minimal:
                # repair the explained sub-expressions with what the specification defines
                # and re-check the rest of the tree
                nxt.append(dict(env=it["env"], stage=it["stage"], first=False,
                                expr=replace_at(it["expr"], {i: literal_of(bad[i]) for i in minimal})))
        items = nxt
    return confirmed


def eval_candidates_from_diffs(ctx):
    """turn the generic m2 candidates of eval cases into (env, expr) candidates"""
    out = []
    for c in ctx.candidates:
        if c["kind"] == "m2" and c["case"].get("op") == "eval":
            raise Broken("unexpected")
    return out


def add_eval_m2(ctx, name, module, extra, cfg=GEN_CFG, min_cases=1, timeout=3600):
    before = len(ctx.candidates)
    st = vlib.generate_and_replay(ctx, name, module, cfg, extra, min_cases=min_cases, timeout=timeout)
    new, rest = ctx.candidates[before:], ctx.candidates[:before]
    ctx.candidates = rest
    diffs = vlib.read_ndjson(os.path.join(ctx.work, name + ".gen", "diffs.ndjson"))
    for dd in diffs:
        c = dd["case"]
        for i in dd["bad"]:
            if i < 0:
                raise Broken("%s: observation list has the wrong length" % name)
            ctx.candidates.append(dict(kind="eval", stage=name, env=c["env"], expr=c["exprs"][i]))
    ctx.cov["evaluations"] += sum(len(c.get("exprs", [])) for c in [])
    return st


def add_eval_m3(ctx, name, n, depth):
    files, st = vlib.drive(ctx, name, "eval", n, params={"depth": depth})
    res = vlib.tlc_validate(ctx, name, "Trace_Eval", files)
    for f, bad in res:
        if not bad:
            continue
        events = vlib.read_ndjson(f)
        for b in bad:
            ev = events[b["event"] - 1]
            for it in b["items"]:
                ctx.candidates.append(dict(kind="eval", stage=name, env=ev["env"], expr=ev["exprs"][it["idx"] - 1]))
    return st


@prop("C01")
def run_C01(ctx):
    ctx.rule = ("M2: TLC enumerates the operator x boundary-operand tables (MC_EvalTables: every row is one environment "
                "and a sequence of expressions) and computes the specified result; every expression is executed by the "
                "real x/exp/eval.Eval and, wrapped in a one-policy set, by cedar.Authorize; compared on value-or-failure. "
                "M3: seeded random expression trees over random stores are evaluated by the real code and every event is "
                "validated by TLC against CedarEval (Trace_Eval). distinct = distinct rows / events by content.")
    ctx.assumptions = ["the TLA+ evaluator (CedarEval/CedarExt/Num64) is a transcription of the Cedar language documents",
                       "only value-vs-failure and the value are compared, not error classes or messages",
                       "wire codec harness/cwf (self-tested at setup) is trusted"]
    add_eval_m2(ctx, "tables", "MC_EvalTables", ["mc/MC_EvalTables.tla"], min_cases=1000)
    if ctx.quick:
        add_eval_m3(ctx, "random", 24000, 5)
    else:
        add_eval_m3(ctx, "random", 480000, 7)
    return vlib.finish(ctx, confirm_eval)


# ------------------------------------------------------------------ replay of a stored violation

def replay(ctx, path):
    r = json.load(open(path))
    kind = r.get("kind")
    if kind == "eval":
        c = r["case"]
        ctx.candidates = [dict(kind="eval", stage="replay", env=c["env"], expr=e) for e in c["exprs"]]
        try:
            confirmed = confirm_eval(ctx, ctx.candidates)
        except Broken as e:
            if "did not reproduce" in str(e):
                print("replay: not reproduced on this tree")
                ctx.cleanup()
                return 0
            raise
        for c in confirmed:
            print("VIOLATION property=%s replay=%s" % (r["property"], path))
            log("  " + c["descr"][:400])
        ctx.cleanup()
        return 1 if confirmed else 0
    raise Broken("unknown replay kind %r" % kind)
