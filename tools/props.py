"""Per-property check definitions (stages, bounds per tier) and confirmation logic."""
import hashlib, json, os
import vlib
from vlib import Broken, log
import pretty

GEN_CFG = "INIT Init\nNEXT Next\nINVARIANT Emit\nCHECK_DEADLOCK FALSE\n"

REGISTRY = {}


def prop(pid):
    def deco(f):
        REGISTRY[pid] = f
        return f
    return deco


def envhash(env):
    return hashlib.sha1(json.dumps(env, sort_keys=True).encode()).hexdigest()[:8]


# ====================================================================== eval-shaped candidates
# A candidate of kind "eval" is (env, expr): the real evaluator's observation for
# expr under env differs from what the specification defines.

ERR_NODE = {"op": "add", "l": {"op": "val", "v": {"k": "long", "n": {"neg": False, "mag": [1]}}},
            "r": {"op": "val", "v": {"k": "str", "s": [97]}}}

CHILD_KEYS = ("l", "r", "a", "c", "t", "e")


def children(e):
    """(container, key) references of the sub-expressions of e, in evaluation order"""
    refs = []
    for k in CHILD_KEYS:
        if k in e and isinstance(e[k], dict) and "op" in e[k]:
            refs.append((e, k))
    for k in ("args", "els"):
        if k in e and isinstance(e[k], list) and e.get("op") in ("ext", "set"):
            for i in range(len(e[k])):
                refs.append((e[k], i))
    if e.get("op") == "rec":
        for p in e.get("kv") or []:
            refs.append((p, "val"))
    return refs


def postorder(e):
    """list of (node, start) in post-order; node i covers indices start..i"""
    out = []

    def walk(n):
        start = len(out)
        for cont, k in children(n):
            walk(cont[k])
        out.append((n, start))
    walk(e)
    return out


def replace_at(e, repl):
    """deep copy of e with the post-order positions in repl replaced"""
    e = json.loads(json.dumps(e))
    counter = [0]

    def walk(n):
        for cont, k in children(n):
            sub = walk(cont[k])
            if sub is not None:
                cont[k] = sub
        i = counter[0]
        counter[0] += 1
        return repl.get(i)
    r = walk(e)
    return r if r is not None else e


def literal_of(exp):
    if exp.get("ok"):
        return {"op": "val", "v": exp["v"]}
    return ERR_NODE


def exec_and_validate(ctx, name, module, events):
    """fresh-process re-execution of events + TLC re-validation; returns (bad entries by event index, executed events)"""
    d = ctx.dir(name)
    inp, outp = os.path.join(d, "in.ndjson"), os.path.join(d, "ev.ndjson")
    vlib.write_ndjson(inp, [{k: v for k, v in e.items() if k not in ("obs", "exp")} for e in events])
    vlib.harness(["exec", "-in", inp, "-out", outp])
    res = vlib.tlc_validate(ctx, name, module, [outp])
    execd = vlib.read_ndjson(outp)
    bad = {}
    for _, entries in res:
        for b in entries:
            bad[b["event"] - 1] = b
    return bad, execd


def confirm_eval(ctx, cands):
    items, seen = [], set()
    for c in cands:
        key = json.dumps([c["env"], c["expr"]], sort_keys=True)
        if key not in seen:
            seen.add(key)
            items.append(dict(env=c["env"], expr=c["expr"], stage=c.get("stage"), first=True))
    confirmed = []
    for rnd in range(20):
        if not items:
            break
        events, posts = [], []
        for it in items:
            po = postorder(it["expr"])
            posts.append(po)
            events.append({"op": "eval", "env": it["env"], "exprs": [n for n, _ in po]})
        badev, execd = exec_and_validate(ctx, "confirm.eval%d" % rnd, "Trace_Eval", events)
        nxt = []
        for k, (it, po, ev) in enumerate(zip(items, posts, execd)):
            bad = {x["idx"] - 1: x["exp"] for x in badev.get(k, {}).get("items", [])}
            root = len(po) - 1
            if root not in bad:
                if it["first"]:
                    # may depend on map iteration order: retry in fresh processes before giving up
                    it["tries"] = it.get("tries", 0) + 1
                    if it["tries"] > 12:
                        UNREPRODUCED.append("eval %s" % pretty.se(it["expr"])[:300])
                    else:
                        nxt.append(it)
                continue        # repaired tree is fine: every difference was explained
            minimal = [i for i in sorted(bad) if not any(po[i][1] <= j < i for j in bad)]
            for i in minimal:
                node = po[i][0]
                obs = ev["obs"][i]
                same_val = pretty.so(obs) == pretty.so(bad[i])
                descr = "eval %s => observed %s%s, specified %s" % (
                    pretty.se(node), pretty.so(obs).strip(),
                    (" az=" + obs["az"]) if same_val and obs.get("az") not in (None, "n/a") else "",
                    pretty.so(bad[i]).strip())
                if uses_env(node):
                    descr += " [env %s]" % envhash(it["env"])
                confirmed.append(dict(kind="eval", stage=it["stage"], descr=descr, exp=bad[i], obs=obs,
                                      case={"op": "eval", "env": it["env"], "exprs": [node]}))
            if root not in minimal:
                # repair the explained sub-expressions with what the specification defines
                # and re-check the rest of the tree
                nxt.append(dict(env=it["env"], stage=it["stage"], first=False,
                                expr=replace_at(it["expr"], {i: literal_of(bad[i]) for i in minimal})))
        items = nxt
    return confirmed


def uses_env(e):
    if e.get("op") in ("var", "in", "isIn", "has", "access", "hasTag", "getTag"):
        return True
    return any(uses_env(c[k]) for c, k in children(e))


def add_eval_m2(ctx, name, module, extra, cfg=GEN_CFG, min_cases=1, timeout=3600):
    before = len(ctx.candidates)
    st = vlib.generate_and_replay(ctx, name, module, cfg, extra, min_cases=min_cases, timeout=timeout)
    ctx.candidates = ctx.candidates[:before]
    for dd in vlib.read_ndjson(os.path.join(ctx.work, name + ".gen", "diffs.ndjson")):
        c = dd["case"]
        for i in dd["bad"]:
            if i < 0:
                raise Broken("%s: observation list has the wrong length" % name)
            ctx.candidates.append(dict(kind="eval", stage=name, env=c["env"], expr=c["exprs"][i]))
    return st


def add_eval_m3(ctx, name, n, depth):
    files, st = vlib.drive(ctx, name, "eval", n, params={"depth": depth})
    res = vlib.tlc_validate(ctx, name, "Trace_Eval", files)
    for f, bad in res:
        if not bad:
            continue
        events = vlib.read_ndjson(f)
        for b in bad:
            ev = events[b["event"] - 1]
            for it in b["items"]:
                ctx.candidates.append(dict(kind="eval", stage=name, env=ev["env"], expr=ev["exprs"][it["idx"] - 1]))
    return st


# ====================================================================== event-shaped candidates
# A candidate of kind K carries a whole event (op + inputs).  Confirmation re-executes
# it in a fresh process and lets TLC re-validate it with the area's trace module; a
# per-kind `shrink` proposes smaller events (e.g. one policy at a time) and the smallest
# ones that still fail are reported.

KINDS = {}      # kind -> dict(module=..., shrink=fn(event)->[events], describe=fn(event, obs, entry)->str)


def add_m2(ctx, kind, name, module, extra, cfg=GEN_CFG, min_cases=1, timeout=3600, workers=1, args=()):
    before = len(ctx.candidates)
    st = vlib.generate_and_replay(ctx, name, module, cfg, extra, min_cases=min_cases, timeout=timeout, workers=workers, args=args)
    new = ctx.candidates[before:]
    ctx.candidates = ctx.candidates[:before]
    for c in new:
        ctx.candidates.append(dict(kind=kind, stage=name, event=c["case"]))
    return st


def add_m3(ctx, kind, name, area, n, params=None, shards=None):
    module = KINDS[kind]["module"]
    files, st = vlib.drive(ctx, name, area, n, params=params, shards=shards)
    res = vlib.tlc_validate(ctx, name, module, files)
    for f, bad in res:
        if not bad:
            continue
        events = vlib.read_ndjson(f)
        for b in bad:
            ctx.candidates.append(dict(kind=kind, stage=name, event=events[b["event"] - 1]))
    return st


def add_gen_exec_validate(ctx, kind, name, module, extra, cfg=GEN_CFG, min_cases=1, timeout=3600, shards=None, transform=None):
    """TLC enumerates INPUTS (no prediction is possible without modelling the algorithm); the harness
    executes them against the real code and records the observations; TLC judges every recorded event
    with the area's trace module"""
    res = vlib.tlc(ctx, name + ".gen", module, cfg, extra, 1, (), None, timeout)
    cases = os.path.join(res["dir"], "cases.ndjson")
    if not os.path.exists(cases):
        raise Broken("%s: TLC emitted no inputs" % name)
    inputs = vlib.read_ndjson(cases)
    if transform:
        inputs = [transform(i) for i in inputs]
    if len(inputs) < min_cases:
        raise Broken("%s: only %d inputs generated (expected >= %d)" % (name, len(inputs), min_cases))
    shards = shards or min(vlib.MAX_SHARDS, max(1, len(inputs) // 1500))
    files = []
    for k in range(shards):
        part = inputs[k::shards]
        inp, outp = os.path.join(res["dir"], "in.%d" % k), os.path.join(res["dir"], "ev.%d" % k)
        vlib.write_ndjson(inp, part)
        vlib.harness(["exec", "-in", inp, "-out", outp])
        files.append(outp)
    ctx.cov["evaluations"] += len(inputs)
    ctx.cov["distinct_nontrivial"] += len(set(json.dumps(i, sort_keys=True) for i in inputs))
    ctx.sample(dict(stage=name, kind="tlc-generated input executed by the real code", event=vlib.read_ndjson(files[0])[0]))
    results = vlib.tlc_validate(ctx, name, KINDS[kind]["module"], files)
    for f, bad in results:
        if not bad:
            continue
        events = vlib.read_ndjson(f)
        for b in bad:
            ctx.candidates.append(dict(kind=kind, stage=name, event=events[b["event"] - 1]))
    return len(inputs)


def confirm_events(ctx, kind, cands):
    spec = KINDS[kind]
    events, seen = [], set()
    for c in cands:
        ev = {k: v for k, v in c["event"].items() if k not in ("obs", "exp")}
        key = json.dumps(ev, sort_keys=True)
        if key not in seen:
            seen.add(key)
            events.append((ev, c.get("stage")))
    bad, execd = exec_and_validate(ctx, "confirm.%s" % kind, spec["module"], [e for e, _ in events])
    # An observation may depend on Go's per-loop map iteration order (that is what C14 is about), so a
    # difference that does not show on the first re-execution is retried in fresh processes before the
    # check is declared flaky.
    for attempt in range(12):
        missing = [k for k in range(len(events)) if k not in bad]
        if not missing:
            break
        b2, e2 = exec_and_validate(ctx, "confirm.%s.retry%d" % (kind, attempt), spec["module"], [events[k][0] for k in missing])
        for j, k in enumerate(missing):
            if j in b2:
                bad[k] = dict(b2[j], event=k + 1)
                execd[k] = e2[j]
    for k, (ev, _) in enumerate(events):
        if k not in bad:
            UNREPRODUCED.append("%s %s" % (kind, json.dumps(ev)[:300]))
    confirmed = []
    small, owner = [], []
    if spec.get("shrink"):
        for k, (ev, _) in enumerate(events):
            if k not in bad:
                continue
            for s in spec["shrink"](ev, bad[k]):
                small.append(s)
                owner.append(k)
    explained = set()
    if small:
        sbad, sexec = exec_and_validate(ctx, "shrink.%s" % kind, spec["module"], small)
        for j, s in enumerate(small):
            if j in sbad:
                explained.add(owner[j])
                confirmed.append(dict(kind=kind, stage=events[owner[j]][1], case=s, obs=sexec[j].get("obs"), exp=sbad[j].get("exp"),
                                      descr=spec["describe"](s, sexec[j].get("obs"), sbad[j])))
    for k, (ev, stage) in enumerate(events):
        if k not in explained and k in bad:
            confirmed.append(dict(kind=kind, stage=stage, case=ev, obs=execd[k].get("obs"), exp=bad[k].get("exp"),
                                  descr=spec["describe"](ev, execd[k].get("obs"), bad[k])))
    return confirmed


def confirm_replay(ctx, kind, cands):
    """kinds whose cases carry the specification's prediction (computed by TLC when the case was
    generated): the case is re-executed in a fresh harness process and compared again"""
    spec = KINDS[kind]
    cases, seen = [], set()
    for c in cands:
        key = json.dumps(c["event"], sort_keys=True)
        if key not in seen:
            seen.add(key)
            cases.append((c["event"], c.get("stage")))
    confirmed = []
    pending = list(range(len(cases)))
    for attempt in range(8):
        if not pending:
            break
        d = ctx.dir("confirm.%s.%d" % (kind, attempt))
        inp, diffs = os.path.join(d, "cases.ndjson"), os.path.join(d, "diffs.ndjson")
        table = spec.get("table")
        lines = ([table(ctx)] if table else []) + [cases[k][0] for k in pending]
        vlib.write_ndjson(inp, lines)
        vlib.harness(["replay", "-in", inp, "-out", diffs])
        got = {json.dumps(dd["case"], sort_keys=True): dd for dd in vlib.read_ndjson(diffs)}
        still = []
        for k in pending:
            dd = got.get(json.dumps(cases[k][0], sort_keys=True))
            if dd is None:
                still.append(k)
            else:
                confirmed.append(dict(kind=kind, stage=cases[k][1], case=cases[k][0], obs=dd["obs"], exp=cases[k][0].get("exp"),
                                      descr=spec["describe"](cases[k][0], dd["obs"], {"exp": cases[k][0].get("exp")})))
        pending = still
    for k in pending:
        UNREPRODUCED.append("%s %s" % (kind, json.dumps(cases[k][0])[:300]))
    return confirmed


# Candidates that did not show again in the re-executions (a divergence that depends on map order or scheduling).  They
# are never verdicts; when other candidates of the run are confirmed those are reported and these are counted in the
# evidence; when NOTHING reproduces the check is flaky and says so (exit 2).
UNREPRODUCED = []
MAX_CONFIRM = 60
HARD_CAP = 900      # candidates confirmed per kind; the rest are counted, not re-executed


def confirm_all(ctx, cands):
    out = []
    kinds = []
    for c in cands:
        if c["kind"] not in kinds:
            kinds.append(c["kind"])
    for k in kinds:
        sub = [c for c in cands if c["kind"] == k]
        if k == "eval":
            out += confirm_eval(ctx, sub)
            continue
        # candidates are confirmed in batches of MAX_CONFIRM.  As long as every confirmed one is a recorded known
        # finding the next batch is taken too (up to HARD_CAP): known findings must not use up the budget and hide a
        # violation that stands behind them in the list.
        known = vlib.load_known()
        done = 0
        while done < len(sub) and done < HARD_CAP:
            batch = sub[done:done + MAX_CONFIRM]
            done += len(batch)
            res = confirm_events(ctx, k, batch) if KINDS[k].get("module") else confirm_replay(ctx, k, batch)
            out += res
            if any(vlib.match_known(ctx.pid, c["descr"], known) is None for c in res):
                break
        if done < len(sub):
            log("%d candidates of kind %s: %d confirmed" % (len(sub), k, done))
            ctx.extra["unconfirmed_candidates_" + k] = len(sub) - done
    if UNREPRODUCED:
        ctx.extra["unreproduced_candidates"] = len(UNREPRODUCED)
        log("%d candidate(s) did not reproduce in the re-executions, e.g. %s" % (len(UNREPRODUCED), UNREPRODUCED[0][:200]))
        if not out:
            raise Broken("no candidate reproduced in the re-executions (%d), e.g. %s" % (len(UNREPRODUCED), UNREPRODUCED[0]))
    return out


# ---------------------------------------------------------------------- authz events

def shrink_authz(ev, entry=None):
    pols = ev.get("policies") or []
    if len(pols) <= 1:
        return []
    return [dict(ev, policies=[p], order=[p["id"]]) for p in pols]


def describe_authz(ev, obs, entry):
    pols = ev.get("policies") or []
    ptxt = "; ".join("%s: %s" % (p["id"], pretty.sp(p["policy"])) for p in pols)
    if not isinstance(obs, dict) or "A" not in obs:
        o = "panic/invalid: %s" % json.dumps(obs)[:200]
    else:
        o = "set{%s} iterator{%s} document{%s} positions=%s" % (pretty.sres(obs["A"]), pretty.sres(obs["B"]), pretty.sres(obs["C"]), obs.get("pos"))
    return "authz [%s] %s [env %s] => observed %s, specified %s" % (ptxt, pretty.sreq(ev["env"]), envhash(ev["env"]), o,
                                                                  pretty.sres(entry.get("exp")))


KINDS["authz"] = dict(module="Trace_Authz", shrink=shrink_authz, describe=describe_authz)


# ====================================================================== properties

@prop("C01")
def run_C01(ctx):
    ctx.rule = ("M2: TLC enumerates the operator x boundary-operand tables (MC_EvalTables: every row is one environment "
                "and a sequence of expressions) and computes the specified result; every expression is executed by the "
                "real x/exp/eval.Eval and, wrapped in a one-policy set, by cedar.Authorize; compared on value-or-failure. "
                "M3: seeded random expression trees over random stores are evaluated by the real code and every event is "
                "validated by TLC against CedarEval (Trace_Eval). evaluations = rows + events (each carries several "
                "expressions); distinct = distinct rows / events by content.")
    ctx.assumptions = ["the TLA+ evaluator (CedarEval/CedarExt/Num64) is a transcription of the Cedar language documents",
                       "only value-vs-failure and the value are compared, not error classes or messages",
                       "wire codec harness/cwf (self-tested at setup) is trusted"]
    add_eval_m2(ctx, "tables", "MC_EvalTables", ["mc/MC_EvalTables.tla"], min_cases=1000)
    if ctx.quick:
        add_eval_m3(ctx, "random", 16000, 5)
    else:
        vlib.LIGHT_JVM = False
        add_eval_m3(ctx, "random", 400000, 7)
    return vlib.finish(ctx, confirm_all)


def mc_cfg(invariants=(), properties=(), constants=None, spec=None):
    s = ("SPECIFICATION %s\n" % spec) if spec else "INIT Init\nNEXT Next\n"
    for k, v in (constants or {}).items():
        s += "CONSTANT %s = %s\n" % (k, v)
    for i in invariants:
        s += "INVARIANT %s\n" % i
    for p in properties:
        s += "PROPERTY %s\n" % p
    s += "CHECK_DEADLOCK FALSE\n"      # terminal states are expected
    return s


@prop("C02")
def run_C02(ctx):
    ctx.rule = ("M1: MC_Authz explores the authorizer loop for every multiset of policy classes {permit,forbid}x{sat,unsat,err} "
                "up to MaxN policies in every iteration order (invariants Correct, Collected, Statement; action property "
                "Monotone; liveness Terminates); MC_PolicyClauses checks clause sequencing against the desugared conjunction. "
                "M2: MC_AuthzGen emits every terminal behaviour (concrete policies per class, the iteration order taken, the "
                "specified decision/reasons/errors); the harness authorizes through a PolicySet, an order-fixing PolicyIterator "
                "and one parsed document (positions compared with offsets/lines/columns computed from the document layout). "
                "M3: random policy sets over random requests/stores, validated by Trace_Authz. distinct = distinct behaviours / events.")
    ctx.assumptions = ["policy outcomes come from the TLA+ evaluator (see C01)", "error message text is not predicted",
                       "document positions are computed by the harness from the layout it generated itself"]
    q = ctx.quick
    vlib.tlc_check(ctx, "m1.loop", "MC_Authz",
                   mc_cfg(["Correct", "Collected", "Statement"], ["Monotone", "Terminates"], {"MaxN": 4 if q else 5}, spec="Spec"),
                   ["mc/MC_Authz.tla"])
    vlib.tlc_check(ctx, "m1.clauses", "MC_PolicyClauses",
                   mc_cfg(["Agree", "FirstDecides"], constants={"MaxClauses": 2 if q else 3}), ["mc/MC_PolicyClauses.tla"])
    add_m2(ctx, "authz", "behaviours", "MC_AuthzGen", ["mc/MC_AuthzGen.tla"],
           cfg=GEN_CFG + "INVARIANT Correct\nCONSTANT MaxN = %d\n" % (3 if q else 4), min_cases=100)
    add_m3(ctx, "authz", "random", "authz", 1500 if q else 40000)
    return vlib.finish(ctx, confirm_all)


def describe_hier(ev, obs, entry):
    sec = ["a in b", "a in [set]", "a is T in b", "scope principal in b", "scope action in [set]", "scope resource is T in b"]
    n, m = ev["n"], len(ev.get("sets") or [])
    bounds = [n * n, n * m, 2 * n * n, n * n, n * m, 2 * n * n]
    idx = entry.get("idx") or []
    where = []
    for i in sorted(idx)[:6]:
        j, k = i - 1, 0
        while k < len(bounds) and j >= bounds[k]:
            j -= bounds[k]
            k += 1
        where.append("%s#%d" % (sec[min(k, 5)], j))
    o = "non-termination (watchdog)" if obs == [-1] else ("panic" if obs == [-2] else "%d answers differ: %s" % (len(idx), ", ".join(where)))
    return "hier n=%d parents=%s present=%s => %s" % (n, json.dumps(ev["par"]), json.dumps(ev["present"]), o)


KINDS["hier"] = dict(module="Trace_Hier", shrink=None, describe=describe_hier)


@prop("C03")
def run_C03(ctx):
    ctx.rule = ("M1: HierarchySearch (the code's iterative search with its pruning rules, one action per loop iteration, parents "
                "pushed in any order) is model-checked against reflexive-transitive reachability for every store over N nodes, "
                "every target set (up to renaming for N=4) and every push order, incl. termination. M2: MC_HierarchyGen emits "
                "every store over N nodes with the specified answers for every ordered pair, every target set, `is T in` and the "
                "three scope forms (HierVec); the harness builds the EntityMap and asks the real evaluator / authorizer under a "
                "watchdog. M3: random graphs with 5-10 nodes validated by Trace_Hier. distinct = distinct stores.")
    ctx.assumptions = ["absent entities are modelled as missing from the EntityMap", "a 20 s watchdog stands for non-termination"]
    q = ctx.quick
    inv = ["Correct", "TypeOK", "Sound"]
    vlib.tlc_check(ctx, "m1.search", "HierarchySearch", mc_cfg(inv, ["Progress", "Terminates"], {"N": 3}, spec="Spec"))
    if not q:
        vlib.tlc_check(ctx, "m1.search4", "HierarchySearch", mc_cfg(inv, ["Progress"], {"N": 4}, spec="Spec"), timeout=7200)
    add_m2(ctx, "hier", "stores3", "MC_HierarchyGen", ["mc/MC_HierarchyGen.tla"], cfg=GEN_CFG + "CONSTANT N = 3\n", min_cases=729)
    if not q:
        add_m2(ctx, "hier", "stores4", "MC_HierarchyGen", ["mc/MC_HierarchyGen.tla"], cfg=GEN_CFG + "CONSTANT N = 4\n",
               min_cases=83521, timeout=7200)
    add_m3(ctx, "hier", "random", "hier", 1500 if q else 60000)
    return vlib.finish(ctx, confirm_all)


def attach_env_table(ctx, name, kind):
    """cases that refer to the environment table of their cases file become self-contained events"""
    table = None
    with open(os.path.join(ctx.work, name + ".gen", "cases.ndjson")) as f:
        for line in f:
            if '"op":"envtable"' in line:
                table = json.loads(line)["envs"]
                break
    for c in ctx.candidates:
        if c["kind"] == kind and c.get("stage") == name and "envs" not in c["event"]:
            if table is None:
                raise Broken("%s: no environment table emitted" % name)
            c["event"] = dict(c["event"], envs=table)


def describe_fold(ev, obs, entry):
    exp = entry.get("exp") or []
    if not isinstance(obs, dict) or "snap" not in obs:
        o = "panic/invalid %s" % json.dumps(obs)[:200]
    elif obs["snap"] != "same":
        o = "snapshot: %s" % obs["snap"][:200]
    else:
        diffs = []
        for way in ("folded", "direct"):
            for k, (a, b) in enumerate(zip(obs[way], exp)):
                if a != "n/a" and a != b:
                    diffs.append("%s[env %s]=%s, specified %s" % (way, envhash(ev["envs"][k]), a, b))
        o = "; ".join(diffs[:4]) + (" (+%d more)" % (len(diffs) - 4) if len(diffs) > 4 else "")
    return "fold %s => %s" % (pretty.sp(ev["policy"]), o)


KINDS["fold"] = dict(module="Trace_Fold", shrink=None, describe=describe_fold)


@prop("C04")
def run_C04(ctx):
    ctx.rule = ("M1: MC_Fold checks FoldSound (the fold rules of spec/Fold.tla never change value-or-failure) and "
                "Outcome(FoldPolicy(p)) = Outcome(p) for every expression of ExprUniverse (Depth1; Depth2 = every parent/child/"
                "position triple) under every environment of the table. M2: every policy is emitted with the Outcome of the "
                "ORIGINAL tree per environment; the harness compiles it with cedar.NewPolicyFromAST (which folds) and authorizes, "
                "evaluates PolicyToNode of the unfolded tree with x/exp/eval.Eval, and compares the caller's AST, Policy.AST(), "
                "MarshalCedar and MarshalJSON before/after compilation and authorization. M3: random constant-heavy policies "
                "under random environments validated by Trace_Fold. distinct = distinct policies.")
    ctx.assumptions = ["outcomes come from the TLA+ evaluator (see C01)",
                       "'never evaluates anything request- or store-dependent' is observed through outcomes on environments "
                       "that differ in every entity-dependent observation, and through the AST snapshots"]
    q = ctx.quick
    consts = "CONSTANT UseDepth2 = %s\nCONSTANT EnvStride = %d\n" % ("FALSE" if q else "TRUE", 6 if q else 1)
    add_m2(ctx, "fold", "universe", "MC_Fold", ["mc/MC_Fold.tla"], cfg=GEN_CFG + "INVARIANT FoldTheorem\n" + consts,
           min_cases=500, timeout=7200, workers=1)
    attach_env_table(ctx, "universe", "fold")
    add_m3(ctx, "fold", "random", "fold", 2000 if q else 60000)
    return vlib.finish(ctx, confirm_all)


def store_table(ctx, name):
    with open(os.path.join(ctx.work, name + ".gen", "cases.ndjson")) as f:
        for line in f:
            if '"op":"storetable"' in line:
                t = json.loads(line)
                return {"pols": t["pols"], "probes": t["probes"]}
    raise Broken("%s: no storetable line emitted" % name)


def shrink_store(ev, entry=None):
    k = (entry or {}).get("step")
    if k and k < len(ev["steps"]):
        return [dict(ev, steps=ev["steps"][:k])]
    return []


def describe_store(ev, obs, entry):
    k = entry.get("step", 0)
    steps = ev.get("steps") or []
    st = steps[k - 1] if 0 < k <= len(steps) else {}
    hist = " ".join("%s(%s)" % (s["op"], ",".join(str(s[a]) for a in ("h", "h2", "id", "pol", "doc", "file") if a in s))
                    for s in steps[max(0, k - 6):k])
    got = ""
    if isinstance(obs, dict) and "rets" in obs and 0 < k <= len(obs["rets"]):
        got = " returned %s, state %s" % (json.dumps(obs["rets"][k - 1]), json.dumps(obs["projs"][k - 1])[:300])
    return "store history (%d steps) ... %s => step %d %s is not explained by the map model:%s" % (len(steps), hist, k, st.get("op"), got)


KINDS["store"] = dict(module="Trace_Store", shrink=shrink_store, describe=describe_store)
vlib.TRACE_CFG["Trace_Store"] = ("INIT TraceInit\nNEXT TraceNext\nINVARIANT WriteOut\nCHECK_DEADLOCK FALSE\n"
                                 "CONSTANT FullSecond = TRUE\n")


@prop("C20")
def run_C20(ctx):
    ctx.rule = ("M1: the state graph of spec/PolicyStore.tla (two PolicySet handles, one PolicyMap copy, four semantically "
                "distinct policies, documents of 0/1/3/12 policies; history hidden by a VIEW, bounded by OneAux/SmallBig) with "
                "invariants ContentsDecide, AbsentIrrelevant and the isolation action properties. M2: every history of <= MaxLen "
                "operations is emitted with the predicted return value and projection and replayed on real PolicySet/PolicyMap "
                "objects; long simulated behaviours (tlc -simulate) are replayed with a comparison after every step. "
                "M3: random histories of 50-500 operations over 10 ids recorded from the real objects are validated by TLC "
                "against the unchanged PolicyStore actions (Trace_Store). distinct = distinct histories.")
    ctx.assumptions = ["a policy in a container is recognised by its @pid annotation",
                       "authorization of the four table policies is specified by CedarPolicy/Authz (C01, C02)"]
    q = ctx.quick
    graph = ("INIT Init\nNEXT Next\nVIEW View\nINVARIANT TypeOK\nINVARIANT ContentsDecide\nINVARIANT AbsentIrrelevant\n"
             "PROPERTY Isolation\nPROPERTY CopyIsolation\nCONSTRAINT OneAux\nCONSTRAINT SmallBig\nCHECK_DEADLOCK FALSE\n"
             "CONSTANT FullSecond = FALSE\nCONSTANT MaxLen = 3\n")
    vlib.tlc_check(ctx, "m1.graph", "MC_PolicyStore", graph, ["mc/MC_PolicyStore.tla"], workers=8)
    hist = ("INIT Init\nNEXT Next\nINVARIANT EmitHist\nCONSTRAINT Bounded\nCHECK_DEADLOCK FALSE\n"
            "CONSTANT FullSecond = FALSE\nCONSTANT MaxLen = %d\n" % (3 if q else 4))
    add_m2(ctx, "store", "histories", "MC_PolicyStore", ["mc/MC_PolicyStore.tla"], cfg=hist, min_cases=1000, timeout=7200)
    table = store_table(ctx, "histories")
    depth = 15 if q else 40
    sim = ("INIT Init\nNEXT Next\nINVARIANT EmitSim\nCHECK_DEADLOCK FALSE\nCONSTANT FullSecond = TRUE\nCONSTANT MaxLen = %d\n" % depth)
    add_m2(ctx, "store", "simulated", "MC_PolicyStore", ["mc/MC_PolicyStore.tla"], cfg=sim, min_cases=100, timeout=7200,
           args=["-simulate", "num=%d" % (300 if q else 5000), "-depth", str(depth + 1), "-seed", str(ctx.seed)])
    for c in ctx.candidates:
        if c["kind"] == "store" and "table" not in c["event"]:
            c["event"] = dict(c["event"], table=table)
    tfile = os.path.join(ctx.work, "histories.gen", "cases.ndjson")
    add_m3(ctx, "store", "random", "store", 60 if q else 1500, params={"table": tfile}, shards=(2 if q else 6))
    return vlib.finish(ctx, confirm_all)


def describe_partial(ev, obs, entry):
    w = entry.get("witness")
    pe = ev["penv"]
    parts = "P=%s A=%s R=%s C=%s" % tuple(pretty.sv(pe[k]) for k in ("p", "a", "r", "c"))
    if not isinstance(obs, dict) or "keep" not in obs:
        o = "panic/invalid %s" % json.dumps(obs)[:200]
    elif obs["keep"]:
        o = "kept, residual %s" % pretty.sp(obs["residual"]) if "effect" in obs.get("residual", {}) else "kept, residual %s" % obs.get("residual")
    else:
        o = "dropped"
    wit = "panic" if w == "panic" else ", ".join("%s:=%s" % (k, pretty.sv(v)) for k, v in sorted(w.items())) if isinstance(w, dict) else str(w)
    return "partial %s under %s [store %s] => %s; unsound for %s completion(s), e.g. %s" % (
        pretty.sp(ev["policy"]), parts, envhash(pe["store"]), o, entry.get("n"), wit)


KINDS["partial"] = dict(module="Trace_Partial", shrink=None, describe=describe_partial)


def describe_batchignore(ev, obs, entry):
    t = ev["template"]
    parts = "P=%s A=%s R=%s C=%s" % tuple("IGNORED" if (t[k] or {}).get("k") == "ignore" else pretty.sv(t[k]) for k in ("p", "a", "r", "c"))
    pols = "; ".join("%s: %s" % (p["id"], pretty.sp(p["policy"])) for p in ev.get("policies") or [])
    w = entry.get("witness")
    wit = str(w)
    if isinstance(w, int) and 0 < w <= len(ev.get("completions") or []):
        c = ev["completions"][w - 1]
        wit = "under the completion P=%s A=%s R=%s C=%s a permit policy is satisfied" % tuple(pretty.sv(c[k]) for k in ("p", "a", "r", "c"))
    return "batch with ignored parts [%s] %s [store %s] => %s; %s" % (pols[:1500], parts, envhash(t["store"]), json.dumps(obs)[:300], wit)


KINDS["batchignore"] = dict(module="Trace_Partial", shrink=None, describe=describe_batchignore)


@prop("C06")
def run_C06(ctx):
    ctx.rule = ("Inputs: MC_PartialGen enumerates every policy of the expression universe (Depth1; thorough adds Depth2) x 13 "
                "partial-environment shapes (unknown principal/action/resource/context, unknowns nested in context records and "
                "sets, two unknowns, ignored parts, fully concrete), and the conditions-loop family: policies with three conditions, "
                "every ordered triple over bodies that partial evaluation drops, rewrites, keeps, fails on or ignores, four "
                "when/unless patterns, both effects, under six shapes mixing unknown and ignored parts; and the leak family: under a "
                "context that holds an unknown two levels down, every ordered pair of {collection holding the unknown, the unknown "
                "itself, known values} as members of a set literal, fields of a record literal and branches of an if (condition "
                "undecided / decided), each under ten operators that look inside, both effects. The harness runs the real x/exp/eval.PartialPolicy and "
                "records keep/residual. Trace_Partial then evaluates, with the TLA+ evaluator, the original and the residual under "
                "EVERY completion of the unknowns drawn from candidate universes (entities for request positions, whole records "
                "for the context, values of several kinds for nested unknowns) and checks the soundness predicate of "
                "spec/Partial.tla. Random policies / environments are checked the same way. Stage ignore: batch.Authorize over "
                "templates with ignored parts and 8 completions each; the specification evaluates every permit policy under every "
                "completion, and where one is satisfied the recorded batch answer must be allow with that policy among the reasons, "
                "or a denial by forbid policies; exactly one result. distinct = distinct inputs.")
    ctx.assumptions = ["completions are drawn from finite candidate universes (Partial!EntCands, CtxCands, ValCands)",
                       "an embedded partial-error node is interpreted as 'evaluation fails'",
                       "a forbid policy with an ignored part is not constrained by the statement"]
    q = ctx.quick
    consts = "CONSTANT UseDepth2 = %s\nCONSTANT Stride = %d\nCONSTANT LoopStride = %d\nCONSTANT LeakStride = %d\n" % ("FALSE" if q else "TRUE", 3 if q else 1, 5 if q else 1, 1)
    add_gen_exec_validate(ctx, "partial", "universe", "MC_PartialGen", ["mc/MC_PartialGen.tla"], cfg=GEN_CFG + consts,
                          min_cases=1000, timeout=7200)
    add_m3(ctx, "partial", "random", "partial", 2000 if q else 40000)
    add_m3(ctx, "batchignore", "ignore", "batchignore", 600 if q else 12000)
    nsat = sum(st.get("ignore_completions_with_satisfied_permit", 0) for st in ctx.cov["stages"])
    if nsat < 300:
        raise Broken("C06: only %d completions with a satisfied permit in the batch-ignore stage (vacuous)" % nsat)
    ctx.cov["ignore_completions_with_satisfied_permit"] = nsat
    return vlib.finish(ctx, confirm_all)


def describe_batch(ev, obs, entry):
    t = ev["template"]
    parts = "P=%s A=%s R=%s C=%s" % tuple(pretty.sv(t[k]) for k in ("p", "a", "r", "c"))
    vs = "; ".join("%s in [%s]" % (v["key"], ", ".join(pretty.sv(x) for x in (v.get("values") or []))) for v in (ev.get("vars") or []))
    pols = "; ".join("%s: %s" % (p["id"], pretty.sp(p["policy"])) for p in (ev.get("policies") or []))
    if not isinstance(obs, dict) or "calls" not in obs:
        o = "panic/invalid %s" % json.dumps(obs)[:300]
    else:
        calls = obs["calls"]
        o = "ret=%s%s, %d callback(s): %s" % (obs.get("ret"), (" (" + obs.get("msg", "")[:80] + ")") if obs.get("msg") else "", len(calls), " | ".join(
            "{%s} -> P=%s A=%s R=%s C=%s : %s %s%s" % (
                ", ".join("%s=%s" % (k, pretty.sv(v)) for k, v in sorted(c["values"].items())),
                pretty.sv(c["request"]["p"]), pretty.sv(c["request"]["a"]), pretty.sv(c["request"]["r"]), pretty.sv(c["request"]["c"]),
                c["decision"], c["reasons"], "" if c.get("cross") else " (ordinary authorizer disagrees)") for c in calls[:6]))
    return "batch template %s vars {%s} fault %s policies [%s] [store %s] => %s" % (
        parts, vs, json.dumps(ev.get("fault")), pols, envhash(t["store"]), o)


def shrink_batch(ev, entry=None):
    out = []
    if (ev.get("fault") or {}).get("kind", "none") != "none":
        out.append(dict(ev, fault={"kind": "none", "at": 1}))
    pols = ev.get("policies") or []
    if len(pols) > 1:
        out += [dict(ev, policies=[p], fault={"kind": "none", "at": 1}) for p in pols]
    return out


KINDS["batch"] = dict(module="Trace_Batch", shrink=shrink_batch, describe=describe_batch)


@prop("C05")
def run_C05(ctx):
    ctx.rule = ("M1: MC_Batch model-checks the enumeration algorithm of doBatch (variables sorted by list length, one recursion "
                "level per variable, state saved/restored, context check on entry, error propagation) for every combination of "
                "list lengths and every fault plan: the callback log is the Cartesian product, or exactly k distinct elements of "
                "it with the right error. M2: MC_BatchGen emits concrete batch requests (variables in each request part, nested "
                "in records and sets, one variable under several keys, duplicates, empty lists, unbound/unused variables) x "
                "policy sets x every fault position with the expected multiset of callbacks (substitution, request, decision, "
                "reasons per Batch.tla); the harness runs batch.Authorize with a copying / failing / cancelling callback and also "
                "authorizes every Result.Request with cedar.Authorize. M3: random templates and policies validated by "
                "Trace_Batch (Batch!Acceptable). distinct = distinct cases/events.")
    ctx.assumptions = ["callback order is free (compared as multisets)", "Diagnostic.Errors of batch results is not compared",
                       "values of the wrong kind for a request part are not generated (the statement does not cover them)"]
    q = ctx.quick
    vlib.tlc_check(ctx, "m1.enumeration", "MC_Batch",
                   mc_cfg(["Correct", "Complete", "Restored"], ["Terminates"], {"MaxVars": 2 if q else 3, "MaxList": 3 if q else 3}, spec="Spec"),
                   ["mc/MC_Batch.tla"])
    add_m2(ctx, "batch", "requests", "MC_BatchGen", ["mc/MC_BatchGen.tla"], cfg=GEN_CFG, min_cases=300, timeout=7200)
    add_m3(ctx, "batch", "random", "batch", 1000 if q else 30000)
    return vlib.finish(ctx, confirm_all)


SYNTAX_CONSTS = ("CONSTANT PathTable <- MCPathTable\nCONSTANT NameTable <- MCNameTable\nCONSTANT IdTable <- MCIdTable\n"
                 "CONSTANT WordTable <- MCWordTable\nCONSTANT ByCps <- NoFast\n")
vlib.TRACE_CFG["Trace_Parse"] = SYNTAX_CONSTS


def tok_text(t):
    if t.get("t") in ("id", "kw", "op"):
        return t.get("s", "")
    if t.get("t") == "int":
        return "".join(str(d) for d in t.get("d") or [])
    return '"' + "".join(chr(c) if 32 <= c < 127 else "\\u{%x}" % c for c in (t.get("raw") or [])) + '"'


def describe_parse(ev, obs, entry):
    toks = " ".join(tok_text(t) for t in (ev.get("tokens") or []))
    exp = entry.get("exp") or {}
    e = "rejects" if not exp.get("ok") else "accepts as [%s]" % "; ".join(pretty.sp(p) for p in exp.get("v") or [])
    if not isinstance(obs, dict) or "list" not in obs:
        o = "panic/invalid %s" % json.dumps(obs)[:200]
    else:
        def side(r):
            return "rejects" if not r.get("ok") else "accepts as [%s]" % "; ".join(pretty.sp(p) for p in r.get("policies") or [])
        o = "PolicyList.UnmarshalCedar %s, Policy.UnmarshalCedar %s" % (side(obs["list"]), side(obs["single"]))
        for pd in obs.get("padded") or []:
            if side(pd) != side(obs["list"]):
                o += "; behind %d bytes of leading white space PolicyList.UnmarshalCedar %s" % (pd.get("n", -1), side(pd))
                break
    return "parse `%s` => %s; the grammar %s" % (toks, o, e)


KINDS["parse"] = dict(module="Trace_Parse", shrink=None, describe=describe_parse)


@prop("C07")
def run_C07(ctx):
    ctx.rule = ("spec/Syntax.tla is the documented grammar as a recursive-descent parser over token sequences plus a renderer that "
                "derives minimal parenthesisation from the grammar levels. M1: Parse(Render(a)) = a for every AST of the universe "
                "(every parent/child/operand-position triple of 41 expression forms, every literal kind, all scope forms, "
                "annotations, condition lists, string/pattern literals over StrB) in minimal and full parenthesisation; the named "
                "families outside the grammar are rejected. M2: both renderings of every AST, accepted spellings of string "
                "escapes, and every single-token deletion / duplication / replacement / swap of the representative policies are "
                "emitted with the specification parser's verdict; the harness lays tokens out with random whitespace and "
                "comments and runs PolicyList.UnmarshalCedar and Policy.UnmarshalCedar; accepted ASTs are compared node by node. "
                "Texts with multi-byte characters are parsed again behind n bytes of leading white space / comment, n chosen so that "
                "the character is cut at every inner byte boundary by a multiple of 1024 bytes (the tokenizer's read buffer): same list. "
                "distinct = distinct token sequences.")
    ctx.assumptions = ["the grammar in spec/Syntax.tla is a transcription of the documented Cedar grammar (trailing commas in "
                       "comma-separated lists accepted as in the reference grammar; no limit on stacked unary operators)",
                       "layouts are generated by the harness (whitespace, CR LF, line and block comments)"]
    q = ctx.quick
    cfg = GEN_CFG + SYNTAX_CONSTS + "INVARIANT RoundTrip\nINVARIANT NamedRejected\n"
    add_m2(ctx, "parse", "asts", "MC_Syntax", ["mc/MC_Syntax.tla"], cfg=cfg + 'CONSTANT Mode = "ast"\n', min_cases=2000, timeout=7200)
    add_m2(ctx, "parse", "mutants", "MC_Syntax", ["mc/MC_Syntax.tla"], cfg=cfg + 'CONSTANT Mode = "mutants"\n', min_cases=5000, timeout=7200)
    return vlib.finish(ctx, confirm_all)


vlib.TRACE_CFG["Trace_Determ"] = "INIT TraceInit\nNEXT TraceNext\nINVARIANT WriteOut\nCHECK_DEADLOCK FALSE\n"


def describe_determ(ev, obs, entry):
    what = ev.get("what")
    inp = ev.get("input") or {}
    if what == "authz":
        key = "policies [%s] %s" % ("; ".join("%s: %s" % (p["id"], pretty.sp(p["policy"])) for p in (inp.get("policies") or [])[:3]),
                                    "[env %s]" % envhash(inp.get("env")))
    elif what in ("policy_json", "policy_text", "policyset_json"):
        key = "".join(chr(c) for c in (inp.get("json") or inp.get("text") or []))[:400]
    else:
        key = hashlib.sha1(json.dumps(inp, sort_keys=True).encode()).hexdigest()[:10]
    a, b = entry.get("firstobs") or {}, entry.get("obs") or {}
    if not a and isinstance(obs, list) and obs:
        a = obs[0]
        b = next((o for o in obs if o.get("h") != a.get("h")), {})
    return "determ %s on %s => repetition %s differs from the first: first `%s`, then `%s`" % (
        what, key, entry.get("rep"), a.get("s", "")[:300], b.get("s", "")[:300])


KINDS["determ"] = dict(module="Trace_Determ", shrink=None, describe=describe_determ)


@prop("C14")
def run_C14(ctx):
    ctx.rule = ("spec/Determinism.tla: the history of observations must be a function of the input. The driver repeats every "
                "operation R times on freshly built / freshly decoded objects (so that Go's per-loop map order is resampled) with "
                "rotated insertion orders of policies and entities: cedar.Authorize (decision, reason set, error set WITH "
                "messages; policy sets of 12 policies, record literals with several failing fields), batch results, "
                "MarshalCedar / MarshalJSON of policies decoded from JSON (record literals and annotations with several keys) and "
                "from text, policy sets, entity maps, values (colliding set members), and decode -> re-encode. Every repetition "
                "is one Observe step validated by TLC (Trace_Determ). M1: MC_Authz (the outcome is a function of the multiset, "
                "for every iteration order). distinct = distinct inputs.")
    ctx.assumptions = ["R repetitions resample map orders statistically: a two-way choice escapes R=30 repetitions with "
                       "probability 2^-29", "reasons and errors are compared as sets"]
    q = ctx.quick
    vlib.tlc_check(ctx, "m1.loop", "MC_Authz",
                   mc_cfg(["Correct", "Collected", "Statement"], ["Monotone", "Terminates"], {"MaxN": 4}, spec="Spec"), ["mc/MC_Authz.tla"])
    add_m3(ctx, "determ", "repeat", "determ", 160 if q else 4000, params={"reps": 30 if q else 60})
    return vlib.finish(ctx, confirm_all)


vlib.TRACE_CFG["Trace_Concurrent"] = "INIT TraceInit\nNEXT TraceNext\nINVARIANT WriteOut\nCHECK_DEADLOCK FALSE\n"


def concurrent_run(ctx, race_bin, name, seed, goroutines, ops):
    """one recorded concurrent session under the race detector; returns (trace file, race reports)"""
    import subprocess, glob
    d = ctx.dir(name)
    trace = os.path.join(d, "trace.ndjson")
    env = dict(os.environ, GORACE="log_path=%s halt_on_error=0 exitcode=0" % os.path.join(d, "race"))
    p = subprocess.run([race_bin, "concurrent", "-seed", str(seed), "-goroutines", str(goroutines), "-ops", str(ops), "-out", trace],
                       env=env, stdout=subprocess.PIPE, stderr=subprocess.STDOUT, text=True, timeout=3600)
    if p.returncode != 0:
        raise Broken("%s: concurrent driver failed (%d): %s" % (name, p.returncode, p.stdout[-2000:]))
    reports = [f for f in glob.glob(os.path.join(d, "race.*")) if "DATA RACE" in open(f, errors="replace").read()]
    return trace, reports


@prop("C19")
def run_C19(ctx):
    ctx.level = "exploration"
    ctx.rule = ("Recorded sessions: G goroutines share one PolicySet, EntityMap, request list and value list and perform random "
                "read-only operations (Authorize, IsAuthorized, batch.Authorize, MarshalCedar/MarshalJSON of the set and of "
                "policies, Get/All/Map, value accessors and encoders, EntityMap.MarshalJSON, policy accessors, batch.Authorize with "
                "ignored request parts, eval.PartialPolicy on the shared policy trees under unknown / ignored parts, the "
                "validator over the shared resolved schema (policies, entities, requests; strict and permissive), schema "
                "MarshalCedar / MarshalJSON / Resolve; the shared set holds random policies and crafted ones with several "
                "conditions of which partial evaluation rewrites some and keeps others) in a binary built "
                "with -race. Every call/return is an event (goroutine, own sequence number, operation, observation); TLC "
                "validates every event against spec/Concurrent.tla: authorizations against the Authz specification, the other "
                "operations against their sequential result, snapshots (deep reflection digest of all shared inputs incl. "
                "unexported fields, taken before, after and around each kind of operation) against the first. A race report of "
                "the Go race detector is a violation. evaluations = recorded calls; distinct_nontrivial = distinct "
                "(operation, argument, observation) triples.")
    ctx.assumptions = ["data-race freedom is decided by the Go race detector on the recorded runs (borrowed oracle); the "
                       "specification decides functional equivalence with sequential execution and immutability of the inputs",
                       "interleavings are those the Go scheduler produced (with random Gosched) in the recorded runs"]
    q = ctx.quick
    race_bin = vlib.build_harness(race=True)
    plan = [(8, 150), (16, 150), (64, 60)] if q else [(8, 2000), (16, 1500), (32, 1000), (64, 500), (128, 300)] * 3
    traces, reports = [], []
    for k, (g, n) in enumerate(plan):
        t, r = concurrent_run(ctx, race_bin, "session%d" % k, ctx.seed * 100 + k, g, n)
        traces.append(t)
        reports += r
    distinct = set()
    nev = 0
    for t in traces:
        for ev in vlib.read_ndjson(t)[1:]:
            nev += 1
            distinct.add(json.dumps([ev.get("kind"), ev.get("arg"), ev.get("obs")], sort_keys=True))
    ctx.cov["evaluations"] += nev
    ctx.cov["distinct_nontrivial"] += len(distinct)
    first = vlib.read_ndjson(traces[0])
    ctx.sample(dict(stage="session0", kind="recorded concurrent call", events=first[30:33]))
    ctx.extra["race_reports"] = len(reports)
    ctx.extra["goroutine_plans"] = plan
    # depth=4: no re-validation of the events beyond the first 100 unexplained ones (the event itself is the detail,
    # and an event cannot be judged without the header line and its goroutine's history)
    res = vlib.tlc_validate(ctx, "sessions", "Trace_Concurrent", traces, depth=4)
    rdir = os.path.join(vlib.VERIF, "replays", "C19")
    for rep in reports:
        os.makedirs(rdir, exist_ok=True)
        dst = os.path.join(rdir, "race-%s.txt" % hashlib.sha1(open(rep, errors="replace").read().encode()).hexdigest()[:10])
        import shutil
        shutil.copy(rep, dst)
        txt = open(rep, errors="replace").read()
        where = [l.strip() for l in txt.splitlines() if "cedar-go" in l][:2]
        ctx.candidates.append(dict(kind="race", stage="race detector", descr="data race reported by the Go race detector: %s" % "; ".join(where),
                                   case={"report": dst}))
    for f, bad in res:
        if not bad:
            continue
        events = vlib.read_ndjson(f)
        os.makedirs(rdir, exist_ok=True)
        for b in bad[:20]:
            ev = events[b["event"] - 1]
            descr = "concurrent call g=%s seq=%s %s(%s) returned %s, which is not its sequential result" % (
                ev.get("g"), ev.get("seq"), ev.get("kind"), ev.get("arg"), json.dumps(ev.get("obs"))[:200])
            if ev.get("kind") == "snapshot":
                descr = "shared inputs changed: snapshot after %s differs from the initial one" % ev.get("after")
            ctx.candidates.append(dict(kind="conc", stage="sessions", descr=descr, case={"header": events[0], "event": ev}))
    # recorded events are evidence of what the real code did; they are not re-executed (a schedule cannot be replayed)
    return vlib.finish(ctx, None)


_value_table = {}


def describe_values(ev, obs, entry):
    op = ev.get("op")
    uni = _value_table.get("universe") or []

    def nm(i):
        return pretty.sv(uni[i - 1]) if 0 < i <= len(uni) else "#%d" % i
    if op == "setlaws":
        what = "set built from [%s] vs set built from [%s]" % (", ".join(nm(i) for i in ev.get("a") or []), ", ".join(nm(i) for i in ev.get("b") or []))
    elif op == "reclaws":
        what = "record {%s} vs record {%s}" % (", ".join("%s: %s" % (e["key"], nm(e["idx"])) for e in ev.get("r1") or []),
                                               ", ".join("%s: %s" % (e["key"], nm(e["idx"])) for e in ev.get("r2") or []))
    elif op == "valuehist":
        what = "history " + " ".join("%s%s" % (s["a"], json.dumps({k: v for k, v in s.items() if k != "a"}) if len(s) > 1 else "") for s in ev.get("steps") or [])
    else:
        what = "universe equality / text / JSON forms"
    o = json.dumps(obs)[:400]
    return "values %s => observed %s, specified %s" % (what, o, json.dumps(entry.get("exp"))[:300])


def value_table_case(ctx):
    return dict(op="valuetable", universe=_value_table["universe"], exp=_value_table["exp"])


for _k in ("setlaws", "reclaws", "valuehist", "valuetable"):
    KINDS[_k] = dict(module=None, describe=describe_values, table=value_table_case)


def add_m2_kinds(ctx, name, module, extra, cfg, min_cases, timeout=7200):
    """like add_m2, the candidate kind is the case's own op"""
    before = len(ctx.candidates)
    st = vlib.generate_and_replay(ctx, name, module, cfg, extra, min_cases=min_cases, timeout=timeout)
    new = ctx.candidates[before:]
    ctx.candidates = ctx.candidates[:before]
    for c in new:
        ctx.candidates.append(dict(kind=c["case"]["op"], stage=name, event=c["case"]))
    return st


@prop("C11")
def run_C11(ctx):
    ctx.rule = ("spec/ValueLaws.tla: a set is the set of its distinct members, a record a function (SetObs / RecObs), values are "
                "immutable (state machine over construct / mutate input / take accessor output / mutate output / observe). M2: "
                "every sequence of <= MaxLen values of a universe built to collide in the implementation's hash (true / 1 / decimal "
                "0.0001 / 1ms / datetime 1, neighbouring longs, sets with equal additive hashes, the same members in different "
                "insertion orders, nested sets and records), paired with permutations, duplications, prefixes and one-element "
                "replacements: expected length, membership of every universe value, equality (both directions, through Equal, "
                "through `==` in the evaluator, through membership in a set of sets), containsAll / containsAny; record pairs; "
                "the universe's equality matrix and text / JSON forms. Every interleaving of the immutability history is replayed "
                "on Set, Record and EntityUIDSet. distinct = distinct cases.")
    ctx.assumptions = ["true 64-bit FNV collisions between strings are not constructed; the universe exploits numeric hashes "
                       "and the additive set hash"]
    q = ctx.quick
    consts = 'CONSTANT Mode = "laws"\nCONSTANT MaxLen = %d\n' % (2 if q else 3)
    add_m2_kinds(ctx, "laws", "MC_ValueLaws", ["mc/MC_ValueLaws.tla"], GEN_CFG + consts, min_cases=2000)
    with open(os.path.join(ctx.work, "laws.gen", "cases.ndjson")) as f:
        for line in f:
            if '"op":"valuetable"' in line:
                t = json.loads(line)
                _value_table.update(universe=t["universe"], exp=t["exp"])
                break
    hist = 'CONSTANT Mode = "hist"\nCONSTANT MaxLen = %d\nCONSTRAINT Bounded\nPROPERTY Immutable\n' % (5 if q else 7)
    add_m2_kinds(ctx, "history", "MC_ValueLaws", ["mc/MC_ValueLaws.tla"], GEN_CFG + hist, min_cases=200)
    return vlib.finish(ctx, confirm_all)


# ====================================================================== replay of a stored violation

def replay(ctx, path):
    r = json.load(open(path))
    kind = r.get("kind")
    c = r["case"]
    if kind == "eval":
        cands = [dict(kind="eval", stage="replay", env=c["env"], expr=e) for e in c["exprs"]]
    elif kind in KINDS:
        cands = [dict(kind=kind, stage="replay", event=c)]
    elif kind in ("race", "conc"):
        # a schedule cannot be replayed: the recorded report / event is shown and the sessions are run again
        print("recorded: %s" % r.get("descr"))
        return REGISTRY[r["property"]](ctx)
    else:
        raise Broken("unknown replay kind %r" % kind)
    try:
        confirmed = confirm_all(ctx, cands)
    except Broken as e:
        if "reproduced in the re-executions" in str(e):
            print("replay: not reproduced on this tree")
            ctx.cleanup()
            return 0
        raise
    for cc in confirmed:
        print("VIOLATION property=%s replay=%s" % (r["property"], path))
        log("  " + cc["descr"][:400])
    ctx.cleanup()
    return 1 if confirmed else 0
