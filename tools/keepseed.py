#!/usr/bin/env python3
"""keepseed.py <out dir of the sub-agent variant> <seeded id> <property> <detected-by text> [history]
copies patch.diff, demo_test.go, notes.txt into /verif/seeded/<id>/ and writes meta.json"""
import json, os, shutil, sys
out, sid, prop, detected = sys.argv[1:5]
hist = sys.argv[5] if len(sys.argv) > 5 else ""
d = os.path.join("/verif/seeded", sid)
os.makedirs(d, exist_ok=True)
for f in ("patch.diff", "demo_test.go", "notes.txt"):
    shutil.copy(os.path.join(out, f), os.path.join(d, f))
where = open(os.path.join(out, "where.txt")).read().strip() if os.path.exists(os.path.join(out, "where.txt")) else "."
notes = open(os.path.join(out, "notes.txt")).read()
meta = {
    "property": prop, "variant": sid.split("-")[-1],
    "needs": notes.strip().split("\n\n")[0][:1200],
    "demo": {"file": "demo_test.go", "place_in": where, "run": "go test -count=1 -run . ."},
    "confirmed": {"how": "tools/seedrun.sh in a scratch worktree of /repo (outside /repo and /verif): patch applied, go build ./..., "
                         "go test -count=1 ./... (whole suite), demo with the patch, demo without the patch",
                  "result": "suite=pass demo_with_patch=fail demo_without_patch=pass"},
    "detection": {"check": prop, "command": "tools/seedrun.sh <worktree> seeded/%s %s  (quick tier, VERIF_REPO=<worktree>)" % (sid, prop),
                  "result": detected, "history": hist},
}
json.dump(meta, open(os.path.join(d, "meta.json"), "w"), indent=1)
print("kept", d)
