#!/usr/bin/env python3
"""Generates spec/Universe.tla: the boundary-value universes of DESIGN.md section 3.3
as TLA+ constants (64-bit numbers as Num64 limb records, strings as code-point
tuples).  Pure data; the generated module is committed and SANY/TLC-checked at setup."""
import sys

def limbs(n):
    n = abs(n); out = []
    while n: out.append(n % 10000); n //= 10000
    return out

def num(n):
    return "[neg |-> %s, mag |-> <<%s>>]" % ("TRUE" if n < 0 else "FALSE", ", ".join(map(str, limbs(n))))

def cps(s):
    return "<<%s>>" % ", ".join(str(ord(c)) for c in s)

def seq(items):
    return "<<" + ",\n    ".join(items) + ">>"

MIN, MAX = -2**63, 2**63 - 1
LongB = [MIN, MIN + 1, -2**62, -3037000500, -3037000499, -2**32, -2**31, -86400001, -86400000, -86399999,
         -10, -2, -1, 0, 1, 2, 3, 10, 86399999, 86400000, 86400001, 2**31, 2**32, 3037000499, 3037000500,
         153092023, 60247241209, 60247241210, 2**62, MAX - 1, MAX]
# decimals in ten-thousandths
DecB = [MIN, MIN + 1, -10000, -1, 0, 1, 9999, 10000, 15000, 123456, MAX - 1, MAX]
# datetimes in ms: epoch neighbourhood, day boundaries, leap day 2024-02-29, 0000-01-01, 9999-12-31T23:59:59.999, 10000-01-01, year -1
DtB = [MIN, MIN + 1, -62167219200000 - 86400000 * 366, -62167219200000, -86400001, -86400000, -86399999, -1, 0, 1,
       86399999, 86400000, 86400001, 1709164800000, 1709251199999, 253402300799999, 253402300800000, MAX - 1, MAX]
DurB = [MIN, MIN + 1, -86400001, -86400000, -86399999, -3600000, -60001, -60000, -1000, -999, -1, 0, 1, 999, 1000,
        59999, 60000, 3600000, 86399999, 86400000, 86400001, MAX - 1, MAX]
StrB = ["", "a", "b", "ab", "ba", "a*", "*", "a*b", "\"", "\\", "\x00", "\t", "\r", "\n", "\x7f", "\x80",
        "́", "é", "́e", "​", "", "�", "\U0001F600", "\U0010FFFF"]
DecLits = ["0.0", "1.0", "-1.0", "0.0001", "-0.0001", "1.5", "12.3456", "00.10", "-0.0", "0.5", "-0.5",
           "922337203685477.5807", "-922337203685477.5808", "922337203685477.5808", "-922337203685477.5809",
           "922337203685478.0", "1", "1.", ".5", "1.00000", "1.0000", "x", "", "-", "-.5", "1.-5", "1e3", "+1.0",
           " 1.0", "1.0 ", "1..0", "1.2.3", "0.00001", "99999999999999999999.0"]
DtLits = ["1970-01-01", "1969-12-31", "2024-02-29", "2023-02-29", "1900-02-29", "2000-02-29", "0000-01-01",
          "0000-02-29", "9999-12-31", "2024-04-31", "2024-06-30", "2024-00-10", "2024-10-00", "2024-13-01",
          "2024-01-32", "1970-01-01T00:00:00Z", "1969-12-31T23:59:59.999Z", "2024-03-10T01:02:03.004+0530",
          "2024-03-10T01:02:03-2359", "2024-03-10T01:02:03+2400", "2024-03-10T01:02:03+0060",
          "2024-01-01T24:00:00Z", "2024-01-01T23:60:00Z", "2024-01-01T23:59:60Z", "2024-01-01T23:59:59.999Z",
          "2024-01-01T23:59:59.99Z", "2024-01-01T23:59:59.9999Z", "+000010000-01-01", "-000000001-12-31T23:59:59Z",
          "+292278994-08-17T07:12:55.807Z", "+292278994-08-17T07:12:55.808Z", "-292275055-05-16T16:47:04.192Z",
          "-292275055-05-16T16:47:04.191Z", "-292275055-05-17T00:00:00.000Z", "+999999999-12-31",
          "-999999999-01-01", "+292278994-08-18", "-292275055-05-16", "-292275055-05-17",
          "+292278994-08-17T07:12:55.807+0001", "+292278994-08-17T08:12:55.807+0100",
          "2024-01-01T00:00:00", "2024-1-01", "2024-01-1", "24-01-01", "2024-01-01T", "2024-01-01Z",
          "2024-01-01T00:00Z", "2024-01-01 00:00:00Z", "2024-01-01t00:00:00z", "x", "", "2024-01-01T00:00:00ZZ",
          "2024-01-01T00:00:00+01:00", "2024-01-01T00:00:00.000+01", "10000-01-01", "+10000-01-01"]
DurLits = ["0ms", "1ms", "-1ms", "1d", "1h", "1m", "1s", "1d2h3m4s5ms", "-1d2h3m4s5ms", "1h1d", "1dd", "1", "d", "",
           "-", "9223372036854775807ms", "9223372036854775808ms", "-9223372036854775808ms",
           "-9223372036854775809ms", "106751991167d", "106751991168d", "-106751991167d7h12m55s808ms",
           "106751991167d7h12m55s807ms", "106751991167d7h12m55s808ms", "2562047788015h", "2562047788016h",
           "153722867280912m", "153722867280913m", "9223372036854775s", "9223372036854776s", "1d 2h", "1ms1ms",
           "24h", "60m", "1000ms", "1m1ms", "1s1ms", "1ms1s", "0d0h0m0s0ms", "00001d", "1D", "+1d", "--1d", "1.5h",
           "1d-2h", "99999999999999999999d"]
IpLits = ["127.0.0.1", "127.0.0.1/8", "127.0.0.0/7", "127.255.255.255", "128.0.0.1", "10.0.0.0/8", "10.1.2.3",
          "10.1.2.3/32", "10.1.2.3/8", "224.0.0.1", "224.0.0.0/4", "224.0.0.0/3", "239.255.255.255", "240.0.0.0",
          "0.0.0.0/0", "0.0.0.0", "255.255.255.255", "::1", "::1/127", "::1/128", "::", "::/0", "ff00::/8", "ff00::/7",
          "ff02::1", "fe80::1", "2001:db8::/32", "2001:db8::1", "::ffff:0:1", "1:2:3:4:5:6:7:8", "1:2:3:4:5:6:7::",
          "::2:3:4:5:6:7:8", "1::8", "ABCD::abcd", "1.2.3", "1.2.3.4.5", "256.1.1.1", "01.2.3.4", "1.2.3.4/33",
          "1.2.3.4/-1", "1.2.3.4/", "1.2.3.4/08", "1.2.3.4/032", "::1/129", "::1/0128", "::ffff:1.2.3.4", "1::2::3",
          "1:2:3:4:5:6:7:8:9", "1:2:3:4:5:6:7", "12345::", ":1", "1:", "::g", "x", "", "1.2.3.4 ", " 1.2.3.4", "1.2.3.-4",
          "1.2..4", ":::", "1.2.3.4/8/8"]

def ent(ty, i): return '[k |-> "ent", ty |-> "%s", id |-> "%s"]' % (ty, i)
def vlong(n): return '[k |-> "long", n |-> %s]' % num(n)
def vstr(s): return '[k |-> "str", s |-> %s]' % cps(s)

out = []
w = out.append
w("------------------------------ MODULE Universe ------------------------------")
w("(* GENERATED by tools/genuniverse.py -- boundary-value universes (DESIGN.md 3.3). *)")
w("EXTENDS CedarValues")
w("")
for name, xs in [("LongB", LongB), ("DecB", DecB), ("DtB", DtB), ("DurB", DurB)]:
    w("%s == %s" % (name, seq([num(x) for x in xs])))
for name, xs in [("StrB", StrB), ("DecLits", DecLits), ("DtLits", DtLits), ("DurLits", DurLits), ("IpLits", IpLits)]:
    w("%s == %s" % (name, seq([cps(x) for x in xs])))
w("")
w("SeqMap(f(_), s) == [i \\in DOMAIN s |-> f(s[i])]")
w("U(id) == VEnt(\"U\", id)   G(id) == VEnt(\"G\", id)   A(id) == VEnt(\"Action\", id)")
w("")
w(r'''\* Two entity stores in WIRE form (tags as <<key code points, value>> pairs) over
\* U::a U::b G::g G::top Action::view Action::edit Action::all; G::h and U::zz are
\* never present.  S1: diamond a -> {g, h(absent)}, cycle g <-> top, attributes of
\* every kind, optional attribute, tags.  S2 differs in every entity-dependent
\* observation (parents, attribute presence and kinds, tags, presence of U::b).
S1W == <<
  [uid |-> U("a"), parents |-> <<G("g"), G("h")>>,
   attrs |-> [n |-> VInt(1), s |-> VStr(<<97>>), opt |-> VInt(5), b |-> VTrue,
              r |-> [k |-> "rec", f |-> [x |-> VInt(1), e |-> U("b")]],
              ss |-> [k |-> "set", els |-> <<VInt(1), VInt(2)>>], e |-> U("b"),
              d |-> VDec(FromInt(15000)), t |-> VDt(FromInt(0)), dur |-> VDur(FromInt(1)),
              ip |-> VIp(<<10, 1, 2, 3>>, 32)],
   tags |-> << <<<<116, 49>>, VInt(1)>>, <<<<>>, VStr(<<120>>)>> >>],
  [uid |-> U("b"), parents |-> <<G("g")>>,
   attrs |-> [n |-> VLong(MaxI64), s |-> VStr(<<>>), ss |-> [k |-> "set", els |-> <<>>], e |-> U("b")],
   tags |-> <<>>],
  [uid |-> G("g"), parents |-> <<G("top")>>, attrs |-> [n |-> VInt(7)], tags |-> << <<<<116, 49>>, VFalse>> >>],
  [uid |-> G("top"), parents |-> <<G("g")>>, attrs |-> <<>>, tags |-> <<>>],
  [uid |-> A("view"), parents |-> <<A("all")>>, attrs |-> <<>>, tags |-> <<>>],
  [uid |-> A("edit"), parents |-> <<A("all")>>, attrs |-> <<>>, tags |-> <<>>],
  [uid |-> A("all"), parents |-> <<>>, attrs |-> <<>>, tags |-> <<>>] >>

S2W == <<
  [uid |-> U("a"), parents |-> <<>>,
   attrs |-> [n |-> VStr(<<110>>), s |-> VStr(<<98>>), r |-> [k |-> "rec", f |-> [y |-> VInt(1)]],
              ss |-> [k |-> "set", els |-> <<VInt(3)>>], e |-> G("g")],
   tags |-> << <<<<116, 50>>, VInt(2)>> >>],
  [uid |-> G("g"), parents |-> <<>>, attrs |-> [n |-> VInt(8)], tags |-> <<>>],
  [uid |-> G("top"), parents |-> <<U("a")>>, attrs |-> <<>>, tags |-> <<>>],
  [uid |-> A("view"), parents |-> <<>>, attrs |-> <<>>, tags |-> <<>>],
  [uid |-> A("edit"), parents |-> <<A("view")>>, attrs |-> <<>>, tags |-> <<>>] >>

CtxB == << EmptyRec,
           VRec([k |-> VInt(1), s |-> VStr(<<97>>), e |-> U("a")]),
           VRec([k |-> VStr(<<120>>), r |-> VRec([n |-> VInt(2)])]) >>

\* environments in wire form: 3 principals x 2 actions x 2 resources x 3 contexts x 2 stores = 72
EnvUW == { [p |-> p, a |-> a, r |-> r, c |-> c, store |-> s] :
             p \in {U("a"), U("b"), U("zz")}, a \in {A("view"), A("edit")}, r \in {G("g"), U("b")},
             c \in SeqRange(CtxB), s \in {S1W, S2W} }
Env1W == [p |-> U("a"), a |-> A("view"), r |-> G("g"), c |-> CtxB[2], store |-> S1W]
Env2W == [p |-> U("a"), a |-> A("edit"), r |-> U("b"), c |-> CtxB[3], store |-> S2W]
=============================================================================''')
open(sys.argv[1] if len(sys.argv) > 1 else "/verif/spec/Universe.tla", "w").write("\n".join(out) + "\n")
