#!/usr/bin/env python3
"""Generates spec/Universe.tla: the boundary-value universes of DESIGN.md section 3.3
as TLA+ constants (64-bit numbers as Num64 limb records, strings as code-point
tuples).  Pure data; the generated module is committed and SANY/TLC-checked at setup."""
import sys

def limbs(n):
    n = abs(n); out = []
    while n: out.append(n % 10000); n //= 10000
    return out

def num(n):
    return "[neg |-> %s, mag |-> <<%s>>]" % ("TRUE" if n < 0 else "FALSE", ", ".join(map(str, limbs(n))))

def cps(s):
    return "<<%s>>" % ", ".join(str(ord(c)) for c in s)

def seq(items):
    return "<<" + ",\n    ".join(items) + ">>"

MIN, MAX = -2**63, 2**63 - 1
LongB = [MIN, MIN + 1, -2**62, -3037000500, -3037000499, -2**32, -2**31, -86400001, -86400000, -86399999,
         -10, -2, -1, 0, 1, 2, 3, 10, 86399999, 86400000, 86400001, 2**31, 2**32, 3037000499, 3037000500,
         153092023, 60247241209, 60247241210, 2**62, MAX - 1, MAX]
# decimals in ten-thousandths
DecB = [MIN, MIN + 1, -10000, -1, 0, 1, 9999, 10000, 15000, 123456, MAX - 1, MAX]
# datetimes in ms: epoch neighbourhood, day boundaries, leap day 2024-02-29, 0000-01-01, 9999-12-31T23:59:59.999, 10000-01-01, year -1
DtB = [MIN, MIN + 1, -62167219200000 - 86400000 * 366, -62167219200000, -86400001, -86400000, -86399999, -1, 0, 1,
       86399999, 86400000, 86400001, 1709164800000, 1709251199999, 253402300799999, 253402300800000, MAX - 1, MAX]
DurB = [MIN, MIN + 1, -86400001, -86400000, -86399999, -3600000, -60001, -60000, -1000, -999, -1, 0, 1, 999, 1000,
        59999, 60000, 3600000, 86399999, 86400000, 86400001, MAX - 1, MAX]
StrB = ["", "a", "b", "ab", "ba", "a*", "*", "a*b", "\"", "\\", "\x00", "\t", "\r", "\n", "\x7f", "\x80",
        "́", "é", "́e", "​", "", "�", "\U0001F600", "\U0010FFFF"]
DecLits = ["0.0", "1.0", "-1.0", "0.0001", "-0.0001", "1.5", "12.3456", "00.10", "-0.0", "0.5", "-0.5",
           "922337203685477.5807", "-922337203685477.5808", "922337203685477.5808", "-922337203685477.5809",
           "922337203685478.0", "1", "1.", ".5", "1.00000", "1.0000", "x", "", "-", "-.5", "1.-5", "1e3", "+1.0",
           " 1.0", "1.0 ", "1..0", "1.2.3", "0.00001", "99999999999999999999.0"]
DtLits = ["1970-01-01", "1969-12-31", "2024-02-29", "2023-02-29", "1900-02-29", "2000-02-29", "0000-01-01",
          "0000-02-29", "9999-12-31", "2024-04-31", "2024-06-30", "2024-00-10", "2024-10-00", "2024-13-01",
          "2024-01-32", "1970-01-01T00:00:00Z", "1969-12-31T23:59:59.999Z", "2024-03-10T01:02:03.004+0530",
          "2024-03-10T01:02:03-2359", "2024-03-10T01:02:03+2400", "2024-03-10T01:02:03+0060",
          "2024-01-01T24:00:00Z", "2024-01-01T23:60:00Z", "2024-01-01T23:59:60Z", "2024-01-01T23:59:59.999Z",
          "2024-01-01T23:59:59.99Z", "2024-01-01T23:59:59.9999Z", "+000010000-01-01", "-000000001-12-31T23:59:59Z",
          "+292278994-08-17T07:12:55.807Z", "+292278994-08-17T07:12:55.808Z", "-292275055-05-16T16:47:04.192Z",
          "-292275055-05-16T16:47:04.191Z", "-292275055-05-17T00:00:00.000Z", "+999999999-12-31",
          "-999999999-01-01", "+292278994-08-18", "-292275055-05-16", "-292275055-05-17",
          "+292278994-08-17T07:12:55.807+0001", "+292278994-08-17T08:12:55.807+0100",
          "2024-01-01T00:00:00", "2024-1-01", "2024-01-1", "24-01-01", "2024-01-01T", "2024-01-01Z",
          "2024-01-01T00:00Z", "2024-01-01 00:00:00Z", "2024-01-01t00:00:00z", "x", "", "2024-01-01T00:00:00ZZ",
          "2024-01-01T00:00:00+01:00", "2024-01-01T00:00:00.000+01", "10000-01-01", "+10000-01-01"]
DurLits = ["0ms", "1ms", "-1ms", "1d", "1h", "1m", "1s", "1d2h3m4s5ms", "-1d2h3m4s5ms", "1h1d", "1dd", "1", "d", "",
           "-", "9223372036854775807ms", "9223372036854775808ms", "-9223372036854775808ms",
           "-9223372036854775809ms", "106751991167d", "106751991168d", "-106751991167d7h12m55s808ms",
           "106751991167d7h12m55s807ms", "106751991167d7h12m55s808ms", "2562047788015h", "2562047788016h",
           "153722867280912m", "153722867280913m", "9223372036854775s", "9223372036854776s", "1d 2h", "1ms1ms",
           "24h", "60m", "1000ms", "1m1ms", "1s1ms", "1ms1s", "0d0h0m0s0ms", "00001d", "1D", "+1d", "--1d", "1.5h",
           "1d-2h", "99999999999999999999d"]
IpLits = ["127.0.0.1", "127.0.0.1/8", "127.0.0.0/7", "127.255.255.255", "128.0.0.1", "10.0.0.0/8", "10.1.2.3",
          "10.1.2.3/32", "10.1.2.3/8", "224.0.0.1", "224.0.0.0/4", "224.0.0.0/3", "239.255.255.255", "240.0.0.0",
          "0.0.0.0/0", "0.0.0.0", "255.255.255.255", "::1", "::1/127", "::1/128", "::", "::/0", "ff00::/8", "ff00::/7",
          "ff02::1", "fe80::1", "2001:db8::/32", "2001:db8::1", "::ffff:0:1", "1:2:3:4:5:6:7:8", "1:2:3:4:5:6:7::",
          "::2:3:4:5:6:7:8", "1::8", "ABCD::abcd", "1.2.3", "1.2.3.4.5", "256.1.1.1", "01.2.3.4", "1.2.3.4/33",
          "1.2.3.4/-1", "1.2.3.4/", "1.2.3.4/08", "1.2.3.4/032", "::1/129", "::1/0128", "::ffff:1.2.3.4", "1::2::3",
          "1:2:3:4:5:6:7:8:9", "1:2:3:4:5:6:7", "12345::", ":1", "1:", "::g", "x", "", "1.2.3.4 ", " 1.2.3.4", "1.2.3.-4",
          "1.2..4", ":::", "1.2.3.4/8/8",
          # IPv4-mapped IPv6 addresses whose IPv4 part is a loopback / multicast address: IPv6 addresses, not in ::1/128
          # nor in ff00::/8
          "::ffff:7f00:1", "::ffff:e000:1", "::ffff:7f00:1/104", "::ffff:e000:0/100", "::ffff:7f00:0/120"]


# ---- C12: literals built from components (every part at its boundaries)
import itertools
DecLits2 = sorted(set(sg + ip + dot + fp for sg in ["", "-", "+"]
                      for ip in ["0", "00", "1", "922337203685477", "922337203685478", "9223372036854775807",
                                 "9223372036854775808", "18446744073709551616", ""]
                      for dot in ["."]
                      for fp in ["", "0", "5", "58", "580", "5807", "5808", "5809", "9999", "0007", "00000", "12345"])
                  | {"1", "-1", "0", "1,5", "1.5e1", "0x1.0", "1_0.0", "1.0_0", "١.٠"})
_years = ["0000", "0001", "1900", "1970", "2000", "2023", "2024", "9999"]
_mds = ["01-01", "01-31", "02-28", "02-29", "02-30", "03-31", "04-30", "04-31", "06-31", "09-31", "11-31", "12-31",
        "13-01", "00-10", "01-00", "12-32"]
_times = ["", "T00:00:00Z", "T23:59:59.999Z", "T24:00:00Z", "T12:60:00Z", "T12:00:60Z", "T12:00:00.000+0000",
          "T12:00:00+2359", "T12:00:00-2359", "T12:00:00+2400", "T12:00:00+0060", "T12:00:00.12Z", "T12:00:00.1234Z",
          "T12:00:00", "T12:00Z", "T00:00:00.001-0000", "T00:00:00+0001", "T23:59:59-0001"]
DtLits2 = [y + "-" + md + t for y in _years for md in _mds for t in _times]
DtLits2 += [y + "-" + md + t for y in ["+000010000", "-000000001", "+292278994", "-292275055", "+0000", "-0000", "+2024", "99999",
                                       "+000002024", "-000002024", "+00002024", "+0000002024"]
            for md in ["01-01", "02-29", "08-17", "05-16", "05-17", "12-31"] for t in ["", "T00:00:00Z", "T07:12:55.807Z", "T16:47:04.192Z", "T23:59:59.999+2359", "T00:00:00.000-2359"]]
_units = [("d", 86400000), ("h", 3600000), ("m", 60000), ("s", 1000), ("ms", 1)]
DurLits2 = []
for r in range(1, 6):
    for sub in itertools.permutations(range(5), r):
        if r <= 2 or list(sub) == sorted(sub) or sum(1 for a, b in zip(sub, sub[1:]) if a > b) == 1 and r <= 3:
            DurLits2.append("".join("%d%s" % (k + 1, _units[u][0]) for k, u in enumerate(sub)))
for u, ms in _units:
    q = MAX // ms
    for d in (-1, 0, 1, 2):
        DurLits2 += ["%d%s" % (q + d, u), "-%d%s" % (q + d, u)]
    DurLits2 += ["0%s" % u, "00%s" % u, "%s" % u, "1 %s" % u, "1%s " % u, "1%s1%s" % (u, u), "18446744073709551617%s" % u]
DurLits2 += ["106751991167d7h12m55s807ms", "106751991167d7h12m55s808ms", "-106751991167d7h12m55s808ms",
             "-106751991167d7h12m55s809ms", "106751991167d8h", "106751991167d7h13m", "106751991167d7h12m56s",
             "9223372036854775s807ms", "9223372036854775s808ms", "-9223372036854775s808ms", "-9223372036854775s809ms",
             "0d9223372036854775807ms", "1d9223372036768375807ms", "1d9223372036768375808ms"]
DurLits2 = sorted(set(DurLits2))
_v4 = ["0.0.0.0", "1.2.3.4", "127.0.0.1", "255.255.255.255", "10.0.0.256", "1.2.3", "1.2.3.4.5", "01.2.3.4", "1.2.3.04", "1.2.3.a", "1..3.4"]
_p4 = ["", "/0", "/1", "/8", "/31", "/32", "/33", "/032", "/08", "/+8", "/-0", "/", "/8 ", "/128", "/ 8"]
_v6 = ["::", "::1", "1::", "1:2:3:4:5:6:7:8", "1:2:3:4:5:6:7::", "::2:3:4:5:6:7:8", "1:2:3:4::6:7:8", "1:2:3:4:5::6:7:8",
       "1:2:3:4:5:6:7", "1:2:3:4:5:6:7:8:9", "ffff:ffff:ffff:ffff:ffff:ffff:ffff:ffff", "FFFF::", "fffff::", "0000::0000",
       "00000::", "1::2::3", ":::", "::ffff:0:1", "::ffff:1.2.3.4", "fe80::1%eth0", "fe80::1%1", "[::1]", "::1.", "g::"]
_p6 = ["", "/0", "/1", "/64", "/127", "/128", "/129", "/0128", "/", "/-1", "/+64", "/32 "]
IpLits2 = sorted(set([a + q for a in _v4 for q in _p4] + [a + q for a in _v6 for q in _p6]))
# candidates for a wrapped product i * 10^e (the product exceeds 2^64 by little)
WrapB = sorted(set(s * v for e in range(1, 15) for k in (1, 2, 3, 5) for s in (1, -1)
                   for v in ((k * 2**64 + 10**e - 1) // 10**e, (k * 2**64) // 10**e, (k * 2**64 + 2**62) // 10**e + 1)
                   if -2**63 <= s * v < 2**63) | {922337203685477, 922337203685478, 92233720368547758, 92233720368547759, 9223372036854775807 // 10**14 + 1})

def ent(ty, i): return '[k |-> "ent", ty |-> "%s", id |-> "%s"]' % (ty, i)
def vlong(n): return '[k |-> "long", n |-> %s]' % num(n)
def vstr(s): return '[k |-> "str", s |-> %s]' % cps(s)

out = []
w = out.append
w("------------------------------ MODULE Universe ------------------------------")
w("(* GENERATED by tools/genuniverse.py -- boundary-value universes (DESIGN.md 3.3). *)")
w("EXTENDS CedarValues")
w("")
for name, xs in [("LongB", LongB), ("DecB", DecB), ("DtB", DtB), ("DurB", DurB)]:
    w("%s == %s" % (name, seq([num(x) for x in xs])))
w("WrapB == %s" % seq([num(x) for x in WrapB]))
for name, xs in [("StrB", StrB), ("DecLits", DecLits), ("DtLits", DtLits), ("DurLits", DurLits), ("IpLits", IpLits),
                 ("DecLits2", DecLits2), ("DtLits2", DtLits2), ("DurLits2", DurLits2), ("IpLits2", IpLits2)]:
    w("%s == %s" % (name, seq([cps(x) for x in xs])))
w("")
w("SeqMap(f(_), s) == [i \\in DOMAIN s |-> f(s[i])]")
w("U(id) == VEnt(\"U\", id)   G(id) == VEnt(\"G\", id)   A(id) == VEnt(\"Action\", id)")
w("")
w(r'''\* Two entity stores in WIRE form (tags as <<key code points, value>> pairs) over
\* U::a U::b G::g G::top Action::view Action::edit Action::all; G::h and U::zz are
\* never present.  S1: diamond a -> {g, h(absent)}, cycle g <-> top, attributes of
\* every kind, optional attribute, tags.  S2 differs in every entity-dependent
\* observation (parents, attribute presence and kinds, tags, presence of U::b).
S1W == <<
  [uid |-> U("a"), parents |-> <<G("g"), G("h")>>,
   attrs |-> [n |-> VInt(1), s |-> VStr(<<97>>), opt |-> VInt(5), b |-> VTrue,
              r |-> [k |-> "rec", f |-> [x |-> VInt(1), e |-> U("b")]],
              ss |-> [k |-> "set", els |-> <<VInt(1), VInt(2)>>], e |-> U("b"),
              d |-> VDec(FromInt(15000)), t |-> VDt(FromInt(0)), dur |-> VDur(FromInt(1)),
              ip |-> VIp(<<10, 1, 2, 3>>, 32)],
   tags |-> << <<<<116, 49>>, VInt(1)>>, <<<<>>, VStr(<<120>>)>> >>],
  [uid |-> U("b"), parents |-> <<G("g")>>,
   attrs |-> [n |-> VLong(MaxI64), s |-> VStr(<<>>), ss |-> [k |-> "set", els |-> <<>>], e |-> U("b")],
   tags |-> <<>>],
  [uid |-> G("g"), parents |-> <<G("top")>>, attrs |-> [n |-> VInt(7)], tags |-> << <<<<116, 49>>, VFalse>> >>],
  [uid |-> G("top"), parents |-> <<G("g")>>, attrs |-> <<>>, tags |-> <<>>],
  [uid |-> A("view"), parents |-> <<A("all")>>, attrs |-> <<>>, tags |-> <<>>],
  [uid |-> A("edit"), parents |-> <<A("all")>>, attrs |-> <<>>, tags |-> <<>>],
  [uid |-> A("all"), parents |-> <<>>, attrs |-> <<>>, tags |-> <<>>] >>

S2W == <<
  [uid |-> U("a"), parents |-> <<>>,
   attrs |-> [n |-> VStr(<<110>>), s |-> VStr(<<98>>), r |-> [k |-> "rec", f |-> [y |-> VInt(1)]],
              ss |-> [k |-> "set", els |-> <<VInt(3)>>], e |-> G("g")],
   tags |-> << <<<<116, 50>>, VInt(2)>> >>],
  [uid |-> G("g"), parents |-> <<>>, attrs |-> [n |-> VInt(8)], tags |-> <<>>],
  [uid |-> G("top"), parents |-> <<U("a")>>, attrs |-> <<>>, tags |-> <<>>],
  [uid |-> A("view"), parents |-> <<>>, attrs |-> <<>>, tags |-> <<>>],
  [uid |-> A("edit"), parents |-> <<A("view")>>, attrs |-> <<>>, tags |-> <<>>] >>

CtxB == << EmptyRec,
           VRec([k |-> VInt(1), s |-> VStr(<<97>>), e |-> U("a")]),
           VRec([k |-> VStr(<<120>>), r |-> VRec([n |-> VInt(2)])]) >>

\* environments in wire form: 3 principals x 2 actions x 2 resources x 3 contexts x 2 stores = 72
EnvUW == { [p |-> p, a |-> a, r |-> r, c |-> c, store |-> s] :
             p \in {U("a"), U("b"), U("zz")}, a \in {A("view"), A("edit")}, r \in {G("g"), U("b")},
             c \in SeqRange(CtxB), s \in {S1W, S2W} }
Env1W == [p |-> U("a"), a |-> A("view"), r |-> G("g"), c |-> CtxB[2], store |-> S1W]
Env2W == [p |-> U("a"), a |-> A("edit"), r |-> U("b"), c |-> CtxB[3], store |-> S2W]
=============================================================================''')
open(sys.argv[1] if len(sys.argv) > 1 else "/verif/spec/Universe.tla", "w").write("\n".join(out) + "\n")

# ---- JsonKeys.tla: the key / keyword strings of the JSON formats as code-point tuples (TLC cannot look inside strings)
KEYS = {"Value": "Value", "Var": "Var", "Not": "!", "Neg": "neg", "IsEmpty": "isEmpty", "Eq": "==", "Ne": "!=", "In": "in", "Lt": "<",
        "Le": "<=", "Gt": ">", "Ge": ">=", "And": "&&", "Or": "||", "Add": "+", "Sub": "-", "Mul": "*", "Contains": "contains",
        "ContainsAll": "containsAll", "ContainsAny": "containsAny", "GetTag": "getTag", "HasTag": "hasTag", "Access": ".", "Has": "has",
        "Is": "is", "Like": "like", "If": "if-then-else", "Set": "Set", "Record": "Record", "left": "left", "right": "right", "arg": "arg",
        "attr": "attr", "pattern": "pattern", "entity_type": "entity_type", "in": "in", "if": "if", "then": "then", "else": "else",
        "Wildcard": "Wildcard", "Literal": "Literal", "effect": "effect", "permit": "permit", "forbid": "forbid", "principal": "principal",
        "action": "action", "resource": "resource", "context": "context", "conditions": "conditions", "annotations": "annotations",
        "kind": "kind", "body": "body", "when": "when", "unless": "unless", "op": "op", "All": "All", "entity": "entity",
        "entities": "entities", "type": "type", "id": "id", "Entity": "__entity", "Extn": "__extn", "fn": "fn", "ip": "ip",
        "decimal": "decimal", "datetime": "datetime", "duration": "duration", "uid": "uid", "attrs": "attrs", "parents": "parents",
        "tags": "tags", "staticPolicies": "staticPolicies", "slot": "slot", "lessThan": "lessThan",
        "decision": "decision", "diagnostic": "diagnostic", "reasons": "reasons", "errors": "errors", "policy": "policy",
        "position": "position", "filename": "filename", "offset": "offset", "line": "line", "column": "column", "message": "message",
        "allow": "allow", "deny": "deny"}
jk = ["------------------------------ MODULE JsonKeys ------------------------------",
      "(* GENERATED by tools/genuniverse.py -- key and keyword strings of the JSON formats as code points. *)"]
for name, text in KEYS.items():
    jk.append("K_%s == %s" % (name, cps(text)))
jk.append("=============================================================================")
open(sys.argv[2] if len(sys.argv) > 2 else "/verif/spec/JsonKeys.tla", "w").write("\n".join(jk) + "\n")
