#!/bin/sh
# usage: confirm_seed.sh <worktree> <patch.diff> <demo_test.go> <demo dir relative to worktree>
# Confirms a seeded change: applies, builds, the full suite passes with it, the demo fails with it
# and passes without it.  Prints a one-line summary.
WT=$1; P=$2; DEMO=$3; DDIR=${4:-.}
export GOFLAGS=-mod=mod GOPROXY=off GOSUMDB=off GOTOOLCHAIN=local
cd $WT && git checkout -q -- . && git clean -fdq
git apply "$P" || { echo "CONFIRM $P: patch does not apply"; exit 1; }
go build ./... || { echo "CONFIRM $P: does not build"; exit 1; }
if go test -count=1 -timeout 25m ./... > /tmp/confirm_suite.log 2>&1; then SUITE=pass; else SUITE=FAIL; fi
cp "$DEMO" $DDIR/demo_test.go
if (cd $DDIR && go test -count=1 -run . . > /tmp/confirm_demo1.log 2>&1); then WITH=pass; else WITH=fail; fi
git checkout -q -- . 
if (cd $DDIR && go test -count=1 -run . . > /tmp/confirm_demo2.log 2>&1); then WITHOUT=pass; else WITHOUT=fail; fi
rm -f $DDIR/demo_test.go; git clean -fdq
echo "CONFIRM $P: suite=$SUITE demo_with_patch=$WITH demo_without_patch=$WITHOUT"
