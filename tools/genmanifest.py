#!/usr/bin/env python3
"""Writes /verif/MANIFEST.json from the per-property table below (one source of truth for
commands, levels and notes).  Properties without an entry in CLAIMED are listed under
not_applicable with the reason given in PENDING."""
import json, os

VERIF = os.path.dirname(os.path.dirname(os.path.abspath(__file__)))
ALL = ["C%02d" % i for i in range(1, 21)]

TRUSTED = ("Trusted base: TLC 1.8.0 + CommunityModules (Json, IOUtils), the wire codec harness/cwf (round-trip self-tested "
           "by setup_cmd), the Go toolchain. ")

CLAIMED = {
    "C01": dict(
        category="model_checking",
        text="The meaning of every Cedar operator is an explicit TLA+ definition (spec/CedarEval.tla over CedarExt, Num64: exact "
             "64-bit arithmetic, text forms of decimal/ip/datetime/duration, hierarchy reachability). TLC enumerates the "
             "operator x boundary-operand tables exhaustively (all pairs of 31 boundary longs for + - * and the orderings, "
             "datetime/duration/decimal boundaries, a 21x21 mixed-kind grid for every binary operator and extension function, "
             "hash-colliding values, entity operators on two stores, every single-character edit of representative extension "
             "literals, every arity) and emits each row with the specified result; the harness executes every expression with "
             "x/exp/eval.Eval and through cedar.Authorize. Deeper trees are sampled: seeded random trees are evaluated by the "
             "real code and every recorded event is validated by TLC against the same specification. Differences are "
             "re-executed in a fresh process, localised to the minimal failing sub-expression and re-evaluated by TLC before "
             "they are reported.",
        design_ref="DESIGN.md 4 C01",
        note=TRUSTED + "The evaluator in TLA+ is a transcription of the Cedar language documents; only value-vs-failure and the "
             "value are compared, not error classes or messages. Exhaustive inside the tables, sampled beyond depth 2.",
        technique="TLA+ specification of the evaluator; TLC-generated operator tables replayed into the Go evaluator; TLC trace "
                  "validation of recorded random evaluations"),
    "C02": dict(
        category="model_checking",
        text="spec/Authz.tla defines the abstract result (Allow iff a satisfied permit and no satisfied forbid; reasons; errors) "
             "and the authorizer loop as a state machine with one action per iteration and a free iteration order. TLC shows "
             "(MC_Authz) that every order over every multiset of the six policy classes yields the abstract result and "
             "terminates, and (MC_PolicyClauses) that clause-by-clause satisfaction equals the desugared conjunction. The "
             "behaviours of MC_AuthzGen (concrete policies per class, iteration order taken, specified result) are replayed "
             "into cedar.Authorize through a PolicySet, an order-fixing PolicyIterator and a parsed document whose reported "
             "positions are compared with the layout; random policy sets recorded from the real authorizer are validated by "
             "TLC (Trace_Authz).",
        design_ref="DESIGN.md 4 C02",
        note=TRUSTED + "Policy outcomes come from the TLA+ evaluator (C01). Error message text is not predicted. Exhaustive "
             "for <= 4 (5 thorough) policies in M1 and <= 3 (4) in M2; sampled beyond.",
        technique="TLA+ state machine of the authorizer loop model-checked for all iteration orders; TLC-generated behaviours "
                  "replayed into cedar.Authorize; TLC trace validation of recorded authorizations"),
    "C03": dict(
        category="model_checking",
        text="spec/HierarchySearch.tla transcribes the implementation's iterative ancestor search with its four pruning rules "
             "(one action per loop iteration, parents pushed in any order) and TLC checks it against reflexive-transitive "
             "reachability through present entities for every store over 3 (thorough: 4) nodes, every target set and every "
             "push order, including termination. MC_HierarchyGen enumerates every such store with the specified answer of "
             "every ordered pair, every target set, `is T in` and the three scope forms; the harness asks the real evaluator "
             "and authorizer under a watchdog. Random graphs of 5-10 nodes are validated by TLC (Trace_Hier).",
        design_ref="DESIGN.md 4 C03",
        note=TRUSTED + "Exhaustive for N<=3 (quick) / N<=4 (thorough); sampled for 5-10 nodes. Non-termination is a 20 s watchdog.",
        technique="TLA+ model of the hierarchy search model-checked against reachability; exhaustive TLC-generated stores "
                  "replayed into the Go evaluator/authorizer; TLC trace validation of random graphs"),
    "C04": dict(
        category="model_checking",
        text="spec/Fold.tla states the folding rules (fold iff all children are values and constant evaluation succeeds; "
             "store-dependent operators never fold) and TLC checks FoldSound -- same value or same failure -- for every "
             "expression of the bounded universe (every operator over constant / non-constant / erroring operands, every "
             "parent-child-position triple in thorough) under up to 72 environments that differ in every entity-dependent "
             "observation. Each policy is emitted with the outcome of its ORIGINAL tree; the harness compiles it with the real "
             "cedar.NewPolicyFromAST (which folds), authorizes, evaluates the unfolded tree directly and compares AST, text and "
             "JSON snapshots before/after. Random constant-heavy policies are validated by TLC (Trace_Fold).",
        design_ref="DESIGN.md 4 C04",
        note=TRUSTED + "Outcomes come from the TLA+ evaluator (C01). The universe is bounded (depth 2 exhaustive by operator "
             "pairing, deeper sampled).",
        technique="TLA+ fold rules checked for soundness by TLC; TLC-generated policies with specified outcomes replayed into "
                  "the folding compiler and the unfolded evaluator; TLC trace validation"),
    "C05": dict(
        category="model_checking",
        text="spec/Batch.tla defines what the callback log must be (one callback per element of the Cartesian product of the "
             "value lists as a multiset, the substituted request -- substitution reaches nested records, sets and every "
             "occurrence --, the substitution, and the ordinary authorizer's decision and reason set; exactly k callbacks and the "
             "callback's / context's error under a fault at k; nothing for an empty list; the context's error, and no callback, "
             "when the context is already cancelled at the call; an error for unbound or unused variables). MC_Batch model-checks the enumeration algorithm (sorting by list length, one recursion level per "
             "variable, save/restore, context check, error propagation) against it for every fault plan. Concrete batch "
             "requests with the expected multiset are replayed into batch.Authorize with copying / failing / cancelling "
             "callbacks, each Result.Request also authorized by cedar.Authorize; random templates are validated by TLC "
             "(Trace_Batch).",
        design_ref="DESIGN.md 4 C05",
        note=TRUSTED + "Callback order is free. Decisions come from the TLA+ evaluator and Authz (C01, C02). Pruning by staged "
             "partial evaluation is not modelled separately: its invisibility is what the replay against the abstract "
             "definition checks, its soundness is C06.",
        technique="TLA+ model of the batch enumeration model-checked under every fault plan; TLC-generated batch requests with "
                  "expected callback multisets replayed into batch.Authorize; TLC trace validation of random batches"),
    "C06": dict(
        category="model_checking",
        text="spec/Partial.tla states soundness without modelling the algorithm: for every completion of the unknowns (same "
             "value for every occurrence of a name; candidates: entities for request positions, whole records for the context, "
             "values of several kinds for nested unknowns) a kept residual is satisfied exactly when the original is, a dropped "
             "policy is never satisfied, and with an ignored part a permit stays satisfiable. TLC enumerates policies of the "
             "expression universe x 13 partial-environment shapes, the real PartialPolicy supplies keep/residual, and TLC "
             "evaluates original and residual (with the C01 evaluator) under every completion. Random policies/environments "
             "likewise. Further families: the conditions loop (three-condition policies x six shapes mixing unknown and "
             "ignored parts), literals and if branches over partly known collections (the leak family), and batch.Authorize "
             "over templates with ignored parts judged against completions evaluated by the specification.",
        design_ref="DESIGN.md 4 C06",
        note=TRUSTED + "Completions come from finite candidate universes; an unsoundness that needs a value outside them is "
             "missed. Error nodes in residuals mean 'evaluation fails'. Forbid policies with ignored parts are unconstrained.",
        technique="TLA+ soundness predicate evaluated by TLC over all completions on residuals produced by the real partial "
                  "evaluator (TLC-generated inputs, recorded outputs, TLC validation)"),
    "C07": dict(
        category="model_checking",
        text="spec/Syntax.tla is the documented Cedar grammar as a recursive-descent parser over token sequences and a renderer "
             "that derives minimal parenthesisation from the grammar's own levels. TLC checks Parse(Render(a)) = a for every AST "
             "of the universe (41 expression forms in every parent/child/operand-position pairing, every literal kind, scope "
             "forms, annotations, condition lists, string and pattern literals incl. escapes) in minimal and full "
             "parenthesisation, and that the named families outside the grammar are rejected. Both renderings of every AST and "
             "every single-token deletion / duplication / replacement / swap of the representative policies (32k sequences) are "
             "emitted with the specification parser's verdict; the harness lays them out with random whitespace and comments "
             "and compares PolicyList.UnmarshalCedar / Policy.UnmarshalCedar: same acceptance, same AST node by node. Texts with "
             "multi-byte characters are parsed again behind n bytes of leading white space or comment, n cutting the character at "
             "every inner byte boundary by a multiple of the tokenizer's 1024-byte read buffer: the same list.",
        design_ref="DESIGN.md 4 C07",
        note=TRUSTED + "The grammar is a transcription of the documented one (trailing commas accepted as in the reference "
             "grammar, no limit on stacked unary operators, extension-function arity not checked at parse time). Layouts are "
             "generated by the harness.",
        technique="TLA+ grammar (parser + renderer) round-trip model-checked; TLC-generated token sequences with the "
                  "specified verdict replayed into the Go parser"),
    "C11": dict(
        category="model_checking",
        text="In spec/ValueLaws.tla a Cedar set is a TLA+ set and a record a function, so the algebraic laws hold by "
             "construction and the specification states what must be observed (SetObs / RecObs); immutability is a state "
             "machine over construct / mutate input / take accessor output / mutate output / observe with the action property "
             "Immutable. TLC enumerates every sequence of <= 2 (thorough 3) values of a universe built to collide in the "
             "implementation's hash (true / 1 / decimal 0.0001 / 1ms / datetime 1, neighbouring longs, sets with equal additive "
             "hashes, equal members in different insertion orders, nested sets and records), paired with permutations, "
             "duplications, prefixes and replacements, and every interleaving of the immutability history; the harness builds "
             "real Set / Record / EntityUIDSet values and compares length, membership of every universe value, equality in "
             "both directions and through the evaluator and through membership in a set of sets, containsAll / containsAny, "
             "text and JSON forms.",
        design_ref="DESIGN.md 4 C11",
        note=TRUSTED + "True 64-bit FNV collisions between strings are not constructed; the collision universe exploits the "
             "numeric hashes and the additive set hash. Exhaustive for the stated sequence lengths.",
        technique="TLA+ set/record model with an immutability state machine; exhaustive TLC-generated sequences and "
                  "interleavings replayed on real values"),
    "C14": dict(
        category="model_checking",
        text="spec/Determinism.tla: observations form a history that must be a function of the input (Observe is enabled for a "
             "known input only with its first observation). MC_Authz shows on the model that the authorizer's result is a "
             "function of the policy multiset for every iteration order. The driver repeats each operation 30 (thorough 60) "
             "times on freshly built / freshly decoded objects with rotated insertion orders -- authorization with error "
             "messages over 12-policy sets and record literals with several failing fields, batch results with their error entries "
             "(two variables of equal list length, unbound / unused variable errors), getTag on an unspecified principal, MarshalCedar / "
             "MarshalJSON of policies decoded from JSON and text, policy sets, entity maps, values with colliding members, "
             "decode -> re-encode -- and TLC validates every repetition as one Observe step (Trace_Determ).",
        design_ref="DESIGN.md 4 C14",
        note=TRUSTED + "Map-order resampling is statistical (a two-way choice escapes 30 repetitions with probability 2^-29). "
             "Reasons and errors are compared as sets, messages included.",
        technique="TLA+ history specification (functional observations) validated by TLC on recorded repetitions; model "
                  "checking of order independence of the authorizer loop"),
    "C19": dict(
        category="exploration",
        text="spec/Concurrent.tla: read-only operations of any number of processes on a shared state S, each enabled only with "
             "its sequential result F(op, S) and UNCHANGED S. Sessions of 8-64 (thorough: up to 128) goroutines sharing one "
             "PolicySet, EntityMap, requests and values are recorded from a -race build (every call/return with the "
             "goroutine's own sequence number); TLC validates every event: authorizations against the Authz specification, "
             "encoders / accessors / batch (also with ignored parts) / eval.PartialPolicy on the shared trees / the validator "
             "over a shared resolved schema / schema marshalling and resolution against their sequential result, deep "
             "reflection snapshots of all shared inputs against the initial one. Data races are decided by the Go race "
             "detector on the same runs.",
        design_ref="DESIGN.md 4 C19",
        note=TRUSTED + "The race detector is a borrowed oracle for the memory-model half of the statement (a TLA+ specification "
             "of the API cannot observe data races). Interleavings are those the scheduler produced; nothing is exhaustive.",
        technique="TLA+ specification of concurrent read-only use; TLC trace validation of recorded concurrent sessions run "
                  "under the Go race detector"),
    "C20": dict(
        category="model_checking",
        text="spec/PolicyStore.tla is the container as a state machine (two PolicySet handles, a PolicyMap copy; New, Load, Add, "
             "Remove, Get, Map, mutate-the-copy, MarshalCedar, JSON round trip), each action with the return value the id-keyed "
             "map model predicts and a projection of the whole state including cedar.Authorize results for probe requests. TLC "
             "checks refinement/isolation invariants on the bounded state graph, emits EVERY history up to 3 (thorough 4) "
             "operations and long simulated behaviours, which are replayed on real objects with comparison after each step; "
             "random histories of 50-500 operations recorded from the real objects are validated against the unchanged "
             "PolicyStore actions (Trace_Store).",
        design_ref="DESIGN.md 4 C20",
        note=TRUSTED + "Policies in containers are recognised by an annotation. Exhaustive for histories <= 3 (4) operations "
             "over 2 handles, 2-3 ids, 4 policies, 4 documents; sampled beyond.",
        technique="TLA+ state machine of the policy container; exhaustive TLC-generated histories and simulated behaviours "
                  "replayed on real PolicySets; TLC trace validation of recorded random histories against the same actions"),
    "C08": dict(
        category="model_checking",
        text="spec/Marshal.tla states what surviving a rendering means (same effect, annotations, scope; every condition evaluates "
             "to the same value or the same kind of failure under every environment of the universe, by the TLA+ evaluator) and "
             "spec/Syntax.tla reads text itself: Lex over code points (M1: Lex(Spell(ts)) = ts) followed by the grammar's "
             "recursive-descent parser (M1: Parse(Render(a)) = a). TLC enumerates the inputs: every AST of the C07 universe, every "
             "parent/child/position triple over integer and boolean operands, value nodes only programs or the JSON decoder can "
             "build (sets, records with keys around the identifier border, all boundary decimals / datetimes / durations / "
             "ipaddrs / longs as operands, receivers and arguments), annotation and string literals over the boundary strings, "
             "policy sets under every id-order pattern, and every policy of the expression universe. The harness renders each "
             "with the real MarshalCedar (built from the AST, decoded from its JSON, reparsed from its text), parses the text with "
             "the real parser, renders again, and records code points and ASTs; Trace_Marshal compares the meaning of what came "
             "back AND of what the specification's own lexer + parser read in the recorded text; random policies the same way. "
             "For subjects built from an AST, the public builder API (package ast) applied to the subject's own structure must "
             "build the subject.",
        design_ref="DESIGN.md 4 C08",
        note=TRUSTED + "Meaning is compared on finite environment sets. Spelling tables relating code points to atomic names are "
             "computed by harness and checker (TLC cannot look inside strings). ASTs with no text form are outside the statement.",
        technique="TLA+ lexer, parser and evaluator as the judge; TLC-enumerated ASTs rendered and reparsed by the Go code; TLC trace "
                  "validation of every recorded rendering (text read by the specification) and of recorded random policies"),
    "C12": dict(
        category="model_checking",
        text="spec/TextForms.tla (over CedarExt / Num64 / Syntax) is the documented text syntax of every scalar kind as parsers over "
             "code-point sequences with exact multi-limb arithmetic and the 64-bit range, the specification's own reader of Cedar "
             "expression text (lexer + grammar + evaluator) and exact constructors (i * 10^e or failure). TLC computes the verdict "
             "for ~3.7k literals assembled from components at their boundaries (sign x integer x fraction; year x month-day x "
             "time / offset incl. expanded years; unit subsets in and out of order with quantities at every overflow edge; v4 / v6 "
             "forms x prefix suffixes), for every single-character deletion / replacement / insertion / transposition of 11 "
             "representative literals (~13k), and for NewDecimal over boundary longs and wrap-around candidates x exponents "
             "-6..16, NewDecimalFromInt and NewDecimalFromFloat (exact doubles, range edge, NaN, infinities); the harness runs "
             "types.Parse*, the typed __extn JSON decoders, the constructor functions through the evaluator and types.New*. "
             "In the other direction values of every kind at their boundaries and at random -- and every Unicode scalar value as "
             "string / entity id (thorough; every 257th quick) -- are printed by the real String() / MarshalCedar(); TLC reads the "
             "recorded code points with the specification's parsers and compares with the value, and checks what the real parsers "
             "and the real parser + evaluator read back (Trace_Text). The constructor tables also hold the Go-side conversions "
             "(Duration.Duration() in nanoseconds or an error, truncating unit accessors, NewDuration, Datetime.Time round trip).",
        design_ref="DESIGN.md 4 C12",
        note=TRUSTED + "Unicode printability tables are not modelled (any escape that unescapes to the character is accepted). "
             "NewDecimalFromFloat is documented as approximate: exactness only where the product is exact in a double; at the range "
             "edge only 'error, never a wrapped value'. Exhaustive inside the tables and the Unicode sweep, sampled for random values.",
        technique="TLA+ literal parsers and expression reader as the oracle; TLC-generated parse / constructor tables replayed into the "
                  "Go parsers and constructors; TLC trace validation of recorded print -> parse round trips (text read by the specification)"),
    "C18": dict(
        category="model_checking",
        text="spec/Scanner.tla transcribes the buffered rune reader and token-text assembly of internal/parser/cedar_tokenize.go "
             "(refill with spill of the partial token, move of unread bytes, sentinel, partial-rune wait, EOF / error handling, "
             "line / column / lastLineLen bookkeeping, token text = spilled head + buffer tail) as a state machine whose "
             "environment is the io.Reader: each Read returns any 0..min(cap, remaining) bytes, optionally with EOF, or fails at "
             "any byte position. TLC explores EVERY schedule at a scaled-down buffer (6 bytes; 5, 6, 8 thorough) over documents in "
             "which words, one-character tokens, strings, 2/3/4-byte characters, blanks and line feeds straddle the buffer end and "
             "checks: emitted tokens (text, byte offset, line, column) are a prefix of the reference tokenization at every step and "
             "equal to it at the end; the buffer mirrors the document; a failing reader ends in an error; no deadlock; termination. "
             "Simulated behaviours of the same model (document, exact (n, eof, fail) of every Read, specified tokens or error) are "
             "replayed on the real tokenizer (verif hook) with a reader performing exactly those reads. Documents of 0-5 KB "
             "assembled from rendered random policies (CR LF mixes, comments and strings with non-ASCII text, long identifiers, "
             "padding onto the 1024-byte buffer end) are run under 10 (16) reader schedules each -- single bytes, small random "
             "sizes, whole buffers, reads ending around the buffer end, zero-length reads, EOF with the last bytes, faults at random "
             "positions -- and validated by TLC (Trace_Scanner over ScannerRef!LexPos, the reference tokenization of Cedar text "
             "with positions): tokens = reference; every schedule = whole slice (tokens, decoded policies, positions, error "
             "text); fault => error; Policy.Position() and the positions in authorization diagnostics = first token of each policy.",
        design_ref="DESIGN.md 4 C18",
        note=TRUSTED + "Hook: x/exp/verifhook (build tag verif) re-exports the tokenizer. The token grammar of the exhaustively "
             "explored model is reduced (words, '(' and strings); Cedar token classes are specified by ScannerRef!LexPos and checked "
             "on recorded runs. Exhaustive at buffer sizes 5-8; the 1024-byte machine is reached by replayed and random schedules. "
             "The EOF token's position is not compared; damaged documents are only compared across schedules.",
        technique="TLA+ state machine of the scanner with the reader as environment, model-checked over all schedules; TLC-generated "
                  "behaviours replayed into the Go tokenizer; TLC trace validation of recorded tokenizer / streaming-decoder runs "
                  "against a TLA+ reference tokenization with positions"),
    "C09": dict(
        category="model_checking",
        text="spec/PolicyJson.tla (over ValueJson / TextForms) reads a JSON policy document itself -- handed to TLC in a tagged form with "
             "strings as code points, integers as limb numbers and object members in document order -- under the documented format "
             "(scope objects; conditions; one-key expression objects for Value, Var, every unary / binary operator, . / has, is with "
             "optional in, like with pattern lists, if-then-else, Set, Record; unknown key = extension call; __entity / __extn "
             "escapes) and defines SameAst (annotations and record-literal entries by key, a constructor call on a valid literal = "
             "the value it denotes, adjacent wildcards collapse). TLC enumerates the inputs: the C07/C08 syntax universe (every "
             "parent/child/position triple, value leaves only programs / JSON can build incl. every boundary decimal / datetime / "
             "duration / ipaddr / long, odd attribute names, annotations over the boundary strings), policy sets under every id "
             "pattern, the expression universe; each as built from the AST, reparsed from its text and decoded from its JSON. The "
             "harness encodes with the real MarshalJSON, decodes with the real UnmarshalJSON, re-encodes, takes the detour JSON -> "
             "text -> JSON and authorizes every variant; Trace_PolicyJson demands that the specification's reading of the RECORDED "
             "document is the subject's AST (an encoder and decoder wrong in the same way are caught), that the decoded policy is "
             "SameAst, that the detour equals what the text alone denotes, that all variants have the same outcome (= "
             "CedarPolicy!Outcome for random policies under random environments), and that policy-set JSON preserves ids and the "
             "policy under every id. The recorded document is also respelled (explicit scope entities, implicit entity values, "
             "split / empty pattern literals, extension values <-> constructor calls, reversed member order, explicit empty "
             "members, escaped strings and white space); every respelling is read by the specification and, where it reads "
             "the subject's policy, the real decoder must too. Names the syntax cannot spell are offered to the decoder and "
             "judged only if it accepts them.",
        design_ref="DESIGN.md 4 C09",
        note=TRUSTED + "The JSON format in PolicyJson.tla is a transcription of the documented one (one deviation of the code is read "
             "as written: `in` with an empty entity list has no `entities` member). ASTs calling functions Cedar does not have are "
             "outside the quantifier. Other spellings are respellings of the recorded document (seven families), not documents "
             "generated from the format grammar. Whether a second encoding repeats the bytes is recorded, not judged (the "
             "statement does not ask for it).",
        technique="TLA+ reader of the JSON policy format and AST comparison form as the judge; TLC-enumerated ASTs encoded and decoded by "
                  "the Go code; TLC trace validation of every recorded round trip (document read by the specification) and of random policies"),
    "C13": dict(
        category="model_checking",
        text="spec/ValueJson.tla reads the JSON form of values, entities, entity maps and requests itself (documents reach TLC in a "
             "tagged form: strings as code points, integers as limb numbers, object members in document order): booleans, 64-bit "
             "integers, strings, arrays = sets, objects = records, the escapes __entity and __extn (argument read by the literal "
             "syntaxes of TextForms), entity references in either spelling where the format allows both. Trace_ValueJson validates "
             "recorded round trips of values nested to depth 3 (64-bit boundaries, every extension type at its boundaries, strings / "
             "keys / ids over the Unicode classes and JSON's escaped characters, records that look like implicit forms or carry the "
             "escape words), entities with 0-3 parents / attributes / tags, entity maps of 0-5 entities and requests: the "
             "specification's reading of the RECORDED encoding is the datum, the real decoder returns the datum, the decoder's "
             "re-encoding repeats the bytes, and every alternative spelling (entity references flipped explicit <-> implicit; bare "
             "string, {fn,arg} and __extn for typed extension decoders; both EntityUID spellings) is the same datum for the "
             "specification and for the real decoder. Every document and respelling is also decoded from its byte-level "
             "respelling (all strings and keys \\u-escaped, white space between tokens): same answer as for the plain bytes.",
        design_ref="DESIGN.md 4 C13",
        note=TRUSTED + "Inputs are seeded random and boundary data, not an exhaustive universe. The decoder's fallback for malformed "
             "escape payloads is followed by the specification (named deviation). Also covered: schema-guided coercion "
             "(Trace_ValueSchema: explicit, implicit and mixed spellings inside one set, coercion specified from the resolved "
             "schema), records whose keys differ from the escape words only in letter case, and decision / diagnostic JSON "
             "(read by ValueJson!DecisionDiagFromDoc).",
        technique="TLA+ reader of the value / entity JSON format as the judge; TLC trace validation of recorded encode / decode / "
                  "re-encode round trips and alternative spellings"),
    "C10": dict(
        category="exploration",
        text="spec/Totality.tla states the property (every stage of every run ends in a value or an error) and defines the families of "
             "inputs. MC_Totality reads seed documents recorded from the real encoders (policy, policy-set, value, entity, entity-map, "
             "schema JSON) and TLC emits EVERY single-position mutation of each -- subtree replaced by null / {} / [] / \"\" / 0 / true, "
             "every array element and object member deleted, every member duplicated or renamed under an operator name or escape "
             "word (27k documents quick); the harness feeds each to every decoder of its kind and every accepted value on to "
             "MarshalCedar / MarshalJSON / Encoder and cedar.Authorize, each stage under recover() and a deadline. The token-mutation "
             "universe of C07 (TLC-generated) goes through Policy / PolicyList / PolicySet-from-bytes / Decoder the same way; nesting "
             "families (parentheses, !, -, if, sets, records, attribute chains, && chains, JSON arrays / records / Set / ! nodes, "
             "schema Set<> and record types, JSON expression objects that mix a known and an unknown key) run at depths 10^3, 10^4 "
             "(thorough 10^5, and 10^6 as a recorded known finding) in child processes (a Go stack overflow is "
             "fatal); every truncation and random byte edits of valid documents of every kind (incl. entity-UID text, schema text, "
             "request JSON) are recorded and validated by TLC (Trace_Total).",
        design_ref="DESIGN.md 4 C10",
        note=TRUSTED + "This is where the technique is weakest: arbitrary byte strings cannot be enumerated; the specification contributes "
             "the structured families and the statement. 'Bounded time' is a deadline (10 s per stage, 600 s per nesting case). "
             "Accept / reject agreement with the specification is judged under C07 / C09 / C13, not here.",
        technique="TLA+-defined mutation families (every single-position mutation of recorded JSON documents, token mutations) "
                  "enumerated by TLC and executed against all decoders / encoders / the authorizer; TLC trace validation of recorded "
                  "truncation and byte-edit runs against the totality predicate"),
    "C16": dict(
        category="exploration",
        text="spec/SchemaModel.tla defines resolution as a total function (M1: MC_SchemaGen, invariant Total: Resolve returns a resolved "
             "schema or failure on the whole universe, fails on exactly the cyclic common-type and action graphs and on no entity-parent "
             "graph). TLC enumerates the schemas: EVERY directed graph on three nodes (self-loops, 2- and 3-cycles, diamonds) as "
             "entity-parent relation, as common-type reference relation and as action `in` relation, in the empty namespace and in a "
             "namespace with qualified / unqualified references (3072 schemas), the names family (shadowing, undefined and dangling "
             "references, built-in names) and feature schemas. Each runs in an isolated worker process: the real Resolve, both codecs "
             "and -- where resolution succeeds -- Validator.Policy in both modes over policies derived from the resolved schema "
             "(every entity type in every scope form and as in / is operand, every attribute, every action, literals of every kind "
             "incl. set / record / extension VALUE nodes, and the same policies as the JSON decoder builds them), Validator.Entity / "
             "Entities / Request over data derived from the declared shapes. Trace_Schema (Focus total): every run returned; a "
             "worker death (fatal stack overflow), a panic or the deadline is a violation. The graph families are also generated "
             "inside a namespace of two segments; a 24-level ladder of diamonds in the action hierarchy must validate within the deadline. "
             "Graphs too large to enumerate (five and six nodes) are drawn by a seeded hash inside the specification (family big: DAGs, "
             "loop-free and arbitrary graphs at four densities; 150 graphs quick, 4000 thorough), ten schemas each, M1 checked on them.",
        design_ref="DESIGN.md 4 C16",
        note=TRUSTED + "Termination is a 120 s deadline; crashes are observed over the enumerated families, not proved absent. Policies / "
             "entities / requests are derived from each resolved schema by the harness.",
        technique="TLA+ model of schema resolution checked total by TLC; TLC-enumerated schema graph families executed by the Go resolver, "
                  "codecs and validator in isolated processes; TLC trace validation of the recorded runs against the totality predicate"),
    "C17": dict(
        category="model_checking",
        text="spec/SchemaModel.tla is the resolution oracle: qualification, RFC 70 shadowing, common-type inlining with cycle rejection, "
             "the disambiguation order of type references (common type, entity type, empty namespace, built-in, __cedar::), action "
             "parents and hierarchy cycles, record contexts; M1 (MC_SchemaGen) checks it total and cycle-exact on the universe. TLC "
             "enumerates schema ASTs: every directed graph on three nodes for the three reference relations (3072), the names family "
             "(X as entity / common type / undeclared in the empty namespace and in N x 11 reference forms x built-in shadowing), "
             "feature schemas (annotations with / without values and odd characters, optional and nested attributes, sets, extension "
             "types, enumerated entities with odd values, action and attribute names that need quoting, every appliesTo shape, tags, "
             "qualified and unqualified action parents). The harness resolves each AST with the real resolver, renders it as Cedar "
             "schema text and as JSON, parses each back, resolves, renders again, and converts text -> JSON and JSON -> text. "
             "Trace_Schema (Focus codec): real resolution = Resolve(schema) (same resolved schema or failure); for every schema "
             "that resolves, each round trip parses, resolves to the same resolved schema and repeats its bytes, and both conversions "
             "commute with resolution. Five- and six-node graphs are drawn by a seeded hash inside the specification (family big, "
             "150 graphs quick / 4000 thorough, ten schemas each).",
        design_ref="DESIGN.md 4 C17",
        note=TRUSTED + "The two concrete syntaxes are not modelled (the statement is about commuting with resolution). ASTs without a text "
             "form are excluded where named: an EntityTypeRef in a type position shadowed by a common type of the same name; appliesTo "
             "with an empty principal or resource list. The code's lazy resolution of unreferenced common types is followed.",
        technique="TLA+ specification of schema resolution as the oracle (model-checked total); TLC-enumerated schema ASTs resolved, "
                  "rendered and reparsed by the Go code; TLC trace validation of recorded resolutions and round trips against the oracle"),
    "C15": dict(
        category="model_checking",
        text="spec/Typing.tla states what validation promises -- for an accepted policy, under every request and entity store that conform "
             "to the schema, the evaluation (the specification's evaluator of C01, which also supplies the error class) does not fail "
             "with a type, arity or unknown-function error, a missing attribute on a record or present entity, or a missing tag; "
             "overflow, absent entities and extension errors remain allowed -- and defines conformance of values, entities and "
             "requests to a resolved schema (over SchemaModel!Resolve). MC_Typing supplies the universe: a schema with required / "
             "optional attributes of every type, nested records, sets, the four extension types, tags, an optional entity-typed "
             "attribute, an action group and two actions with different contexts; 40 environments (optional members present / absent, "
             "entities present in / absent from the store, both actions) that TLC checks to conform (and that the real "
             "Validator.Request / Entities must accept, otherwise exit 2); and the policies: every binary operator over every ordered "
             "pair of 39 typed leaves, every unary operator and 15 extension functions over the leaves, 50 guard forms (has / hasTag "
             "before access in && / || / ! / then / else positions, is-guards, optional access inside sets / records / if), under "
             "three action scopes (26k policies; every 4th quick). The real validator judges each policy in strict and permissive mode; "
             "Trace_Typing evaluates every ACCEPTED policy under all environments and demands soundness. Further families: capability "
             "identity (places spelled alike), `in` with every shape of right-hand side, is / like / entity references / action "
             "comparisons, 5040 scope-clause combinations, two principal types under one action, tests the validator may wrongly "
             "type as False (a second namespace with an action group of another action type, hasTag on unions, has on dropped "
             "least-upper-bound attributes), unknown functions.",
        design_ref="DESIGN.md 4 C15",
        note=TRUSTED + "The typing rules themselves are not modelled (the statement is about what the real validator accepts); one schema "
             "and a bounded universe of conforming data: unsoundness that needs other shapes is missed. Error classes come from the "
             "TLA+ evaluator.",
        technique="TLA+ soundness predicate and conformance definition evaluated by TLC (with the TLA+ evaluator) on the verdicts of the "
                  "real validator over a TLC-enumerated policy universe and TLC-checked conforming environments"),
}

HOOK_COMMITS = ["82e75f7fe48a39cfaaa51c07619f57b1dcd3cfd5"]   # /repo: x/exp/verifhook/verifhook.go (//go:build verif), re-exports the policy tokenizer (C18)

PENDING = "no check is registered for this property yet"


def main():
    checks = []
    for pid in ALL:
        if pid not in CLAIMED:
            continue
        c = CLAIMED[pid]
        checks.append(dict(
            property_id=pid,
            quick_cmd="./check %s --tier quick" % pid,
            thorough_cmd="./check %s --tier thorough" % pid,
            evidence_file="/verif/evidence/%s.json" % pid,
            replay_cmd_template="./check %s --replay {path}" % pid,
            engine="tla-conformance",
            level_claimed=dict(category=c["category"], text=c["text"], design_ref=c["design_ref"]),
            level_note=c["note"],
            technique=c["technique"]))
    m = dict(
        version=1,
        setup_cmd="cd /verif && python3 tools/setup.py",
        hooks=dict(guard="verif", enable="go build -tags verif (the harness module replaces github.com/cedar-policy/cedar-go with /repo)",
                   baseline_off_cmd="cd /repo && go test -vet=off -count=1 -timeout 25m ./...",
                   source_commits=HOOK_COMMITS, add_only=True),
        engines=[dict(name="tla-conformance", path="/verif/tools/check.py", serves_properties=sorted(CLAIMED),
                      kind_free_text="explicit TLA+ specification (spec/*.tla) checked with TLC; bound to the Go code by replaying "
                                     "TLC-generated cases/behaviours into the real code (harness `replay`) and by validating traces "
                                     "recorded from the real code with TLC (spec/trace/Trace_*.tla)")],
        checks=checks,
        notes="Known findings and fixed defects: /verif/known_findings.json. Design: /verif/DESIGN.md.",
        not_applicable=[dict(property_id=p, reason=PENDING) for p in ALL if p not in CLAIMED])
    with open(os.path.join(VERIF, "MANIFEST.json"), "w") as f:
        json.dump(m, f, indent=1)
        f.write("\n")


if __name__ == "__main__":
    main()
