#!/usr/bin/env python3
"""Writes /verif/MANIFEST.json from the per-property table below (one source of truth for
commands, levels and notes).  Properties without an entry in CLAIMED are listed under
not_applicable with the reason given in PENDING."""
import json, os

VERIF = os.path.dirname(os.path.dirname(os.path.abspath(__file__)))
ALL = ["C%02d" % i for i in range(1, 21)]

TRUSTED = ("Trusted base: TLC 1.8.0 + CommunityModules (Json, IOUtils), the wire codec harness/cwf (round-trip self-tested "
           "by setup_cmd), the Go toolchain. ")

CLAIMED = {
    "C01": dict(
        category="model_checking",
        text="The meaning of every Cedar operator is an explicit TLA+ definition (spec/CedarEval.tla over CedarExt, Num64: exact "
             "64-bit arithmetic, text forms of decimal/ip/datetime/duration, hierarchy reachability). TLC enumerates the "
             "operator x boundary-operand tables exhaustively (all pairs of 31 boundary longs for + - * and the orderings, "
             "datetime/duration/decimal boundaries, a 21x21 mixed-kind grid for every binary operator and extension function, "
             "hash-colliding values, entity operators on two stores, every single-character edit of representative extension "
             "literals, every arity) and emits each row with the specified result; the harness executes every expression with "
             "x/exp/eval.Eval and through cedar.Authorize. Deeper trees are sampled: seeded random trees are evaluated by the "
             "real code and every recorded event is validated by TLC against the same specification. Differences are "
             "re-executed in a fresh process, localised to the minimal failing sub-expression and re-evaluated by TLC before "
             "they are reported.",
        design_ref="DESIGN.md 4 C01",
        note=TRUSTED + "The evaluator in TLA+ is a transcription of the Cedar language documents; only value-vs-failure and the "
             "value are compared, not error classes or messages. Exhaustive inside the tables, sampled beyond depth 2.",
        technique="TLA+ specification of the evaluator; TLC-generated operator tables replayed into the Go evaluator; TLC trace "
                  "validation of recorded random evaluations"),
}

PENDING = "check under construction in this session (the specification modules it needs are being written; see DESIGN.md 10)"


def main():
    checks = []
    for pid in ALL:
        if pid not in CLAIMED:
            continue
        c = CLAIMED[pid]
        checks.append(dict(
            property_id=pid,
            quick_cmd="./check %s --tier quick" % pid,
            thorough_cmd="./check %s --tier thorough" % pid,
            evidence_file="/verif/evidence/%s.json" % pid,
            replay_cmd_template="./check %s --replay {path}" % pid,
            engine="tla-conformance",
            level_claimed=dict(category=c["category"], text=c["text"], design_ref=c["design_ref"]),
            level_note=c["note"],
            technique=c["technique"]))
    m = dict(
        version=1,
        setup_cmd="cd /verif && python3 tools/setup.py",
        hooks=dict(guard="verif", enable="go build -tags verif (the harness module replaces github.com/cedar-policy/cedar-go with /repo)",
                   baseline_off_cmd="cd /repo && go test -vet=off -count=1 -timeout 25m ./...",
                   source_commits=[], add_only=True),
        engines=[dict(name="tla-conformance", path="/verif/tools/check.py", serves_properties=sorted(CLAIMED),
                      kind_free_text="explicit TLA+ specification (spec/*.tla) checked with TLC; bound to the Go code by replaying "
                                     "TLC-generated cases/behaviours into the real code (harness `replay`) and by validating traces "
                                     "recorded from the real code with TLC (spec/trace/Trace_*.tla)")],
        checks=checks,
        notes="Known findings and fixed defects: /verif/known_findings.json. Design: /verif/DESIGN.md.",
        not_applicable=[dict(property_id=p, reason=PENDING) for p in ALL if p not in CLAIMED])
    with open(os.path.join(VERIF, "MANIFEST.json"), "w") as f:
        json.dump(m, f, indent=1)
        f.write("\n")


if __name__ == "__main__":
    main()
