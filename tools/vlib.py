"""Orchestration library for the cedar-go model-based checks.

One check = a list of stages:
  M1  tlc_check     exhaustive model checking of a specification module
  M2  tlc_generate  TLC emits behaviours / cases (ndjson) -> harness `replay` against the real code
  M3  drive         harness records events from the real code -> tlc_validate (Trace_*.tla)
Verdict rules (DESIGN.md 2.4): only a difference that is reproduced in a fresh
process AND re-evaluated by TLC is a violation; anything else that goes wrong
(TLC error, timeout, empty output, harness error) is exit 2, never exit 1.
"""
import hashlib, json, os, re, shutil, subprocess, sys, time, glob

VERIF = os.path.dirname(os.path.dirname(os.path.abspath(__file__)))
REPO = os.environ.get("VERIF_REPO", "/repo")
SPEC = os.path.join(VERIF, "spec")
HARNESS = os.path.join(VERIF, "harness")
if REPO != "/repo":
    # experiments against a scratch worktree (seeded changes) get their own copy of the harness module,
    # so that they can run next to checks of /repo
    _h = os.path.join(VERIF, ".work", "harness-" + hashlib.sha1(REPO.encode()).hexdigest()[:8])
    if not os.path.isdir(_h):
        shutil.copytree(HARNESS, _h, ignore=shutil.ignore_patterns("bin"))
    else:
        for _root, _dirs, _files in os.walk(HARNESS):
            if "bin" in _dirs:
                _dirs.remove("bin")
            for _f in _files:
                _dst = os.path.join(_h, os.path.relpath(os.path.join(_root, _f), HARNESS))
                os.makedirs(os.path.dirname(_dst), exist_ok=True)
                shutil.copy2(os.path.join(_root, _f), _dst)
    HARNESS = _h
BIN = os.path.join(HARNESS, "bin", "cedarconf")
# evidence and replay files of experiments against a scratch worktree never touch the committed ones
OUTDIR = VERIF if REPO == "/repo" else os.path.join(os.path.dirname(HARNESS), "out-" + os.path.basename(HARNESS))
if os.environ.get("VERIF_EVID_SCRATCH"):        # seed sweeps on the unchanged tree: do not touch the committed evidence
    OUTDIR = os.path.join(VERIF, ".work", "out-sweep")
GOENV = dict(os.environ, GOFLAGS="-mod=mod", GOPROXY="off", GOSUMDB="off", GOTOOLCHAIN="local", CGO_ENABLED="0")
TLA_CP = "/opt/veriftools/tla/tla2tools.jar:/opt/veriftools/tla/CommunityModules-deps.jar"
NCPU = os.cpu_count() or 4
LIGHT_JVM = True      # set False by thorough tiers whose single-worker runs are long
# parallel TLC validators: the sandbox's 16 vCPUs were measured to deliver ~2.5 cores of
# throughput, and every JVM start costs ~1.5 s CPU, so few, longer shards are better
MAX_SHARDS = int(os.environ.get("VERIF_SHARDS", "6"))


class Broken(Exception):
    """the check itself is broken (exit 2)"""


def log(*a):
    print("[check]", *a, file=sys.stderr, flush=True)


def run(cmd, cwd=None, env=None, timeout=None, check=True, capture=True):
    try:
        p = subprocess.run(cmd, cwd=cwd, env=env, timeout=timeout, stdout=subprocess.PIPE if capture else None,
                           stderr=subprocess.STDOUT if capture else None, text=True)
    except subprocess.TimeoutExpired:
        raise Broken("timeout: %s" % " ".join(cmd[:4]))
    if check and p.returncode != 0:
        raise Broken("command failed (%d): %s\n%s" % (p.returncode, " ".join(cmd[:6]), (p.stdout or "")[-3000:]))
    return p


def build_harness(race=False):
    """rebuild the harness against /repo's current working tree (hooks on); concurrent checks serialise on a lock and
    the binary is replaced atomically"""
    import fcntl
    os.makedirs(os.path.join(HARNESS, "bin"), exist_ok=True)
    with open(os.path.join(HARNESS, "bin", ".build.lock"), "w") as lock:
        fcntl.flock(lock, fcntl.LOCK_EX)
        try:
            shutil.copyfile(os.path.join(REPO, "go.sum"), os.path.join(HARNESS, "go.sum"))
        except OSError:
            pass
        want = ("module verifharness\n\ngo 1.23.0\n\nrequire github.com/cedar-policy/cedar-go v0.0.0\n\n"
                "replace github.com/cedar-policy/cedar-go => %s\n" % REPO)
        gm = os.path.join(HARNESS, "go.mod")
        if not os.path.exists(gm) or open(gm).read() != want:
            with open(gm, "w") as f:
                f.write(want)
        out = BIN + ("-race" if race else "")
        tmp = out + ".tmp%d" % os.getpid()
        cmd = ["go", "build", "-tags", "verif", "-o", tmp]
        env = GOENV
        if race:
            cmd.insert(2, "-race")
            env = dict(GOENV, CGO_ENABLED="1")
        if os.environ.get("VERIF_COVER"):       # tools/coverage.sh: statement coverage of the library under the checks
            cmd[2:2] = ["-cover", "-coverpkg=github.com/cedar-policy/cedar-go/...,verifharness/..."]
        cmd.append("./cmd/cedarconf")
        p = run(cmd, cwd=HARNESS, env=env, timeout=900, check=False)
        if p.returncode != 0:
            raise Broken("harness does not build against %s:\n%s" % (REPO, p.stdout[-4000:]))
        os.replace(tmp, out)
    return out


class Ctx:
    def __init__(self, pid, tier, seed):
        self.pid, self.tier, self.seed = pid, tier, seed
        self.t0 = time.time()
        self.work = os.path.join(VERIF, ".work", "%s.%d" % (pid, os.getpid()))
        shutil.rmtree(self.work, ignore_errors=True)
        os.makedirs(self.work)
        self.cov = dict(states=0, transitions=0, traces_validated_against_impl=0, evaluations=0,
                        distinct_nontrivial=0, samples=[], stages=[])
        self.candidates = []
        self.level = "model_checking"
        self.assumptions = []
        self.rule = ""
        self.extra = {}

    @property
    def quick(self):
        return self.tier == "quick"

    def dir(self, name):
        d = os.path.join(self.work, name)
        shutil.rmtree(d, ignore_errors=True)
        os.makedirs(d)
        return d

    def sample(self, s):
        if len(self.cov["samples"]) < 6:
            txt = json.dumps(s)
            if len(txt) > 1500:
                s = {"truncated": txt[:1500]}
            self.cov["samples"].append(s)

    def cleanup(self):
        shutil.rmtree(self.work, ignore_errors=True)


# ------------------------------------------------------------------ TLC

def spec_files(extra=()):
    fs = glob.glob(os.path.join(SPEC, "*.tla"))
    for e in extra:
        fs.append(os.path.join(SPEC, e))
    return fs


TLC_STATES = re.compile(r"(\d+) states generated, (\d+) distinct states found")


def tlc_start(d, module, cfg, extra_modules=(), workers=1, args=(), inputs=None, timeout=1800):
    """prepare directory d and start TLC on module (returns Popen)"""
    for f in spec_files(extra_modules):
        shutil.copy(f, d)
    for name, src in (inputs or {}).items():
        dst = os.path.join(d, name)
        if os.path.exists(dst):
            os.remove(dst)
        os.symlink(os.path.abspath(src), dst)
    with open(os.path.join(d, module + ".cfg"), "w") as f:
        f.write(cfg)
    # (not the `tlc` wrapper: it sizes the heap at 25% of RAM per process, which does not
    # fit 16 parallel validators; same jar, same main class)
    heap = "3g" if workers == 1 else "24g"
    # short single-worker runs are dominated by JVM warm-up: serial GC and C1 only
    # (measured: 2.0 s CPU instead of 6.5 s for a 3000-expression trace)
    jvm = (["-XX:+UseSerialGC", "-XX:TieredStopAtLevel=1"] if workers == 1 and LIGHT_JVM else
           ["-XX:+UseParallelGC", "-XX:ParallelGCThreads=%d" % (2 if workers == 1 else 8)])
    cmd = ["timeout", str(timeout), "java"] + jvm + [
           "-Xmx" + heap, "-Xss1g", "-cp", TLA_CP, "tlc2.TLC",
           "-workers", str(workers), "-metadir", os.path.join(d, "meta"),
           "-lncheck", "final"] + list(args) + [module + ".tla"]
    env = dict(os.environ)
    env.pop("JAVA_TOOL_OPTIONS", None)
    out = open(os.path.join(d, "tlc.out"), "w")
    return subprocess.Popen(cmd, cwd=d, env=env, stdout=out, stderr=subprocess.STDOUT)


def tlc_finish(p, d, allow_violation=False):
    rc = p.wait()
    txt = open(os.path.join(d, "tlc.out")).read()
    m = TLC_STATES.findall(txt)
    gen, dist = (int(m[-1][0]), int(m[-1][1])) if m else (0, 0)
    if not m:       # simulation mode reports differently
        ms = re.findall(r"The number of states generated: (\d+)", txt)
        if ms:
            gen = dist = int(ms[-1])
    res = dict(rc=rc, generated=gen, distinct=dist, out=txt)
    if rc == 124:
        raise Broken("TLC timed out in %s" % d)
    violated = "is violated" in txt or "Error: Deadlock" in txt
    if rc != 0 and not (violated and allow_violation):
        errs = [l for l in txt.splitlines() if "Error" in l or "error" in l]
        raise Broken("TLC failed in %s (rc %d): %s" % (d, rc, "\n".join(errs[:8]) or txt[-2000:]))
    res["violated"] = violated
    return res


def tlc(ctx, name, module, cfg, extra_modules=(), workers=1, args=(), inputs=None, timeout=1800, allow_violation=False):
    d = ctx.dir(name)
    t = time.time()
    p = tlc_start(d, module, cfg, extra_modules, workers, args, inputs, timeout)
    res = tlc_finish(p, d, allow_violation)
    res["dir"] = d
    ctx.cov["states"] += res["distinct"]
    ctx.cov["transitions"] += res["generated"]
    ctx.cov["stages"].append(dict(stage=name, module=module, states=res["distinct"], transitions=res["generated"],
                                  wall_s=round(time.time() - t, 1)))
    log("%s: TLC %s: %d generated / %d distinct states in %.1fs" % (name, module, res["generated"], res["distinct"], time.time() - t))
    return res


def tlc_check(ctx, name, module, cfg, extra_modules=(), workers=None, args=(), timeout=3600):
    """M1: exhaustive model checking; a violated invariant means the SPECIFICATION is
    wrong (or was edited), which is a broken check, not a verdict about the code"""
    res = tlc(ctx, name, module, cfg, extra_modules, workers or NCPU, args, None, timeout, allow_violation=True)
    if res["violated"]:
        tail = [l for l in res["out"].splitlines() if l.startswith("Error")]
        raise Broken("M1 model check %s/%s: the specification violates its own property: %s" % (name, module, tail[:3]))
    if res["distinct"] == 0:
        raise Broken("M1 %s explored no states" % name)
    return res


# ------------------------------------------------------------------ harness

def harness(args, timeout=3600, binary=None):
    p = run([binary or BIN] + args, timeout=timeout, check=False)
    if p.returncode != 0:
        raise Broken("harness %s failed (%d): %s" % (args[:3], p.returncode, p.stdout[-3000:]))
    return p.stdout


def read_ndjson(path):
    out = []
    with open(path) as f:
        for line in f:
            line = line.strip()
            if line:
                out.append(json.loads(line))
    return out


def write_ndjson(path, items):
    with open(path, "w") as f:
        for it in items:
            f.write(json.dumps(it) + "\n")


def generate_and_replay(ctx, name, module, cfg, extra_modules=(), args=(), timeout=3600, describe=None, min_cases=1,
                        workers=1):
    """M2: TLC emits cases.ndjson (inputs + the result the specification predicts); the
    harness executes every case against the real code; differences become candidates"""
    res = tlc(ctx, name + ".gen", module, cfg, extra_modules, workers, args, None, timeout)
    cases = os.path.join(res["dir"], "cases.ndjson")
    if not os.path.exists(cases) or os.path.getsize(cases) == 0:
        raise Broken("%s: TLC emitted no cases" % name)
    d = res["dir"]
    diffs, stats = os.path.join(d, "diffs.ndjson"), os.path.join(d, "stats.json")
    harness(["replay", "-in", cases, "-out", diffs, "-stats", stats])
    st = json.load(open(stats))
    if st["cases"] < min_cases:
        raise Broken("%s: only %d cases replayed (expected >= %d)" % (name, st["cases"], min_cases))
    ctx.cov["traces_validated_against_impl"] += st["cases"]
    ctx.cov["evaluations"] += st["cases"]
    ctx.cov["distinct_nontrivial"] += st["distinct"]
    for s in st.get("samples", [])[:2]:
        ctx.sample(dict(stage=name, kind="tlc-generated case replayed into the real code", **s))
    ctx.cov["stages"][-1].update(cases=st["cases"], diffs=st["diffs"])
    log("%s: replayed %d cases, %d differ" % (name, st["cases"], st["diffs"]))
    for dd in read_ndjson(diffs):
        ctx.candidates.append(dict(stage=name, kind="m2", case=dd["case"], obs=dd["obs"],
                                   descr=(describe(dd) if describe else json.dumps(dd["case"].get("name")))))
    return st


def drive(ctx, name, area, n, shards=None, params=None, binary=None, extra_args=()):
    d = ctx.dir(name + ".drive")
    shards = shards or min(MAX_SHARDS, NCPU, max(1, n // 2000))
    prefix = os.path.join(d, "trace")
    stats = os.path.join(d, "stats.json")
    args = ["drive", "-area", area, "-seed", str(ctx.seed), "-n", str(n), "-out", prefix, "-shards", str(shards),
            "-stats", stats] + list(extra_args)
    if params:
        args += ["-param", ",".join("%s=%s" % kv for kv in params.items())]
    t = time.time()
    harness(args, binary=binary)
    st = json.load(open(stats))
    if st["cases"] == 0:
        raise Broken("%s: driver produced no events" % name)
    files = ["%s.%d" % (prefix, k) for k in range(shards)]
    ctx.cov["evaluations"] += st["cases"]
    ctx.cov["distinct_nontrivial"] += st["distinct"]
    ctx.cov["stages"].append(dict(stage=name + ".drive", area=area, events=st["cases"], by_op=st.get("by_op"),
                                  extra=st.get("extra"), wall_s=round(time.time() - t, 1)))
    for s in st.get("samples", [])[:1]:
        ctx.sample(dict(stage=name, kind="event recorded from the real code", event=s))
    log("%s: recorded %d events in %d shards (%.1fs)" % (name, st["cases"], shards, time.time() - t))
    return files, st


VALIDATE_CFG = "INIT Init\nNEXT Next\nINVARIANT WriteOut\nCHECK_DEADLOCK FALSE\n"


TRACE_PREP = {}     # trace module -> function(trace file, run dir) -> {file name: path} of generated inputs
TRACE_CFG = {}      # trace module -> extra cfg lines (constants of the specification it extends)


def tlc_validate(ctx, name, module, files, timeout=3600, cfg=None, depth=0, count=True):
    """M3: every shard is validated by its own TLC process against spec/trace/<module>.tla;
    returns the list of (shard file, bad entries)"""
    t = time.time()
    extra = TRACE_CFG.get(module, "")
    cfg = cfg or (extra if extra.startswith("INIT") else VALIDATE_CFG + extra)
    todo = [(k, f) for k, f in enumerate(files) if os.path.getsize(f) > 0]
    if len(todo) > MAX_SHARDS:
        # more shards than TLC processes that fit in memory side by side: validate in waves
        results = []
        for i in range(0, len(todo), MAX_SHARDS):
            results += tlc_validate(ctx, "%s.w%d" % (name, i // MAX_SHARDS), module, [f for _, f in todo[i:i + MAX_SHARDS]],
                                    timeout, cfg, depth, count)
        return results
    procs = []
    for k, f in todo:
        d = ctx.dir("%s.val%d" % (name, k))
        inputs = {"trace.ndjson": f}
        if module in TRACE_PREP:        # modules generated from the trace itself (spelling tables)
            inputs.update(TRACE_PREP[module](f, d))
        procs.append((f, d, tlc_start(d, module, cfg, ["trace/%s.tla" % module], 1, (), inputs, timeout)))
    results, states, gen, events, extras = [], 0, 0, 0, {}
    for f, d, p in procs:
        res = tlc_finish(p, d)
        states += res["distinct"]
        gen += res["generated"]
        outp = os.path.join(d, "out.json")
        if not os.path.exists(outp):
            raise Broken("%s: trace %s was not consumed to the end (no verdict file)" % (name, f))
        out = json.load(open(outp))
        nlines = sum(1 for _ in open(f))
        if out["events"] != nlines:
            raise Broken("%s: TLC saw %d events, trace has %d" % (name, out["events"], nlines))
        events += nlines
        for k2, v2 in out.items():      # counters of the trace module (e.g. respellings_judged)
            if k2 not in ("events", "bad") and isinstance(v2, int):
                extras[k2] = extras.get(k2, 0) + v2
        bad = out["bad"] if isinstance(out["bad"], list) else []
        # the trace specs record details only for the first 100 unexplained events; the others are
        # re-validated on their own (up to 4 more passes) so that every reported event has its details
        bare = [b for b in bad if set(b.keys()) == {"event"}]
        if bare and depth < 4:
            lines = open(f).read().splitlines()
            sub = os.path.join(d, "rest.ndjson")
            with open(sub, "w") as fh:
                for b in bare:
                    fh.write(lines[b["event"] - 1] + "\n")
            more = tlc_validate(ctx, "%s.more%d.%d" % (name, depth, len(results)), module, [sub], timeout, cfg, depth + 1, count=False)
            detailed = {}
            for _, entries in more:
                for e in entries:
                    detailed[bare[e["event"] - 1]["event"]] = dict(e, event=bare[e["event"] - 1]["event"])
            bad = [b for b in bad if set(b.keys()) != {"event"}] + [detailed[b["event"]] for b in bare if b["event"] in detailed]
        results.append((f, bad))
    if not count:
        return results
    ctx.cov["states"] += states
    ctx.cov["transitions"] += gen
    ctx.cov["traces_validated_against_impl"] += events
    ctx.cov["stages"].append(dict(stage=name + ".validate", module=module, states=states, transitions=gen, events=events,
                                  wall_s=round(time.time() - t, 1), **extras))
    log("%s: TLC validated %d events (%d states) in %.1fs" % (name, events, states, time.time() - t))
    return results


# ------------------------------------------------------------------ verdict

def load_known():
    p = os.path.join(VERIF, "known_findings.json")
    if not os.path.exists(p):
        return []
    return json.load(open(p)).get("findings", [])


def match_known(pid, descr, known):
    for k in known:
        if pid not in k.get("properties", []) or k.get("status") != "open":
            continue        # fixed entries suppress nothing
        if re.search(k["match"], descr, re.S):
            return k
    return None


def finish(ctx, confirm=None):
    """confirm candidates, consult known findings, print verdict lines, write evidence"""
    known = load_known()
    violations, knownhits = [], {}
    seen = set()
    confirmed = ctx.candidates
    if confirm is not None and ctx.candidates:
        # re-executes every candidate in a fresh process and re-evaluates it with TLC;
        # returns the confirmed (possibly localised) candidates, raises Broken when
        # a candidate does not reproduce
        confirmed = confirm(ctx, ctx.candidates)
    for cc in confirmed:
        key = cc["descr"]
        if key in seen:
            continue
        seen.add(key)
        k = match_known(ctx.pid, cc["descr"], known)
        if k is not None:
            knownhits.setdefault(k["id"], (k, []))[1].append(cc)
        else:
            violations.append(cc)
    for kid, (k, hits) in sorted(knownhits.items()):
        print("KNOWN-FINDING: property=%s %s [%s; %d matching case(s), e.g. %s]" % (ctx.pid, k["what"], kid, len(hits), hits[0]["descr"][:200]))
    rdir = os.path.join(OUTDIR, "replays", ctx.pid)
    shown = 0
    for v in violations:
        os.makedirs(rdir, exist_ok=True)
        h = hashlib.sha1(v["descr"].encode()).hexdigest()[:12]
        path = os.path.join(rdir, "%s.json" % h)
        with open(path, "w") as f:
            json.dump(dict(property=ctx.pid, descr=v["descr"], kind=v["kind"], stage=v.get("stage"),
                           case=v.get("case"), obs=v.get("obs"), exp=v.get("exp")), f)
        if shown < 20:
            print("VIOLATION property=%s replay=%s" % (ctx.pid, path))
            if shown < 8:
                log("  " + v["descr"][:600])
        shown += 1
    if shown > 20:
        log("... %d violations in total (replay files in %s)" % (shown, rdir))
    write_evidence(ctx, len(violations), sorted(knownhits))
    ctx.cleanup()
    return 1 if violations else 0


def write_evidence(ctx, nviol, known_ids):
    cov = dict(ctx.cov)
    cov["rule"] = ctx.rule
    cov["known_findings_hit"] = known_ids
    cov.update(ctx.extra)
    if not cov["samples"]:
        cov["samples"] = [{"note": "no sample recorded"}]
    ev = dict(property_id=ctx.pid, tier=ctx.tier, seed=ctx.seed, level=ctx.level, coverage=cov,
              assumptions=ctx.assumptions, wall_s=round(time.time() - ctx.t0, 1), violations=nviol)
    os.makedirs(os.path.join(OUTDIR, "evidence"), exist_ok=True)
    with open(os.path.join(OUTDIR, "evidence", ctx.pid + ".json"), "w") as f:
        json.dump(ev, f, indent=1)
