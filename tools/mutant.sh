#!/bin/sh
# usage: mutant.sh <patch.diff> <property id>...   -- applies the patch to /repo, runs the quick
# checks, restores /repo.  Prints one line per check: <id> rc=<exit code> <first verdict line>
P=$1; shift
cd /repo && git apply --check "$P" || { echo "patch does not apply"; exit 2; }
git apply "$P"
for id in "$@"; do
  out=$(cd /verif && ./check $id --tier quick 2>&1); rc=$?
  echo "$id rc=$rc $(echo "$out" | grep -m1 '^VIOLATION\|^BROKEN' )"
  echo "$out" | grep -A1 -m2 '^VIOLATION' | grep '^\[check\]' | cut -c1-400
done
cd /repo && git checkout -- . && git status --short | head -3
