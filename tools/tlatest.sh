#!/bin/sh
# usage: tlatest.sh Module  -- loads spec/Module.tla (evaluates its ASSUMEs) in a scratch dir
M=$1; shift
D=$(mktemp -d /verif/.work/tlatest.XXXXXX)
cp /verif/spec/*.tla $D/ 2>/dev/null
cat > $D/T_$M.tla <<EOT
---- MODULE T_$M ----
EXTENDS $M
VARIABLE t_x
T_Init == t_x = 0
T_Next == UNCHANGED t_x
====
EOT
printf 'INIT T_Init\nNEXT T_Next\nCHECK_DEADLOCK FALSE\n' > $D/T_$M.cfg
cd $D && timeout 600 tlc -workers 4 -metadir $D/meta T_$M.tla "$@" 2>&1 | grep -v '^$' | tail -40
rm -rf $D
