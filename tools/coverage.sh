#!/bin/sh
# usage: coverage.sh <out dir> ids...   -- statement coverage of cedar-go under the quick tiers (not a check: a gauge
# that shows which library code the universes never reach).  Runs against a symlink of /repo so that the harness
# copy, evidence and replays are separate from the registered ones.
OUT=$1; shift
mkdir -p $OUT/data
ln -sfn /repo /tmp/repo-cov
cd /verif
for id in "$@"; do
  VERIF_REPO=/tmp/repo-cov VERIF_COVER=1 GOCOVERDIR=$OUT/data ./check $id --tier quick > $OUT/$id.log 2>&1
  echo "COVER $id rc=$?"
done
cd /repo && GOFLAGS=-mod=mod GOPROXY=off GOSUMDB=off GOTOOLCHAIN=local go tool covdata func -i=$OUT/data > $OUT/func.txt 2>&1
GOFLAGS=-mod=mod GOPROXY=off GOSUMDB=off GOTOOLCHAIN=local go tool covdata textfmt -i=$OUT/data -o $OUT/cover.txt
tail -1 $OUT/func.txt
