#!/bin/sh
# usage: mcrun.sh <dir> <Module> <workers> <cfg text>   -- ad-hoc TLC run in a scratch dir under /verif/.work (experiments)
D=/verif/.work/$1; M=$2; W=$3
rm -rf $D; mkdir -p $D; cp /verif/spec/*.tla /verif/spec/mc/*.tla /verif/spec/trace/*.tla $D/ 2>/dev/null
printf "$4" > $D/$M.cfg
cd $D && timeout ${TMO:-900} java -Xss1g -Xmx${HEAP:-8g} -cp /opt/veriftools/tla/tla2tools.jar:/opt/veriftools/tla/CommunityModules-deps.jar tlc2.TLC -workers $W -metadir $D/meta $M.tla 2>&1 | grep -v "^$" | tail -${TAIL:-15}
